(* Proofs about model/M_ReqCaps.v: loop invariants of the two chunk loops over arbitrary decoder
   interaction trees, exactness on faithful decoders, and the status table of the two middlewares. *)
From Coq Require Import List NArith Bool Lia.
From VGI Require Import M_ReqCaps.
Import ListNotations.
Open Scope N_scope.

Scheme reader_mut := Induction for reader Sort Prop
  with rstep_mut := Induction for rstep Sort Prop.

Lemma reader_ind2 (B : Type) (P : reader B -> Prop) :
  (forall fl fle eof ra rafl raeof f,
      (forall n ch ut r', f n = SChunk ch ut r' -> P r') -> P (Rd fl fle eof ra rafl raeof f)) ->
  forall r, P r.
Proof.
  intros H.
  apply (reader_mut B P (fun s => forall ch ut r', s = SChunk ch ut r' -> P r')).
  - intros fl fle eof ra rafl raeof f IH. apply H. intros n ch ut r' E. exact (IH n ch ut r' E).
  - intros ch ut r' E. discriminate E.
  - intros ch ut next IH ch' ut' r' E. inversion E; subst. exact IH.
Qed.

(* a requested size is never 0 (zlib: max_length = 0 means "unbounded"; zstd: read(0) = b"" ends the loop)
   and never above the chunk constant *)
Definition req_ok (k : cfg) (c : call) : Prop :=
  match c with
  | CRead n | CGz n => 1 <= n <= chunk k
  | _ => True
  end.

Lemma req_size_bounds : forall k c total, 1 <= chunk k -> total <= c ->
  1 <= req_size k c total <= chunk k /\ total + req_size k c total <= c + 1.
Proof. intros k c total Hk Ht. unfold req_size. lia. Qed.

Section Generic.
Variable B : Type.
Variable blen : B -> N.
Variable bapp : B -> B -> B.
Variable bnil : B.
Variable btake : N -> B -> B.
Hypothesis blen_app : forall a b, blen (bapp a b) = blen a + blen b.
Hypothesis blen_nil : blen bnil = 0.
Hypothesis blen_take : forall n b, blen (btake n b) = N.min n (blen b).

Notation zloop := (zloop B blen bapp).
Notation gloop := (gloop B blen bapp).
Notation gfinish := (gfinish B blen bapp).
Notation dec_zstd := (dec_zstd B blen bapp bnil).
Notation dec_gzip := (dec_gzip B blen bapp bnil).
Notation handle := (handle B blen bapp bnil btake).
Notation cap_stage := (cap_stage B blen btake).
Notation bounded_body := (bounded_body B btake).
Notation body_of := (body_of B btake).

(* hypothesis on a decoder library: a bounded read never yields more than asked for, a flush never more than fb *)
Fixpoint rd_ok (fb : N) (r : reader B) : Prop :=
  match r with
  | Rd fl _ _ _ _ _ f =>
      (forall t, fl = Some t -> blen t <= fb) /\
      (forall n, match f n with
                 | SRaise => True
                 | SChunk ch _ r' => blen ch <= n /\ rd_ok fb r'
                 end)
  end.

Lemma rd_ok_fl : forall fb r t, rd_ok fb r -> rd_fl B r = Some t -> blen t <= fb.
Proof. intros fb [fl fle eof ra rafl raeof f] t [H _] E. apply H. exact E. Qed.

Definition dres_inv (c : N) (o : dout B) : Prop :=
  match d_res B o with
  | DOk b => blen b <= c /\ d_mat B o <= c
  | DLimit => True
  | DErr => d_mat B o <= c
  end.

(* ---- zstd streaming loop: invariant for every reader ---- *)
Lemma zloop_inv : forall k c, 1 <= chunk k -> forall r fb, rd_ok fb r ->
  forall total acc log, total <= c -> blen acc = total ->
  let o := zloop k c r total acc log in
  (exists l', d_log B o = log ++ l' /\ Forall (req_ok k) l') /\
  total <= d_mat B o /\ d_mat B o <= c + 1 /\ dres_inv c o.
Proof.
  intros k c Hk r. induction r as [fl fle eof ra rafl raeof f IH] using reader_ind2.
  intros fb [_ Hf] total acc log Ht Hacc.
  cbn [M_ReqCaps.zloop]. destruct (req_size_bounds k c total Hk Ht) as [Hn Hn2].
  set (n := req_size k c total) in *.
  specialize (Hf n). destruct (f n) as [| ch ut r'] eqn:E.
  - cbn. repeat split; try lia. exists [CRead n]. split; [reflexivity |]. constructor; [exact Hn | constructor].
  - destruct Hf as [Hch Hok]. destruct (blen ch =? 0) eqn:E0.
    + cbn. unfold dres_inv. cbn. repeat split; try lia.
      exists [CRead n]. split; [reflexivity |]. constructor; [exact Hn | constructor].
    + apply N.eqb_neq in E0. destruct (c <? total + blen ch) eqn:E1.
      * apply N.ltb_lt in E1. cbn. unfold dres_inv. cbn. repeat split; try lia.
        exists [CRead n]. split; [reflexivity |]. constructor; [exact Hn | constructor].
      * apply N.ltb_ge in E1.
        specialize (IH n ch ut r' E fb Hok (total + blen ch) (bapp acc ch) (log ++ [CRead n]) E1).
        rewrite blen_app, Hacc in IH. specialize (IH eq_refl). cbn zeta in IH.
        destruct IH as [[l' [Hl Hall]] [H1 [H2 H3]]].
        repeat split; try lia; try exact H3.
        exists (CRead n :: l'). split.
        -- rewrite Hl, <- app_assoc. reflexivity.
        -- constructor; [exact Hn | exact Hall].
Qed.

(* ---- gzip: flush + end-of-stream test ---- *)
Lemma gfinish_inv : forall k c r fb total acc log, rd_ok fb r -> total <= c -> blen acc = total ->
  let o := gfinish k c r total acc log in
  (exists l', d_log B o = log ++ l' /\ Forall (req_ok k) l') /\
  total <= d_mat B o /\ d_mat B o <= c + fb /\ dres_inv c o.
Proof.
  intros k c r fb total acc log Hok Ht Hacc. unfold M_ReqCaps.gfinish.
  destruct (rd_fl B r) as [tail |] eqn:Efl.
  - pose proof (rd_ok_fl fb r tail Hok Efl) as Htl.
    destruct (negb (blen tail =? 0) && (c <? total + blen tail)) eqn:E1.
    + apply andb_true_iff in E1 as [_ E1]. apply N.ltb_lt in E1. cbn. unfold dres_inv. cbn.
      repeat split; try lia. exists [CFlush]. split; [reflexivity |]. repeat constructor.
    + assert (Hle : total + blen tail <= c).
      { apply andb_false_iff in E1 as [E1 | E1].
        - apply negb_false_iff, N.eqb_eq in E1. lia.
        - apply N.ltb_ge in E1. exact E1. }
      destruct (gzip_eof_check k); [destruct (rd_fl_eof B r) |]; cbn; unfold dres_inv; cbn;
        rewrite ?blen_app; repeat split; try lia;
        (eexists; split; [reflexivity | repeat constructor]).
  - cbn. unfold dres_inv. cbn. repeat split; try lia. exists [CFlush]. split; [reflexivity |]. repeat constructor.
Qed.

Lemma gloop_inv : forall k c, 1 <= chunk k -> forall r fb, rd_ok fb r ->
  forall total acc log, total <= c -> blen acc = total ->
  let o := gloop k c r total acc log in
  (exists l', d_log B o = log ++ l' /\ Forall (req_ok k) l') /\
  total <= d_mat B o /\ d_mat B o <= c + N.max 1 fb /\ dres_inv c o.
Proof.
  intros k c Hk r. induction r as [fl fle eof ra rafl raeof f IH] using reader_ind2.
  intros fb [_ Hf] total acc log Ht Hacc.
  cbn [M_ReqCaps.gloop]. destruct (req_size_bounds k c total Hk Ht) as [Hn Hn2].
  set (n := req_size k c total) in *.
  specialize (Hf n). destruct (f n) as [| ch ut r'] eqn:E.
  - cbn. unfold dres_inv. cbn. repeat split; try lia. exists [CGz n]. split; [reflexivity |]. constructor; [exact Hn | constructor].
  - destruct Hf as [Hch Hok].
    destruct (negb (blen ch =? 0) && (c <? total + blen ch)) eqn:E1.
    + apply andb_true_iff in E1 as [_ E1]. apply N.ltb_lt in E1. cbn. unfold dres_inv. cbn.
      repeat split; try lia. exists [CGz n]. split; [reflexivity |]. constructor; [exact Hn | constructor].
    + assert (Hle : total + blen ch <= c).
      { apply andb_false_iff in E1 as [E1 | E1].
        - apply negb_false_iff, N.eqb_eq in E1. lia.
        - apply N.ltb_ge in E1. exact E1. }
      assert (Hacc' : blen (bapp acc ch) = total + blen ch) by (rewrite blen_app, Hacc; reflexivity).
      set (log' := log ++ [CGz n] ++ (if gzip_eof_break k then [CEof] else [])).
      assert (Hlog' : exists l0, log' = log ++ l0 /\ Forall (req_ok k) l0).
      { exists ([CGz n] ++ (if gzip_eof_break k then [CEof] else [])). split; [reflexivity |].
        constructor; [exact Hn |]. destruct (gzip_eof_break k); repeat constructor. }
      destruct Hlog' as [l0 [Hl0 Hall0]].
      assert (Hfin : let o := gfinish k c r' (total + blen ch) (bapp acc ch) log' in
                     (exists l', d_log B o = log ++ l' /\ Forall (req_ok k) l') /\
                     total <= d_mat B o /\ d_mat B o <= c + N.max 1 fb /\ dres_inv c o).
      { pose proof (gfinish_inv k c r' fb (total + blen ch) (bapp acc ch) log' Hok Hle Hacc') as G.
        cbn zeta in *. destruct G as [[l' [Hl Hall]] [H1 [H2 H3]]].
        repeat split; try lia; try exact H3.
        exists (l0 ++ l'). split; [rewrite Hl, Hl0, <- app_assoc; reflexivity | apply Forall_app; split; assumption]. }
      assert (Hrec : let o := gloop k c r' (total + blen ch) (bapp acc ch) log' in
                     (exists l', d_log B o = log ++ l' /\ Forall (req_ok k) l') /\
                     total <= d_mat B o /\ d_mat B o <= c + N.max 1 fb /\ dres_inv c o).
      { pose proof (IH n ch ut r' E fb Hok (total + blen ch) (bapp acc ch) log' Hle Hacc') as G.
        cbn zeta in *. destruct G as [[l' [Hl Hall]] [H1 [H2 H3]]].
        repeat split; try lia; try exact H3.
        exists (l0 ++ l'). split; [rewrite Hl, Hl0, <- app_assoc; reflexivity | apply Forall_app; split; assumption]. }
      fold log'.
      destruct (gzip_eof_break k && rd_eof B r'); [exact Hfin |].
      destruct ut; [exact Hrec | exact Hfin].
Qed.

(* ---- the decoders as a whole, under a cap ---- *)
Definition zbeh_ok (fb : N) (z : zbeh B) : Prop :=
  rd_ok fb (z_rd B z) /\
  (forall d out, z_hdr B z = Some (Some d) -> z_one B z = Some out -> blen out = d).

Lemma dec_zstd_inv : forall k c fb z, cap k = Some c -> 1 <= chunk k -> zbeh_ok fb z ->
  let o := dec_zstd k z in
  Forall (req_ok k) (d_log B o) /\ d_mat B o <= c + 1 /\ dres_inv c o.
Proof.
  intros k c fb z Hc Hk [Hrd Hone]. unfold M_ReqCaps.dec_zstd. rewrite Hc.
  destruct (z_hdr B z) as [[d |] |] eqn:Eh.
  - destruct (c <? d) eqn:E1.
    + cbn. unfold dres_inv. cbn. repeat split; try lia. repeat constructor.
    + apply N.ltb_ge in E1. destruct (z_one B z) as [out |] eqn:Eo; cbn; unfold dres_inv; cbn.
      * rewrite (Hone d out eq_refl eq_refl). repeat split; try lia. repeat constructor.
      * repeat split; try lia. repeat constructor.
  - pose proof (zloop_inv k c Hk (z_rd B z) fb Hrd 0 bnil [CHdr] (N.le_0_l c) blen_nil) as G.
    cbn zeta in G. destruct G as [[l' [Hl Hall]] [H1 [H2 H3]]].
    repeat split; try lia; try exact H3. rewrite Hl. constructor; [exact I | exact Hall].
  - cbn. unfold dres_inv. cbn. repeat split; try lia. repeat constructor.
Qed.

Lemma dec_gzip_inv : forall k c fb data g, cap k = Some c -> 1 <= chunk k -> rd_ok fb g ->
  let o := dec_gzip k data g in
  Forall (req_ok k) (d_log B o) /\ d_mat B o <= c + N.max 1 fb /\ dres_inv c o.
Proof.
  intros k c fb data g Hc Hk Hrd. unfold M_ReqCaps.dec_gzip. rewrite Hc.
  destruct (blen data =? 0).
  - pose proof (gfinish_inv k c g fb 0 bnil [] Hrd (N.le_0_l c) blen_nil) as G.
    cbn zeta in G. destruct G as [[l' [Hl Hall]] [H1 [H2 H3]]].
    repeat split; try lia; try exact H3. rewrite Hl. exact Hall.
  - pose proof (gloop_inv k c Hk g fb Hrd 0 bnil [] (N.le_0_l c) blen_nil) as G.
    cbn zeta in G. destruct G as [[l' [Hl Hall]] [H1 [H2 H3]]].
    repeat split; try lia; try exact H3. rewrite Hl. exact Hall.
Qed.

(* without a cap no decoder ever reports the limit *)
Lemma dec_zstd_nocap : forall k z, cap k = None -> d_res B (dec_zstd k z) <> DLimit.
Proof.
  intros k z Hc. unfold M_ReqCaps.dec_zstd. rewrite Hc.
  destruct (z_hdr B z) as [[d |] |]; cbn; try discriminate.
  - destruct (z_one B z); cbn; discriminate.
  - destruct (z_rd B z) as [fl fle eof ra rafl raeof f]. destruct ra; cbn; discriminate.
Qed.
Lemma dec_gzip_nocap : forall k data g, cap k = None -> d_res B (dec_gzip k data g) <> DLimit.
Proof.
  intros k data g Hc. unfold M_ReqCaps.dec_gzip. rewrite Hc.
  destruct g as [fl fle eof ra rafl raeof f]. destruct ra; cbn; try discriminate.
  destruct rafl; cbn; try discriminate.
  destruct (gzip_eof_check k && negb raeof); cbn; discriminate.
Qed.

(* ---- token classification (what process_request does with the header) ---- *)
Inductive tokclass :=
| TNone                 (* no header / empty after strip(): body taken as it is *)
| TUnknown              (* not the wire name of an Encoding member: 415 *)
| TIdentityPass         (* identity, accepted as "no transform" *)
| TDisabled (e : enc)   (* a member that is not in the decode set: 415 *)
| TEnabled (e : enc).   (* decoded *)

Definition classify (k : cfg) (ce : option (list N)) : tokclass :=
  match norm_ce ce with
  | [] => TNone
  | t =>
      match enc_of_token t with
      | None => TUnknown
      | Some e =>
          if identity_pass k && enc_eqb e Identity then TIdentityPass
          else if negb (enc_mem e (decode k)) then TDisabled e
          else TEnabled e
      end
  end.

Definition decode_with (k : cfg) (zdec : B -> zbeh B) (gdec : B -> reader B) (e : enc) (body : B) : dout B :=
  match e with
  | Zstd => dec_zstd k (zdec body)
  | Gzip => dec_gzip k body (gdec body)
  | Identity => {| d_res := DOk body; d_log := []; d_mat := 0 |}
  end.

Definition out_of_dres (d : dres B) : outcome B :=
  match d with DOk b => Deliver b | DLimit => Refuse 413 | DErr => Refuse 400 end.

Lemma handle_unfold : forall k zdec gdec r,
  handle k zdec gdec r =
  match cap_stage k r with
  | inl st => {| o_out := Refuse st; o_log := []; o_mat := 0 |}
  | inr capped =>
      let body := body_of r capped in
      match classify k (r_ce B r) with
      | TNone | TIdentityPass => {| o_out := Deliver body; o_log := []; o_mat := 0 |}
      | TUnknown | TDisabled _ => {| o_out := Refuse 415; o_log := []; o_mat := 0 |}
      | TEnabled e =>
          let d := decode_with k zdec gdec e body in
          {| o_out := out_of_dres (d_res B d); o_log := d_log B d; o_mat := d_mat B d |}
      end
  end.
Proof.
  intros k zdec gdec r. unfold M_ReqCaps.handle, classify.
  destruct (cap_stage k r) as [st | capped]; [reflexivity |].
  cbn zeta. destruct (norm_ce (r_ce B r)) as [| t0 t]; [reflexivity |].
  destruct (enc_of_token (t0 :: t)) as [e |]; [| reflexivity].
  destruct (identity_pass k && enc_eqb e Identity); [reflexivity |].
  destruct (negb (enc_mem e (decode k))); [reflexivity |].
  destruct e; reflexivity.
Qed.

(* the cap middleware refuses exactly a declared length over the cap, and then with 413; the body it passes on
   is the first Content-Length bytes of the input and fits the cap *)
Lemma cap_stage_spec : forall k r,
  match cap_stage k r with
  | inl st => st = 413 /\ exists c n, cap k = Some c /\ r_cl B r = Some n /\ c < n
  | inr capped =>
      (forall c n, cap k = Some c -> r_cl B r = Some n -> n <= c) /\
      (forall c, cap k = Some c -> blen (body_of r capped) <= c) /\
      (forall n, r_cl B r = Some n -> body_of r capped = btake n (r_stream B r))
  end.
Proof.
  intros k r. unfold M_ReqCaps.cap_stage. destruct (cap k) as [c |] eqn:Ec.
  - destruct (r_cl B r) as [n |] eqn:El.
    + destruct (c <? n) eqn:E1.
      * apply N.ltb_lt in E1. split; [reflexivity |]. exists c, n. repeat split; assumption.
      * apply N.ltb_ge in E1. repeat split.
        -- intros c0 n0 H0 H1. inversion H0; inversion H1; subst. exact E1.
        -- intros c0 H0. inversion H0; subst. unfold M_ReqCaps.body_of, M_ReqCaps.bounded_body, bounded_len.
           rewrite El, blen_take. lia.
        -- intros n0 H1. inversion H1; subst. unfold M_ReqCaps.body_of, M_ReqCaps.bounded_body, bounded_len.
           rewrite El. reflexivity.
    + destruct (c <? blen (btake (c + 1) (bounded_body r))) eqn:E1.
      * exfalso. apply N.ltb_lt in E1. unfold M_ReqCaps.bounded_body, bounded_len in E1.
        rewrite El, !blen_take in E1. lia.
      * apply N.ltb_ge in E1. repeat split.
        -- intros c0 n0 _ H1. discriminate H1.
        -- intros c0 H0. inversion H0; subst. cbn. exact E1.
        -- intros n0 H1. discriminate H1.
  - repeat split.
    + intros c n H0. discriminate H0.
    + intros c H0. discriminate H0.
    + intros n H1. unfold M_ReqCaps.body_of, M_ReqCaps.bounded_body, bounded_len. rewrite H1. reflexivity.
Qed.

Definition decoders_ok (fb : N) (zdec : B -> zbeh B) (gdec : B -> reader B) : Prop :=
  forall body, zbeh_ok fb (zdec body) /\ rd_ok fb (gdec body).

Lemma decode_with_inv : forall k c fb zdec gdec e body, cap k = Some c -> 1 <= chunk k -> decoders_ok fb zdec gdec ->
  blen body <= c ->
  let o := decode_with k zdec gdec e body in
  Forall (req_ok k) (d_log B o) /\ d_mat B o <= c + N.max 1 fb /\ dres_inv c o.
Proof.
  intros k c fb zdec gdec e body Hc Hk Hdec Hb. destruct (Hdec body) as [Hz Hg]. destruct e; cbn [decode_with].
  - pose proof (dec_zstd_inv k c fb (zdec body) Hc Hk Hz) as G. cbn zeta in G.
    destruct G as [G1 [G2 G3]]. repeat split; try assumption. lia.
  - exact (dec_gzip_inv k c fb body (gdec body) Hc Hk Hg).
  - unfold dres_inv. cbn. repeat split; try lia. constructor.
Qed.

(* ---- theorems about handle ---- *)

(* status contract: a middleware refusal is one of 413 / 415 / 400 *)
Theorem handle_status_contract : forall k zdec gdec r st,
  o_out B (handle k zdec gdec r) = Refuse st -> st = 413 \/ st = 415 \/ st = 400.
Proof.
  intros k zdec gdec r st. rewrite handle_unfold.
  pose proof (cap_stage_spec k r) as Hs. destruct (cap_stage k r) as [s | capped].
  - cbn. intros H. inversion H; subst. left. exact (proj1 Hs).
  - cbn zeta. destruct (classify k (r_ce B r)); cbn; intros H; try discriminate H; try (inversion H; subst; tauto).
    destruct (d_res B (decode_with k zdec gdec e (body_of r capped))); cbn in H; inversion H; subst; tauto.
Qed.

(* 413: exactly a declared length over the cap, or (the length fitting) an enabled coding whose decoder hits the limit *)
Theorem handle_413_iff : forall k zdec gdec r,
  o_out B (handle k zdec gdec r) = Refuse 413 <->
  (exists c n, cap k = Some c /\ r_cl B r = Some n /\ c < n) \/
  (exists capped e, cap_stage k r = inr capped /\ classify k (r_ce B r) = TEnabled e /\
                    d_res B (decode_with k zdec gdec e (body_of r capped)) = DLimit).
Proof.
  intros k zdec gdec r. rewrite handle_unfold.
  pose proof (cap_stage_spec k r) as Hs. destruct (cap_stage k r) as [s | capped] eqn:Ecs.
  - destruct Hs as [-> Hex]. cbn. split; [intros _; left; exact Hex | reflexivity].
  - destruct Hs as [Hle _]. cbn zeta. split.
    + intros H. right. exists capped.
      destruct (classify k (r_ce B r)) as [| | | e | e]; cbn in H; try discriminate H.
      exists e. split; [reflexivity |]. split; [reflexivity |].
      destruct (d_res B (decode_with k zdec gdec e (body_of r capped))); cbn in H; try discriminate H. reflexivity.
    + intros [(c & n & Hc & Hn & Hlt) | (capped' & e & Hc & He & Hd)].
      * specialize (Hle c n Hc Hn). lia.
      * inversion Hc; subst capped'. rewrite He. cbn. rewrite Hd. reflexivity.
Qed.

Theorem handle_nocap_no_413 : forall k zdec gdec r, cap k = None -> o_out B (handle k zdec gdec r) <> Refuse 413.
Proof.
  intros k zdec gdec r Hc H. apply handle_413_iff in H.
  destruct H as [(c & n & Hc' & _) | (capped & e & _ & _ & Hd)].
  - rewrite Hc in Hc'. discriminate Hc'.
  - destruct e; cbn [decode_with] in Hd.
    + exact (dec_zstd_nocap k _ Hc Hd).
    + exact (dec_gzip_nocap k _ _ Hc Hd).
    + discriminate Hd.
Qed.

(* 415: exactly (the length fitting) a non-empty token that names no Encoding member or a member outside the decode set *)
Theorem handle_415_iff : forall k zdec gdec r,
  o_out B (handle k zdec gdec r) = Refuse 415 <->
  (exists capped, cap_stage k r = inr capped) /\
  (classify k (r_ce B r) = TUnknown \/ exists e, classify k (r_ce B r) = TDisabled e).
Proof.
  intros k zdec gdec r. rewrite handle_unfold.
  pose proof (cap_stage_spec k r) as Hs. destruct (cap_stage k r) as [s | capped] eqn:Ecs.
  - destruct Hs as [-> _]. cbn. split; [intros H; discriminate H | intros [[c H] _]; discriminate H].
  - cbn zeta. split.
    + intros H. split; [exists capped; reflexivity |].
      destruct (classify k (r_ce B r)) as [| | | e | e]; cbn in H; try discriminate H.
      * left; reflexivity.
      * right; exists e; reflexivity.
      * destruct (d_res B (decode_with k zdec gdec e (body_of r capped))); cbn in H; discriminate H.
    + intros [_ [H | [e H]]]; rewrite H; reflexivity.
Qed.

(* 400: exactly (the length fitting) an enabled coding whose decoder raises something other than the limit *)
Theorem handle_400_iff : forall k zdec gdec r,
  o_out B (handle k zdec gdec r) = Refuse 400 <->
  exists capped e, cap_stage k r = inr capped /\ classify k (r_ce B r) = TEnabled e /\
                   d_res B (decode_with k zdec gdec e (body_of r capped)) = DErr.
Proof.
  intros k zdec gdec r. rewrite handle_unfold.
  pose proof (cap_stage_spec k r) as Hs. destruct (cap_stage k r) as [s | capped] eqn:Ecs.
  - destruct Hs as [-> _]. cbn. split; [intros H; discriminate H | intros (c & e & H & _); discriminate H].
  - cbn zeta. split.
    + intros H. exists capped.
      destruct (classify k (r_ce B r)) as [| | | e | e]; cbn in H; try discriminate H.
      exists e. split; [reflexivity |]. split; [reflexivity |].
      destruct (d_res B (decode_with k zdec gdec e (body_of r capped))); cbn in H; try discriminate H. reflexivity.
    + intros (capped' & e & Hc & He & Hd). inversion Hc; subst capped'. rewrite He. cbn. rewrite Hd. reflexivity.
Qed.

(* no coding / identity: the wire body (first Content-Length bytes of the input) reaches the RPC layer unchanged,
   nothing is decoded *)
Theorem handle_identity : forall k zdec gdec r c n,
  cap k = Some c -> r_cl B r = Some n -> n <= c ->
  classify k (r_ce B r) = TNone \/ classify k (r_ce B r) = TIdentityPass ->
  handle k zdec gdec r = {| o_out := Deliver (btake n (r_stream B r)); o_log := []; o_mat := 0 |}.
Proof.
  intros k zdec gdec r c n Hc Hn Hle Hcl. rewrite handle_unfold.
  pose proof (cap_stage_spec k r) as Hs. destruct (cap_stage k r) as [s | capped].
  - destruct Hs as [_ (c' & n' & Hc' & Hn' & Hlt)]. rewrite Hc in Hc'. rewrite Hn in Hn'.
    inversion Hc'; inversion Hn'; subst. lia.
  - destruct Hs as [_ [_ Hbody]]. cbn zeta. rewrite (Hbody n Hn).
    destruct Hcl as [-> | ->]; reflexivity.
Qed.

(* materialisation, requested sizes, size of what is delivered *)
Theorem handle_bounds : forall k zdec gdec r c fb,
  cap k = Some c -> 1 <= chunk k -> decoders_ok fb zdec gdec ->
  let o := handle k zdec gdec r in
  o_mat B o <= c + N.max 1 fb /\
  Forall (req_ok k) (o_log B o) /\
  (forall b, o_out B o = Deliver b -> blen b <= c).
Proof.
  intros k zdec gdec r c fb Hc Hk Hdec. cbn zeta. rewrite handle_unfold.
  pose proof (cap_stage_spec k r) as Hs. destruct (cap_stage k r) as [s | capped].
  - cbn. repeat split; try lia; try constructor. intros b H. discriminate H.
  - destruct Hs as [_ [Hfit _]]. specialize (Hfit c Hc). cbn zeta.
    destruct (classify k (r_ce B r)) as [| | | e | e]; cbn;
      try (repeat split; try lia; try constructor; intros b H; inversion H; subst; exact Hfit);
      try (repeat split; try lia; try constructor; intros b H; discriminate H).
    pose proof (decode_with_inv k c fb zdec gdec e (body_of r capped) Hc Hk Hdec Hfit) as G. cbn zeta in G.
    destruct G as [G1 [G2 G3]]. repeat split; try assumption.
    intros b H. unfold dres_inv in G3.
    destruct (d_res B (decode_with k zdec gdec e (body_of r capped))); cbn in H; inversion H; subst.
    exact (proj1 G3).
Qed.

End Generic.
