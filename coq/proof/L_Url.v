(* C37: lemmas about the string primitives shared by the urllib model and the WHATWG model. *)
From Coq Require Import List NArith Bool Lia ZifyBool.
From VGI Require Import Bytes Layout Utf8 M_Url.
Import ListNotations.
Open Scope N_scope.

Lemma str_eqb_eq : forall x y, str_eqb x y = true <-> x = y.
Proof. exact bytes_eqb_eq. Qed.
Lemma str_eqb_refl : forall x, str_eqb x x = true.
Proof. exact bytes_eqb_refl. Qed.

Lemma has_true : forall c s, has c s = true <-> In c s.
Proof.
  intros c s. unfold has. rewrite existsb_exists. split.
  - intros [x [Hin He]]. apply N.eqb_eq in He. subst. exact Hin.
  - intros H. exists c. split; [exact H | apply N.eqb_refl].
Qed.
Lemma has_false : forall c s, has c s = false <-> ~ In c s.
Proof.
  intros c s. split.
  - intros H Hin. apply has_true in Hin. congruence.
  - intros H. destruct (has c s) eqn:E; [|reflexivity]. apply has_true in E. contradiction.
Qed.
Lemma has_app : forall c a b, has c (a ++ b) = has c a || has c b.
Proof. intros. unfold has. apply existsb_app. Qed.

Lemma mem_str_true : forall x l, mem_str x l = true <-> In x l.
Proof.
  intros x l. unfold mem_str. rewrite existsb_exists. split.
  - intros [y [Hin He]]. apply str_eqb_eq in He. subst. exact Hin.
  - intros H. exists x. split; [exact H | apply str_eqb_refl].
Qed.

(* ---------- span_until ---------- *)
Lemma span_until_spec : forall p s a b, span_until p s = (a, b) ->
  s = a ++ b /\ (forall c, In c a -> p c = false) /\ (b = [] \/ exists c b', b = c :: b' /\ p c = true).
Proof.
  intros p s. induction s as [|c r IH]; intros a b H; cbn [span_until] in H.
  - inversion H; subst. split; [reflexivity|]. split; [intros c []|left; reflexivity].
  - destruct (p c) eqn:Ep.
    + inversion H; subst. split; [reflexivity|]. split; [intros x []|]. right. exists c, r. split; [reflexivity|exact Ep].
    + destruct (span_until p r) as [a0 b0] eqn:Er. inversion H; subst.
      destruct (IH a0 b eq_refl) as [Hs [Ha Hb]]. split; [cbn; f_equal; exact Hs|]. split; [|exact Hb].
      intros x [Hx|Hx]; [subst; exact Ep|apply Ha; exact Hx].
Qed.

Lemma span_until_intro : forall p a b, (forall c, In c a -> p c = false) ->
  (b = [] \/ exists c b', b = c :: b' /\ p c = true) -> span_until p (a ++ b) = (a, b).
Proof.
  intros p a. induction a as [|x a IH]; intros b Ha Hb.
  - cbn [app]. destruct Hb as [Hb|[c [b' [Hb Hp]]]]; subst; cbn [span_until]; [reflexivity|]. rewrite Hp. reflexivity.
  - cbn [app span_until]. rewrite (Ha x (or_introl eq_refl)). rewrite IH; [reflexivity| |exact Hb].
    intros c Hc. apply Ha. right. exact Hc.
Qed.

(* appending after a string in which the separator was found changes nothing before it *)
Lemma span_until_app_hit : forall p s a c b t, span_until p s = (a, c :: b) -> span_until p (s ++ t) = (a, (c :: b) ++ t).
Proof.
  intros p s a c b t H. destruct (span_until_spec _ _ _ _ H) as [Hs [Ha Hb]]. subst s.
  rewrite <- app_assoc. apply span_until_intro; [exact Ha|].
  right. destruct Hb as [Hb|[c' [b' [Hb Hp]]]]; [discriminate|]. inversion Hb; subst. exists c', (b' ++ t). split; [reflexivity|exact Hp].
Qed.
Lemma span_until_app_miss : forall p s a d t, span_until p s = (a, []) -> p d = true -> span_until p (s ++ d :: t) = (a, d :: t).
Proof.
  intros p s a d t H Hd. destruct (span_until_spec _ _ _ _ H) as [Hs [Ha _]]. subst s. rewrite app_nil_r.
  apply span_until_intro; [exact Ha|]. right. exists d, t. split; [reflexivity|exact Hd].
Qed.
Lemma span_until_In_fst : forall p s c, In c (fst (span_until p s)) -> In c s.
Proof.
  intros p s c H. destruct (span_until p s) as [a b] eqn:E. destruct (span_until_spec _ _ _ _ E) as [Hs _].
  subst s. apply in_or_app. left. exact H.
Qed.
Lemma span_until_In_snd : forall p s c, In c (snd (span_until p s)) -> In c s.
Proof.
  intros p s c H. destruct (span_until p s) as [a b] eqn:E. destruct (span_until_spec _ _ _ _ E) as [Hs _].
  subst s. apply in_or_app. right. exact H.
Qed.

(* ---------- partition / after_last ---------- *)
Lemma partition_miss : forall d s, has d s = false -> partition d s = (s, false, []).
Proof.
  intros d s H. unfold partition. destruct (span_until (N.eqb d) s) as [a b] eqn:E.
  destruct (span_until_spec _ _ _ _ E) as [Hs [_ Hb]]. destruct Hb as [Hb|[c [b' [Hb Hp]]]].
  - subst. rewrite app_nil_r. reflexivity.
  - exfalso. apply N.eqb_eq in Hp. subst. apply has_false in H. apply H. apply in_or_app. right. left. reflexivity.
Qed.
Lemma partition_spec : forall d s a f z, partition d s = (a, f, z) ->
  ~ In d a /\ (if f then s = a ++ d :: z else s = a /\ z = []).
Proof.
  intros d s a f z H. unfold partition in H. destruct (span_until (N.eqb d) s) as [a0 b0] eqn:E.
  destruct (span_until_spec _ _ _ _ E) as [Hs [Ha Hb]].
  assert (Hna : ~ In d a0). { intros Hin. apply Ha in Hin. rewrite N.eqb_refl in Hin. discriminate. }
  destruct b0 as [|c b'].
  - inversion H; subst. rewrite app_nil_r. split; [exact Hna|split; reflexivity].
  - inversion H; subst. split; [exact Hna|]. destruct Hb as [Hb|[c' [b'' [Hb Hp]]]]; [discriminate|].
    inversion Hb; subst. apply N.eqb_eq in Hp. subst. reflexivity.
Qed.

Lemma after_last_In : forall d s c, In c (after_last d s) -> In c s.
Proof.
  intros d s c H. unfold after_last in H. apply in_rev in H. apply span_until_In_fst in H. apply in_rev in H. exact H.
Qed.
Lemma after_last_no_sep : forall d s, ~ In d (after_last d s).
Proof.
  intros d s H. unfold after_last in H. apply in_rev in H.
  destruct (span_until (N.eqb d) (rev s)) as [a b] eqn:E. destruct (span_until_spec _ _ _ _ E) as [_ [Ha _]].
  cbn [fst] in H. apply Ha in H. rewrite N.eqb_refl in H. discriminate.
Qed.

(* ---------- lstrip / rstrip / remove_tnl ---------- *)
Lemma lstrip_In : forall s c, In c (lstrip s) -> In c s.
Proof.
  induction s as [|x r IH]; intros c H; cbn [lstrip] in H; [exact H|].
  destruct (is_c0sp x); [right; apply IH; exact H|exact H].
Qed.
Lemma lstrip_app_nonblank : forall p c q, is_c0sp c = false -> lstrip (p ++ c :: q) = lstrip p ++ c :: q.
Proof.
  induction p as [|x p IH]; intros c q Hc; cbn [app lstrip].
  - rewrite Hc. reflexivity.
  - destruct (is_c0sp x); [apply IH; exact Hc|reflexivity].
Qed.
Lemma lstrip_app_nonempty : forall u y, lstrip u <> [] -> lstrip (u ++ y) = lstrip u ++ y.
Proof.
  induction u as [|x u IH]; intros y H; cbn [lstrip] in *; [contradiction|].
  cbn [app lstrip]. destruct (is_c0sp x); [apply IH; exact H|reflexivity].
Qed.
Lemma rstrip_app_nonblank : forall a c x, is_c0sp c = false -> rstrip (a ++ c :: x) = a ++ c :: rstrip x.
Proof.
  intros a c x Hc. unfold rstrip. rewrite rev_app_distr. cbn [rev]. rewrite <- app_assoc. cbn [app].
  rewrite lstrip_app_nonblank by exact Hc. rewrite rev_app_distr. cbn [rev]. rewrite rev_involutive.
  rewrite <- app_assoc. reflexivity.
Qed.
Lemma remove_tnl_app : forall a b, remove_tnl (a ++ b) = remove_tnl a ++ remove_tnl b.
Proof. intros. unfold remove_tnl. apply filter_app. Qed.
Lemma remove_tnl_In : forall s c, In c (remove_tnl s) -> In c s.
Proof. intros s c H. unfold remove_tnl in H. apply filter_In in H. apply H. Qed.

(* the browser's preprocessing of  u ++ c :: x  when c is neither blank nor tab/newline *)
Lemma w_pre_app : forall u c x, lstrip u <> [] -> is_c0sp c = false -> is_tnl c = false ->
  w_pre (u ++ c :: x) = remove_tnl (lstrip u) ++ c :: remove_tnl (rstrip x).
Proof.
  intros u c x Hu Hc Ht. unfold w_pre. rewrite lstrip_app_nonempty by exact Hu.
  rewrite rstrip_app_nonblank by exact Hc. rewrite remove_tnl_app. f_equal.
  unfold remove_tnl at 1. cbn [filter]. rewrite Ht. reflexivity.
Qed.

(* ---------- split_scheme ---------- *)
Lemma split_scheme_some : forall s sc r, split_scheme s = (sc, r) -> sc <> [] ->
  exists pre, s = pre ++ 58 :: r /\ sc = map lower_ascii pre /\ forallb is_scheme_char pre = true.
Proof.
  intros s sc r H Hne. unfold split_scheme in H. destruct (span_until (N.eqb 58) s) as [pre rest] eqn:E.
  destruct (span_until_spec _ _ _ _ E) as [Hs [_ Hb]].
  destruct rest as [|c after]; [inversion H; subst; contradiction|].
  destruct Hb as [Hb|[c' [b' [Hb Hp]]]]; [discriminate|]. inversion Hb; subst c' b'. apply N.eqb_eq in Hp. subst c.
  destruct pre as [|c0 pre']; [inversion H; subst; contradiction|].
  destruct (is_alpha c0 && forallb is_scheme_char (c0 :: pre')) eqn:Eg; [|inversion H; subst; contradiction].
  inversion H; subst. exists (c0 :: pre'). split; [reflexivity|]. split; [reflexivity|].
  apply andb_true_iff in Eg. apply Eg.
Qed.
Lemma split_scheme_app : forall s sc r t, split_scheme s = (sc, r) -> sc <> [] -> split_scheme (s ++ t) = (sc, r ++ t).
Proof.
  intros s sc r t H Hne. unfold split_scheme in *. destruct (span_until (N.eqb 58) s) as [pre rest] eqn:E.
  destruct rest as [|c after]; [inversion H; subst; contradiction|].
  rewrite (span_until_app_hit _ _ _ _ _ t E). cbn [app].
  destruct pre as [|c0 pre']; [inversion H; subst; contradiction|].
  destruct (is_alpha c0 && forallb is_scheme_char (c0 :: pre')); inversion H; subst; [reflexivity|contradiction].
Qed.

(* ---------- the authority segment ---------- *)
Lemma delim_auth_end : forall c, is_delim c = true -> is_auth_end c = true.
Proof. intros c H. unfold is_delim, is_auth_end, is_slashy in *. lia. Qed.
Lemma auth_end_cases : forall c, is_auth_end c = true -> is_delim c = true \/ c = 92.
Proof. intros c H. unfold is_delim, is_auth_end, is_slashy in *. lia. Qed.

(* the browser's authority segment of  r2 ++ t  is urlsplit's netloc of r2 when the netloc has no backslash and
   the segment is closed by r2 itself or by the first character of t *)
Lemma auth_segment : forall r2 netloc r3 t,
  span_until is_delim r2 = (netloc, r3) -> has 92 netloc = false ->
  (r3 <> [] \/ exists d t', t = d :: t' /\ is_delim d = true) ->
  fst (span_until is_auth_end (r2 ++ t)) = netloc.
Proof.
  intros r2 netloc r3 t H Hbs Hclose. destruct (span_until_spec _ _ _ _ H) as [Hs [Ha Hb]]. subst r2.
  assert (Hn : forall c, In c netloc -> is_auth_end c = false).
  { intros c Hc. destruct (is_auth_end c) eqn:E; [|reflexivity]. apply auth_end_cases in E. destruct E as [E|E].
    - rewrite (Ha c Hc) in E. discriminate.
    - subst. apply has_false in Hbs. contradiction. }
  rewrite <- app_assoc. destruct Hb as [Hb|[c [b' [Hb Hp]]]].
  - subst r3. destruct Hclose as [Hc|[d [t' [Ht Hd]]]]; [contradiction|]. subst t. cbn [app].
    rewrite span_until_intro; [reflexivity|exact Hn|]. right. exists d, t'. split; [reflexivity|apply delim_auth_end; exact Hd].
  - subst r3. cbn [app]. rewrite span_until_intro; [reflexivity|exact Hn|]. right. exists c, (b' ++ t).
    split; [reflexivity|apply delim_auth_end; exact Hp].
Qed.

Lemma skip_slashes_nonslash : forall c r, is_slashy c = false -> skip_slashes (c :: r) = c :: r.
Proof. intros c r H. cbn [skip_slashes]. rewrite H. reflexivity. Qed.
