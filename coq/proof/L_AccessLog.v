(* L_AccessLog: proofs about M_AccessLog (emission, formatter, schema validity, stream ids). *)
From Coq Require Import List NArith ZArith Bool Lia String.
From VGI Require Import Corr Regex M_Wire M_AccessLog.
Import ListNotations.
Open Scope N_scope.

(* ------------------------------------------------------------------ strings, records *)
Lemma N_eqb_refl' : forall a, N.eqb a a = true. Proof. intro a; apply N.eqb_refl. Qed.

Lemma str_eqb_eq : forall a b, str_eqb a b = true <-> a = b.
Proof. apply list_eqb_eq. intros x y; apply N.eqb_eq. Qed.
Lemma str_eqb_refl : forall a, str_eqb a a = true.
Proof. intro a; apply str_eqb_eq; reflexivity. Qed.
Lemma str_eqb_neq : forall a b, a <> b -> str_eqb a b = false.
Proof. intros a b H. destruct (str_eqb a b) eqn:E; [apply str_eqb_eq in E; contradiction | reflexivity]. Qed.

Lemma get_app : forall k a b, get k (a ++ b) = match get k a with Some v => Some v | None => get k b end.
Proof.
  intros k a b; induction a as [|[k' v] t IH]; simpl; [reflexivity|].
  destruct (str_eqb k k'); [reflexivity | exact IH].
Qed.
Lemma has_app : forall k a b, has k (a ++ b) = has k a || has k b.
Proof. intros k a b; unfold has; rewrite get_app; destruct (get k a); reflexivity. Qed.

Lemma get_set : forall k k' v r, get k (set k' v r) = if str_eqb k k' then Some v else get k r.
Proof.
  intros k k' v r; induction r as [|[k2 v2] t IH]; simpl.
  - destruct (str_eqb k k'); reflexivity.
  - destruct (str_eqb k' k2) eqn:E2; simpl.
    + apply str_eqb_eq in E2; subst k2. destruct (str_eqb k k'); reflexivity.
    + destruct (str_eqb k k2) eqn:E3.
      * apply str_eqb_eq in E3; subst k2.
        destruct (str_eqb k k') eqn:E4; [|reflexivity].
        apply str_eqb_eq in E4; subst k'. rewrite str_eqb_refl in E2; discriminate.
      * exact IH.
Qed.
Lemma get_del : forall k k' r, get k (del k' r) = if str_eqb k k' then None else get k r.
Proof.
  intros k k' r; induction r as [|[k2 v2] t IH]; simpl.
  - destruct (str_eqb k k'); reflexivity.
  - destruct (str_eqb k' k2) eqn:E2; simpl.
    + apply str_eqb_eq in E2; subst k2. rewrite IH. destruct (str_eqb k k'); reflexivity.
    + destruct (str_eqb k k2) eqn:E3; [|exact IH].
      apply str_eqb_eq in E3; subst k2.
      destruct (str_eqb k k') eqn:E4; [|reflexivity].
      apply str_eqb_eq in E4; subst k'. rewrite str_eqb_refl in E2; discriminate.
Qed.

Lemma forallb_set : forall (P : str * jval -> bool) k v r,
  forallb P r = true -> P (k, v) = true -> forallb P (set k v r) = true.
Proof.
  intros P k v r; induction r as [|[k2 v2] t IH]; simpl; intros Hr Hk.
  - rewrite Hk; reflexivity.
  - apply andb_true_iff in Hr as [H1 H2]. destruct (str_eqb k k2); simpl.
    + rewrite Hk, H2; reflexivity.
    + rewrite H1; simpl. apply IH; assumption.
Qed.
Lemma forallb_del : forall (P : str * jval -> bool) k r, forallb P r = true -> forallb P (del k r) = true.
Proof.
  intros P k r; induction r as [|[k2 v2] t IH]; simpl; intro Hr; [reflexivity|].
  apply andb_true_iff in Hr as [H1 H2]. destruct (str_eqb k k2); simpl; [apply IH; exact H2|].
  rewrite H1; simpl; apply IH; exact H2.
Qed.

(* ------------------------------------------------------------------ fields no rule looks at do not change validity *)
Definition rule_keys (ru : rule) : list str :=
  match ru with
  | RIf c req _ => if_required c ++ map fst (if_const c) ++ if_not_required c ++ req
  | RAllOrNone fs => fs
  end.
Definition sens (S : schema) : list str := flat_map rule_keys (s_rules S).
(* T is inert for S: it holds none of the keys the rules look at, and its fields pass every property list *)
Definition inert (S : schema) (T : record) : Prop :=
  (forall k, In k (sens S) -> get k T = None) /\ forallb (field_ok (s_props S)) T = true /\ (forall c req props, In (RIf c req props) (s_rules S) -> forallb (field_ok props) T = true).

Lemma get_app_none : forall k T L, get k T = None -> get k (T ++ L) = get k L.
Proof. intros k T L H; rewrite get_app, H; reflexivity. Qed.
Lemma has_app_none : forall k T L, get k T = None -> has k (T ++ L) = has k L.
Proof. intros k T L H; unfold has; rewrite get_app_none by exact H; reflexivity. Qed.
Lemma has_mono : forall k T L, has k L = true -> has k (T ++ L) = true.
Proof. intros k T L H; rewrite has_app, H; apply orb_true_r. Qed.

Lemma forallb_ext_in : forall (A : Type) (f g : A -> bool) l, (forall x, In x l -> f x = g x) -> forallb f l = forallb g l.
Proof.
  intros A f g l; induction l as [|x r IH]; intro H; simpl; [reflexivity|].
  rewrite (H x (or_introl eq_refl)), IH; [reflexivity|]. intros y Hy; apply H; right; exact Hy.
Qed.

Lemma validate_inert : forall S T L, inert S T -> validate S L = true -> validate S (T ++ L) = true.
Proof.
  intros S T L (Hk & Hp & Hr) HV. unfold validate in *.
  apply andb_true_iff in HV as [HV H3]. apply andb_true_iff in HV as [H1 H2].
  repeat (apply andb_true_intro; split).
  - apply forallb_forall; intros k Hin. apply has_mono. rewrite forallb_forall in H1; apply H1; exact Hin.
  - rewrite forallb_app, Hp, H2; reflexivity.
  - apply forallb_forall; intros ru Hin. rewrite forallb_forall in H3. specialize (H3 ru Hin).
    assert (Hs : forall k, In k (rule_keys ru) -> get k T = None).
    { intros k Hk'. apply Hk. unfold sens. apply in_flat_map. exists ru; split; assumption. }
    destruct ru as [c req props | fs]; cbn [rule_ok] in *.
    + assert (Hc : cond_holds c (T ++ L) = cond_holds c L).
      { unfold cond_holds. f_equal; [f_equal|].
        - apply forallb_ext_in; intros k Hk'. apply has_app_none, Hs. cbn [rule_keys]. apply in_or_app; left; exact Hk'.
        - apply forallb_ext_in; intros [k l] Hk'. cbn [fst snd]. rewrite get_app_none; [reflexivity|].
          apply Hs. cbn [rule_keys]. apply in_or_app; right; apply in_or_app; left. apply (in_map fst) in Hk'; exact Hk'.
        - destruct (if_not_required c) as [|k0 ks] eqn:En; [reflexivity|]. f_equal.
          apply forallb_ext_in; intros k Hk'. apply has_app_none, Hs. cbn [rule_keys]. rewrite En.
          apply in_or_app; right; apply in_or_app; right; apply in_or_app; left; exact Hk'. }
      rewrite Hc. destruct (cond_holds c L); [|reflexivity].
      apply andb_true_iff in H3 as [Ha Hb]. apply andb_true_intro; split.
      * apply forallb_forall; intros k Hk'. apply has_mono. rewrite forallb_forall in Ha; apply Ha; exact Hk'.
      * rewrite forallb_app, Hb, (Hr c req props Hin); reflexivity.
    + assert (He : forall k, In k fs -> has k (T ++ L) = has k L) by (intros k Hk'; apply has_app_none, Hs; exact Hk').
      rewrite (forallb_ext_in _ (fun k => has k (T ++ L)) (fun k => has k L) fs He).
      replace (existsb (fun k => has k (T ++ L)) fs) with (existsb (fun k => has k L) fs); [exact H3|].
      clear -He. induction fs as [|k r IH]; simpl; [reflexivity|].
      rewrite (He k (or_introl eq_refl)), IH; [reflexivity|]. intros y Hy; apply He; right; exact Hy.
Qed.

(* set / del do not touch a prefix that lacks the key *)
Lemma set_app_none : forall k v T L, get k T = None -> set k v (T ++ L) = T ++ set k v L.
Proof.
  intros k v T L; induction T as [|[k' v'] t IH]; simpl; intro H; [reflexivity|].
  destruct (str_eqb k k'); [discriminate|]. rewrite IH by exact H; reflexivity.
Qed.
Lemma del_app_none : forall k T L, get k T = None -> del k (T ++ L) = T ++ del k L.
Proof.
  intros k T L; induction T as [|[k' v'] t IH]; simpl; intro H; [reflexivity|].
  destruct (str_eqb k k'); [discriminate|]. rewrite IH by exact H; reflexivity.
Qed.

(* ------------------------------------------------------------------ what the environment has to provide *)
Definition P := s_props model_schema.
(* every pass-through value satisfies the schema property of the field it ends up in *)
Definition env_ok (E : env) : bool :=
  field_ok P (s "timestamp", JStr (timestamp E)) && field_ok P (s "server_id", JStr (server_id E))
  && field_ok P (s "protocol", JStr (protocol E)) && field_ok P (s "protocol_hash", JStr (protocol_hash E))
  && field_ok P (s "duration_ms", JNum (duration E)) && field_ok P (s "request_data", JStr (request_b64 E))
  && field_ok P (s "input_batches", JInt (st_ib E)) && field_ok P (s "output_batches", JInt (st_ob E))
  && field_ok P (s "input_rows", JInt (st_ir E)) && field_ok P (s "output_rows", JInt (st_or E))
  && field_ok P (s "input_bytes", JInt (st_iy E)) && field_ok P (s "output_bytes", JInt (st_oy E)).

(* what the emission sites guarantee about an emission *)
Definition em_ok (e : emission) : Prop :=
  e_method e <> [] /\ (e_error e = false -> e_etype e = []) /\ (e_stream e = true -> e_sid e <> []) /\ (e_sid e <> [] -> field_ok P (s "stream_id", JStr (e_sid e)) = true) /\ (e_http e = None \/ e_http e = Some 200%Z \/ e_http e = Some 500%Z) /\ e_captured e = true.

Lemma field_ok_orb : forall n, field_ok P (s "original_request_bytes", JInt (Z.of_nat n)) = true.
Proof.
  intro n.
  assert (L : lookup (s "original_request_bytes") P = Some [CType TInteger; CMin 0]) by (vm_compute; reflexivity).
  unfold field_ok; cbn [fst snd]; rewrite L. cbn [forallb check has_type].
  replace (Z.leb 0 (Z.of_nat n)) with true by (symmetry; apply Z.leb_le; lia). reflexivity.
Qed.

Ltac conj := repeat match goal with |- (_ && _) = true => apply andb_true_intro; split end.

(* ------------------------------------------------------------------ the tail is inert *)
Lemma get_tail_none : forall E e k,
  str_eqb k (s "cancelled") = false -> str_eqb k (s "server_version") = false -> str_eqb k (s "request_id") = false ->
  str_eqb k (s "http_status") = false -> get k (tail_of E e) = None.
Proof.
  intros E e k H1 H2 H3 H4. unfold tail_of, opt_field. repeat rewrite get_app.
  destruct (e_cancelled e); cbn [get]; rewrite ?H1;
    destruct (server_version E); cbn [get]; rewrite ?H2;
    destruct (request_id E); cbn [get]; rewrite ?H3;
    destruct (e_http e); cbn [get]; rewrite ?H4; reflexivity.
Qed.

Lemma tail_fields_ok : forall E e props,
  (e_http e = None \/ e_http e = Some 200%Z \/ e_http e = Some 500%Z) ->
  field_ok props (s "cancelled", JBool true) = true ->
  (forall x m, field_ok props (s "server_version", JStr (x :: m)) = true) ->
  (forall x m, field_ok props (s "request_id", JStr (x :: m)) = true) ->
  field_ok props (s "http_status", JInt 200) = true -> field_ok props (s "http_status", JInt 500) = true ->
  forallb (field_ok props) (tail_of E e) = true.
Proof.
  intros E e props Hh H1 H2 H3 H4 H5. unfold tail_of, opt_field. repeat rewrite forallb_app.
  conj.
  - destruct (e_cancelled e); cbn [forallb]; rewrite ?H1; reflexivity.
  - destruct (server_version E); cbn [forallb]; rewrite ?H2; reflexivity.
  - destruct (request_id E); cbn [forallb]; rewrite ?H3; reflexivity.
  - destruct Hh as [Hh|[Hh|Hh]]; rewrite Hh; cbn [forallb]; rewrite ?H4, ?H5; reflexivity.
Qed.

Lemma minlen1_ok : forall props k x m, lookup k props = Some [CType TString; CMinLen 1] -> field_ok props (k, JStr (x :: m)) = true.
Proof. intros props k x m L. unfold field_ok; cbn [fst snd]; rewrite L. reflexivity. Qed.
Lemma nolookup_ok : forall props kv, lookup (fst kv) props = None -> field_ok props kv = true.
Proof. intros props kv L. unfold field_ok; rewrite L; reflexivity. Qed.

Lemma tail_inert : forall E e, (e_http e = None \/ e_http e = Some 200%Z \/ e_http e = Some 500%Z) -> inert model_schema (tail_of E e).
Proof.
  intros E e Hh. split; [|split].
  - intros k Hin. apply get_tail_none;
      (vm_compute in Hin; repeat (destruct Hin as [Hin|Hin]; [subst k; vm_compute; reflexivity|]); contradiction).
  - apply tail_fields_ok; try exact Hh; try (intros; apply minlen1_ok); vm_compute; reflexivity.
  - intros c req props Hin. vm_compute in Hin.
    repeat (destruct Hin as [Hin|Hin]; [inversion Hin; subst; clear Hin;
      apply tail_fields_ok; try exact Hh; intros; apply nolookup_ok; vm_compute; reflexivity|]).
    contradiction.
Qed.

(* the formatter on tail ++ body *)
Lemma format_tail : forall sh f T L,
  (forall k, In k [s "request_data"; s "original_request_bytes"; s "truncated"; s "timestamp"; s "server_id"; s "protocol";
                   s "protocol_hash"; s "method"; s "method_type"; s "principal"; s "auth_domain"; s "authenticated";
                   s "remote_addr"; s "duration_ms"; s "status"; s "error_type"; s "error_message"; s "stream_id"] -> get k T = None) ->
  format sh f (T ++ L) = match f with ShedSentinel => format sh f L | _ => T ++ format sh f L end.
Proof.
  intros sh f T L H.
  assert (G : forall k, In k [s "request_data"; s "original_request_bytes"; s "truncated"; s "timestamp"; s "server_id"; s "protocol";
                   s "protocol_hash"; s "method"; s "method_type"; s "principal"; s "auth_domain"; s "authenticated";
                   s "remote_addr"; s "duration_ms"; s "status"; s "error_type"; s "error_message"; s "stream_id"] ->
              get k (T ++ L) = get k L) by (intros k Hk; apply get_app_none, H, Hk).
  destruct f; cbn [format].
  - reflexivity.
  - unfold shed_request. rewrite G by (cbn; tauto).
    destruct (get (s "request_data") L) as [[d| | | |]|]; try reflexivity.
    rewrite set_app_none by (apply H; cbn; tauto).
    rewrite del_app_none by (apply H; cbn; tauto).
    rewrite set_app_none by (apply H; cbn; tauto). reflexivity.
  - unfold sentinel, getd. repeat rewrite G by (cbn; tauto). reflexivity.
Qed.

(* ------------------------------------------------------------------ validity of the body, every formatter form *)
Ltac solve_field := first [ (vm_compute; reflexivity) | assumption | apply field_ok_orb ].
Ltac solve_valid :=
  match goal with |- validate ?S ?r = true => let r' := eval vm_compute in r in change (validate S r' = true) end;
  unfold validate; apply andb_true_intro; split; [apply andb_true_intro; split|];
  [ vm_compute; reflexivity
  | cbn [forallb]; conj; solve_field
  | vm_compute; reflexivity ].

Lemma body_valid : forall c E e f,
  shp c = fixed_shape -> env_ok E = true -> em_ok e ->
  validate model_schema (format fixed_shape f (body_of c E e)) = true.
Proof.
  intros [t dbg sh] E [m st er et em h ca cp sid sts] f Hs HE (Hm & Het & Hst & Hsid & _ & Hcp).
  cbn [shp e_method e_error e_etype e_stream e_sid e_captured] in *. subst sh cp.
  unfold env_ok in HE. do 11 (apply andb_true_iff in HE as [HE ?]).
  pose proof (field_ok_orb (List.length (request_b64 E))) as Horb.
  remember (Z.of_nat (List.length (request_b64 E))) as z eqn:Hz. clear Hz.
  destruct m as [|mx mm]; [contradiction|]. clear Hm.
  destruct er; [ destruct em as [|ex em']; [destruct et as [|tx tt]|] | rewrite (Het eq_refl); destruct em as [|ex em'] ]; clear Het.
  all: (destruct sid as [|sx ss]; [destruct st; [exfalso; apply (Hst eq_refl); reflexivity|] | pose proof (Hsid ltac:(discriminate)) as Hsid'; destruct st]); clear Hst Hsid.
  all: destruct dbg; destruct sts; destruct f.
  all: unfold body_of, emit_record; cbn [e_method e_error e_etype e_stream e_sid e_captured e_stats e_emsg e_cancelled e_http shp debug].
  all: solve_valid.
Qed.

(* ------------------------------------------------------------------ from requests to emissions *)
Lemma method_of_nonempty : forall p h, method_of p h <> [].
Proof. intros [|] [|]; vm_compute; discriminate. Qed.

Lemma emissions_ok : forall c q sid e,
  sid <> [] -> field_ok P (s "stream_id", JStr sid) = true -> In e (emissions c q sid) -> em_ok e.
Proof.
  intros [[|] dbg sh] q sid e Hne Hok Hin; destruct q; cbn [emissions tr] in Hin; try contradiction;
    destruct Hin as [<-|[]]; unfold mk, em_ok;
    repeat match goal with
           | |- context [match ?w with WOk => _ | WRaise _ => _ | WEscape _ => _ end] => destruct w eqn:?
           | |- context [if ?b then _ else _] => destruct b eqn:?
           end;
    cbn [e_method e_error e_etype e_stream e_sid e_http e_captured http500 http_inband];
    repeat split; try (intros; first [assumption | discriminate | reflexivity | apply method_of_nonempty | (vm_compute; discriminate)]);
    try (left; reflexivity); try (right; left; reflexivity); try (right; right; reflexivity); try tauto.
Qed.

Lemma one_record : forall c q sid, List.length (emissions c q sid) = if dispatched c q then 1%nat else 0%nat.
Proof. intros [[|] dbg sh] q sid; destruct q; reflexivity. Qed.

(* the recorded outcome is the outcome the client gets (fixed shape) *)
Lemma emissions_outcome : forall c q sid e,
  shp c = fixed_shape -> In e (emissions c q sid) ->
  match outcome c q with
  | None => e_error e = false /\ e_etype e = [] /\ e_emsg e = []
  | Some x => e_error e = true /\ e_etype e = xcls x /\ e_emsg e = xmsg x
  end.
Proof.
  intros [[|] dbg sh] q sid e Hs Hin; cbn [shp] in Hs; subst sh; destruct q; cbn [emissions tr shp] in Hin; try contradiction;
    destruct Hin as [<-|[]]; cbn [outcome tr]; unfold mk, http_shell, http_msg; cbn [fixed_shape escape_marked msg_limit];
    repeat match goal with
           | |- context [match ?w with WOk => _ | WRaise _ => _ | WEscape _ => _ end] => destruct w eqn:?
           end;
    cbn [e_error e_etype e_emsg]; repeat split; reflexivity.
Qed.
