(* Lemmas about the primitives of model/M_Proof.v: the anchored class regexes, split, int(), str.encode(),
   base64 decoding, the canonical string. *)
From Coq Require Import List NArith ZArith Bool Lia Arith Btauto.
From VGI Require Import Regex Bytes Layout M_Proof.
Import ListNotations.
Open Scope N_scope.

(* ------------------------------------------------------------------ *)
(** * generic list / boolean facts                                     *)
(* ------------------------------------------------------------------ *)

Lemma forallb_Forall : forall (f : N -> bool) s, forallb f s = true <-> Forall (fun c => f c = true) s.
Proof. intros f s. rewrite forallb_forall, Forall_forall. reflexivity. Qed.

Lemma forallb_false_ex : forall (f : N -> bool) s, forallb f s = false -> exists c, In c s /\ f c = false.
Proof.
  intros f s. induction s as [| c s IH]; cbn [forallb]; intros H.
  - discriminate H.
  - destruct (f c) eqn:E.
    + cbn [andb] in H. destruct (IH H) as (x & Hin & Hx). exists x. split; [right; exact Hin | exact Hx].
    + exists c. split; [left; reflexivity | exact E].
Qed.

Lemma forallb_In : forall (f : N -> bool) s c, forallb f s = true -> In c s -> f c = true.
Proof. intros f s c H Hin. rewrite forallb_forall in H. apply H. exact Hin. Qed.

Lemma forallb_impl : forall (f g : N -> bool) s,
  (forall c, f c = true -> g c = true) -> forallb f s = true -> forallb g s = true.
Proof.
  intros f g s Hfg H. rewrite forallb_forall in *. intros x Hx. apply Hfg. apply H. exact Hx.
Qed.

Lemma str_eqb_eq : forall a b, str_eqb a b = true <-> a = b.
Proof. intros a b. unfold str_eqb. apply Bytes.bytes_eqb_eq. Qed.

Lemma has_char_true : forall c s, has_char c s = true <-> In c s.
Proof.
  intros c s. unfold has_char. rewrite existsb_exists. split.
  - intros (x & Hin & Hx). apply N.eqb_eq in Hx. subst x. exact Hin.
  - intros Hin. exists c. split; [exact Hin | apply N.eqb_refl].
Qed.

(* ------------------------------------------------------------------ *)
(** * the anchored class regexes  \A[k]{lo,hi}\Z                       *)
(* ------------------------------------------------------------------ *)

Lemma py_match_anchored : forall k lo hi s, (lo <= hi)%nat ->
  (py_match penv0 (anchored k lo hi) s = true <->
   (lo <= length s <= hi)%nat /\ Forall (fun c => cls_mem penv0 k c = true) s).
Proof.
  intros k lo hi s Hle. unfold anchored. rewrite py_match_spec. split.
  - intros (m & post & -> & Hd).
    apply den_cat in Hd. destruct Hd as (s1 & s2 & -> & H1 & H2).
    apply den_bos in H1. destruct H1 as [-> _].
    apply den_cat in H2. destruct H2 as (s3 & s4 & -> & H3 & H4).
    apply den_endz in H4. destruct H4 as [-> ->].
    apply den_rep_cls in H3; [| exact Hle].
    cbn [app]. rewrite !app_nil_r. exact H3.
  - intros H. exists s, []. split; [symmetry; apply app_nil_r |].
    apply den_cat. exists [], s. split; [reflexivity |]. split; [apply den_bos; split; reflexivity |].
    apply den_cat. exists s, []. split; [symmetry; apply app_nil_r |]. split.
    + apply den_rep_cls; [exact Hle | exact H].
    + apply den_endz. split; reflexivity.
Qed.

Lemma len_between_iff : forall lo hi s, len_between lo hi s = true <-> (lo <= length s <= hi)%nat.
Proof.
  intros lo hi s. unfold len_between. rewrite andb_true_iff, !Nat.leb_le. reflexivity.
Qed.

Lemma anchored_bool : forall k lo hi (f : N -> bool) s, (lo <= hi)%nat ->
  (forall c, cls_mem penv0 k c = f c) ->
  py_match penv0 (anchored k lo hi) s = len_between lo hi s && forallb f s.
Proof.
  intros k lo hi f s Hle Hf. apply eq_iff_eq_true.
  rewrite (py_match_anchored k lo hi s Hle), andb_true_iff, len_between_iff, forallb_Forall.
  split; intros [H1 H2]; (split; [exact H1 |]); eapply Forall_impl; try exact H2;
    intros c Hc; cbv beta in *; [rewrite <- Hf | rewrite Hf]; exact Hc.
Qed.

Lemma cls_b64u_mem : forall c, cls_mem penv0 cls_b64u c = in_b64url c.
Proof.
  intros c. unfold cls_b64u, in_b64url, is_upper, is_lower, is_digit. cbn [cls_mem]. btauto.
Qed.

Lemma cls_origin_mem : forall c, cls_mem penv0 cls_origin c = in_origin c.
Proof.
  intros c. unfold cls_origin, in_origin, is_upper, is_lower, is_digit. cbn [cls_mem]. btauto.
Qed.

Lemma cls_digit_mem : forall c, cls_mem penv0 (CRange 48 57) c = is_digit c.
Proof. intros c. reflexivity. Qed.

Lemma kid_re_spec : forall s, py_match penv0 kid_re s = spec_kid_ok s.
Proof. intros s. apply anchored_bool; [lia | apply cls_b64u_mem]. Qed.
Lemma ts_re_spec : forall s, py_match penv0 ts_re s = spec_ts_ok s.
Proof. intros s. apply anchored_bool; [lia | apply cls_digit_mem]. Qed.
Lemma nonce_re_spec : forall s, py_match penv0 nonce_re s = spec_nonce_ok s.
Proof. intros s. apply anchored_bool; [lia | apply cls_b64u_mem]. Qed.
Lemma mac_re_spec : forall s, py_match penv0 mac_re s = spec_mac_ok s.
Proof. intros s. apply anchored_bool; [lia | apply cls_b64u_mem]. Qed.
Lemma origin_re_spec : forall s, py_match penv0 origin_re s = spec_origin_ok s.
Proof. intros s. apply anchored_bool; [lia | apply cls_origin_mem]. Qed.

(* character facts *)
Lemma in_b64url_ascii : forall c, in_b64url c = true -> (c <? 128) = true.
Proof.
  intros c. unfold in_b64url, is_upper, is_lower, is_digit.
  rewrite !orb_true_iff, !andb_true_iff, !N.leb_le, !N.eqb_eq, N.ltb_lt. lia.
Qed.
Lemma in_b64url_pos : forall c, in_b64url c = true -> c <> 0 /\ c <> 61 /\ c <> 46 /\ c <> 44.
Proof.
  intros c. unfold in_b64url, is_upper, is_lower, is_digit.
  rewrite !orb_true_iff, !andb_true_iff, !N.leb_le, !N.eqb_eq. lia.
Qed.
Lemma is_digit_b64url : forall c, is_digit c = true -> in_b64url c = true.
Proof. intros c H. unfold in_b64url. rewrite H. btauto. Qed.
Lemma in_origin_ascii : forall c, in_origin c = true -> (c <? 128) = true.
Proof.
  intros c. unfold in_origin, is_upper, is_lower, is_digit.
  rewrite !orb_true_iff, !andb_true_iff, !N.leb_le, !N.eqb_eq, N.ltb_lt. lia.
Qed.
Lemma non_ascii_not_b64url : forall c, (c <? 128) = false -> in_b64url c = false /\ c <> 46.
Proof.
  intros c H. apply N.ltb_ge in H. split; [| lia].
  destruct (in_b64url c) eqn:E; [| reflexivity]. apply in_b64url_ascii in E. apply N.ltb_lt in E. lia.
Qed.

(* ------------------------------------------------------------------ *)
(** * str.split                                                        *)
(* ------------------------------------------------------------------ *)

Lemma split_aux_In : forall d s cur c, c <> d -> In c (rev cur ++ s) ->
  exists p, In p (split_aux d cur s) /\ In c p.
Proof.
  intros d s. induction s as [| x s IH]; intros cur c Hne Hin; cbn [split_aux].
  - rewrite app_nil_r in Hin. exists (rev cur). split; [left; reflexivity | exact Hin].
  - destruct (x =? d) eqn:E.
    + apply N.eqb_eq in E. subst x. apply in_app_or in Hin. destruct Hin as [Hin | [Hin | Hin]].
      * exists (rev cur). split; [left; reflexivity | exact Hin].
      * congruence.
      * destruct (IH [] c Hne) as (p & Hp & Hc); [cbn [rev app]; exact Hin |].
        exists p. split; [right; exact Hp | exact Hc].
    + apply (IH (x :: cur) c Hne). cbn [rev]. rewrite <- app_assoc. exact Hin.
Qed.

Lemma split_on_In : forall d s c, c <> d -> In c s -> exists p, In p (split_on d s) /\ In c p.
Proof. intros d s c Hne Hin. apply (split_aux_In d s [] c Hne). exact Hin. Qed.

(* characterisation: the fields are separator-free and joining them with the separator gives the string back *)
Lemma split_aux_nonempty : forall d s cur, split_aux d cur s <> [].
Proof.
  intros d s. induction s as [| x s IH]; intros cur; cbn [split_aux].
  - discriminate.
  - destruct (x =? d); [discriminate | apply IH].
Qed.
Lemma split_aux_join : forall d s cur, py_join [d] (split_aux d cur s) = rev cur ++ s.
Proof.
  intros d s. induction s as [| x s IH]; intros cur; cbn [split_aux].
  - cbn [py_join]. symmetry. apply app_nil_r.
  - destruct (x =? d) eqn:E.
    + apply N.eqb_eq in E. subst x. specialize (IH []).
      destruct (split_aux d [] s) as [| p r] eqn:Es.
      * exfalso. exact (split_aux_nonempty d s [] Es).
      * change (py_join [d] (rev cur :: p :: r)) with (rev cur ++ [d] ++ py_join [d] (p :: r)).
        rewrite IH. reflexivity.
    + rewrite IH. cbn [rev]. rewrite <- app_assoc. reflexivity.
Qed.
Lemma split_on_join : forall d s, py_join [d] (split_on d s) = s.
Proof. intros d s. apply (split_aux_join d s []). Qed.

Lemma split_aux_nosep : forall d s cur, ~ In d cur -> forall p, In p (split_aux d cur s) -> ~ In d p.
Proof.
  intros d s. induction s as [| x s IH]; intros cur Hc p Hp; cbn [split_aux] in Hp.
  - destruct Hp as [<- | []]. rewrite <- in_rev. exact Hc.
  - destruct (x =? d) eqn:E.
    + destruct Hp as [<- | Hp]; [rewrite <- in_rev; exact Hc |].
      apply (IH [] (fun H => H) p Hp).
    + apply N.eqb_neq in E. apply (IH (x :: cur)); [| exact Hp].
      intros [H | H]; [congruence | exact (Hc H)].
Qed.
Lemma split_on_nosep : forall d s p, In p (split_on d s) -> ~ In d p.
Proof. intros d s p. apply (split_aux_nosep d s []). intros []. Qed.

(* ------------------------------------------------------------------ *)
(** * int()                                                            *)
(* ------------------------------------------------------------------ *)

Lemma int_acc_digits : forall s acc, forallb is_digit s = true ->
  int_acc acc s = Some (fold_left (fun a c => (10 * a + (Z.of_N c - 48))%Z) s acc).
Proof.
  induction s as [| c s IH]; intros acc H; cbn [int_acc fold_left].
  - reflexivity.
  - cbn [forallb] in H. apply andb_true_iff in H. destruct H as [Hc Hs].
    unfold is_digit in Hc. rewrite Hc. apply IH. exact Hs.
Qed.

Lemma py_int_ts : forall s, spec_ts_ok s = true -> py_int s = Some (spec_ts_value s).
Proof.
  intros s H. unfold spec_ts_ok in H. apply andb_true_iff in H. destruct H as [Hl Hd].
  apply len_between_iff in Hl. unfold py_int, spec_ts_value.
  destruct s as [| c r]; [cbn [length] in Hl; lia |]. apply int_acc_digits. exact Hd.
Qed.

(* ------------------------------------------------------------------ *)
(** * str.encode() on ASCII                                            *)
(* ------------------------------------------------------------------ *)

Lemma str_encode_ascii : forall s, ascii_only s = true -> str_encode s = Some s.
Proof.
  induction s as [| c s IH]; intros H.
  - reflexivity.
  - unfold ascii_only in H. cbn [forallb] in H. apply andb_true_iff in H. destruct H as [Hc Hs].
    cbn [str_encode]. unfold utf8_enc_char. rewrite Hc. rewrite (IH Hs). reflexivity.
Qed.

Lemma b64url_ascii_only : forall s, forallb in_b64url s = true -> ascii_only s = true.
Proof. intros s. apply forallb_impl. exact in_b64url_ascii. Qed.
Lemma digits_ascii_only : forall s, forallb is_digit s = true -> ascii_only s = true.
Proof. intros s. apply forallb_impl. intros c H. apply in_b64url_ascii, is_digit_b64url, H. Qed.
Lemma origin_ascii_only : forall s, spec_origin_ok s = true -> ascii_only s = true.
Proof.
  intros s H. unfold spec_origin_ok in H. apply andb_true_iff in H. destruct H as [_ H].
  revert H. apply forallb_impl. exact in_origin_ascii.
Qed.

(* ------------------------------------------------------------------ *)
(** * base64: the decoder loop on well-formed unpadded input           *)
(* ------------------------------------------------------------------ *)

Lemma b64_val_spec : forall c, in_b64url c = true -> b64_val c = Some (spec_b64_val c) /\ (c =? 61) = false.
Proof.
  intros c H. unfold b64_val, spec_b64_val.
  unfold in_b64url in H.
  destruct (is_upper c) eqn:U.
  - unfold is_upper in U. rewrite U. apply andb_true_iff in U. rewrite !N.leb_le in U.
    split; [reflexivity | apply N.eqb_neq; lia].
  - unfold is_upper in U. rewrite U. destruct (is_lower c) eqn:L.
    + unfold is_lower in L. rewrite L. apply andb_true_iff in L. rewrite !N.leb_le in L.
      split; [f_equal; lia | apply N.eqb_neq; lia].
    + unfold is_lower in L. rewrite L. destruct (is_digit c) eqn:D.
      * unfold is_digit in D. rewrite D. apply andb_true_iff in D. rewrite !N.leb_le in D.
        split; [f_equal; lia | apply N.eqb_neq; lia].
      * unfold is_digit in D. rewrite D. cbn [orb] in H.
        destruct (c =? 45) eqn:E45.
        -- apply N.eqb_eq in E45. subst c. split; reflexivity.
        -- rewrite orb_false_r in H. apply N.eqb_eq in H. subst c. split; reflexivity.
Qed.

(* one full quad from quad position 0 *)
Lemma a2b_quad : forall c1 c2 c3 c4 r l p,
  in_b64url c1 = true -> in_b64url c2 = true -> in_b64url c3 = true -> in_b64url c4 = true ->
  a2b (c1 :: c2 :: c3 :: c4 :: r) 0 l p =
  option_map (fun o => (spec_b64_val c1 * 4 + spec_b64_val c2 / 16)
                       :: ((spec_b64_val c2 mod 16) * 16 + spec_b64_val c3 / 4)
                       :: ((spec_b64_val c3 mod 4) * 64 + spec_b64_val c4) :: o) (a2b r 0 0 0).
Proof.
  intros c1 c2 c3 c4 r l p H1 H2 H3 H4.
  destruct (b64_val_spec c1 H1) as [V1 E1]. destruct (b64_val_spec c2 H2) as [V2 E2].
  destruct (b64_val_spec c3 H3) as [V3 E3]. destruct (b64_val_spec c4 H4) as [V4 E4].
  cbn [a2b]. rewrite E1, V1, E2, V2, E3, V3, E4, V4.
  destruct (a2b r 0 0 0); reflexivity.
Qed.

Lemma a2b_tail3 : forall c1 c2 c3 l p,
  in_b64url c1 = true -> in_b64url c2 = true -> in_b64url c3 = true ->
  a2b [c1; c2; c3; 61] 0 l p =
  Some [spec_b64_val c1 * 4 + spec_b64_val c2 / 16; (spec_b64_val c2 mod 16) * 16 + spec_b64_val c3 / 4].
Proof.
  intros c1 c2 c3 l p H1 H2 H3.
  destruct (b64_val_spec c1 H1) as [V1 E1]. destruct (b64_val_spec c2 H2) as [V2 E2].
  destruct (b64_val_spec c3 H3) as [V3 E3].
  cbn [a2b]. rewrite E1, V1, E2, V2, E3, V3. reflexivity.
Qed.

(* k full quads followed by a group of three and one pad *)
Lemma a2b_unpadded3 : forall k s l p, length s = (4 * k + 3)%nat -> forallb in_b64url s = true ->
  a2b (s ++ [61]) 0 l p = Some (spec_b64url_decode s).
Proof.
  induction k as [| k IH]; intros s l p Hlen Hall.
  - destruct s as [| c1 [| c2 [| c3 [| c4 r]]]]; cbn [length] in Hlen; try lia.
    cbn [forallb] in Hall. rewrite !andb_true_iff in Hall. destruct Hall as (H1 & H2 & H3 & _).
    cbn [app]. rewrite (a2b_tail3 c1 c2 c3 l p H1 H2 H3). reflexivity.
  - destruct s as [| c1 [| c2 [| c3 [| c4 r]]]]; cbn [length] in Hlen; try lia.
    cbn [forallb] in Hall. rewrite !andb_true_iff in Hall. destruct Hall as (H1 & H2 & H3 & H4 & Hr).
    cbn [app]. rewrite (a2b_quad c1 c2 c3 c4 (r ++ [61]) l p H1 H2 H3 H4).
    rewrite (IH r 0 0%nat); [| lia | exact Hr].
    unfold spec_b64url_decode. cbn [map option_map].
    destruct r as [| r1 [| r2 [| r3 r']]]; cbn [length] in Hlen; try lia.
    reflexivity.
Qed.

Lemma unb64_mac : forall s, spec_mac_ok s = true -> unb64 s = Some (spec_b64url_decode s).
Proof.
  intros s H. unfold spec_mac_ok in H. apply andb_true_iff in H. destruct H as [Hl Hall].
  apply len_between_iff in Hl. assert (Hlen : length s = 43%nat) by lia.
  unfold unb64. rewrite Hlen. change (pad_count 43) with 1%nat. cbn [repeat].
  assert (Ha : ascii_only (s ++ [61]) = true).
  { pose proof (b64url_ascii_only s Hall) as Hs. unfold ascii_only in *. rewrite forallb_app, Hs. reflexivity. }
  cbv zeta. rewrite Ha. apply (a2b_unpadded3 10); [exact Hlen | exact Hall].
Qed.

(* ------------------------------------------------------------------ *)
(** * canonical string                                                 *)
(* ------------------------------------------------------------------ *)

Lemma canonical_ascii : forall kid ts nonce origin,
  ascii_only kid = true -> ascii_only ts = true -> ascii_only nonce = true -> ascii_only origin = true ->
  canonical_string kid ts nonce origin = Some (spec_canonical kid ts nonce origin).
Proof.
  intros kid ts nonce origin Hk Ht Hn Ho. unfold canonical_string.
  rewrite (str_encode_ascii _ Hk), (str_encode_ascii _ Ht), (str_encode_ascii _ Hn), (str_encode_ascii _ Ho).
  reflexivity.
Qed.

(* the framing is the Layout.v layout canon_layout *)
Lemma bytes_ok_of : forall (f : N -> bool) s, (forall c, f c = true -> (c <? 128) = true) ->
  forallb f s = true -> bytes_ok s = true.
Proof.
  intros f s Hf H. unfold bytes_ok. revert H. apply forallb_impl.
  intros c Hc. apply Hf in Hc. apply N.ltb_lt in Hc. apply N.ltb_lt. lia.
Qed.
Lemma no_nul_of : forall (f : N -> bool) s, (forall c, f c = true -> c <> 0) ->
  forallb f s = true -> has_nul s = false.
Proof.
  intros f s Hf H. apply has_nul_false. intros Hin. apply (Hf 0); [| reflexivity].
  exact (forallb_In f s 0 H Hin).
Qed.

Lemma enc_canon_layout : forall k t n o,
  bytes_ok k = true -> has_nul k = false -> bytes_ok t = true -> has_nul t = false ->
  bytes_ok n = true -> has_nul n = false -> bytes_ok o = true ->
  enc canon_layout [ABytes k; ABytes t; ABytes n; ABytes o] = Some (spec_canonical k t n o).
Proof.
  intros k t n o Hk Hk0 Ht Ht0 Hn Hn0 Ho.
  unfold canon_layout. cbn [enc enc_field].
  change (bytes_ok domain_prefix) with true. change (bytes_ok [0]) with true.
  cbv iota beta. rewrite Hk, Hk0. cbn [andb negb]. cbv iota beta.
  rewrite Ht, Ht0. cbn [andb negb]. cbv iota beta.
  rewrite Hn, Hn0. cbn [andb negb]. cbv iota beta.
  rewrite Ho. cbv iota beta.
  unfold spec_canonical. f_equal.
  change spec_prefix0 with (domain_prefix ++ [0]).
  rewrite <- !app_assoc. rewrite app_nil_r. reflexivity.
Qed.
