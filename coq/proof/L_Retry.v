(* Proofs about model/M_Retry.v (HTTP retry loop, delays, exchange / cancel). *)
From Coq Require Import List NArith ZArith QArith Bool Lia Lqa.
From VGI Require Import M_Retry.
Import ListNotations.

(* ---- floats -------------------------------------------------------------------------------- *)
Lemma Qleb_t p q : Qle_bool p q = true -> (p <= q)%Q.
Proof. apply Qle_bool_iff. Qed.
Lemma Qleb_f p q : Qle_bool p q = false -> (q < p)%Q.
Proof. intro H. apply Qnot_le_lt. intro H'. apply Qle_bool_iff in H'. congruence. Qed.
Lemma Qleb_intro p q : (p <= q)%Q -> Qle_bool p q = true.
Proof. apply Qle_bool_iff. Qed.

Ltac qb :=
  repeat match goal with
         | H : Qle_bool _ _ = true |- _ => apply Qleb_t in H
         | H : Qle_bool _ _ = false |- _ => apply Qleb_f in H
         end.

(* d is a number (not NaN) with 0 <= d <= backoff_max *)
Definition in_range (c : config) (d : fl) : Prop := fle fzero d = true /\ fle d (bmax c) = true.

(* the configurations the property speaks about: backoff_max is a number >= 0 (+inf allowed) *)
Definition cfg_ok (c : config) : Prop := fle fzero (bmax c) = true.

(* what random.uniform(0, e) guarantees for a number e >= 0: a number in [0, e] *)
Definition jit_ok (c : config) (attempt : nat) (j : fl) : Prop :=
  fle fzero j = true /\ fle j (exp_delay c attempt) = true.

Lemma compute_delay_range : forall c attempt ra j,
  cfg_ok c -> fle fzero j = true -> in_range c (compute_delay c attempt ra j).
Proof.
  intros c attempt ra j Hc Hj. unfold in_range, cfg_ok, compute_delay, pymin, pymax, fzero in *.
  destruct (bmax c) as [| |b|]; simpl in Hc; try discriminate;
    destruct j as [| |jq|]; simpl in Hj; try discriminate;
    destruct (respect_ra c); destruct ra as [[| |r|]|]; simpl;
    repeat match goal with
           | |- context [Qle_bool ?a ?b] => let E := fresh "E" in destruct (Qle_bool a b) eqn:E; simpl
           end;
    qb; split; try reflexivity; try (apply Qleb_intro; lra); try (exfalso; lra).
Qed.

(* the validation of HttpRetryConfig accepts exactly the non-negative numbers and NaN *)
Lemma cfg_valid_not_nan_ok : forall c,
  cfg_valid c = true -> bmax c <> FNaN -> cfg_ok c.
Proof.
  intros c Hv Hn. unfold cfg_valid, cfg_ok, fzero in *. apply andb_true_iff in Hv as [_ Hv].
  destruct (bmax c) as [| |b|]; simpl in *; try congruence; try reflexivity.
  apply negb_true_iff in Hv. apply negb_false_iff in Hv. exact Hv.
Qed.

(* ---- the loop ------------------------------------------------------------------------------ *)
Lemma loop_sends_le : forall fuel c jit a fs last, (sends (loop c jit fuel a fs last) <= fuel)%nat.
Proof.
  induction fuel as [|fuel IH]; intros c jit a fs last; simpl; [lia|]. unfold guard_conn, guard_status.
  destruct (hd dflt_outcome fs) as [| | | | |s h]; simpl;
    repeat match goal with
           | |- context [if ?b then _ else _] => destruct b; simpl
           end;
    try lia;
    match goal with |- (S (sends (loop ?c ?j ?f ?a' ?fs' ?l)) <= _)%nat => specialize (IH c j a' fs' l); lia end.
Qed.

Lemma loop_sends_pos : forall fuel c jit a fs last, (1 <= sends (loop c jit (S fuel) a fs last))%nat.
Proof.
  intros fuel c jit a fs last; simpl. unfold guard_conn, guard_status.
  destruct (hd dflt_outcome fs) as [| | | | |s h]; simpl;
    repeat match goal with
           | |- context [if ?b then _ else _] => destruct b; simpl
           end; lia.
Qed.

(* one sleep and one uniform draw per resend (needs the relation between the range and the guards) *)
Lemma loop_sleeps_len : forall fuel c jit a fs last,
  (a + fuel = max_retries c + 1)%nat -> fuel <> O ->
  sends (loop c jit fuel a fs last) = S (length (sleeps (loop c jit fuel a fs last))) /\
  length (ubounds (loop c jit fuel a fs last)) = length (sleeps (loop c jit fuel a fs last)).
Proof.
  induction fuel as [|fuel IH]; intros c jit a fs last Hf Hn; [congruence|]. simpl. unfold guard_conn, guard_status.
  destruct (hd dflt_outcome fs) as [| | | | |s h]; simpl;
    repeat match goal with
           | |- context [if ?b then _ else _] => let E := fresh "E" in destruct b eqn:E; simpl
           end;
    try (split; reflexivity);
    repeat match goal with
           | E : _ || _ = false |- _ => apply orb_false_iff in E as [? ?]
           | E : (_ <=? _)%nat = false |- _ => apply Nat.leb_gt in E
           end;
    match goal with |- context [loop ?c ?j fuel ?a' ?fs' ?l] =>
      assert (Hfuel : fuel <> O) by lia;
      destruct (IH c j a' fs' l ltac:(lia) Hfuel) as [I1 I2]; split; congruence
    end.
Qed.

(* the outcomes after which the CODE resends: stricter than the statement's notion, the
   connection-class outcomes additionally need retry_on_connection_error *)
Definition resent_outcome (c : config) (o : outcome) : bool :=
  match o with
  | OConnErr | OTimeout | ODisconnect => roce c
  | OResp s _ => status_in s (retryable c)
  | OProtoOther | OOtherErr => false
  end.

Lemma resent_is_retryable : forall c o, resent_outcome c o = true -> retryable_outcome c o = true.
Proof. intros c [| | | | |s h]; simpl; auto. Qed.

Lemma nth_hd {A} (l : list A) d : nth 0 l d = hd d l.
Proof. destruct l; reflexivity. Qed.
Lemma nth_tl {A} (l : list A) d i : nth (S i) l d = nth i (tl l) d.
Proof. destruct l; simpl; [destruct i; reflexivity | reflexivity]. Qed.

Lemma loop_resend : forall fuel c jit a fs last i,
  (S i < sends (loop c jit fuel a fs last))%nat ->
  resent_outcome c (nth i fs dflt_outcome) = true /\ (a + i < max_retries c)%nat.
Proof.
  induction fuel as [|fuel IH]; intros c jit a fs last i H; simpl in H; [lia|]. unfold guard_conn, guard_status in H.
  destruct (hd dflt_outcome fs) as [| | | | |s h] eqn:Eo; simpl in H;
    repeat match type of H with
           | context [if ?b then _ else _] => let E := fresh "E" in destruct b eqn:E; simpl in H
           end;
    try lia;
    (destruct i as [|i];
     [ rewrite nth_hd, Eo; simpl;
       repeat match goal with
              | E : _ || _ = false |- _ => apply orb_false_iff in E as [? ?]
              | E : negb _ = false |- _ => apply negb_false_iff in E
              | E : (_ <=? _)%nat = false |- _ => apply Nat.leb_gt in E
              end; split; [assumption | lia]
     | rewrite nth_tl;
       match type of H with context [loop ?c ?j fuel ?a' ?fs' ?l] =>
         destruct (IH c j a' fs' l i) as [H1 H2]; [simpl in H; lia | split; [exact H1 | lia]] end ]).
Qed.

Lemma loop_sleeps_range : forall fuel c jit a fs last,
  cfg_ok c -> (forall k, fle fzero (jit k) = true) ->
  Forall (in_range c) (sleeps (loop c jit fuel a fs last)).
Proof.
  induction fuel as [|fuel IH]; intros c jit a fs last Hc Hj; simpl; [constructor|]. unfold guard_conn, guard_status.
  destruct (hd dflt_outcome fs) as [| | | | |s h]; simpl;
    repeat match goal with
           | |- context [if ?b then _ else _] => destruct b; simpl
           end;
    try constructor; try (apply compute_delay_range; auto); try (apply IH; auto).
Qed.

(* the uniform bounds are the exponential schedule backoff_base * 2**attempt *)
Lemma loop_ubounds : forall fuel c jit a fs last i,
  (i < length (ubounds (loop c jit fuel a fs last)))%nat ->
  nth i (ubounds (loop c jit fuel a fs last)) FNaN = exp_delay c (a + i).
Proof.
  induction fuel as [|fuel IH]; intros c jit a fs last i H; simpl in *; [lia|]. unfold guard_conn, guard_status in *.
  destruct (hd dflt_outcome fs) as [| | | | |s h]; simpl in *;
    repeat match type of H with
           | context [if ?b then _ else _] => destruct b; simpl in *
           end;
    try lia;
    (destruct i as [|i]; [rewrite Nat.add_0_r; reflexivity |
     rewrite IH by lia; f_equal; lia]).
Qed.

(* the loop gives up with HttpTransientError only when every try was used, and returns a response
   only when its status is not retryable *)
Lemma loop_final : forall fuel c jit a fs last,
  (a + fuel = max_retries c + 1)%nat -> fuel <> O ->
  match fin (loop c jit fuel a fs last) with
  | FReturn s => status_in s (retryable c) = false
  | FTransient s _ => status_in s (retryable c) = true /\
                      (a + sends (loop c jit fuel a fs last) = max_retries c + 1)%nat
  | FRaise o => o <> dflt_outcome /\ forall s h, o <> OResp s h
  end.
Proof.
  induction fuel as [|fuel IH]; intros c jit a fs last Hf Hn; [congruence|]. simpl. unfold guard_conn, guard_status.
  destruct (hd dflt_outcome fs) as [| | | | |s h]; simpl;
    repeat match goal with
           | |- context [if ?b then _ else _] => let E := fresh "E" in destruct b eqn:E; simpl
           end;
    try (split; [discriminate | intros; discriminate]);
    try (apply negb_true_iff in E; exact E);
    try (apply negb_false_iff in E);
    try (apply Nat.leb_le in E0; split; [exact E | lia]);
    repeat match goal with
           | E : _ || _ = false |- _ => apply orb_false_iff in E as [? ?]
           | E : (_ <=? _)%nat = false |- _ => apply Nat.leb_gt in E
           end;
    match goal with |- context [loop ?c ?j fuel ?a' ?fs' ?l] =>
      assert (Hfuel : fuel <> O) by lia;
      specialize (IH c j a' fs' l ltac:(lia) Hfuel);
      destruct (fin (loop c j fuel a' fs' l)); [exact IH | destruct IH as [I1 I2]; split; [exact I1 | lia] | exact IH]
    end.
Qed.

(* ---- statements about request_with_retry ---------------------------------------------------- *)
Lemma sends_le_max_plus_1 : forall c jit fs,
  (1 <= sends (request_with_retry c jit fs) <= max_retries c + 1)%nat.
Proof.
  intros c jit fs. unfold request_with_retry, loop_fuel. split.
  - rewrite Nat.add_1_r. apply loop_sends_pos.
  - apply loop_sends_le.
Qed.

Lemma resend_only_after_retryable : forall c jit fs i,
  (S i < sends (request_with_retry c jit fs))%nat ->
  retryable_outcome c (nth i fs dflt_outcome) = true /\
  resent_outcome c (nth i fs dflt_outcome) = true /\
  (i < max_retries c)%nat.
Proof.
  intros c jit fs i H. unfold request_with_retry, loop_fuel in H.
  destruct (loop_resend _ _ _ _ _ _ _ H) as [H1 H2].
  split; [apply resent_is_retryable; exact H1 | split; [exact H1 | lia]].
Qed.

Lemma one_sleep_per_resend : forall c jit fs,
  S (length (sleeps (request_with_retry c jit fs))) = sends (request_with_retry c jit fs) /\
  length (ubounds (request_with_retry c jit fs)) = length (sleeps (request_with_retry c jit fs)).
Proof.
  intros c jit fs. unfold request_with_retry, loop_fuel.
  destruct (loop_sleeps_len (max_retries c + 1) c jit 0 fs None ltac:(lia) ltac:(lia)) as [H1 H2].
  split; [symmetry; exact H1 | exact H2].
Qed.

Lemma delay_in_0_backoff_max : forall c jit fs,
  cfg_ok c -> (forall k, jit_ok c k (jit k)) ->
  Forall (in_range c) (sleeps (request_with_retry c jit fs)).
Proof.
  intros c jit fs Hc Hj. unfold request_with_retry, loop_fuel. apply loop_sleeps_range; [exact Hc|].
  intro k. destruct (Hj k) as [H _]. exact H.
Qed.

Lemma final_classes : forall c jit fs,
  match fin (request_with_retry c jit fs) with
  | FReturn s => status_in s (retryable c) = false
  | FTransient s _ => status_in s (retryable c) = true /\ sends (request_with_retry c jit fs) = (max_retries c + 1)%nat
  | FRaise o => forall s h, o <> OResp s h
  end.
Proof.
  intros c jit fs. unfold request_with_retry, loop_fuel.
  pose proof (loop_final (max_retries c + 1) c jit 0 fs None ltac:(lia) ltac:(lia)) as H.
  destruct (fin (loop c jit (max_retries c + 1) 0 fs None)); [exact H | | exact (proj2 H)].
  destruct H as [H1 H2]; split; [exact H1 | lia].
Qed.

(* no config: exactly one send *)
Lemma post_without_config_once : forall jit fs, sends (post_with_retry None jit fs) = 1%nat.
Proof. intros jit fs. unfold post_with_retry, single. destruct (hd dflt_outcome fs); reflexivity. Qed.

(* ---- exchange / cancel ----------------------------------------------------------------------- *)
Lemma exchange_once_plus_413 : forall st fs ext_ok,
  (xsends (exchange st fs ext_ok) <= 2)%nat /\
  (xsends (exchange st fs ext_ok) = 2%nat ->
     st = SLive /\ ext_ok = true /\ exists h, nth 0 fs dflt_outcome = OResp 413 h) /\
  (st = SLive -> (1 <= xsends (exchange st fs ext_ok))%nat) /\
  (st <> SLive -> xsends (exchange st fs ext_ok) = 0%nat).
Proof.
  intros st fs ext_ok. unfold exchange. rewrite nth_hd.
  destruct st; simpl; try (repeat split; try lia; try discriminate; congruence).
  destruct (hd dflt_outcome fs) as [| | | | |s h]; simpl;
    try (repeat split; try lia; try discriminate; congruence).
  destruct (N.eqb_spec s 413) as [->|Hs]; simpl; [|repeat split; try lia; try discriminate; congruence].
  destruct ext_ok; simpl; [|repeat split; try lia; try discriminate; congruence].
  destruct (hd dflt_outcome (tl fs)); simpl; repeat split; try lia; try congruence; eauto.
Qed.

(* the resend is the last request whatever it answers (a second 413 included) *)
Lemma exchange_never_thrice : forall st fs ext_ok, (xsends (exchange st fs ext_ok) < 3)%nat.
Proof. intros. pose proof (exchange_once_plus_413 st fs ext_ok) as [H _]. lia. Qed.

Lemma cancel_once : forall st fs,
  (xsends (cancel st fs) <= 1)%nat /\ xsends (cancel (cancel_state_after st) fs) = 0%nat.
Proof. intros st fs. unfold cancel, cancel_state_after. destruct st; simpl; split; lia. Qed.

(* operations routed through the retry loop obey the bound per _post_with_retry invocation *)
Lemma continuation_bound : forall co jit fs,
  (xsends (continuation co jit fs) <= match co with Some c => max_retries c + 1 | None => 1 end)%nat.
Proof.
  intros [c|] jit fs; unfold continuation; simpl.
  - apply sends_le_max_plus_1.
  - unfold single. destruct (hd dflt_outcome fs); simpl; lia.
Qed.

(* ---- histories on one session ----------------------------------------------------------------- *)
Lemma hist_cancelled_silent : forall ops fs ext_ok, total_sends (hist_run SCancelled ops fs ext_ok) = 0%nat.
Proof.
  induction ops as [|o r IH]; intros fs ext_ok; simpl; [reflexivity|].
  destruct o; simpl; rewrite IH; reflexivity.
Qed.

Lemma cancel_le_total : forall l, (cancel_sends l <= total_sends l)%nat.
Proof. induction l as [|[o t] r IH]; simpl; [lia|]. destruct o; lia. Qed.

(* per session at most one cancel request ever leaves the client *)
Lemma hist_cancel_once : forall ops st fs ext_ok, (cancel_sends (hist_run st ops fs ext_ok) <= 1)%nat.
Proof.
  induction ops as [|o r IH]; intros st fs ext_ok; simpl; [lia|].
  destruct o; simpl.
  - apply IH.
  - unfold cancel_state_after.
    pose proof (cancel_le_total (hist_run SCancelled r (skipn (xsends (cancel st fs)) fs) ext_ok)) as H.
    rewrite hist_cancelled_silent in H.
    assert (Hc : (xsends (cancel st fs) <= 1)%nat) by (destruct st; simpl; lia). lia.
  - apply IH.
Qed.

(* once cancel() was called (whatever its POST did) no later operation sends anything *)
Lemma hist_nothing_after_cancel : forall pre post st fs ext_ok,
  exists fs', hist_run st (pre ++ HCancel :: post) fs ext_ok =
              hist_run st (pre ++ [HCancel]) fs ext_ok ++ hist_run SCancelled post fs' ext_ok /\
              total_sends (hist_run SCancelled post fs' ext_ok) = 0%nat.
Proof.
  induction pre as [|o r IH]; intros post st fs ext_ok.
  - simpl. eexists. split; [reflexivity | apply hist_cancelled_silent].
  - simpl. destruct (IH post (sess_after o st) (skipn (xsends (hop_run o st fs ext_ok)) fs) ext_ok) as [fs' [H1 H2]].
    exists fs'. split; [rewrite H1; reflexivity | exact H2].
Qed.

(* every single operation of a history: exchange <= 2 (2 only after a 413), cancel <= 1, close 0 *)
Lemma hist_each_op : forall ops st fs ext_ok,
  Forall (fun e => (xsends (snd e) <= match fst e with HExchange => 2 | HCancel => 1 | HClose => 0 end)%nat)
         (hist_run st ops fs ext_ok).
Proof.
  induction ops as [|o r IH]; intros st fs ext_ok; simpl; constructor; try apply IH.
  destruct o; simpl.
  - apply exchange_once_plus_413.
  - destruct st; simpl; lia.
  - lia.
Qed.
