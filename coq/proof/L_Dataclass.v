(* Proofs about model/M_Dataclass.v for the configuration model_cfg (the shape of the source after
   fixes/C03-convert-set-and-dict-elements-on-deserialize.diff): the Arrow round trip. *)
From Coq Require Import List NArith ZArith Bool Lia.
From VGI Require Import M_Dataclass.
Import ListNotations.
Open Scope N_scope.

Notation cf := model_cfg.

(* ------------------------------------------------------------------ induction over the nested annotation grammar *)
Section TyInd.
  Variable P : ty -> Prop.
  Hypothesis HScalar : forall s, P (TScalar s).
  Hypothesis HEnum : forall e ms, P (TEnum e ms).
  Hypothesis HOpt : forall t, P t -> P (TOpt t).
  Hypothesis HList : forall t, P t -> P (TList t).
  Hypothesis HSet : forall t, P t -> P (TSet t).
  Hypothesis HDict : forall k v, P k -> P v -> P (TDict k v).
  Hypothesis HData : forall c fs, Forall (fun f => P (f_ty f)) fs -> P (TData c fs).
  Hypothesis HSchema : P TSchema.
  Hypothesis HBatch : P TBatch.
  Fixpoint ty_ind' (t : ty) : P t :=
    match t with
    | TScalar s => HScalar s
    | TEnum e ms => HEnum e ms
    | TOpt t' => HOpt t' (ty_ind' t')
    | TList t' => HList t' (ty_ind' t')
    | TSet t' => HSet t' (ty_ind' t')
    | TDict k v => HDict k v (ty_ind' k) (ty_ind' v)
    | TData c fs =>
        HData c fs ((fix go (fs : list fdecl) : Forall (fun f => P (f_ty f)) fs :=
                       match fs with
                       | [] => Forall_nil _
                       | f :: q => Forall_cons f (ty_ind' (snd f)) (go q)
                       end) fs)
    | TSchema => HSchema
    | TBatch => HBatch
    end.
End TyInd.

(* ------------------------------------------------------------------ generic *)
Lemma mapM_ok {A B : Type} (f : A -> res B) (l : list A) (l' : list B) :
  Forall2 (fun x y => f x = Ok y) l l' -> mapM f l = Ok l'.
Proof.
  induction 1 as [|x y l l' Hxy _ IH]; simpl; [reflexivity|].
  rewrite Hxy. simpl. rewrite IH. reflexivity.
Qed.

Lemma mapM_id {A : Type} (f : A -> res A) (l : list A) :
  Forall (fun x => f x = Ok x) l -> mapM f l = Ok l.
Proof.
  induction 1 as [|x l Hx _ IH]; simpl; [reflexivity|].
  rewrite Hx. simpl. rewrite IH. reflexivity.
Qed.

Lemma bind_ok {A B : Type} (r : res A) (k : A -> res B) (a : A) : r = Ok a -> bind r k = k a.
Proof. intros ->. reflexivity. Qed.

Lemma str_eqb_eq a b : str_eqb a b = true -> a = b.
Proof. unfold str_eqb. destruct (list_eq_dec N.eq_dec a b); [auto|discriminate]. Qed.

Lemma lit_is_eq d x : lit_is d x = true -> x = pv_of_lit d.
Proof.
  destruct d, x; simpl; try discriminate; intros H.
  - reflexivity.
  - apply Z.eqb_eq in H. subst. reflexivity.
  - destruct (list_eq_dec N.eq_dec s s0); [subst; reflexivity|discriminate].
  - destruct (list_eq_dec N.eq_dec b b0); [subst; reflexivity|discriminate].
  - apply Bool.eqb_prop in H. subst. reflexivity.
  - apply N.eqb_eq in H. subst. reflexivity.
  - destruct l; [reflexivity|discriminate].
  - destruct l; [reflexivity|discriminate].
  - destruct l; [reflexivity|discriminate].
  - apply andb_true_iff in H as [H1 H2]. apply N.eqb_eq in H1.
    destruct (list_eq_dec N.eq_dec name name0); [subst; reflexivity|discriminate].
Qed.

(* ------------------------------------------------------------------ decidable equality of declarations is sound *)
Lemma scalar_eqb_eq a b : scalar_eqb a b = true -> a = b.
Proof. destruct a, b; simpl; congruence. Qed.
Lemma fkind_eqb_eq a b : fkind_eqb a b = true -> a = b.
Proof. destruct a, b; simpl; congruence. Qed.
Lemma lit_eqb_eq a b : lit_eqb a b = true -> a = b.
Proof.
  unfold lit_eqb. intros H. apply lit_is_eq in H.
  destruct a, b; simpl in H; congruence.
Qed.
Lemma optlit_eqb_eq a b : optlit_eqb a b = true -> a = b.
Proof. destruct a, b; simpl; try congruence. intros H. apply lit_eqb_eq in H. congruence. Qed.
Lemma optstr_eqb_eq a b : optstr_eqb a b = true -> a = b.
Proof. destruct a, b; simpl; try congruence. intros H. apply str_eqb_eq in H. congruence. Qed.
Lemma members_eqb_eq a : forall b, members_eqb a b = true -> a = b.
Proof.
  induction a as [|[n v] r IH]; intros [|[n' v'] r']; simpl; try congruence.
  intros H. apply andb_true_iff in H as [H H3]. apply andb_true_iff in H as [H1 H2].
  apply str_eqb_eq in H1. apply optstr_eqb_eq in H2. apply IH in H3. congruence.
Qed.

Lemma ty_eqb_eq : forall a b, ty_eqb a b = true -> a = b.
Proof.
  induction a as [s|e ms|t IH|t IH|t IH|k v IHk IHv|c fs IH| |] using ty_ind'; intros b H; destruct b; simpl in H; try discriminate.
  - apply scalar_eqb_eq in H. congruence.
  - apply andb_true_iff in H as [H1 H2]. apply N.eqb_eq in H1. apply members_eqb_eq in H2. congruence.
  - f_equal. auto.
  - f_equal. auto.
  - f_equal. auto.
  - apply andb_true_iff in H as [H1 H2]. f_equal; auto.
  - apply andb_true_iff in H as [H1 H2]. apply N.eqb_eq in H1. subst c0. f_equal.
    revert fs0 H2. induction IH as [|[[[n k] d] t] q Ht _ IHq]; intros [|[[[n' k'] d'] t'] q']; simpl; try discriminate; [reflexivity|].
    intros H. apply andb_true_iff in H as [H HE]. apply andb_true_iff in H as [H HD].
    apply andb_true_iff in H as [H HC]. apply andb_true_iff in H as [HA HB].
    apply N.eqb_eq in HA. apply fkind_eqb_eq in HB. apply optlit_eqb_eq in HC. apply Ht in HD. apply IHq in HE.
    unfold f_ty in HD. simpl in HD. subst. reflexivity.
  - reflexivity.
  - reflexivity.
Qed.

(* ------------------------------------------------------------------ the cascades, unfolded per constructor *)
Lemma ser_none ce : ser cf ce false VNone = Ok VNone. Proof. reflexivity. Qed.
Lemma ser_str ce s : ser cf ce false (VStr s) = Ok (VStr s). Proof. reflexivity. Qed.
Lemma ser_bytes ce s : ser cf ce false (VBytes s) = Ok (VBytes s). Proof. reflexivity. Qed.
Lemma ser_int ce z : ser cf ce false (VInt z) = Ok (VInt z). Proof. reflexivity. Qed.
Lemma ser_float ce z : ser cf ce false (VFloat z) = Ok (VFloat z). Proof. reflexivity. Qed.
Lemma ser_bool ce z : ser cf ce false (VBool z) = Ok (VBool z). Proof. reflexivity. Qed.
Lemma ser_enum ce e n : ser cf ce false (VEnum e n) = Ok (VStr n). Proof. reflexivity. Qed.
Lemma ser_schema ce i : ser cf ce false (VSchema i) = Ok (VIpcSchema i). Proof. reflexivity. Qed.
Lemma ser_batch ce i : ser cf ce false (VBatch i) = Ok (VIpcBatch i). Proof. reflexivity. Qed.
Lemma ser_list ce l : ser cf ce false (VList l) = (l' <- mapM (ser cf ce false) l ;; Ok (VList l')).
Proof. reflexivity. Qed.
Lemma ser_set ce l : ser cf ce false (VSet l) = (l' <- mapM (ser cf ce false) l ;; Ok (VList l')).
Proof. reflexivity. Qed.
Lemma ser_dict ce l : ser cf ce false (VDict l) = (l' <- ser_pairs (ser cf ce false) l ;; Ok (VList l')).
Proof. reflexivity. Qed.
Lemma ser_obj_false ce c vals fs : lookup_cls ce c = Some fs ->
  ser cf ce false (VObj c vals) = (r' <- to_row_with (ser cf ce true) (ser cf ce false) fs vals ;; Ok (VRow r')).
Proof. intros H. simpl. rewrite H. reflexivity. Qed.
Lemma ser_obj_true ce c vals fs : lookup_cls ce c = Some fs ->
  ser cf ce true (VObj c vals) = (r' <- to_row_with (ser cf ce true) (ser cf ce false) fs vals ;; encode_row cf fs r').
Proof. intros H. simpl. rewrite H. reflexivity. Qed.

Lemma de_none t : de cf t VNone = Ok VNone. Proof. destruct t; reflexivity. Qed.
Lemma de_opt t v : is_none v = false -> de cf (TOpt t) v = casc cf (de cf) t v.
Proof. destruct v; simpl; try discriminate; reflexivity. Qed.
Lemma de_nonopt t v : is_opt t = false -> is_none v = false -> de cf t v = casc cf (de cf) t v.
Proof. destruct t; simpl; try discriminate; destruct v; simpl; try discriminate; reflexivity. Qed.
Lemma de_list t l : de cf (TList t) (VList l) = (l' <- mapM (de cf t) l ;; Ok (VList l')).
Proof. reflexivity. Qed.
Lemma de_set t l : de cf (TSet t) (VList l) = (l' <- mapM (de cf t) l ;; mk_set l').
Proof. reflexivity. Qed.
Lemma de_dict k v l : de cf (TDict k v) (VList l) =
  (ps <- mapM as_pair l ;; ps' <- mapM (fun p => k' <- de cf k (fst p) ;; x' <- de cf v (snd p) ;; Ok (k', x')) ps ;; mk_dict ps').
Proof. reflexivity. Qed.
Lemma de_bin c fs ok r : de cf (TData c fs) (VIpcRow ok r) = from_bytes (de cf) c fs (VIpcRow ok r).
Proof. reflexivity. Qed.
Lemma de_struct c fs r : de cf (TData c fs) (VRow r) = struct_de (de cf) c fs r.
Proof. reflexivity. Qed.
Lemma de_enum e ms s : de cf (TEnum e ms) (VStr s) = enum_lookup e ms s.
Proof. reflexivity. Qed.
Lemma de_schema i : de cf TSchema (VIpcSchema i) = Ok (VSchema i). Proof. reflexivity. Qed.
Lemma de_batch i : de cf TBatch (VIpcBatch i) = Ok (VBatch i). Proof. reflexivity. Qed.

(* ------------------------------------------------------------------ rows with distinct names *)
Lemma existsb_eqb_in n l : existsb (N.eqb n) l = true <-> In n l.
Proof.
  rewrite existsb_exists. split.
  - intros [x [Hx He]]. apply N.eqb_eq in He. subst. exact Hx.
  - intros H. exists n. split; [exact H|apply N.eqb_refl].
Qed.

Lemma row_get_in row : forall n raw, nodupb (map fst row) = true -> In (n, raw) row ->
  row_get n row = raw /\ row_mem n row = true.
Proof.
  induction row as [|[n' x] q IH]; simpl; intros n raw Hnd Hin; [contradiction|].
  apply andb_true_iff in Hnd as [Hn Hq].
  destruct Hin as [Heq|Hin].
  - inversion Heq; subst. rewrite N.eqb_refl. auto.
  - destruct (n =? n') eqn:E.
    + apply N.eqb_eq in E. subst n'.
      assert (Hc : existsb (N.eqb n) (map fst q) = true).
      { apply existsb_eqb_in. apply (in_map fst) in Hin. exact Hin. }
      rewrite Hc in Hn. discriminate.
    + simpl. apply IH; assumption.
Qed.

(* ------------------------------------------------------------------ the per-field relation *)
Definition rowclean (r : list (N * pv)) : bool := forallb (fun p => ipc_clean (snd p)) r.

Inductive FR (ce : cenv) : list fdecl -> list (N * pv) -> list (N * pv) -> list (N * aty) -> Prop :=
| FR_nil : FR ce [] [] [] []
| FR_trans n l t y fq vq rq sq :
    y = pv_of_lit l -> FR ce fq vq rq sq ->
    FR ce ((n, KTransient, Some l, t) :: fq) ((n, y) :: vq) rq sq
| FR_ser n k d t y raw a fq vq rq sq :
    k <> KTransient ->
    instb t y = true ->
    (match k with KBinary => if is_obj y then ser cf ce true y else ser cf ce false y | _ => ser cf ce false y end) = Ok raw ->
    (match k with KBinary => a = ABin | _ => infer cf t = Ok a end) ->
    arrow_rt a raw = Ok raw ->
    (ipc_clean raw = true -> de cf t raw = Ok y) ->
    FR ce fq vq rq sq ->
    FR ce ((n, k, d, t) :: fq) ((n, y) :: vq) ((n, raw) :: rq) ((n, a) :: sq).

Lemma FR_to_row ce fs vals row sch : FR ce fs vals row sch ->
  to_row_with (ser cf ce true) (ser cf ce false) fs vals = Ok row.
Proof.
  induction 1 as [|n l t y fq vq rq sq Hy _ IH|n k d t y raw a fq vq rq sq Hk Hins Hser Ha Har Hde _ IH]; simpl.
  - reflexivity.
  - exact IH.
  - destruct k; [|rewrite Hser; simpl; rewrite IH; reflexivity|congruence].
    rewrite Hser. simpl. rewrite IH. reflexivity.
Qed.

Lemma FR_schema ce fs vals row sch : FR ce fs vals row sch -> schema_fields cf fs = Ok sch.
Proof.
  unfold schema_fields.
  induction 1 as [|n l t y fq vq rq sq Hy _ IH|n k d t y raw a fq vq rq sq Hk Hins Hser Ha Har Hde _ IH]; simpl.
  - reflexivity.
  - exact IH.
  - destruct k; [|subst a; rewrite IH; reflexivity|congruence].
    rewrite Ha. simpl. rewrite IH. reflexivity.
Qed.

Lemma FR_names_sub ce fs vals row sch : FR ce fs vals row sch -> forall m, In m (map fst row) -> In m (map f_name fs).
Proof.
  induction 1 as [|n l t y fq vq rq sq Hy _ IH|n k d t y raw a fq vq rq sq Hk Hins Hser Ha Har Hde _ IH]; simpl; intros m Hm.
  - contradiction.
  - right. auto.
  - destruct Hm as [Hm|Hm]; [left; exact Hm|right; auto].
Qed.

Lemma FR_nodup ce fs vals row sch : FR ce fs vals row sch -> nodupb (map f_name fs) = true -> nodupb (map fst row) = true.
Proof.
  induction 1 as [|n l t y fq vq rq sq Hy Hfr IH|n k d t y raw a fq vq rq sq Hk Hins Hser Ha Har Hde Hfr IH]; simpl; intros Hnd.
  - reflexivity.
  - apply andb_true_iff in Hnd as [_ Hq]. auto.
  - apply andb_true_iff in Hnd as [Hn Hq]. apply andb_true_iff. split; [|auto].
    destruct (existsb (N.eqb n) (map fst rq)) eqn:E; [|reflexivity].
    apply existsb_eqb_in in E. apply (FR_names_sub _ _ _ _ _ Hfr) in E. apply existsb_eqb_in in E.
    unfold f_name in Hn. simpl in Hn. unfold f_name in E. rewrite E in Hn. discriminate.
Qed.

Lemma FR_arrow ce fs vals row sch : FR ce fs vals row sch ->
  forall whole, (forall n raw, In (n, raw) row -> row_get n whole = raw) ->
  arrow_fields_with arrow_rt whole sch = Ok row.
Proof.
  induction 1 as [|n l t y fq vq rq sq Hy _ IH|n k d t y raw a fq vq rq sq Hk Hins Hser Ha Har Hde _ IH]; simpl; intros whole Hw.
  - reflexivity.
  - auto.
  - rewrite (Hw n raw (or_introl eq_refl)). rewrite Har. simpl.
    rewrite (IH whole); [reflexivity|]. intros n' raw' Hin. apply Hw. right. exact Hin.
Qed.

Lemma FR_kwargs ce fs vals row sch : FR ce fs vals row sch ->
  forall whole bm, (forall n raw, In (n, raw) row -> row_get n whole = raw /\ row_mem n whole = true) ->
  rowclean row = true ->
  kwargs (de cf) bm fs whole = Ok (map (fun p => Some (snd p)) vals).
Proof.
  induction 1 as [|n l t y fq vq rq sq Hy _ IH|n k d t y raw a fq vq rq sq Hk Hins Hser Ha Har Hde _ IH]; simpl; intros whole bm Hw Hc.
  - reflexivity.
  - rewrite (IH whole bm Hw Hc). subst y. reflexivity.
  - apply andb_true_iff in Hc as [Hc1 Hc2].
    destruct (Hw n raw (or_introl eq_refl)) as [Hg Hm].
    assert (IH' : kwargs (de cf) bm fq whole = Ok (map (fun p => Some (snd p)) vq)).
    { apply IH; [|exact Hc2]. intros n' raw' Hin. apply Hw. right. exact Hin. }
    destruct k; [| |congruence]; rewrite Hm; rewrite andb_false_r; rewrite Hg; rewrite (Hde Hc1); simpl; rewrite IH'; reflexivity.
Qed.

Lemma FR_construct ce fs vals row sch : FR ce fs vals row sch ->
  construct_vals fs (map (fun p => Some (snd p)) vals) = Ok vals.
Proof.
  induction 1 as [|n l t y fq vq rq sq Hy _ IH|n k d t y raw a fq vq rq sq Hk Hins Hser Ha Har Hde _ IH]; simpl.
  - reflexivity.
  - rewrite IH. reflexivity.
  - rewrite IH. reflexivity.
Qed.

Lemma FR_required ce fs vals row sch : FR ce fs vals row sch ->
  forall whole, (forall n raw, In (n, raw) row -> row_mem n whole = true) ->
  existsb (fun f => required f && negb (row_mem (f_name f) whole)) fs = false.
Proof.
  induction 1 as [|n l t y fq vq rq sq Hy _ IH|n k d t y raw a fq vq rq sq Hk Hins Hser Ha Har Hde _ IH]; simpl; intros whole Hw.
  - reflexivity.
  - apply IH. exact Hw.
  - unfold f_name at 1. simpl. rewrite (Hw n raw (or_introl eq_refl)). simpl. rewrite andb_false_r. simpl.
    apply IH. intros n' raw' Hin. apply (Hw n' raw'). right. exact Hin.
Qed.

Lemma match_false {A : Type} (l : list A) : match l with [] => false | _ :: _ => false end = false.
Proof. destruct l; reflexivity. Qed.

(* what a registered, well-formed class does with an instance related by FR *)
Section Obj.
  Variable ce : cenv.
  Variables (c : N) (fs : list fdecl) (vals row : list (N * pv)) (sch : list (N * aty)).
  Hypothesis Hfr : FR ce fs vals row sch.
  Hypothesis Hnd : nodupb (map f_name fs) = true.

  Lemma obj_whole : forall n raw, In (n, raw) row -> row_get n row = raw /\ row_mem n row = true.
  Proof. intros n raw Hin. apply row_get_in; [exact (FR_nodup _ _ _ _ _ Hfr Hnd)|exact Hin]. Qed.

  Lemma obj_arrow : arrow_rt (AStruct sch) (VRow row) = Ok (VRow row).
  Proof.
    simpl. rewrite (FR_arrow _ _ _ _ _ Hfr row); [reflexivity|].
    intros n raw Hin. apply obj_whole. exact Hin.
  Qed.

  Lemma obj_struct_de : rowclean row = true -> struct_de (de cf) c fs row = Ok (VObj c vals).
  Proof.
    intros Hc. unfold struct_de. rewrite (FR_kwargs _ _ _ _ _ Hfr row false obj_whole Hc). simpl.
    unfold construct. rewrite (FR_construct _ _ _ _ _ Hfr). reflexivity.
  Qed.

  Lemma obj_from_bytes : rowclean row = true -> from_bytes (de cf) c fs (VIpcRow true row) = Ok (VObj c vals).
  Proof.
    intros Hc. unfold from_bytes. simpl.
    assert (Hx : existsb (fun f => required f && negb (row_mem (f_name f) row)) fs = false).
    { apply (FR_required _ _ _ _ _ Hfr). intros n raw Hin. apply obj_whole in Hin. tauto. }
    rewrite Hx. rewrite match_false. rewrite (FR_kwargs _ _ _ _ _ Hfr row true obj_whole Hc). simpl.
    unfold construct. rewrite (FR_construct _ _ _ _ _ Hfr). reflexivity.
  Qed.

  Hypothesis Hlk : lookup_cls ce c = Some fs.

  Lemma obj_ser_false : ser cf ce false (VObj c vals) = Ok (VRow row).
  Proof. rewrite (ser_obj_false _ _ _ _ Hlk). rewrite (FR_to_row _ _ _ _ _ Hfr). reflexivity. Qed.

  Lemma obj_ser_true : ser cf ce true (VObj c vals) = Ok (VIpcRow (batch_valid sch row) row).
  Proof.
    rewrite (ser_obj_true _ _ _ _ Hlk). rewrite (bind_ok _ _ _ (FR_to_row _ _ _ _ _ Hfr)).
    unfold encode_row. rewrite (bind_ok _ _ _ (FR_schema _ _ _ _ _ Hfr)).
    rewrite (bind_ok _ _ _ obj_arrow). reflexivity.
  Qed.
End Obj.
