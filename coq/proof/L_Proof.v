(* The verifier of model/M_Proof.v equals the nine-row table of docs/proxy-proof-spec.md section 6. *)
From Coq Require Import List NArith ZArith Bool Lia Arith.
From VGI Require Import Regex Bytes Layout M_Proof L_ProofPrim.
Import ListNotations.
Open Scope N_scope.

Definition seen_of (cache : option (str -> bool)) : str -> bool :=
  fun n => match cache with Some check_and_add => negb (check_and_add n) | None => false end.

Definition char_size : str -> nat := @length N.

Lemma spec_ok_parts : forall kid ts nonce mac,
  spec_kid_ok kid = true -> spec_ts_ok ts = true -> spec_nonce_ok nonce = true -> spec_mac_ok mac = true ->
  forallb in_b64url kid = true /\ forallb is_digit ts = true /\ forallb in_b64url nonce = true /\
  forallb in_b64url mac = true.
Proof.
  intros kid ts nonce mac Hk Ht Hn Hm.
  unfold spec_kid_ok, spec_ts_ok, spec_nonce_ok, spec_mac_ok in *.
  apply andb_true_iff in Hk, Ht, Hn, Hm. tauto.
Qed.


Section WithHmac.
  Variable hmac : bytes -> bytes -> bytes.

  (* ---------------------------------------------------------------- *)
  (** * verify_proof = rows 2..9 with the value measured in characters *)
  (* ---------------------------------------------------------------- *)

  Lemma verify_eq_spec_value : forall token keys origin skew cache now,
    ascii_only origin = true ->
    verify_proof hmac token keys origin skew cache now =
    spec_value char_size hmac token keys origin skew (seen_of cache) now.
  Proof.
    intros token keys origin skew cache now Ho.
    unfold verify_proof, spec_value, char_size.
    destruct token as [| c0 token'] eqn:Etok.
    { reflexivity. }
    rewrite <- Etok. assert (Hnil : isnil token = false) by (rewrite Etok; reflexivity).
    rewrite Hnil. cbn [orb]. clear Hnil Etok c0 token'.
    change max_header with 512%nat.
    destruct (Nat.ltb 512 (length token)); [reflexivity |].
    cbv zeta.
    destruct (split_on 46 token) as [| f0 [| kid [| ts [| nonce [| mac [| x r]]]]]]; try reflexivity.
    cbn [length Nat.eqb negb].
    change version_tag with [118; 49].
    destruct (str_eqb f0 [118; 49]); cbn [negb]; [| reflexivity].
    rewrite kid_re_spec, ts_re_spec, nonce_re_spec, mac_re_spec.
    destruct (spec_kid_ok kid) eqn:Hk; cbn [negb andb]; [| reflexivity].
    destruct (spec_ts_ok ts) eqn:Ht; cbn [negb andb]; [| reflexivity].
    destruct (spec_nonce_ok nonce) eqn:Hn; cbn [negb andb]; [| reflexivity].
    destruct (spec_mac_ok mac) eqn:Hm; cbn [negb andb]; [| reflexivity].
    destruct (spec_ok_parts kid ts nonce mac Hk Ht Hn Hm) as (Ak & At & An & Am).
    destruct (keys kid) as [[secret label] |]; [| reflexivity].
    rewrite (py_int_ts ts Ht).
    destruct (now - spec_ts_value ts >? skew)%Z; [reflexivity |].
    replace (- (now - spec_ts_value ts))%Z with (spec_ts_value ts - now)%Z by lia.
    destruct (spec_ts_value ts - now >? skew)%Z; [reflexivity |].
    rewrite (canonical_ascii kid ts nonce origin (b64url_ascii_only _ Ak) (digits_ascii_only _ At)
               (b64url_ascii_only _ An) Ho).
    rewrite (unb64_mac mac Hm).
    destruct (Bytes.bytes_eqb (spec_b64url_decode mac) (hmac secret (spec_canonical kid ts nonce origin)));
      cbn [negb]; [| reflexivity].
    unfold seen_of. destruct cache as [chk |]; reflexivity.
  Qed.

  (* ---------------------------------------------------------------- *)
  (** * a character outside [A-Za-z0-9_.-] makes the value malformed    *)
  (* ---------------------------------------------------------------- *)

  Lemma spec_value_bad_char : forall size value keys origin skew seen now c,
    In c value -> in_b64url c = false -> c <> 46 ->
    spec_value size hmac value keys origin skew seen now = Reject Malformed.
  Proof.
    intros size value keys origin skew seen now c Hin Hbad Hdot.
    unfold spec_value.
    destruct (isnil value || Nat.ltb 512 (size value)); [reflexivity |].
    destruct (split_on_In 46 value c Hdot Hin) as (p & Hp & Hcp).
    destruct (split_on 46 value) as [| f0 [| kid [| ts [| nonce [| mac [| x r]]]]]]; try reflexivity.
    destruct (str_eqb f0 [118; 49]) eqn:Ev; cbn [negb]; [| reflexivity].
    destruct (spec_kid_ok kid && spec_ts_ok ts && spec_nonce_ok nonce && spec_mac_ok mac) eqn:Eok;
      cbn [negb]; [| reflexivity].
    exfalso.
    rewrite !andb_true_iff in Eok. destruct Eok as [[[Hk Ht] Hn] Hm].
    destruct (spec_ok_parts kid ts nonce mac Hk Ht Hn Hm) as (Ak & At & An & Am).
    apply str_eqb_eq in Ev. subst f0.
    assert (Hgood : in_b64url c = true).
    { destruct Hp as [<- | [<- | [<- | [<- | [<- | []]]]]].
      - destruct Hcp as [<- | [<- | []]]; reflexivity.
      - exact (forallb_In _ _ _ Ak Hcp).
      - apply is_digit_b64url. exact (forallb_In _ _ _ At Hcp).
      - exact (forallb_In _ _ _ An Hcp).
      - exact (forallb_In _ _ _ Am Hcp). }
    rewrite Hgood in Hbad. discriminate Hbad.
  Qed.

  (* ---------------------------------------------------------------- *)
  (** * characters or bytes: the 512 bound gives the same verdict       *)
  (* ---------------------------------------------------------------- *)

  Definition size_ok (size : str -> nat) : Prop :=
    (forall s, (length s <= size s)%nat) /\ (forall s, ascii_only s = true -> size s = length s).

  Lemma spec_value_size : forall size value keys origin skew seen now, size_ok size ->
    spec_value size hmac value keys origin skew seen now =
    spec_value char_size hmac value keys origin skew seen now.
  Proof.
    intros size value keys origin skew seen now [Hge Hascii].
    destruct (ascii_only value) eqn:Ea.
    - unfold spec_value, char_size. rewrite (Hascii value Ea). reflexivity.
    - unfold ascii_only in Ea. apply forallb_false_ex in Ea. destruct Ea as (c & Hin & Hc).
      destruct (non_ascii_not_b64url c Hc) as [Hbad Hdot].
      rewrite !(spec_value_bad_char _ value keys origin skew seen now c Hin Hbad Hdot). reflexivity.
  Qed.

  Lemma utf8_size_ok : size_ok utf8_size.
  Proof.
    split.
    - induction s as [| c s IH]; cbn [utf8_size fold_right length]; [lia |].
      change (fold_right (fun c n => Nat.add (utf8_width c) n) 0%nat s) with (utf8_size s).
      unfold utf8_width. destruct (c <? 128); [lia |]. destruct (c <? 2048); [lia |].
      destruct (c <? 65536); lia.
    - induction s as [| c s IH]; intros H; cbn [utf8_size fold_right length]; [reflexivity |].
      change (fold_right (fun c n => Nat.add (utf8_width c) n) 0%nat s) with (utf8_size s).
      unfold ascii_only in H. cbn [forallb] in H. apply andb_true_iff in H. destruct H as [Hc Hs].
      unfold utf8_width. rewrite Hc. rewrite (IH Hs). reflexivity.
  Qed.

  Lemma char_size_ok : size_ok char_size.
  Proof. split; intros s; unfold char_size; [lia | reflexivity]. Qed.

  Theorem verify_equals_table : forall size token keys origin skew cache now,
    size_ok size -> ascii_only origin = true ->
    verify_proof hmac token keys origin skew cache now =
    spec_table size hmac [token] keys origin skew (seen_of cache) now.
  Proof.
    intros size token keys origin skew cache now Hs Ho. cbn [spec_table].
    rewrite (spec_value_size size _ _ _ _ _ _ Hs). apply verify_eq_spec_value. exact Ho.
  Qed.

  (* ---------------------------------------------------------------- *)
  (** * the gate: header instances                                      *)
  (* ---------------------------------------------------------------- *)

  Lemma gate_equals_table_gen : forall er sep size instances keys origin skew cache now,
    In 44 sep -> size_ok size -> ascii_only origin = true ->
    er = Malformed \/ instances <> [[]] ->
    gate_decision hmac er (header_value sep instances) keys origin skew cache now =
    spec_table size hmac instances keys origin skew (seen_of cache) now.
  Proof.
    intros er sep size instances keys origin skew cache now Hsep Hs Ho Her.
    destruct instances as [| v [| v2 rest]].
    - reflexivity.
    - cbn [header_value py_join gate_decision].
      destruct v as [| c v'] eqn:Ev.
      + cbn [isnil]. destruct Her as [-> | Hne]; [reflexivity | congruence].
      + rewrite <- Ev. assert (Hnil : isnil v = false) by (rewrite Ev; reflexivity). rewrite Hnil.
        destruct (has_char 44 v) eqn:Hc.
        * apply has_char_true in Hc. cbn [spec_table]. symmetry.
          apply (spec_value_bad_char size v keys origin skew _ now 44 Hc); [reflexivity | discriminate].
        * apply verify_equals_table; assumption.
    - cbn [spec_table]. unfold header_value.
      change (py_join sep (v :: v2 :: rest)) with (v ++ sep ++ py_join sep (v2 :: rest)).
      cbn [gate_decision].
      assert (Hin : In 44 (v ++ sep ++ py_join sep (v2 :: rest))).
      { apply in_or_app. right. apply in_or_app. left. exact Hsep. }
      destruct (v ++ sep ++ py_join sep (v2 :: rest)) as [| c raw'] eqn:Eraw; [destruct Hin |].
      cbn [isnil]. rewrite <- Eraw in *.
      apply has_char_true in Hin. rewrite Hin. reflexivity.
  Qed.

  (* ---------------------------------------------------------------- *)
  (** * only ProofError                                                 *)
  (* ---------------------------------------------------------------- *)

  Lemma spec_value_no_other : forall size value keys origin skew seen now n,
    spec_value size hmac value keys origin skew seen now <> OtherExc n.
  Proof.
    intros size value keys origin skew seen now n. unfold spec_value.
    repeat match goal with
           | |- context [if ?b then _ else _] => destruct b
           | |- context [match ?x with _ => _ end] => destruct x
           end; discriminate.
  Qed.

  Lemma spec_table_no_other : forall size instances keys origin skew seen now n,
    spec_table size hmac instances keys origin skew seen now <> OtherExc n.
  Proof.
    intros size instances keys origin skew seen now n.
    destruct instances as [| v [| v2 rest]]; cbn [spec_table]; try discriminate.
    apply spec_value_no_other.
  Qed.

  Theorem verify_only_proof_error : forall token keys origin skew cache now n,
    ascii_only origin = true ->
    verify_proof hmac token keys origin skew cache now <> OtherExc n.
  Proof.
    intros token keys origin skew cache now n Ho.
    rewrite (verify_eq_spec_value token keys origin skew cache now Ho). apply spec_value_no_other.
  Qed.

  Theorem gate_only_proof_error : forall er raw keys origin skew cache now n,
    ascii_only origin = true ->
    gate_decision hmac er raw keys origin skew cache now <> OtherExc n.
  Proof.
    intros er raw keys origin skew cache now n Ho. unfold gate_decision.
    destruct raw as [raw |]; [| discriminate].
    destruct (isnil raw); [discriminate |]. destruct (has_char 44 raw); [discriminate |].
    apply verify_only_proof_error. exact Ho.
  Qed.
End WithHmac.

(* ------------------------------------------------------------------ *)
(** * require mode: what the caller can see is one constant            *)
(* ------------------------------------------------------------------ *)

Lemma gate_wrap_require_reject : forall origin r,
  gate_wrap true origin (Reject r) = GRaise r require_message.
Proof. intros origin r. destruct r; reflexivity. Qed.

Lemma require_failure_visible : forall origin o,
  (forall l k og, o <> Accept l k og) -> (forall n, o <> OtherExc n) ->
  caller_visible (gate_wrap true origin o) = Some require_message.
Proof.
  intros origin o Hna Hno. destruct o as [l k og | r | n].
  - exfalso. exact (Hna l k og eq_refl).
  - rewrite gate_wrap_require_reject. reflexivity.
  - exfalso. exact (Hno n eq_refl).
Qed.

(* ------------------------------------------------------------------ *)
(** * the canonical string frames its fields unambiguously             *)
(* ------------------------------------------------------------------ *)

Lemma canonical_injective : forall k1 t1 n1 o1 k2 t2 n2 o2,
  spec_kid_ok k1 = true -> spec_ts_ok t1 = true -> spec_nonce_ok n1 = true -> spec_origin_ok o1 = true ->
  spec_kid_ok k2 = true -> spec_ts_ok t2 = true -> spec_nonce_ok n2 = true -> spec_origin_ok o2 = true ->
  canonical_string k1 t1 n1 o1 = canonical_string k2 t2 n2 o2 ->
  k1 = k2 /\ t1 = t2 /\ n1 = n2 /\ o1 = o2.
Proof.
  intros k1 t1 n1 o1 k2 t2 n2 o2 Hk1 Ht1 Hn1 Ho1 Hk2 Ht2 Hn2 Ho2 Heq.
  assert (P : forall k t n o, spec_kid_ok k = true -> spec_ts_ok t = true -> spec_nonce_ok n = true ->
              spec_origin_ok o = true ->
              canonical_string k t n o = Some (spec_canonical k t n o) /\
              enc canon_layout [ABytes k; ABytes t; ABytes n; ABytes o] = Some (spec_canonical k t n o)).
  { intros k t n o Hk Ht Hn Ho.
    assert (Hm : spec_mac_ok (repeat 65 43) = true) by reflexivity.
    destruct (spec_ok_parts k t n (repeat 65 43) Hk Ht Hn Hm) as (Ak & At & An & _).
    pose proof (origin_ascii_only o Ho) as Ao.
    split.
    - apply canonical_ascii; [apply b64url_ascii_only | apply digits_ascii_only | apply b64url_ascii_only |];
        assumption.
    - apply enc_canon_layout.
      + apply (bytes_ok_of in_b64url); [exact in_b64url_ascii | exact Ak].
      + apply (no_nul_of in_b64url); [intros c Hc; apply (in_b64url_pos c Hc) | exact Ak].
      + apply (bytes_ok_of is_digit); [intros c Hc; apply in_b64url_ascii, is_digit_b64url, Hc | exact At].
      + apply (no_nul_of is_digit); [intros c Hc; apply (in_b64url_pos c (is_digit_b64url c Hc)) | exact At].
      + apply (bytes_ok_of in_b64url); [exact in_b64url_ascii | exact An].
      + apply (no_nul_of in_b64url); [intros c Hc; apply (in_b64url_pos c Hc) | exact An].
      + apply (bytes_ok_of (fun c => c <? 128)); [tauto | exact Ao]. }
  destruct (P k1 t1 n1 o1 Hk1 Ht1 Hn1 Ho1) as [C1 E1].
  destruct (P k2 t2 n2 o2 Hk2 Ht2 Hn2 Ho2) as [C2 E2].
  rewrite C1, C2 in Heq. rewrite <- Heq in E2.
  assert (Hpd : prefix_decodable canon_layout = true) by reflexivity.
  pose proof (enc_inj canon_layout _ _ _ Hpd E1 E2) as Hargs.
  injection Hargs as -> -> -> ->. repeat split.
Qed.

(* ------------------------------------------------------------------ *)
(** * statements over the code's own validation of origin_id           *)
(* ------------------------------------------------------------------ *)

Lemma origin_re_ascii : forall origin, py_match penv0 origin_re origin = true -> ascii_only origin = true.
Proof. intros origin H. rewrite origin_re_spec in H. apply origin_ascii_only. exact H. Qed.

Lemma canonical_injective_re : forall k1 t1 n1 o1 k2 t2 n2 o2,
  py_match penv0 kid_re k1 = true -> py_match penv0 ts_re t1 = true ->
  py_match penv0 nonce_re n1 = true -> py_match penv0 origin_re o1 = true ->
  py_match penv0 kid_re k2 = true -> py_match penv0 ts_re t2 = true ->
  py_match penv0 nonce_re n2 = true -> py_match penv0 origin_re o2 = true ->
  canonical_string k1 t1 n1 o1 = canonical_string k2 t2 n2 o2 ->
  k1 = k2 /\ t1 = t2 /\ n1 = n2 /\ o1 = o2.
Proof.
  intros k1 t1 n1 o1 k2 t2 n2 o2.
  rewrite !kid_re_spec, !ts_re_spec, !nonce_re_spec, !origin_re_spec. apply canonical_injective.
Qed.

Lemma split_fields : forall s parts, split_on 46 s = parts ->
  py_join [46] parts = s /\ forall p, In p parts -> ~ In 46 p.
Proof.
  intros s parts <-. split; [apply split_on_join | intros p; apply split_on_nosep].
Qed.
