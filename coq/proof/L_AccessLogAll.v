(* L_AccessLogAll: the per-request results of L_AccessLogThm lifted to whole histories. *)
From Coq Require Import List NArith ZArith Bool Lia Arith String.
From VGI Require Import Corr Regex M_Wire M_AccessLog L_AccessLog L_AccessLogThm L_AccessLogHist.
Import ListNotations.

Section All.
  Variable fresh : nat -> str.
  Variable c : cfg.
  (* uuid4().hex: a non-empty string matching the schema's stream_id property *)
  Hypothesis fresh_ok : forall n, fresh n <> [] /\ field_ok P (s "stream_id", JStr (fresh n)) = true.

  Definition resolves (pre : list request) (q : request) : bool :=
    match sid_of fresh c (mint_count c pre) (sids_from fresh c 0 pre) q with Some _ => true | None => false end.

  Lemma emissions_sid_irrelevant : forall q i j, mints c q = false -> ref_of q = None -> emissions c q i = emissions c q j.
  Proof.
    intros q i j Hm Hr. unfold mints in Hm. destruct c as [[|] dbg sh]; destruct q; cbn [tr] in *; try discriminate; reflexivity.
  Qed.

  (* the id a cell runs under is a drawn id, or the request is not a stream request *)
  Lemma cell_cases : forall pre q,
    cell fresh c pre q = [] \/ (exists n, cell fresh c pre q = emissions c q (fresh n)).
  Proof.
    intros pre q. unfold cell, sid_of.
    destruct (mints c q) eqn:M; [right; eexists; reflexivity|].
    destruct (ref_of q) as [r|] eqn:R.
    - destruct (nth_error (sids_from fresh c 0 pre) r) as [[i|]|] eqn:N; [|left; reflexivity|left; reflexivity].
      right.
      assert (Hlen : forall l n, List.length (sids_from fresh c n l) = List.length l) by (induction l; intro; simpl; [reflexivity | f_equal; auto]).
      assert (Hr : (r < List.length pre)%nat) by (rewrite <- (Hlen pre 0%nat); apply nth_error_Some; rewrite N; discriminate).
      destruct (nth_error pre r) as [qr|] eqn:Q; [|apply nth_error_None in Q; lia].
      rewrite (nth_sids_from fresh c pre 0 r qr Q) in N. inversion N as [N']. destruct (mints c qr); [|discriminate].
      inversion N'. eexists; reflexivity.
    - right. exists 0%nat. apply emissions_sid_irrelevant; assumption.
  Qed.

  Lemma run_from_length : forall h n sids, List.length (run_from fresh c n sids h) = List.length h.
  Proof. induction h as [|q0 r IH]; intros n sids; [reflexivity|]. rewrite run_from_step. simpl. f_equal. apply IH. Qed.

  Theorem history_one_record : forall h k q,
    nth_error h k = Some q ->
    exists ems, nth_error (run_history fresh c h) k = Some ems /\
      List.length ems = (if dispatched c q && resolves (firstn k h) q then 1 else 0)%nat.
  Proof.
    intros h k q Hk. exists (cell fresh c (firstn k h) q). split; [apply run_history_nth; exact Hk|].
    unfold cell, resolves. destruct (sid_of fresh c (mint_count c (firstn k h)) (sids_from fresh c 0 (firstn k h)) q).
    - rewrite one_record, andb_true_r. reflexivity.
    - rewrite andb_false_r. reflexivity.
  Qed.

  Theorem history_schema_valid : forall E h k ems e f,
    shp c = fixed_shape -> env_ok E = true ->
    nth_error (run_history fresh c h) k = Some ems -> In e ems ->
    validate model_schema (format (shp c) f (emit_record c E e)) = true.
  Proof.
    intros E h k ems e f Hs HE Hr Hin.
    assert (Hq : exists q, nth_error h k = Some q).
    { destruct (nth_error h k) as [q|] eqn:Q; [eexists; reflexivity|].
      assert (L : List.length (run_history fresh c h) = List.length h) by (apply run_from_length).
      apply nth_error_None in Q. assert (nth_error (run_history fresh c h) k <> None) by (rewrite Hr; discriminate).
      apply nth_error_Some in H. lia. }
    destruct Hq as [q Hq]. rewrite (run_history_nth fresh c h k q Hq) in Hr. inversion Hr; subst ems; clear Hr.
    destruct (cell_cases (firstn k h) q) as [H0|[n Hn]]; [rewrite H0 in Hin; contradiction|].
    rewrite Hn in Hin. destruct (fresh_ok n) as [F1 F2].
    apply (schema_valid c E q (fresh n) f e Hs HE F1 F2 Hin).
  Qed.
End All.

(* ------------------------------------------------------------------ stream ids, emission and record level *)
Theorem stream_id_shared : forall (fresh : nat -> str) c E h a t qa qt emsa emst ea et f g,
  shp c = fixed_shape ->
  nth_error h a = Some qa -> mints c qa = true -> nth_error h t = Some qt -> ref_of qt = Some a ->
  nth_error (run_history fresh c h) a = Some emsa -> In ea emsa ->
  nth_error (run_history fresh c h) t = Some emst -> In et emst ->
  e_sid et = e_sid ea /\
  (e_sid ea <> [] ->
   rec_str (s "stream_id") (format (shp c) f (emit_record c E ea)) = Some (e_sid ea) /\
   rec_str (s "stream_id") (format (shp c) g (emit_record c E et)) = Some (e_sid ea)).
Proof.
  intros fresh c E h a t qa qt emsa emst ea et f g Hs Ha Hm Ht Hr Hra Hia Hrt Hit.
  pose proof (init_sid fresh c h a qa emsa ea Ha Hm Hra Hia) as H1.
  pose proof (turn_sid fresh c h a t qa qt emst et Ha Hm Ht Hr Hrt Hit) as H2.
  split; [congruence|]. intro Hne.
  assert (Ca : exists i, In ea (emissions c qa i)).
  { rewrite (run_history_nth fresh c h a qa Ha) in Hra. inversion Hra; subst emsa. unfold cell in Hia.
    destruct (sid_of fresh c _ _ qa); [eexists; exact Hia | contradiction]. }
  assert (Ct : exists i, In et (emissions c qt i)).
  { rewrite (run_history_nth fresh c h t qt Ht) in Hrt. inversion Hrt; subst emst. unfold cell in Hit.
    destruct (sid_of fresh c _ _ qt); [eexists; exact Hit | contradiction]. }
  destruct Ca as [ia Ca]; destruct Ct as [it Ct].
  pose proof (record_fields c E ea f Hs (emissions_captured c qa ia ea Ca) (emissions_quiet c qa ia ea Hs Ca)) as (_ & _ & _ & Fa).
  pose proof (record_fields c E et g Hs (emissions_captured c qt it et Ct) (emissions_quiet c qt it et Hs Ct)) as (_ & _ & _ & Ft).
  cbv zeta in Fa, Ft. rewrite Fa, Ft. rewrite H2, <- H1.
  destruct (e_sid ea); [contradiction | split; reflexivity].
Qed.

Theorem stream_id_distinct : forall (fresh : nat -> str) c,
  (forall x y, fresh x = fresh y -> x = y) ->
  forall h a b qa qb emsa emsb ea eb, a <> b ->
  nth_error h a = Some qa -> mints c qa = true -> nth_error h b = Some qb -> mints c qb = true ->
  nth_error (run_history fresh c h) a = Some emsa -> In ea emsa ->
  nth_error (run_history fresh c h) b = Some emsb -> In eb emsb ->
  e_sid ea <> e_sid eb.
Proof.
  intros fresh c Hinj h a b qa qb emsa emsb ea eb Hab Ha Hma Hb Hmb Hra Hia Hrb Hib.
  rewrite (init_sid fresh c h a qa emsa ea Ha Hma Hra Hia), (init_sid fresh c h b qb emsb eb Hb Hmb Hrb Hib).
  apply (distinct_sid fresh c Hinj h a b qa qb Hab Ha Hma Hb Hmb).
Qed.
