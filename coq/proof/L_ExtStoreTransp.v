(* Lemmas about model/M_ExtStore.v (property C30): the transparency side.
   With a faithful store, draining the externalised wire = draining the inline wire (logs, batches up to the
   provenance keys, terminal error).  IPC and codec round trips are Section hypotheses. *)
From Coq Require Import List NArith Bool Lia PeanoNat Arith.
From VGI Require Import Corr M_ExtStore L_ExtStore.
Import ListNotations.
Open Scope N_scope.

(* ---------- metadata algebra ---------- *)
Lemma mdel_mset_same : forall k v m, mdel k (mset k v m) = mdel k m.
Proof.
  intros k v m. induction m as [|[k' v'] r IH]; simpl.
  - rewrite bytes_eqb_refl. reflexivity.
  - destruct (bytes_eqb k k') eqn:E; simpl; rewrite E; [reflexivity | rewrite IH; reflexivity].
Qed.

Lemma mdel_mset_other : forall k1 k2 v m, k1 <> k2 -> mdel k1 (mset k2 v m) = mset k2 v (mdel k1 m).
Proof.
  intros k1 k2 v m Hne. induction m as [|[k' v'] r IH]; simpl.
  - apply bytes_eqb_neq in Hne. rewrite Hne. reflexivity.
  - destruct (bytes_eqb k2 k') eqn:E2.
    + apply bytes_eqb_eq in E2. subst k'. simpl.
      assert (E1 : bytes_eqb k1 k2 = false) by (apply bytes_eqb_neq; exact Hne).
      rewrite E1. simpl. rewrite bytes_eqb_refl. reflexivity.
    + simpl. destruct (bytes_eqb k1 k') eqn:E1.
      * exact IH.
      * simpl. rewrite E2. rewrite IH. reflexivity.
Qed.

Lemma mget_mset_same : forall k v m, mget k (mset k v m) = Some v.
Proof.
  intros k v m. induction m as [|[k' v'] r IH]; simpl.
  - rewrite bytes_eqb_refl. reflexivity.
  - destruct (bytes_eqb k k') eqn:E; simpl; rewrite E; [reflexivity | exact IH].
Qed.

Lemma mget_mset_other : forall k k2 v m, k <> k2 -> mget k (mset k2 v m) = mget k m.
Proof.
  intros k k2 v m Hne. induction m as [|[k' v'] r IH]; simpl.
  - apply bytes_eqb_neq in Hne. rewrite Hne. reflexivity.
  - destruct (bytes_eqb k2 k') eqn:E2; simpl.
    + apply bytes_eqb_eq in E2. subst k'. apply bytes_eqb_neq in Hne. rewrite Hne. reflexivity.
    + destruct (bytes_eqb k k'); [reflexivity | exact IH].
Qed.

Lemma mset_not_nil : forall k v m, mset k v m <> [].
Proof. intros k v [|[k' v'] r]; simpl; [discriminate | destruct (bytes_eqb k k'); discriminate]. Qed.

Lemma K_FETCH_MS_neq_SOURCE : K_FETCH_MS <> K_SOURCE.
Proof. apply bytes_eqb_neq. vm_compute. reflexivity. Qed.

(* a resolved batch is the fetched batch once the two provenance keys are put aside *)
Lemma strip_prov_resolved : forall b url, strip_prov (resolved b url) = strip_prov b.
Proof.
  intros b url. unfold strip_prov, resolved, with_meta, omerge, provenance. cbn [b_schema b_rows b_body b_meta].
  set (m := match b_meta b with Some m => m | None => [] end).
  assert (E : mdel K_SOURCE (mdel K_FETCH_MS (mmerge m [(K_FETCH_MS, []); (K_SOURCE, url)])) = mdel K_SOURCE (mdel K_FETCH_MS m)).
  { unfold mmerge. cbn [fold_left fst snd].
    rewrite (mdel_mset_other K_FETCH_MS K_SOURCE) by exact K_FETCH_MS_neq_SOURCE.
    rewrite mdel_mset_same. rewrite mdel_mset_same. reflexivity. }
  remember (mmerge m [(K_FETCH_MS, []); (K_SOURCE, url)]) as mm eqn:Em.
  destruct mm as [|x r].
  - exfalso. unfold mmerge in Em. cbn [fold_left fst snd] in Em. symmetry in Em. eapply mset_not_nil. exact Em.
  - rewrite E. unfold m. destruct (b_meta b) as [m1|]; reflexivity.
Qed.

(* ---------- what draining a wire of application batches yields ---------- *)
Fixpoint sem (w : list batch) : list log * list batch * option err :=
  match w with
  | [] => ([], [], None)
  | b :: r =>
      match classify b with
      | KLog l m => let '(lg, ds, e) := sem r in ((l, m) :: lg, ds, e)
      | KExc => ([], [], Some ERpc)
      | KSkip => sem r
      | KData => let '(lg, ds, e) := sem r in (lg, b :: ds, e)
      end
  end.

Definition datas (w : list batch) : list batch := filter is_data w.

(* does the first EXCEPTION-level log of the cycle come after a data batch? *)
Fixpoint exc_after_data (seen : bool) (w : list batch) : bool :=
  match w with
  | [] => false
  | b :: r => match classify b with
              | KExc => seen
              | KData => exc_after_data true r
              | _ => exc_after_data seen r
              end
  end.

Lemma sem_err_rpc : forall w lg ds e, sem w = (lg, ds, Some e) -> e = ERpc.
Proof.
  induction w as [|b r IH]; intros lg ds e H; simpl in H; [discriminate|].
  destruct (classify b).
  - destruct (sem r) as [[lg' ds'] e'] eqn:Es. inversion H; subst. eapply IH. reflexivity.
  - destruct (sem r) as [[lg' ds'] e'] eqn:Es. inversion H; subst. eapply IH. reflexivity.
  - inversion H; reflexivity.
  - eapply IH. exact H.
Qed.

Lemma sem_none_datas : forall w lg ds, sem w = (lg, ds, None) -> ds = datas w.
Proof.
  induction w as [|b r IH]; intros lg ds H; simpl in H.
  - inversion H; reflexivity.
  - unfold datas. simpl. unfold is_data at 1. destruct (classify b).
    + destruct (sem r) as [[lg' ds'] e'] eqn:Es. inversion H; subst. f_equal. eapply IH. reflexivity.
    + destruct (sem r) as [[lg' ds'] e'] eqn:Es. inversion H; subst. eapply IH. reflexivity.
    + discriminate.
    + eapply IH. exact H.
Qed.

Lemma sem_exc_no_data : forall w seen lg ds e,
  sem w = (lg, ds, Some e) -> exc_after_data seen w = false -> ds = [] /\ seen = false.
Proof.
  induction w as [|b r IH]; intros seen lg ds e H Hx; simpl in H, Hx; [discriminate|].
  destruct (classify b).
  - destruct (sem r) as [[lg' ds'] e'] eqn:Es. inversion H; subst.
    destruct (IH true _ _ _ eq_refl Hx) as [_ Hf]. discriminate.
  - destruct (sem r) as [[lg' ds'] e'] eqn:Es. inversion H; subst. eapply IH; eauto.
  - inversion H. split; [reflexivity | exact Hx].
  - eapply IH; eauto.
Qed.

Lemma scan_sem : forall w, Forall (fun b => has_loc b = false) w ->
  scan (map IBatch w) =
  let '(lg, ds, e) := sem w in (lg, match e with Some _ => SErr ERpc | None => SDone ds end).
Proof.
  induction w as [|b r IH]; intro HF; simpl; [reflexivity|].
  inversion HF as [|x l Hb HF']; subst. rewrite Hb. specialize (IH HF').
  destruct (classify b).
  - rewrite IH. destruct (sem r) as [[lg ds] e]. destruct e; reflexivity.
  - rewrite IH. destruct (sem r) as [[lg ds] e]. reflexivity.
  - reflexivity.
  - exact IH.
Qed.

(* ---------- the read loop ---------- *)
Lemma drain_inline : forall res w,
  (forall b, In b w -> classify b = KData -> res b = ([], OPass b)) -> drain res w = sem w.
Proof.
  intros res w. induction w as [|b r IH]; intro H; simpl; [reflexivity|].
  assert (Hr : forall b0, In b0 r -> classify b0 = KData -> res b0 = ([], OPass b0)) by (intros; apply H; [right|]; assumption).
  destruct (classify b) eqn:Hc.
  - rewrite (H b (or_introl eq_refl) Hc). rewrite (IH Hr). destruct (sem r) as [[lg ds] e]. reflexivity.
  - rewrite (IH Hr). reflexivity.
  - reflexivity.
  - apply IH. exact Hr.
Qed.

Lemma drain_app : forall res w1 w2,
  drain res (w1 ++ w2) =
  let '(l1, d1, e1) := drain res w1 in
  match e1 with
  | Some e => (l1, d1, Some e)
  | None => let '(l2, d2, e2) := drain res w2 in (l1 ++ l2, d1 ++ d2, e2)
  end.
Proof.
  intros res w1 w2. induction w1 as [|b r IH]; simpl.
  - destruct (drain res w2) as [[l2 d2] e2]. reflexivity.
  - destruct (classify b).
    + destruct (res b) as [lg1 o]. destruct o as [d|d|e].
      * rewrite IH. destruct (drain res r) as [[l1 d1] e1]. destruct e1; [reflexivity|].
        destruct (drain res w2) as [[l2 d2] e2]. rewrite app_assoc. reflexivity.
      * rewrite IH. destruct (drain res r) as [[l1 d1] e1]. destruct e1; [reflexivity|].
        destruct (drain res w2) as [[l2 d2] e2]. rewrite app_assoc. reflexivity.
      * reflexivity.
    + rewrite IH. destruct (drain res r) as [[l1 d1] e1]. destruct e1; [reflexivity|].
      destruct (drain res w2) as [[l2 d2] e2]. reflexivity.
    + reflexivity.
    + exact IH.
Qed.

Lemma drain_single_data : forall res b, classify b = KData ->
  drain res [b] =
  let '(lg1, o) := res b in
  match o with
  | OFail e => (lg1, [], Some e)
  | OPass d | ODeliver d => (lg1 ++ [], [d], None)
  end.
Proof. intros res b H. simpl. rewrite H. destruct (res b) as [lg1 [d|d|e]]; reflexivity. Qed.

(* observational equality of two drains: same logs, same batches up to provenance, same terminal error *)
Definition equiv (x y : list log * list batch * option err) : Prop :=
  fst (fst x) = fst (fst y) /\ map strip_prov (snd (fst x)) = map strip_prov (snd (fst y)) /\ snd x = snd y.

Lemma equiv_refl : forall x, equiv x x.
Proof. intro x. repeat split. Qed.

Lemma equiv_app : forall res w1 w1' w2 w2',
  equiv (drain res w1) (drain res w1') -> equiv (drain res w2) (drain res w2') ->
  equiv (drain res (w1 ++ w2)) (drain res (w1' ++ w2')).
Proof.
  intros res w1 w1' w2 w2' H1 H2. rewrite !drain_app.
  destruct (drain res w1) as [[l1 d1] e1]. destruct (drain res w1') as [[l1' d1'] e1'].
  destruct (drain res w2) as [[l2 d2] e2]. destruct (drain res w2') as [[l2' d2'] e2'].
  destruct H1 as (Ha & Hb & Hc). destruct H2 as (Ha2 & Hb2 & Hc2). simpl in *. subst.
  destruct e1'; repeat split; simpl; auto.
  rewrite !map_app. rewrite Hb, Hb2. reflexivity.
Qed.

Section Transp.
  Variable B : Type.
  Variable sha : B -> bytes.
  Variable parse : B -> list item.
  Variable ser : N -> list batch -> B.
  Variable encode : option N -> B -> B.
  Variable decode : option N -> B -> option B.
  (* reading back an IPC stream yields the batches that were written (all of the stream's schema) *)
  Hypothesis parse_ser : forall s bs, Forall (fun b => b_schema b = s) bs -> parse (ser s bs) = map IBatch bs.
  (* content decoding inverts the configured compression *)
  Hypothesis decode_encode : forall e x, decode e (encode e x) = Some x.

  Let fetch_of := fetch_obj B sha parse decode.
  Let stored_of := stored B ser encode.
  Let sha_ser := sha_ser_of B sha ser.

  Lemma fetch_stored : forall u,
    fetch_of (Some (stored_of u)) = FData (view_of B sha parse (ser (u_schema u) (u_items u))).
  Proof. intro u. unfold fetch_of, fetch_obj, stored_of, stored. rewrite decode_encode. reflexivity. Qed.

  (* resolving the pointer of an uploaded stream over a faithful store *)
  Lemma resolve_pointer_faithful : forall s cyc url mr fetch,
    Forall (fun b => b_schema b = s /\ has_loc b = false) cyc ->
    (forall k, fetch url k = FData (view_of B sha parse (ser s cyc))) ->
    resolve_with true mr true (pointer s url (Some (sha_ser s cyc))) fetch =
    let '(lg, ds, e) := sem cyc in
    match e with
    | Some _ => (lg, OFail ERpc)
    | None => match ds with
              | [] => (lg, OFail ENoData)
              | [d] => (lg, ODeliver (resolved d url))
              | _ => (lg, OFail EMulti)
              end
    end.
  Proof.
    intros s cyc url mr fetch HF Hfetch.
    assert (Hs : Forall (fun b => b_schema b = s) cyc) by (eapply Forall_impl; [|exact HF]; intros a [H _]; exact H).
    assert (Hl : Forall (fun b => has_loc b = false) cyc) by (eapply Forall_impl; [|exact HF]; intros a [_ H]; exact H).
    unfold resolve_with.
    assert (Hp : is_pointer (pointer s url (Some (sha_ser s cyc))) = true) by reflexivity.
    rewrite Hp. simpl negb. simpl orb. cbv iota.
    change (b_meta (pointer s url (Some (sha_ser s cyc)))) with (Some [(K_LOC, url); (K_SHA, sha_ser s cyc)]).
    cbv beta iota.
    assert (Hu : mget K_LOC [(K_LOC, url); (K_SHA, sha_ser s cyc)] = Some url) by reflexivity.
    assert (Hh : mget K_SHA [(K_LOC, url); (K_SHA, sha_ser s cyc)] = Some (sha_ser s cyc)) by reflexivity.
    rewrite Hu. cbv beta iota. rewrite Hh. unfold n_attempts. simpl retry_loop. rewrite Hfetch.
    unfold attempt, view_of. simpl v_sha. simpl v_items.
    unfold sha_bad, sha_ser, sha_ser_of. rewrite bytes_eqb_refl. simpl negb. cbv iota.
    rewrite (parse_ser s cyc Hs). rewrite (scan_sem cyc Hl).
    destruct (sem cyc) as [[lg ds] e] eqn:Es.
    destruct e as [e|].
    - reflexivity.
    - destruct ds as [|d [|d2 r]]; try reflexivity.
      assert (Hd : b_schema d = s).
      { apply sem_none_datas in Es. assert (Hin : In d (datas cyc)) by (rewrite <- Es; left; reflexivity).
        unfold datas in Hin. apply filter_In in Hin. destruct Hin as [Hin _].
        rewrite Forall_forall in Hs. apply Hs. exact Hin. }
      change (b_schema (pointer s url (Some (sha (ser s cyc))))) with s.
      rewrite Hd. rewrite N.eqb_refl. reflexivity.
  Qed.

  Lemma resolve_non_pointer : forall mr ol b fetch, has_loc b = false ->
    resolve_with true mr ol b fetch = ([], OPass b).
  Proof.
    intros mr ol b fetch Hl. unfold resolve_with, is_pointer. rewrite Hl. rewrite andb_false_r. reflexivity.
  Qed.

  Lemma classify_pointer : forall s url h, classify (pointer s url (Some h)) = KData.
  Proof. reflexivity. Qed.

  (* ---- one collector cycle ---- *)
  Lemma pointer_equiv : forall url s cyc mr fetch,
    Forall (fun b => b_schema b = s /\ has_loc b = false) cyc ->
    (exists d, datas cyc = [d]) ->
    exc_after_data false cyc = false ->
    (forall k, fetch url k = FData (view_of B sha parse (ser s cyc))) ->
    equiv (drain (fun b => resolve_with true mr true b fetch) [pointer s url (Some (sha_ser s cyc))])
          (drain (fun b => resolve_with true mr true b fetch) cyc).
  Proof.
    intros url s cyc mr fetch HF Hone Hexc Hf.
    assert (Hl : Forall (fun b => has_loc b = false) cyc) by (eapply Forall_impl; [|exact HF]; intros a [_ H]; exact H).
    assert (Hin : drain (fun b => resolve_with true mr true b fetch) cyc = sem cyc).
    { apply drain_inline. intros b Hb _. apply resolve_non_pointer. rewrite Forall_forall in Hl. apply Hl. exact Hb. }
    rewrite Hin. rewrite drain_single_data by apply classify_pointer.
    rewrite (resolve_pointer_faithful s cyc url mr fetch HF Hf).
    destruct (sem cyc) as [[lg ds] e] eqn:Es.
    destruct e as [e|].
    - pose proof (sem_err_rpc _ _ _ _ Es) as ->.
      destruct (sem_exc_no_data _ _ _ _ _ Es Hexc) as [-> _]. apply equiv_refl.
    - apply sem_none_datas in Es. destruct Hone as [d Hd]. rewrite Hd in Es. subst ds.
      repeat split; simpl.
      + apply app_nil_r.
      + rewrite strip_prov_resolved. reflexivity.
  Qed.

  Lemma head_tail_app : forall w, w = fst (head_tail w) ++ snd (head_tail w).
  Proof.
    induction w as [|b r IH]; simpl; [reflexivity|].
    destruct (is_data b); [reflexivity|].
    destruct (head_tail r) as [h t]. simpl in *. rewrite IH at 1. reflexivity.
  Qed.

  Lemma head_exc : forall w, exc_after_data false (fst (head_tail w)) = false.
  Proof.
    induction w as [|b r IH]; simpl; [reflexivity|].
    unfold is_data. destruct (classify b) eqn:Hc.
    - simpl. rewrite Hc. reflexivity.
    - destruct (head_tail r) as [h t]. simpl in *. rewrite Hc. exact IH.
    - destruct (head_tail r) as [h t]. simpl. rewrite Hc. reflexivity.
    - destruct (head_tail r) as [h t]. simpl in *. rewrite Hc. exact IH.
  Qed.

  Lemma head_datas : forall w d r, datas w = d :: r -> datas (fst (head_tail w)) = [d].
  Proof.
    induction w as [|b w' IH]; intros d r H; [discriminate|].
    unfold datas in *. simpl in *. destruct (is_data b) eqn:Hd.
    - inversion H; subst. simpl. rewrite Hd. reflexivity.
    - destruct (head_tail w') as [h t] eqn:Eh. simpl. rewrite Hd. simpl in IH. eapply IH. exact H.
  Qed.

  Lemma head_forall : forall (P : batch -> Prop) w, Forall P w -> Forall P (fst (head_tail w)).
  Proof.
    intros P w H. rewrite (head_tail_app w) in H. apply Forall_app in H. exact (proj1 H).
  Qed.

  (* [ser_all] = the shape of the source.  As found (true) the theorem needs the side condition that no
     EXCEPTION-level log follows the data batch; with the tail kept inline (false) it holds for every cycle. *)
  Theorem transparent_cycle : forall (ser_all : bool) c url s cyc dsz mr fetch,
    Forall (fun b => b_schema b = s /\ has_loc b = false) cyc ->
    (forall sz, dsz = Some sz -> exists d, datas cyc = [d]) ->
    (ser_all = true -> exc_after_data false cyc = false) ->
    (forall u, snd (ext_collector ser_all sha_ser url c s cyc dsz) = Some u -> forall k, fetch url k = fetch_of (Some (stored_of u))) ->
    equiv (drain (fun b => resolve_with true mr true b fetch) (fst (ext_collector ser_all sha_ser url c s cyc dsz)))
          (drain (fun b => resolve_with true mr true b fetch) cyc).
  Proof.
    intros ser_all c url s cyc dsz mr fetch HF Hone Hexc Hfaith.
    unfold ext_collector in *.
    destruct (negb (c_storage c)); [apply equiv_refl|].
    destruct dsz as [sz|]; [|apply equiv_refl].
    destruct (sz <? c_thr c); [apply equiv_refl|].
    destruct (Hone sz eq_refl) as [d Hd].
    destruct ser_all.
    - simpl fst. simpl snd in Hfaith.
      apply pointer_equiv; auto. exists d; exact Hd.
      intro k. rewrite (Hfaith _ eq_refl k). rewrite fetch_stored. reflexivity.
    - pose proof (head_tail_app cyc) as Happ.
      destruct (head_tail cyc) as [h t] eqn:Eh. simpl fst in *. simpl snd in *.
      cbv beta iota in *. simpl fst. simpl snd in Hfaith.
      replace (drain (fun b => resolve_with true mr true b fetch) cyc)
        with (drain (fun b => resolve_with true mr true b fetch) (h ++ t)) by (rewrite <- Happ; reflexivity).
      change (pointer s url (Some (sha_ser s h)) :: t) with ([pointer s url (Some (sha_ser s h))] ++ t).
      apply equiv_app; [|apply equiv_refl].
      assert (Hh : h = fst (head_tail cyc)) by (rewrite Eh; reflexivity).
      apply pointer_equiv.
      + rewrite Hh. apply head_forall. exact HF.
      + exists d. rewrite Hh. eapply head_datas. exact Hd.
      + rewrite Hh. apply head_exc.
      + intro k. rewrite (Hfaith _ eq_refl k). rewrite fetch_stored. reflexivity.
  Qed.

  (* ---- a whole stream: any number of cycles, each with its own upload URL ---- *)
  Definition ext_wire (ser_all : bool) (c : cfg) (s : N) (cycles : list (list batch * option N * bytes)) : list batch :=
    flat_map (fun x => fst (ext_collector ser_all sha_ser (snd x) c s (fst (fst x)) (snd (fst x)))) cycles.
  Definition inline_wire (cycles : list (list batch * option N * bytes)) : list batch :=
    flat_map (fun x => fst (fst x)) cycles.

  Theorem transparent_stream : forall (ser_all : bool) c s mr fetch cycles,
    Forall (fun x =>
              Forall (fun b => b_schema b = s /\ has_loc b = false) (fst (fst x)) /\
              (forall sz, snd (fst x) = Some sz -> exists d, datas (fst (fst x)) = [d]) /\
              (ser_all = true -> exc_after_data false (fst (fst x)) = false) /\
              (forall u, snd (ext_collector ser_all sha_ser (snd x) c s (fst (fst x)) (snd (fst x))) = Some u ->
                         forall k, fetch (snd x) k = fetch_of (Some (stored_of u)))) cycles ->
    equiv (drain (fun b => resolve_with true mr true b fetch) (ext_wire ser_all c s cycles))
          (drain (fun b => resolve_with true mr true b fetch) (inline_wire cycles)).
  Proof.
    intros ser_all c s mr fetch cycles. induction cycles as [|x r IH]; intro H.
    - apply equiv_refl.
    - inversion H as [|y l Hx Hr]; subst. destruct Hx as (H1 & H2 & H3 & H4).
      unfold ext_wire, inline_wire. simpl flat_map. apply equiv_app.
      + apply transparent_cycle; assumption.
      + apply IH. exact Hr.
  Qed.

  (* ---- a single batch: unary result, stream header ---- *)
  Theorem transparent_single : forall c url size b mr fetch,
    classify b = KData -> has_loc b = false ->
    (forall u, snd (ext_batch sha_ser url c size b) = Some u -> forall k, fetch url k = fetch_of (Some (stored_of u))) ->
    equiv (drain (fun x => resolve_with true mr true x fetch) [fst (ext_batch sha_ser url c size b)])
          ([], [b], None).
  Proof.
    intros c url size b mr fetch Hc Hl Hfaith.
    assert (Hinl : drain (fun x => resolve_with true mr true x fetch) [b] = ([], [b], None)).
    { simpl. rewrite Hc. rewrite resolve_non_pointer by exact Hl. reflexivity. }
    unfold ext_batch in *.
    destruct (negb (c_storage c)); [simpl fst; rewrite Hinl; apply equiv_refl|].
    destruct (b_rows b =? 0); [simpl fst; rewrite Hinl; apply equiv_refl|].
    destruct (size <? c_thr c); [simpl fst; rewrite Hinl; apply equiv_refl|].
    simpl fst. simpl snd in Hfaith. rewrite drain_single_data by apply classify_pointer.
    assert (HF : Forall (fun x => b_schema x = b_schema b /\ has_loc x = false) [b]) by (constructor; [split; [reflexivity | exact Hl] | constructor]).
    assert (Hf : forall k, fetch url k = FData (view_of B sha parse (ser (b_schema b) [b]))).
    { intro k. rewrite (Hfaith _ eq_refl k). rewrite fetch_stored. reflexivity. }
    rewrite (resolve_pointer_faithful (b_schema b) [b] url mr fetch HF Hf).
    simpl sem. rewrite Hc. repeat split; simpl. rewrite strip_prov_resolved. reflexivity.
  Qed.

  (* ---- a client-uploaded request: pointer without digest, resolved by the server (no log callback) ---- *)
  Theorem transparent_request : forall req url mr fetch,
    classify req = KData -> has_loc req = false ->
    ohas K_LEVEL (b_meta req) = false -> ohas K_SHA (b_meta req) = false ->
    (forall k, fetch url k = fetch_of (Some (stored_of (snd (request_pointer req url))))) ->
    resolve_with true mr false (fst (request_pointer req url)) fetch = ([], ODeliver (resolved req url)).
  Proof.
    intros req url mr fetch Hc Hl Hlev Hsha Hfaith.
    unfold request_pointer in *. simpl fst. simpl snd in Hfaith.
    set (m0 := match b_meta req with Some m => m | None => [] end).
    assert (Hm : omerge (b_meta req) [(K_LOC, url)] = Some (mset K_LOC url m0)).
    { unfold omerge, mmerge. simpl. fold m0. destruct (mset K_LOC url m0) eqn:E; [exfalso; eapply mset_not_nil; exact E | reflexivity]. }
    assert (Hlev0 : mget K_LEVEL m0 = None).
    { unfold ohas in Hlev. unfold m0. destruct (b_meta req) as [m|]; [|reflexivity]. destruct (mget K_LEVEL m); [discriminate | reflexivity]. }
    assert (Hsha0 : mget K_SHA m0 = None).
    { unfold ohas in Hsha. unfold m0. destruct (b_meta req) as [m|]; [|reflexivity]. destruct (mget K_SHA m); [discriminate | reflexivity]. }
    assert (N1 : K_LEVEL <> K_LOC) by (apply bytes_eqb_neq; vm_compute; reflexivity).
    assert (N2 : K_SHA <> K_LOC) by (apply bytes_eqb_neq; vm_compute; reflexivity).
    unfold resolve_with, is_pointer, has_loc, ohas. simpl b_rows. simpl b_meta. rewrite Hm.
    rewrite mget_mset_same. rewrite (mget_mset_other K_LEVEL K_LOC) by exact N1. rewrite Hlev0.
    simpl. rewrite (mget_mset_other K_SHA K_LOC) by exact N2. rewrite Hsha0.
    unfold n_attempts. simpl retry_loop. rewrite Hfaith. rewrite fetch_stored. simpl u_schema. simpl u_items.
    unfold attempt, view_of. simpl v_sha. simpl v_items. simpl sha_bad. cbv iota.
    rewrite (parse_ser (b_schema req) [req]) by (constructor; [reflexivity | constructor]).
    change (map IBatch [req]) with [IBatch req]. cbn [scan]. rewrite Hl. rewrite Hc. cbn [scan]. cbv beta iota.
    rewrite N.eqb_refl. reflexivity.
  Qed.

  (* ---- below the threshold / without storage nothing changes ---- *)
  Theorem below_threshold_untouched : forall (ser_all : bool) url c s cyc dsz size b,
    (c_storage c = false \/ (forall sz, dsz = Some sz -> sz < c_thr c) ->
       ext_collector ser_all sha_ser url c s cyc dsz = (cyc, None)) /\
    (c_storage c = false \/ b_rows b = 0 \/ size < c_thr c ->
       ext_batch sha_ser url c size b = (b, None)).
  Proof.
    intros ser_all url c s cyc dsz size b. split.
    - intros [H|H]; unfold ext_collector.
      + rewrite H. reflexivity.
      + destruct (negb (c_storage c)); [reflexivity|]. destruct dsz as [sz|]; [|reflexivity].
        specialize (H sz eq_refl). apply N.ltb_lt in H. rewrite H. reflexivity.
    - intros [H|[H|H]]; unfold ext_batch.
      + rewrite H. reflexivity.
      + destruct (negb (c_storage c)); [reflexivity|]. rewrite H. reflexivity.
      + destruct (negb (c_storage c)); [reflexivity|]. destruct (b_rows b =? 0); [reflexivity|].
        apply N.ltb_lt in H. rewrite H. reflexivity.
  Qed.
End Transp.
