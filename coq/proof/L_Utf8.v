(* Lemmas about the strict UTF-8 decoder of lib/Utf8.v: ASCII is a fixed point, and only ASCII
   bytes decode to ASCII code points (multi-byte sequences always yield a code point >= 128). *)
From Coq Require Import List NArith Bool Lia.
From VGI Require Import Utf8.
Import ListNotations.
Open Scope N_scope.

Lemma utf8_decode_ascii : forall b, all_ascii b = true -> utf8_decode b = Some b.
Proof.
  unfold utf8_decode, all_ascii.
  induction b as [| c r IH]; intros H.
  - reflexivity.
  - cbn [forallb] in H. apply andb_true_iff in H. destruct H as [Hc Hr].
    cbn [length utf8_decode_fuel utf8_step]. rewrite Hc.
    rewrite (IH Hr). reflexivity.
Qed.

(* a decoding step that produces an ASCII code point consumed exactly that one byte *)
Lemma utf8_step_ascii_inv : forall b cp r,
  utf8_step b = Some (cp, r) -> cp < 128 -> b = cp :: r.
Proof.
  intros b cp r H Hlt. destruct b as [| b0 t]; [discriminate H |].
  unfold utf8_step in H.
  destruct (b0 <? 128) eqn:E0.
  - inversion H; reflexivity.
  - exfalso. apply N.ltb_ge in E0.
    destruct ((194 <=? b0) && (b0 <=? 223)) eqn:E1.
    + apply andb_true_iff in E1. destruct E1 as [E1 E1']. apply N.leb_le in E1, E1'.
      destruct t as [| b1 t']; [discriminate H |].
      destruct (is_cont b1) eqn:C1; [| discriminate H].
      inversion H; subst. lia.
    + destruct ((224 <=? b0) && (b0 <=? 239)) eqn:E2.
      * destruct t as [| b1 [| b2 t']]; try discriminate H.
        cbv zeta in H.
        remember ((b0 - 224) * 4096 + (b1 - 128) * 64 + (b2 - 128)) as cp3 eqn:Hcp3.
        destruct (2048 <=? cp3) eqn:Hmin.
        -- destruct (is_cont b1 && is_cont b2 && true &&
                     negb ((55296 <=? cp3) && (cp3 <=? 57343))); [| discriminate H].
           inversion H; subst cp. apply N.leb_le in Hmin. lia.
        -- rewrite andb_false_r in H. cbn [andb] in H. discriminate H.
      * destruct ((240 <=? b0) && (b0 <=? 244)) eqn:E3; [| discriminate H].
        destruct t as [| b1 [| b2 [| b3 t']]]; try discriminate H.
        cbv zeta in H.
        remember ((b0 - 240) * 262144 + (b1 - 128) * 4096 + (b2 - 128) * 64 + (b3 - 128))
          as cp4 eqn:Hcp4.
        destruct (65536 <=? cp4) eqn:Hmin.
        -- destruct (is_cont b1 && is_cont b2 && is_cont b3 && true && (cp4 <=? 1114111));
             [| discriminate H].
           inversion H; subst cp. apply N.leb_le in Hmin. lia.
        -- rewrite andb_false_r in H. cbn [andb] in H. discriminate H.
Qed.

Lemma utf8_decode_fuel_ascii_inv : forall fuel b s,
  utf8_decode_fuel fuel b = Some s -> all_ascii s = true -> b = s.
Proof.
  unfold all_ascii.
  induction fuel as [| f IH]; intros b s H Ha.
  - destruct b as [| b0 t]; cbn [utf8_decode_fuel] in H; [| discriminate H].
    inversion H; reflexivity.
  - destruct b as [| b0 t]; [cbn [utf8_decode_fuel] in H; inversion H; reflexivity |].
    cbn [utf8_decode_fuel] in H.
    destruct (utf8_step (b0 :: t)) as [[cp r] |] eqn:Hs; [| discriminate H].
    destruct (utf8_decode_fuel f r) as [s' |] eqn:Hr; [| discriminate H].
    inversion H; subst s. cbn [forallb] in Ha.
    apply andb_true_iff in Ha. destruct Ha as [Hc Hs'].
    apply N.ltb_lt in Hc.
    rewrite (utf8_step_ascii_inv _ _ _ Hs Hc).
    rewrite (IH r s' Hr Hs'). reflexivity.
Qed.

Lemma utf8_decode_ascii_inv : forall b s,
  utf8_decode b = Some s -> all_ascii s = true -> b = s.
Proof. intros b s. unfold utf8_decode. apply utf8_decode_fuel_ascii_inv. Qed.
