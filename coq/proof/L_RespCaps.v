(* C16 -- lemmas about the cap-site model M_RespCaps. *)
From Coq Require Import List NArith Bool Lia.
From VGI Require Import M_RespCaps.
Import ListNotations.
Open Scope N_scope.

Lemma over_false_le cap x m : over cap x = false -> cap = Some m -> x <= m.
Proof.
  intros H ->. unfold over in H. destruct (N.ltb_spec m x) as [Hlt|Hge]; [discriminate|lia].
Qed.

Lemma over_true_lt cap x : over cap x = true -> exists m, cap = Some m /\ m < x.
Proof.
  unfold over. destruct cap as [m|]; [|discriminate]. intros H. exists m. split; [reflexivity|].
  now apply N.ltb_lt.
Qed.

Lemma over_some_true m x : m < x -> over (Some m) x = true.
Proof. intros H. unfold over. now apply N.ltb_lt. Qed.

Lemma sumN_app a b : sumN (a ++ b) = sumN a + sumN b.
Proof. induction a as [|x a IH]; cbn [sumN fold_right app]; [reflexivity|]. fold (sumN (a ++ b)). fold (sumN a). rewrite IH. lia. Qed.

Lemma sumN_single x : sumN [x] = x.
Proof. cbn. lia. Qed.

Lemma sumN_flush_ups p c f : sumN (flush_ups p c f) = if fires p c f then f_up f else 0.
Proof. unfold flush_ups. destruct (fires p c f); [apply sumN_single|reflexivity]. Qed.

(* bytes received by storage in any outcome *)
Definition uploaded (r : ue_result) : N :=
  match r with UEOk _ u => sumN u | UEErrPost _ u => sumN u | _ => 0 end.

Definition is_error (r : ue_result) : Prop := match r with UEOk _ _ => False | _ => True end.

(* ------------------------------------------------------------------ unary / exchange: wire cap *)
Lemma ue_ok_inv p c raises base f body ups :
  run_ue p c raises base f = UEOk body ups ->
  raises = false /\ body = base + flush_body p c f /\ ups = flush_ups p c f
  /\ over (ext_cap c) (predicted p c f) = false
  /\ over (wire_cap c) body = false /\ over (ext_cap c) (sumN ups) = false.
Proof.
  unfold run_ue. destruct raises; [discriminate|].
  destruct (over (ext_cap c) (predicted p c f)) eqn:E1; [discriminate|].
  destruct (over (wire_cap c) (base + flush_body p c f)) eqn:E2; [discriminate|].
  destruct (over (ext_cap c) (sumN (flush_ups p c f))) eqn:E3; [discriminate|].
  intros H. inversion H; subst. repeat split; assumption.
Qed.

Lemma ue_body_le_cap p c raises base f :
  match run_ue p c raises base f with
  | UEOk body ups => body = base + flush_body p c f /\ (forall m, wire_cap c = Some m -> body <= m)
  | _ => True
  end.
Proof.
  destruct (run_ue p c raises base f) as [body ups| |w ups|] eqn:E; try exact I.
  apply ue_ok_inv in E. destruct E as (_ & Hb & _ & _ & Hw & _). split; [exact Hb|].
  intros m Hm. eapply over_false_le; eassumption.
Qed.

Lemma ue_oversize_is_error p c raises base f m :
  wire_cap c = Some m -> m < base + flush_body p c f -> is_error (run_ue p c raises base f).
Proof.
  intros Hm Hlt. destruct (run_ue p c raises base f) as [body ups| |w ups|] eqn:E; try exact I.
  apply ue_ok_inv in E. destruct E as (_ & Hb & _ & _ & Hw & _). subst body.
  pose proof (over_false_le _ _ _ Hw Hm). lia.
Qed.

(* the error an oversize body gets is the post-flush wire refusal unless the external pre-flight refused first *)
Lemma ue_oversize_which p c base f m :
  wire_cap c = Some m -> m < base + flush_body p c f ->
  run_ue p c false base f = UEErrPre \/ run_ue p c false base f = UEErrPost true (flush_ups p c f).
Proof.
  intros Hm Hlt. unfold run_ue. destruct (over (ext_cap c) (predicted p c f)); [now left|]. right.
  rewrite Hm. rewrite (over_some_true _ _ Hlt). reflexivity.
Qed.

(* ------------------------------------------------------------------ unary / exchange: external cap *)
Lemma ue_ok_uploads_le_cap p c raises base f body ups m :
  run_ue p c raises base f = UEOk body ups -> ext_cap c = Some m -> sumN ups <= m.
Proof.
  intros E Hm. apply ue_ok_inv in E. destruct E as (_ & _ & _ & _ & _ & He).
  eapply over_false_le; eassumption.
Qed.

Lemma predicted_framed p c f : pmode c = PFramed -> predicted p c f = sumN (flush_ups p c f).
Proof. intros H. unfold predicted. rewrite sumN_flush_ups, H. reflexivity. Qed.

Lemma predicted_logical p c f : pmode c = PLogical -> predicted p c f = if fires p c f then f_logical f else 0.
Proof. intros H. unfold predicted. rewrite H. reflexivity. Qed.

Lemma ue_framed_uploaded_le_cap p c raises base f m :
  pmode c = PFramed -> ext_cap c = Some m -> uploaded (run_ue p c raises base f) <= m.
Proof.
  intros Hp Hm. unfold run_ue. destruct raises; [cbn; lia|].
  rewrite (predicted_framed _ _ _ Hp).
  destruct (over (ext_cap c) (sumN (flush_ups p c f))) eqn:E1; [cbn; lia|].
  pose proof (over_false_le _ _ _ E1 Hm) as Hle.
  destruct (over (wire_cap c) (base + flush_body p c f)); cbn [uploaded]; exact Hle.
Qed.

Lemma ue_framed_overshoot_refused_before_upload p c base f m :
  pmode c = PFramed -> ext_cap c = Some m -> m < sumN (flush_ups p c f) ->
  run_ue p c false base f = UEErrPre.
Proof.
  intros Hp Hm Hlt. unfold run_ue. rewrite (predicted_framed _ _ _ Hp), Hm, (over_some_true _ _ Hlt). reflexivity.
Qed.

Lemma ue_framed_post_refusal_is_wire p c raises base f w ups :
  pmode c = PFramed -> run_ue p c raises base f = UEErrPost w ups -> w = true.
Proof.
  intros Hp. unfold run_ue. destruct raises; [discriminate|].
  rewrite (predicted_framed _ _ _ Hp).
  destruct (over (ext_cap c) (sumN (flush_ups p c f))) eqn:E1; [discriminate|].
  destruct (over (wire_cap c) (base + flush_body p c f)); [intros H; now inversion H|discriminate].
Qed.

(* PLogical: the exact class in which the statement fails, and the bound that still holds *)
Lemma ue_logical_classes p c raises base f m :
  pmode c = PLogical -> ext_cap c = Some m ->
  uploaded (run_ue p c raises base f) <= m
  \/ (fires p c f = true /\ f_logical f <= m /\ m < f_up f
      /\ exists w, run_ue p c raises base f = UEErrPost w [f_up f]).
Proof.
  intros Hp Hm. unfold run_ue. destruct raises; [left; cbn; lia|].
  rewrite (predicted_logical _ _ _ Hp).
  destruct (fires p c f) eqn:Ef.
  - destruct (over (ext_cap c) (f_logical f)) eqn:E1; [left; cbn; lia|].
    pose proof (over_false_le _ _ _ E1 Hm) as Hl.
    unfold flush_ups. rewrite Ef. rewrite sumN_single.
    destruct (N.ltb_spec m (f_up f)) as [Hlt|Hge].
    + right. repeat split; try assumption.
      destruct (over (wire_cap c) (base + flush_body p c f)); [now exists true|].
      rewrite Hm. rewrite (over_some_true _ _ Hlt). now exists false.
    + left. destruct (over (wire_cap c) (base + flush_body p c f)); cbn [uploaded]; rewrite ?sumN_single; [lia|].
      destruct (over (ext_cap c) (f_up f)); cbn [uploaded]; rewrite sumN_single; lia.
  - left. unfold flush_ups. rewrite Ef.
    destruct (over (ext_cap c) 0); [cbn; lia|].
    destruct (over (wire_cap c) (base + flush_body p c f)); [cbn; lia|].
    destruct (over (ext_cap c) (sumN [])); cbn; lia.
Qed.

Lemma ue_logical_uploaded_le_cap_plus_gap p c raises base f m :
  pmode c = PLogical -> ext_cap c = Some m ->
  uploaded (run_ue p c raises base f) <= m + (f_up f - f_logical f).
Proof.
  intros Hp Hm. destruct (ue_logical_classes p c raises base f m Hp Hm) as [H|(Hf & Hl & Hu & w & E)]; [lia|].
  rewrite E. cbn [uploaded]. rewrite sumN_single. lia.
Qed.

Lemma ue_logical_over_refused_before_upload p c base f m :
  pmode c = PLogical -> ext_cap c = Some m -> fires p c f = true -> m < f_logical f ->
  run_ue p c false base f = UEErrPre.
Proof.
  intros Hp Hm Hf Hlt. unfold run_ue. rewrite (predicted_logical _ _ _ Hp), Hf, Hm, (over_some_true _ _ Hlt). reflexivity.
Qed.

(* ------------------------------------------------------------------ producer loop *)
Definition maxgap (steps : list pstep) : N :=
  fold_right (fun s g => N.max (f_up (ps_flush s) - f_logical (ps_flush s)) g) 0 steps.

Lemma prod_guard_false_framed c cum f m :
  pmode c = PFramed -> ext_cap c = Some m -> prod_guard c cum f = false -> cum <= m ->
  cum + sumN (flush_ups Coll c f) <= m.
Proof.
  intros Hp Hm Hg Hc. unfold prod_guard in Hg. rewrite Hm in Hg.
  rewrite (predicted_framed _ _ _ Hp) in Hg. rewrite sumN_flush_ups in *.
  destruct (fires Coll c f) eqn:Ef; [|lia].
  assert (Hon : ext_on c = true).
  { unfold fires in Ef. destruct (ext_on c); [reflexivity|discriminate]. }
  rewrite Hon in Hg. cbn [andb] in Hg.
  destruct (N.eqb_spec (f_up f) 0) as [Hz|Hnz]; [lia|]. cbn [negb andb] in Hg.
  apply N.ltb_ge in Hg. exact Hg.
Qed.

Lemma prod_loop_framed_ups c m : pmode c = PFramed -> ext_cap c = Some m ->
  forall steps pos before last nfl cum ups,
  cum = sumN ups -> cum <= m ->
  sumN (t_ups (prod_loop c steps pos before last nfl cum ups)) <= m.
Proof.
  intros Hp Hm. induction steps as [|s rest IH]; intros pos before last nfl cum ups Hc Hle; cbn [prod_loop].
  - cbn [t_ups]. lia.
  - destruct (ps_raise s); [cbn [t_ups]; lia|].
    destruct (prod_guard c cum (ps_flush s)) eqn:Eg; [cbn [t_ups]; lia|].
    pose proof (prod_guard_false_framed _ _ _ _ Hp Hm Eg Hle) as Hn.
    assert (Hs : sumN (ups ++ flush_ups Coll c (ps_flush s)) = cum + sumN (flush_ups Coll c (ps_flush s))).
    { rewrite sumN_app. lia. }
    destruct (ps_fin s); [cbn [t_ups]; lia|].
    destruct (should_continue c (pos + flush_body Coll c (ps_flush s))); [|cbn [t_ups]; lia].
    apply IH; [symmetry; exact Hs|exact Hn].
Qed.

Lemma prod_turn_framed_ups c pre steps m :
  pmode c = PFramed -> ext_cap c = Some m -> sumN (t_ups (prod_turn c pre steps)) <= m.
Proof.
  intros Hp Hm. unfold prod_turn. apply (prod_loop_framed_ups c m Hp Hm); [reflexivity|lia].
Qed.

Lemma maxgap_cons s rest : maxgap (s :: rest) = N.max (f_up (ps_flush s) - f_logical (ps_flush s)) (maxgap rest).
Proof. reflexivity. Qed.

Lemma prod_guard_false_logical c cum f m :
  pmode c = PLogical -> ext_cap c = Some m -> prod_guard c cum f = false -> 0 < f_logical f ->
  cum + sumN (flush_ups Coll c f) <= N.max (cum) (m + (f_up f - f_logical f)).
Proof.
  intros Hp Hm Hg Hpos. unfold prod_guard in Hg. rewrite Hm in Hg.
  rewrite (predicted_logical _ _ _ Hp) in Hg. rewrite sumN_flush_ups.
  destruct (fires Coll c f) eqn:Ef; [|lia].
  assert (Hon : ext_on c = true).
  { unfold fires in Ef. destruct (ext_on c); [reflexivity|discriminate]. }
  rewrite Hon in Hg. cbn [andb] in Hg.
  destruct (N.eqb_spec (f_logical f) 0) as [Hz|Hnz]; [lia|]. cbn [negb andb] in Hg.
  apply N.ltb_ge in Hg. lia.
Qed.

Lemma prod_loop_logical_ups c m : pmode c = PLogical -> ext_cap c = Some m ->
  forall steps G pos before last nfl cum ups,
  Forall (fun s => 0 < f_logical (ps_flush s)) steps -> maxgap steps <= G ->
  cum = sumN ups -> cum <= m + G ->
  sumN (t_ups (prod_loop c steps pos before last nfl cum ups)) <= m + G.
Proof.
  intros Hp Hm. induction steps as [|s rest IH]; intros G pos before last nfl cum ups HF HG Hc Hle; cbn [prod_loop].
  - cbn [t_ups]. lia.
  - inversion HF as [|s' r' Hpos HF']; subst s' r'. rewrite maxgap_cons in HG.
    destruct (ps_raise s); [cbn [t_ups]; lia|].
    destruct (prod_guard c cum (ps_flush s)) eqn:Eg; [cbn [t_ups]; lia|].
    pose proof (prod_guard_false_logical _ _ _ _ Hp Hm Eg Hpos) as Hn.
    assert (Hs : sumN (ups ++ flush_ups Coll c (ps_flush s)) = cum + sumN (flush_ups Coll c (ps_flush s))).
    { rewrite sumN_app. lia. }
    assert (Hb : cum + sumN (flush_ups Coll c (ps_flush s)) <= m + G) by lia.
    destruct (ps_fin s); [cbn [t_ups]; lia|].
    destruct (should_continue c (pos + flush_body Coll c (ps_flush s))); [|cbn [t_ups]; lia].
    apply IH; [exact HF'|lia|symmetry; exact Hs|exact Hb].
Qed.

Lemma prod_turn_logical_ups c pre steps m :
  pmode c = PLogical -> ext_cap c = Some m -> Forall (fun s => 0 < f_logical (ps_flush s)) steps ->
  sumN (t_ups (prod_turn c pre steps)) <= m + maxgap steps.
Proof.
  intros Hp Hm HF. unfold prod_turn.
  apply (prod_loop_logical_ups c m Hp Hm steps (maxgap steps)); [exact HF|lia|reflexivity|lia].
Qed.

(* no external cap refusal without an external cap; no upload without storage *)
Lemma prod_loop_wire c m : wire_cap c = Some m ->
  forall steps pre pos before last nfl cum ups,
  pos = before + last -> (before = pre \/ before < m) -> (pos = pre \/ pos < m) ->
  let t := prod_loop c steps pos before last nfl cum ups in
  t_pos t = t_before t + t_last t /\ (t_before t = pre \/ t_before t < m).
Proof.
  intros Hm. induction steps as [|s rest IH]; intros pre pos before last nfl cum ups Hp Hb Hq; cbn [prod_loop].
  - cbn. split; assumption.
  - destruct (ps_raise s); [cbn; split; assumption|].
    destruct (prod_guard c cum (ps_flush s)); [cbn; split; assumption|].
    destruct (ps_fin s); [cbn; split; [reflexivity|assumption]|].
    destruct (should_continue c (pos + flush_body Coll c (ps_flush s))) eqn:Ec; [|cbn; split; [reflexivity|assumption]].
    apply IH; [reflexivity|assumption|].
    right. unfold should_continue in Ec. rewrite Hm in Ec. now apply N.ltb_lt.
Qed.

Lemma prod_turn_overshoot c pre steps m : wire_cap c = Some m ->
  let t := prod_turn c pre steps in
  t_pos t = t_before t + t_last t /\ (t_before t = pre \/ t_before t < m).
Proof.
  intros Hm. unfold prod_turn. apply (prod_loop_wire c m Hm); [lia|now left|now left].
Qed.

(* without a wire cap every turn runs exactly one tick (one flush per response) *)
Lemma prod_turn_nocap_one_tick c pre s rest : wire_cap c = None -> ps_raise s = false ->
  prod_guard c 0 (ps_flush s) = false -> ps_fin s = false ->
  t_end (prod_turn c pre (s :: rest)) = PCont /\ t_rest (prod_turn c pre (s :: rest)) = rest.
Proof.
  intros Hw Hr Hg Hf. unfold prod_turn. cbn [prod_loop]. rewrite Hr, Hg, Hf.
  unfold should_continue. rewrite Hw. cbn. split; reflexivity.
Qed.
