(* Lemmas about model/M_Gates.v (property C24).  Everything is by case analysis: the programs are
   concrete, the inputs are finite sums except identities / claims, which are carried along untouched. *)
From Coq Require Import List NArith Bool Lia.
From VGI Require Import M_Gates.
Import ListNotations.
Open Scope N_scope.

(* ------------------------------------------------------------------ specification vocabulary *)
(* claims with the gate's own record removed *)
Definition strip_gate (cl : list (ckey * cval)) : list (ckey * cval) :=
  filter (fun kv => negb (is_kgate (fst kv))) cl.

(* two contexts a method cannot tell apart except by the gate's record under gate.claims_key *)
Definition same_identity (c c0 : actx) : Prop :=
  a_domain c = a_domain c0 /\ a_auth c = a_auth c0 /\ a_principal c = a_principal c0 /\
  strip_gate (a_claims c) = strip_gate (a_claims c0).

Definition same_res (x y : res) : Prop :=
  match x, y with
  | ROk c, ROk c0 => same_identity c c0
  | RExn e, RExn e0 => e = e0
  | RNone, RNone => True
  | _, _ => False
  end.

(* the reason the gate records / raises for a header that does not verify *)
Definition hdr_reason (h : hdr) : preason :=
  match h with
  | HAbsent => RNoProof
  | HEmpty | HMulti => RMalformed
  | HToken (Some r) => r
  | HToken None => RNoProof
  end.

Definition inner_called (id : N) (log : list ev) : Prop := In (EvInner id) log.
Definition no_inner_called (log : list ev) : Prop := forall id, ~ In (EvInner id) log.

(* ------------------------------------------------------------------ closed forms *)
Lemma proof_gate_eq : forall m h,
  proof_gate m h =
  if hdr_verifies h then GClaims ok_claims
  else if required m then GRaise (XProof (hdr_reason h))
       else GClaims (fail_claims (hdr_reason h)).
Proof. intros m [| | |[r|]]; reflexivity. Qed.

Definition gate_only_ctx (gc : gclaims) : actx :=
  match gc_verified gc with
  | VFalse => {| a_domain := DNone; a_auth := false; a_principal := PNone; a_claims := [(KGate, CVGate gc)] |}
  | _ => {| a_domain := DGate; a_auth := true; a_principal := principal_of gc; a_claims := [(KGate, CVGate gc)] |}
  end.

Definition merged_ctx (c : actx) (gc : gclaims) : actx :=
  {| a_domain := a_domain c; a_auth := a_auth c; a_principal := a_principal c;
     a_claims := set_gate_claims (a_claims c) gc |}.

Lemma require_all_eq : forall g inner,
  require_all g inner =
  match g with
  | GRaise e => (RExn e, [EvGate])
  | GClaims gc =>
      match inner with
      | None => (ROk (gate_only_ctx gc), [EvGate])
      | Some (id, ICtx c) => (ROk (merged_ctx c gc), [EvGate; EvInner id])
      | Some (id, IRaise e) => (RExn e, [EvGate; EvInner id])
      end
  end.
Proof.
  intros [gc|e] [[id [c|e']]|]; try reflexivity.
  destruct gc as [[] px k r]; reflexivity.
Qed.

Lemma strip_set_gate : forall cl gc, strip_gate (set_gate_claims cl gc) = strip_gate cl.
Proof.
  intros cl gc. unfold strip_gate, set_gate_claims.
  rewrite filter_app. simpl. rewrite app_nil_r.
  induction cl as [|kv r IH]; simpl; [reflexivity|].
  destruct (negb (is_kgate (fst kv))) eqn:E; simpl; [rewrite E, IH|]; auto.
Qed.

Lemma merged_same_identity : forall c gc, same_identity (merged_ctx c gc) c.
Proof. intros c gc. unfold same_identity, merged_ctx; simpl. repeat split. apply strip_set_gate. Qed.

(* ------------------------------------------------------------------ the gate *)
Lemma gate_raise_only_required_unproven : forall m h e,
  proof_gate m h = GRaise e -> m = MRequire /\ hdr_verifies h = false /\ e = XProof (hdr_reason h).
Proof.
  intros m h e H. rewrite proof_gate_eq in H.
  destruct (hdr_verifies h); [discriminate|].
  destruct m; simpl in H; try discriminate. inversion H; auto.
Qed.

Lemma gate_claims_verified_iff : forall m h gc,
  proof_gate m h = GClaims gc -> (gc_verified gc = VTrue <-> hdr_verifies h = true) /\ gc_verified gc <> VOther.
Proof.
  intros m h gc H. rewrite proof_gate_eq in H.
  destruct (hdr_verifies h).
  - inversion H; subst; simpl. split; [tauto | discriminate].
  - destruct (required m); [discriminate|]. inversion H; subst; simpl.
    split; [split; discriminate | discriminate].
Qed.

Lemma gate_failure_not_swallowed : forall r, swallowed_with chain_swallows (XProof r) = false.
Proof. reflexivity. Qed.

(* ------------------------------------------------------------------ require_all, any gate *)
Lemma ra_authenticated_only_if : forall g inner c log,
  require_all g inner = (ROk c, log) -> a_auth c = true ->
  match inner with
  | None => exists gc, g = GClaims gc /\ gc_verified gc <> VFalse
  | Some (id, o) => exists c0, o = ICtx c0 /\ a_auth c0 = true /\ a_domain c = a_domain c0 /\
                               a_principal c = a_principal c0 /\ inner_called id log
  end.
Proof.
  intros g inner c log H Ha. rewrite require_all_eq in H.
  destruct g as [gc|e]; [|discriminate].
  destruct inner as [[id [c0|e]]|].
  - inversion H; subst. exists c0. simpl in *. unfold inner_called. simpl. auto 8.
  - discriminate.
  - inversion H; subst. exists gc. split; [reflexivity|].
    intro Hv. unfold gate_only_ctx in Ha. rewrite Hv in Ha. discriminate.
Qed.

Lemma ra_gate_failure_stops : forall e inner, require_all (GRaise e) inner = (RExn e, [EvGate]).
Proof. intros e inner. rewrite require_all_eq. reflexivity. Qed.

(* ------------------------------------------------------------------ require_all over the proof gate *)
Lemma ra_proof_authenticated_only_if : forall m h inner c log,
  ra_proof m h inner = (ROk c, log) -> a_auth c = true ->
  match inner with
  | None => hdr_verifies h = true
  | Some (id, o) => exists c0, o = ICtx c0 /\ a_auth c0 = true /\ a_domain c = a_domain c0 /\
                               a_principal c = a_principal c0 /\ inner_called id log
  end.
Proof.
  intros m h inner c log H Ha. unfold ra_proof in H.
  pose proof (ra_authenticated_only_if _ _ _ _ H Ha) as G.
  destruct inner as [[id o]|]; [exact G|].
  destruct G as [gc [Hg Hv]].
  destruct (gate_claims_verified_iff _ _ _ Hg) as [Hiff Hno].
  apply Hiff. destruct (gc_verified gc); congruence.
Qed.

Lemma ra_allow_unproven : forall h inner,
  hdr_verifies h = false ->
  same_res (fst (ra_proof MAllow h inner)) (fst (ungated inner)) /\
  snd (ra_proof MAllow h inner) = EvGate :: snd (ungated inner) /\
  (inner = None ->
   ra_proof MAllow h None =
   (ROk {| a_domain := DNone; a_auth := false; a_principal := PNone;
           a_claims := [(KGate, CVGate (fail_claims (hdr_reason h)))] |}, [EvGate])).
Proof.
  intros h inner Hh. unfold ra_proof. rewrite proof_gate_eq, Hh. simpl required. cbv iota.
  rewrite !require_all_eq.
  destruct inner as [[id [c0|e]]|]; simpl; repeat split; try reflexivity.
  apply strip_set_gate.
Qed.

Lemma ra_require_unproven : forall h inner,
  hdr_verifies h = false ->
  ra_proof MRequire h inner = (RExn (XProof (hdr_reason h)), [EvGate]).
Proof.
  intros h inner Hh. unfold ra_proof. rewrite proof_gate_eq, Hh. simpl. apply ra_gate_failure_stops.
Qed.

Lemma ra_proven : forall m h inner,
  hdr_verifies h = true ->
  match inner with
  | None => ra_proof m h None =
            (ROk {| a_domain := DGate; a_auth := true; a_principal := PLabel;
                    a_claims := [(KGate, CVGate ok_claims)] |}, [EvGate])
  | Some a => same_res (fst (ra_proof m h (Some a))) (fst (ungated (Some a))) /\
              snd (ra_proof m h (Some a)) = EvGate :: snd (ungated (Some a))
  end.
Proof.
  intros m h inner Hh. unfold ra_proof. rewrite proof_gate_eq, Hh. rewrite !require_all_eq.
  destruct inner as [[id [c0|e]]|]; simpl; repeat split; try reflexivity.
  apply strip_set_gate.
Qed.

(* ------------------------------------------------------------------ chain_authenticate *)
Lemma existsb_memgate_In : forall ms, existsb is_memgate ms = true <-> In MemGate ms.
Proof.
  intros ms. rewrite existsb_exists. split.
  - intros [x [Hin Hx]]. destruct x; [exact Hin | discriminate].
  - intros Hin. exists MemGate. auto.
Qed.

Lemma chain_ctor_gate : forall ms, In MemGate ms -> chain_ctor ms = Some XType.
Proof.
  intros ms Hin. unfold chain_ctor, chain_guards. simpl.
  destruct ms as [|x r]; [destruct Hin|].
  apply existsb_memgate_In in Hin. rewrite Hin. reflexivity.
Qed.

Lemma chain_ctor_iff : forall ms, chain_ctor ms = None <-> ms <> [] /\ ~ In MemGate ms.
Proof.
  intros ms. unfold chain_ctor, chain_guards. simpl.
  destruct ms as [|x r].
  - split; [discriminate | intros [H _]; congruence].
  - destruct (existsb is_memgate (x :: r)) eqn:E.
    + apply existsb_memgate_In in E. split; [discriminate | intros [_ H]; contradiction].
    + split; [|reflexivity]. intros _. split; [discriminate|].
      intro Hin. apply existsb_memgate_In in Hin. congruence.
Qed.

(* a gated member that fails anywhere in a chain ends the chain: no later member is called *)
Lemma chain_go_gate_failure : forall pre r rest codes log,
  (forall x, In x pre -> exists e, fst x = RExn e /\ swallowed_with chain_swallows e = true) ->
  chain_go chain_swallows (pre ++ (RExn (XProof r), [EvGate]) :: rest) codes log =
  (RExn (XProof r), log ++ flat_map snd pre ++ [EvGate]).
Proof.
  induction pre as [|[x l] pre IH]; intros r rest codes log Hpre.
  - reflexivity.
  - destruct (Hpre (x, l) (or_introl eq_refl)) as [e [Hx Hs]]. simpl in Hx. subst x.
    cbn [app chain_go]. rewrite Hs. rewrite IH; [|intros y Hy; apply Hpre; right; exact Hy].
    cbn [flat_map snd]. rewrite <- !app_assoc. reflexivity.
Qed.

Lemma chain_required_gate_anywhere : forall pre h a rest codes log,
  hdr_verifies h = false ->
  (forall x, In x pre -> exists e, fst x = RExn e /\ swallowed_with chain_swallows e = true) ->
  chain_go chain_swallows (pre ++ ra_proof MRequire h (Some a) :: rest) codes log =
  (RExn (XProof (hdr_reason h)), log ++ flat_map snd pre ++ [EvGate]).
Proof.
  intros pre h a rest codes log Hh Hpre.
  rewrite (ra_require_unproven h (Some a) Hh). apply chain_go_gate_failure. exact Hpre.
Qed.

(* ------------------------------------------------------------------ histories on one gate: the replay cache *)
Open Scope nat_scope.
Lemma nonce_seen_In : forall n c, nonce_seen n c = true <-> In n c.
Proof.
  intros n c. unfold nonce_seen. rewrite existsb_exists. split.
  - intros [x [Hin Hx]]. apply N.eqb_eq in Hx. subst. exact Hin.
  - intros Hin. exists n. split; [exact Hin | apply N.eqb_refl].
Qed.

(* a refused presentation leaves no trace *)
Lemma hist_step_refused_no_trace : forall cap m c h n,
  hdr_verifies h = false -> hist_step cap m c (h, n) = (proof_gate m h, c).
Proof. intros cap m c h n H. unfold hist_step. simpl. rewrite H. reflexivity. Qed.

(* a replay leaves no trace either, and is answered as `replayed` *)
Lemma hist_step_replay : forall cap m c h n,
  hdr_verifies h = true -> In n c ->
  hist_step cap m c (h, n) = (proof_gate m (HToken (Some RReplayed)), c).
Proof.
  intros cap m c h n H Hin. unfold hist_step, check_and_add. simpl. rewrite H.
  apply nonce_seen_In in Hin. rewrite Hin. reflexivity.
Qed.

Definition verifying (ps : list (hdr * N)) : nat := length (filter (fun p => hdr_verifies (fst p)) ps).

(* a remembered nonce with fewer than cap-1 entries behind it survives any traffic that contains at most
   that many further verifying presentations *)
Lemma hist_run_keeps : forall cap m n ps pre post,
  length post + verifying ps + 1 <= cap ->
  In n (snd (hist_run cap m (pre ++ n :: post) ps)).
Proof.
  intros cap m n ps. induction ps as [|[h k] r IH]; intros pre post Hle.
  - simpl. apply in_or_app. right. left. reflexivity.
  - cbn [hist_run fst snd].
    unfold verifying in Hle. cbn [filter fst] in Hle.
    unfold hist_step, check_and_add. cbn [fst snd].
    destruct (hdr_verifies h) eqn:Hv.
    + cbn [length] in Hle.
      destruct (nonce_seen k (pre ++ n :: post)) eqn:Hs; cbn [fst snd].
      * apply IH. unfold verifying. lia.
      * assert (Hsk : skipn (length (pre ++ n :: post) + 1 - cap) (pre ++ n :: post)
                      = skipn (length (pre ++ n :: post) + 1 - cap) pre ++ n :: post).
        { rewrite skipn_app.
          replace (length (pre ++ n :: post) + 1 - cap - length pre) with 0
            by (rewrite app_length; cbn [length]; lia).
          reflexivity. }
        rewrite Hsk. rewrite <- app_assoc. cbn [app].
        change (n :: post ++ [k]) with (n :: (post ++ [k])).
        apply IH. rewrite app_length. cbn [length]. unfold verifying. lia.
    + cbn [fst snd]. apply IH. unfold verifying. lia.
Qed.

Lemma hist_run_app : forall cap m c ps qs,
  hist_run cap m c (ps ++ qs) =
  (fst (hist_run cap m c ps) ++ fst (hist_run cap m (snd (hist_run cap m c ps)) qs),
   snd (hist_run cap m (snd (hist_run cap m c ps)) qs)).
Proof.
  intros cap m c ps. revert c. induction ps as [|p r IH]; intros c qs.
  - simpl. destruct (hist_run cap m c qs); reflexivity.
  - cbn [app hist_run]. rewrite IH. reflexivity.
Qed.

(* P (nonce n, verifies, not yet seen) is presented and accepted; then any traffic in which at most cap-1
   presentations verify -- refused ones are unlimited and may carry any nonces; then P again: the first answer
   is the accepting one, the last answer is `replayed` *)
Lemma hist_replay_detected : forall cap m c n h1 h2 noise,
  hdr_verifies h1 = true -> hdr_verifies h2 = true -> ~ In n c ->
  verifying noise + 1 <= cap ->
  exists mid c',
    hist_run cap m c ((h1, n) :: noise ++ [(h2, n)]) =
    (proof_gate m (HToken None) :: mid ++ [proof_gate m (HToken (Some RReplayed))], c').
Proof.
  intros cap m c n h1 h2 noise H1 H2 Hfresh Hle.
  assert (Hs : nonce_seen n c = false).
  { destruct (nonce_seen n c) eqn:E; [|reflexivity]. apply nonce_seen_In in E. contradiction. }
  cbn [hist_run]. unfold hist_step at 1 2. cbn [fst snd]. rewrite H1.
  unfold check_and_add. rewrite Hs. cbn [fst snd].
  rewrite hist_run_app. cbn [fst snd].
  set (c1 := skipn (length c + 1 - cap) c ++ [n]).
  assert (Hkeep : In n (snd (hist_run cap m c1 noise))).
  { unfold c1. apply hist_run_keeps. cbn [length]. lia. }
  eexists. eexists. cbn [hist_run]. rewrite (hist_step_replay cap m _ h2 n H2 Hkeep). cbn [fst snd].
  reflexivity.
Qed.

(* "a refused request leaves no trace": deleting the refused presentations from a history changes neither the
   answers to the remaining ones nor the final cache *)
Definition kept (ps : list (hdr * N)) : list (hdr * N) := filter (fun p => hdr_verifies (fst p)) ps.
Fixpoint kept_answers (ps : list (hdr * N)) (gs : list gres) : list gres :=
  match ps, gs with
  | p :: r, g :: t => if hdr_verifies (fst p) then g :: kept_answers r t else kept_answers r t
  | _, _ => []
  end.

Lemma hist_refused_leave_no_trace : forall cap m ps c,
  hist_run cap m c (kept ps) = (kept_answers ps (fst (hist_run cap m c ps)), snd (hist_run cap m c ps)).
Proof.
  intros cap m ps. induction ps as [|[h n] r IH]; intros c.
  - reflexivity.
  - cbn [kept filter fst]. destruct (hdr_verifies h) eqn:Hv.
    + cbn [hist_run kept_answers fst snd]. rewrite Hv. fold (kept r). rewrite IH. reflexivity.
    + fold (kept r). cbn [hist_run kept_answers fst snd]. rewrite Hv.
      rewrite (hist_step_refused_no_trace cap m c h n Hv). cbn [fst snd]. apply IH.
Qed.
