(* L_WireConn: (1) the connection model's observations ARE M_Wire.run_pipe's (for every program, script, variant);
   (2) after a well-behaved call the connection is clean; (3) composition over call lists; (4) progress. *)
From Coq Require Import List NArith ZArith Bool Lia.
From VGI Require Import Corr M_Wire L_Wire M_WireConn.
Import ListNotations.
Open Scope N_scope.

Local Opaque err_event finish_refused no_data_batch empty_batch proto_exn bad_return_exn missing_header_exn.

(* ------------------------------------------------------------------ (1) same observations as M_Wire *)
Lemma conn_prod_pipe c : forall sts alive n q,
  pipe_prod c alive sts n q = (fst (conn_prod c alive sts n q), sess_of (snd (conn_prod c alive sts n q))).
Proof.
  induction sts as [|x r IH]; intros alive n q.
  - cbn [pipe_prod conn_prod]. destruct (is_zero n); [reflexivity|].
    destruct (if alive then srv_tick true (hd_error []) else ([], true)) as [fs ended].
    destruct (cli_read c (q ++ fs)) as [[es o] r']. destruct o; reflexivity.
  - cbn [pipe_prod conn_prod]. destruct (is_zero n); [reflexivity|].
    destruct (if alive then srv_tick true (hd_error (x :: r)) else ([], true)) as [fs ended].
    destruct (cli_read c (q ++ fs)) as [[es o] r']. destruct o; try reflexivity.
    rewrite (IH (alive && negb ended)%bool (opred n) r').
    destruct (conn_prod c (alive && negb ended) r (opred n) r') as [es' z]. reflexivity.
Qed.

Lemma conn_exch_pipe c : forall n sts alive q,
  pipe_exch c alive sts n q = (fst (conn_exch c alive sts n q), sess_of (snd (conn_exch c alive sts n q))).
Proof.
  induction n as [|n IH]; intros sts alive q; [reflexivity|].
  cbn [pipe_exch conn_exch].
  destruct (if alive then srv_tick false (hd_error sts) else ([], true)) as [fs ended].
  destruct (cli_read c (q ++ fs)) as [[es o] r']. destruct o; try reflexivity.
  rewrite (IH (tl sts) (alive && negb ended)%bool r').
  destruct (conn_exch c (alive && negb ended) (tl sts) n r') as [es' z]. reflexivity.
Qed.

(* what [norm] does, by outcome of the init *)
Lemma norm_ok v sc sp : eff_init v sp (is_producer sc) (has_header sc) = IOk ->
  norm v sc (PStream sp) = PStream sp /\ ires sp = InitOk /\ (has_header sc = true -> exists x, hdr sp = Some x).
Proof.
  intro H. unfold norm. rewrite H. split; [reflexivity|].
  unfold eff_init in H. destruct (ires sp) as [|e|].
  - split; [reflexivity|]. intro Hh. rewrite Hh in H. destruct (hdr sp) as [x|]; [eexists; reflexivity|].
    destruct (checks_stream_result v); discriminate H.
  - discriminate H.
  - destruct (checks_stream_result v); discriminate H.
Qed.

Lemma norm_err v sc sp e : eff_init v sp (is_producer sc) (has_header sc) = IErr e ->
  norm v sc (PStream sp) = PStream {| ilogs := ilogs sp; ires := InitRaise e; hdr := Some 0%Z; steps := steps sp |}.
Proof. unfold norm. intro H. rewrite H. reflexivity. Qed.

Lemma norm_dead v sc sp : eff_init v sp (is_producer sc) (has_header sc) = IDead ->
  norm v sc (PStream sp) = PStream sp /\ srv_init sp (has_header sc) = ([], false).
Proof.
  unfold norm. intro H. rewrite H. split; [reflexivity|].
  unfold eff_init in H. unfold srv_init. destruct (ires sp) as [|e|]; [|discriminate H|reflexivity].
  destruct (has_header sc), (hdr sp); try discriminate H; reflexivity.
Qed.

Lemma srv_init_ok sp h : ires sp = InitOk -> (h = true -> exists x, hdr sp = Some x) -> snd (srv_init sp h) = true.
Proof.
  intros Hi Hh. unfold srv_init. rewrite Hi. destruct h; [|reflexivity].
  destruct (Hh eq_refl) as [x ->]. reflexivity.
Qed.

Lemma cli_drain_eos c x : cli_drain c (FEos :: x) = [].
Proof. reflexivity. Qed.

Lemma pipe_prod_empty_dead c sts n : is_zero n = false -> pipe_prod c false sts n [] = ([EBlocked], Over).
Proof. intro Hn. destruct sts; cbn [pipe_prod]; rewrite Hn; reflexivity. Qed.

Lemma pipe_exch_empty_dead c sts n : n <> O -> pipe_exch c false sts n [] = ([EBlocked], Over).
Proof. intro Hn. destruct n; [congruence|]. reflexivity. Qed.

(* the stream part, stated over the body functions *)
Lemma conn_stream_obs v sp sc producer h c a reads
      (body : bool -> list frame -> list event * sess) (cbody : list frame -> list event * bend) :
  producer = is_producer sc -> h = has_header sc ->
  (forall q, body true q = (fst (cbody q), sess_of (snd (cbody q)))) ->
  (forall e, reads = true -> body false [FErr e; FEos] = ([err_event e], Over)) ->
  (forall q, reads = false -> body false q = ([], Live q false)) ->
  (reads = true -> body false [] = ([EBlocked], Over)) ->
  forall sp', norm v sc (PStream sp) = PStream sp' -> steps sp' = steps sp ->
  (forall al q, body al q = body al q) ->
  fst (conn_stream v sp producer h c a reads cbody) = pipe_stream sp' h c a body.
Proof.
  intros -> -> Hb Herr Hzero Hdead sp' Hn Hsteps _.
  unfold conn_stream, pipe_stream.
  destruct (eff_init v sp (is_producer sc) (has_header sc)) as [|e|] eqn:E.
  - (* init ok *)
    destruct (norm_ok v sc sp E) as [Hn' [Hi Hh]]. rewrite Hn' in Hn. injection Hn as <-.
    pose proof (srv_init_ok sp (has_header sc) Hi Hh) as Ha.
    destruct (srv_init sp (has_header sc)) as [q0 alive]. cbn [fst snd] in *. subst alive.
    destruct (has_header sc).
    + destruct (cli_read c q0) as [[es o] r]. destruct o; try reflexivity.
      rewrite (Hb (skip_eos r)). destruct (cbody (skip_eos r)) as [es' z]. reflexivity.
    + rewrite (Hb q0). destruct (cbody q0) as [es' z]. reflexivity.
  - (* init error / rejection / repaired fault *)
    rewrite (norm_err v sc sp e E) in Hn. injection Hn as <-.
    unfold srv_init. cbn [ires].
    destruct (has_header sc).
    + reflexivity.
    + unfold conn_top. destruct reads.
      * rewrite (Herr e eq_refl). reflexivity.
      * rewrite (Hzero _ eq_refl). destruct a; reflexivity.
  - (* an exception escaped serve() *)
    destruct (norm_dead v sc sp E) as [Hn' Hs]. rewrite Hn' in Hn. injection Hn as <-.
    rewrite Hs. unfold conn_dead.
    destruct (has_header sc); [reflexivity|].
    destruct reads.
    + rewrite (Hdead eq_refl). reflexivity.
    + rewrite (Hzero _ eq_refl). destruct a; reflexivity.
Qed.

Lemma norm_stream v sc sp : exists sp', norm v sc (PStream sp) = PStream sp' /\ steps sp' = steps sp.
Proof.
  unfold norm. destruct (eff_init v sp (is_producer sc) (has_header sc)); eexists; split; reflexivity.
Qed.

Theorem conn_call_obs : forall v p sc, fst (conn_call v p sc) = run_pipe (norm v sc p) sc.
Proof.
  intros v p sc. unfold conn_call, run_pipe.
  destruct p as [u|sp].
  - (* unary program *)
    cbn [norm]. destruct sc as [c|h k a c|h n a c]; try reflexivity.
    unfold conn_unary, unary_reply.
    destruct (cli_read c _) as [[es o] r]. destruct o; destruct (ures_of u); reflexivity.
  - destruct (norm_stream v sc sp) as [sp' [Hn Hst]]. rewrite Hn.
    destruct sc as [c|h k a c|h n a c].
    + reflexivity.
    + fold (iter_lim k a).
      match goal with |- fst (let '(t, c') := ?X in _) = _ => destruct X as [t c'] eqn:EX end.
      cbn [fst]. f_equal.
      change t with (fst (t, c')). rewrite <- EX. rewrite Hst.
      apply (conn_stream_obs v sp (SIter h k a c) true h c a _ (fun alive q => pipe_prod c alive (steps sp) (iter_lim k a) q)); try reflexivity; try exact Hn; try exact Hst.
      * intro q. apply conn_prod_pipe.
      * intros e Hr. apply pipe_prod_initraise. destruct (is_zero (iter_lim k a)); [discriminate Hr|reflexivity].
      * intros q Hr. destruct (is_zero (iter_lim k a)) eqn:Hz; [|discriminate Hr].
        destruct (iter_lim k a) as [[|?]|]; try discriminate Hz. apply pipe_prod_zero.
      * intro Hr. apply pipe_prod_empty_dead. destruct (is_zero (iter_lim k a)); [discriminate Hr|reflexivity].
    + match goal with |- fst (let '(t, c') := ?X in _) = _ => destruct X as [t c'] eqn:EX end.
      cbn [fst]. f_equal.
      change t with (fst (t, c')). rewrite <- EX. rewrite Hst.
      apply (conn_stream_obs v sp (SExch h n a c) false h c a _ (fun alive q => pipe_exch c alive (steps sp) n q)); try reflexivity; try exact Hn; try exact Hst.
      * intro q. apply conn_exch_pipe.
      * intros e Hr. apply pipe_exch_initraise. destruct n; [discriminate Hr|congruence].
      * intros q Hr. destruct n; [reflexivity|discriminate Hr].
      * intro Hr. apply pipe_exch_empty_dead. destruct n; [discriminate Hr|congruence].
Qed.
