(* L_WireConn: (1) the connection model's observations ARE M_Wire.run_pipe's (for every program, script, variant);
   (2) after a well-behaved call the connection is clean; (3) composition over call lists; (4) progress. *)
From Coq Require Import List NArith ZArith Bool Lia.
From VGI Require Import Corr M_Wire L_Wire M_WireConn.
Import ListNotations.
Open Scope N_scope.

Local Opaque err_event finish_refused no_data_batch empty_batch proto_exn bad_return_exn no_header_exn.

(* ------------------------------------------------------------------ (1) same observations as M_Wire *)
Lemma conn_prod_pipe c : forall sts alive n q,
  pipe_prod c alive sts n q = (fst (conn_prod c alive sts n q), sess_of (snd (conn_prod c alive sts n q))).
Proof.
  induction sts as [|x r IH]; intros alive n q.
  - cbn [pipe_prod conn_prod]. destruct (is_zero n); [reflexivity|].
    destruct (if alive then srv_tick true (hd_error []) else ([], true)) as [fs ended].
    destruct (cli_read c (q ++ fs)) as [[es o] r']. destruct o; reflexivity.
  - cbn [pipe_prod conn_prod]. destruct (is_zero n); [reflexivity|].
    destruct (if alive then srv_tick true (hd_error (x :: r)) else ([], true)) as [fs ended].
    destruct (cli_read c (q ++ fs)) as [[es o] r']. destruct o; try reflexivity.
    rewrite (IH (alive && negb ended)%bool (opred n) r').
    destruct (conn_prod c (alive && negb ended) r (opred n) r') as [es' z]. reflexivity.
Qed.

Lemma conn_exch_pipe c : forall n sts alive q,
  pipe_exch c alive sts n q = (fst (conn_exch c alive sts n q), sess_of (snd (conn_exch c alive sts n q))).
Proof.
  induction n as [|n IH]; intros sts alive q; [reflexivity|].
  cbn [pipe_exch conn_exch].
  destruct (if alive then srv_tick false (hd_error sts) else ([], true)) as [fs ended].
  destruct (cli_read c (q ++ fs)) as [[es o] r']. destruct o; try reflexivity.
  rewrite (IH (tl sts) (alive && negb ended)%bool r').
  destruct (conn_exch c (alive && negb ended) (tl sts) n r') as [es' z]. reflexivity.
Qed.

(* what the init does, by outcome *)
Lemma outcome_none exch sp h : init_outcome exch sp h = None ->
  ires sp = InitOk /\ (h = true -> exists x, hdr sp = Some x).
Proof.
  unfold init_outcome. destruct (ires sp) as [|e|]; try discriminate. intro H. split; [reflexivity|].
  intros ->. destruct (hdr sp) as [x|]; [eexists; reflexivity|discriminate H].
Qed.

Lemma eff_ok v sp pr h : eff_init v sp pr h = IOk -> init_outcome (negb pr) sp h = None.
Proof.
  unfold eff_init. destruct (init_outcome (negb pr) sp h) as [e|]; [|reflexivity].
  destruct (ires sp); try destruct (checks_stream_result v); discriminate.
Qed.

Lemma eff_err v sp pr h e : eff_init v sp pr h = IErr e -> init_outcome (negb pr) sp h = Some e.
Proof.
  unfold eff_init. destruct (init_outcome (negb pr) sp h) as [e'|]; [|discriminate].
  destruct (ires sp); try destruct (checks_stream_result v); intro H; try discriminate H; injection H as ->; reflexivity.
Qed.

Lemma eff_not_dead v sp pr h e : eff_init v sp pr h <> IDead -> init_outcome (negb pr) sp h = Some e -> eff_init v sp pr h = IErr e.
Proof.
  unfold eff_init. intros H E. rewrite E in *. destruct (ires sp); try reflexivity; destruct (checks_stream_result v); try reflexivity; exfalso; apply H; reflexivity.
Qed.

Lemma norm_ok v sc sp : eff_init v sp (is_producer sc) (has_header sc) = IOk ->
  norm v sc (PStream sp) = PStream sp /\ ires sp = InitOk /\ (has_header sc = true -> exists x, hdr sp = Some x).
Proof.
  intro H. unfold norm. rewrite H. split; [reflexivity|]. exact (outcome_none _ _ _ (eff_ok _ _ _ _ H)).
Qed.

Lemma norm_err v sc sp e : eff_init v sp (is_producer sc) (has_header sc) = IErr e ->
  norm v sc (PStream sp) = PStream {| ilogs := ilogs sp; ires := InitRaise e; hdr := Some 0%Z; steps := steps sp |}.
Proof. unfold norm. intro H. rewrite H. reflexivity. Qed.

Lemma cli_drain_eos c x : cli_drain c (FEos :: x) = [].
Proof. reflexivity. Qed.

Lemma pipe_prod_empty_dead c sts n : is_zero n = false -> pipe_prod c false sts n [] = ([EBlocked], Over).
Proof. intro Hn. destruct sts; cbn [pipe_prod]; rewrite Hn; reflexivity. Qed.

Lemma pipe_exch_empty_dead c sts n : n <> O -> pipe_exch c false sts n [] = ([EBlocked], Over).
Proof. intro Hn. destruct n; [congruence|]. reflexivity. Qed.

(* the stream part, stated over the body functions: unless a fault escapes serve() (a source without the guards), the
   connection model observes what M_Wire's socket model observes *)
Lemma conn_stream_obs v sp producer h c a reads
      (body : bool -> list frame -> list event * sess) (cbody : list frame -> list event * bend) :
  eff_init v sp producer h <> IDead ->
  (forall q, body true q = (fst (cbody q), sess_of (snd (cbody q)))) ->
  (forall e, reads = true -> body false [FErr e; FEos] = ([err_event e], Over)) ->
  (forall q, reads = false -> body false q = ([], Live q false)) ->
  fst (conn_stream v sp producer h c a reads cbody) = pipe_stream_for (negb producer) sp h c a body.
Proof.
  intros Hlive Hb Herr Hzero.
  unfold conn_stream, pipe_stream_for, srv_init_for.
  destruct (init_outcome (negb producer) sp h) as [e|] eqn:E.
  - (* init error / rejection / answered fault *)
    rewrite (eff_not_dead v sp producer h e Hlive E).
    destruct h.
    + reflexivity.
    + unfold conn_top. destruct reads.
      * rewrite (Herr e eq_refl). reflexivity.
      * rewrite (Hzero _ eq_refl). destruct a; reflexivity.
  - (* init ok *)
    assert (Ho : eff_init v sp producer h = IOk) by (unfold eff_init; rewrite E; reflexivity).
    rewrite Ho. destruct (outcome_none _ _ _ E) as [Hi Hh].
    destruct h.
    + destruct (Hh eq_refl) as [x Hx]. rewrite Hx. cbn [fst].
      destruct (cli_read c (map FLog (ilogs sp) ++ [FHdr x; FEos])) as [[es o] r]. destruct o; try reflexivity.
      rewrite (Hb (skip_eos r)). destruct (cbody (skip_eos r)) as [es' z]. reflexivity.
    + cbn [fst]. rewrite (Hb (map FLog (ilogs sp))). destruct (cbody (map FLog (ilogs sp))) as [es' z]. reflexivity.
Qed.

Theorem conn_call_obs : forall v p sc, uncaught_fault v p sc = false -> fst (conn_call v p sc) = run_pipe p sc.
Proof.
  intros v p sc Hu. unfold conn_call, run_pipe.
  destruct p as [u|sp].
  - destruct sc as [c|h k a c|h n a c]; try reflexivity.
    unfold conn_unary, unary_reply.
    destruct (cli_read c _) as [[es o] r]. destruct o; destruct (ures_of u); reflexivity.
  - destruct sc as [c|h k a c|h n a c].
    + reflexivity.
    + fold (iter_lim k a).
      match goal with |- fst (let '(t, c') := ?X in _) = _ => destruct X as [t c'] eqn:EX end.
      cbn [fst]. f_equal. change t with (fst (t, c')). rewrite <- EX.
      change false with (negb true).
      apply (conn_stream_obs v sp true h c a _ (fun alive q => pipe_prod c alive (steps sp) (iter_lim k a) q)).
      * cbn in Hu. intro E. rewrite E in Hu. discriminate Hu.
      * intro q. apply conn_prod_pipe.
      * intros e Hr. apply pipe_prod_initraise. destruct (is_zero (iter_lim k a)); [discriminate Hr|reflexivity].
      * intros q Hr. destruct (is_zero (iter_lim k a)) eqn:Hz; [|discriminate Hr].
        destruct (iter_lim k a) as [[|?]|]; try discriminate Hz. apply pipe_prod_zero.
    + match goal with |- fst (let '(t, c') := ?X in _) = _ => destruct X as [t c'] eqn:EX end.
      cbn [fst]. f_equal. change t with (fst (t, c')). rewrite <- EX.
      change true with (negb false) at 1.
      apply (conn_stream_obs v sp false h c a _ (fun alive q => pipe_exch c alive (steps sp) n q)).
      * cbn in Hu. intro E. rewrite E in Hu. discriminate Hu.
      * intro q. apply conn_exch_pipe.
      * intros e Hr. apply pipe_exch_initraise. destruct n; [discriminate Hr|congruence].
      * intros q Hr. destruct n; [reflexivity|discriminate Hr].
Qed.

Lemma checks_no_uncaught v p sc : checks_stream_result v = true -> uncaught_fault v p sc = false.
Proof.
  intro Hc. destruct p as [u|sp]; destruct sc as [c|h k a c|h n a c]; try reflexivity; cbn; unfold eff_init;
    destruct (init_outcome _ sp h); try reflexivity; destruct (ires sp); rewrite ?Hc; reflexivity.
Qed.

(* writing an answered fault as the init error it is answered with does not change the observation *)
Lemma run_pipe_norm v p sc : run_pipe (norm v sc p) sc = run_pipe p sc.
Proof.
  destruct p as [u|sp]; [reflexivity|]. unfold norm.
  destruct (eff_init v sp (is_producer sc) (has_header sc)) as [|e|] eqn:E; try reflexivity.
  apply eff_err in E. unfold run_pipe. f_equal.
  destruct sc as [c|h k a c|h n a c]; try reflexivity; cbn [is_producer has_header negb] in E;
    unfold pipe_stream_for, srv_init_for; rewrite E; reflexivity.
Qed.

(* ------------------------------------------------------------------ (2) clean after a well-behaved call *)
Lemma skip_eos_tail ls x : (match x with FEos => False | _ => True end) -> skip_eos (map FLog ls ++ [x; FEos]) = [].
Proof. intro Hx. induction ls as [|m r IH]; [destruct x; try reflexivity; contradiction|exact IH]. Qed.

Definition reply_item (u : unary_prog) : frame :=
  match ures_of u with UOk v => FData {| rows := 1; tag := Z.to_N v; meta := [] |} | URaise e => FErr e end.

Lemma reply_item_not_eos u : match reply_item u with FEos => False | _ => True end.
Proof. unfold reply_item. destruct (ures_of u); exact I. Qed.

Lemma unary_tail c u :
  let '(es, o, r) := cli_read c (unary_reply u) in
  skip_eos r = [] /\ runs_dry c (unary_reply u) = false /\
  (c = CbRecord -> match o with RdData _ | RdFail _ => True | _ => False end).
Proof.
  unfold unary_reply. fold (reply_item u). pose proof (reply_item_not_eos u) as Hx.
  induction (ulogs u) as [|m ls IH].
  - cbn [map app]. unfold reply_item in *. destruct (ures_of u); cbn; repeat split; reflexivity.
  - cbn [map app cli_read runs_dry]. destruct (log_event c m) as [e go] eqn:E. cbn [snd]. destruct go.
    + destruct (cli_read c (map FLog ls ++ [reply_item u; FEos])) as [[es o] r]. exact IH.
    + assert (Hs : skip_eos (map FLog ls ++ [reply_item u; FEos]) = []) by (apply skip_eos_tail; exact Hx).
      destruct (lvl m) eqn:L; (split; [exact Hs|split; [reflexivity|]]); intros ->; try exact I;
        unfold log_event in E; rewrite L in E; discriminate E.
Qed.

Lemma conn_unary_clean v u c : (unary_drains_any v || match c with CbRecord => true | CbRaise => false end)%bool = true ->
  clean (snd (conn_unary v u c)) = true.
Proof.
  intro H. unfold conn_unary. pose proof (unary_tail c u) as T.
  destruct (cli_read c (unary_reply u)) as [[es o] r]. destruct T as [Hs [Hd Hrec]].
  destruct o; cbn [snd]; try (rewrite Hs; reflexivity);
    (destruct (unary_drains_any v); [rewrite Hs, Hd; reflexivity|]);
    (destruct c; [exfalso; exact (Hrec eq_refl)|discriminate H]).
Qed.

Lemma drain_rest_quiet ls q : quiet ls = true -> drain_rest CbRecord (map FLog ls ++ q) = drain_rest CbRecord q.
Proof.
  induction ls as [|m r IH]; intro H; [reflexivity|].
  apply quiet_cons in H as [Hm Hr]. cbn [map app drain_rest]. unfold is_exc in Hm.
  destruct (lvl m); try discriminate Hm; exact (IH Hr).
Qed.

Lemma drain_dry_quiet ls q : quiet ls = true -> drain_dry CbRecord (map FLog ls ++ q) = drain_dry CbRecord q.
Proof.
  induction ls as [|m r IH]; intro H; [reflexivity|].
  apply quiet_cons in H as [Hm Hr]. cbn [map app drain_dry]. unfold is_exc in Hm.
  destruct (lvl m); try discriminate Hm; exact (IH Hr).
Qed.

Lemma closed_conn_quiet ls : quiet ls = true -> clean (closed_conn CbRecord (map FLog ls) true) = true.
Proof.
  intro H. unfold closed_conn. rewrite (drain_rest_quiet ls [FEos] H), (drain_dry_quiet ls [FEos] H). reflexivity.
Qed.

Definition may_stop (n : option nat) (a : after) : Prop := n = None \/ a = AClose \/ a = ACancel.
Lemma may_stop_pred n a : may_stop n a -> may_stop (opred n) a.
Proof. intros [->|H]; [left; reflexivity|right; exact H]. Qed.

Lemma conn_end_live_quiet a n ls : may_stop n a -> is_zero n = true -> quiet ls = true ->
  clean (conn_end CbRecord a (BLive (map FLog ls) true)) = true.
Proof.
  intros [->|[->| ->]] Hz Hq; [discriminate Hz| |]; cbn [conn_end]; apply closed_conn_quiet; exact Hq.
Qed.

Lemma conn_prod_ended a sts n : may_stop n a ->
  clean (conn_end CbRecord a (snd (conn_prod CbRecord false sts n [FEos]))) = true.
Proof.
  intro Hn.
  assert (G : conn_prod CbRecord false sts n [FEos] = if is_zero n then ([], BLive [FEos] false) else ([EDone], BEos [] false))
    by (destruct sts; destruct n as [[|k]|]; reflexivity).
  rewrite G. destruct (is_zero n) eqn:Hz; [|reflexivity].
  destruct Hn as [->|[->| ->]]; [discriminate Hz| |]; reflexivity.
Qed.

Lemma conn_prod_clean a : forall sts n l0,
  quiet l0 = true -> steps_quiet sts = true -> may_stop n a ->
  clean (conn_end CbRecord a (snd (conn_prod CbRecord true sts n (map FLog l0)))) = true.
Proof.
  induction sts as [|x r IH]; intros n l0 Hl0 Hq Hn.
  - cbn [conn_prod]. destruct (is_zero n) eqn:Hz; [exact (conn_end_live_quiet a n l0 Hn Hz Hl0)|].
    cbn [hd_error srv_tick exec_step app].
    rewrite (cli_read_logs l0 [FEos] Hl0). cbn. reflexivity.
  - unfold steps_quiet in Hq. simpl in Hq. apply andb_true_iff in Hq as [Hx Hr].
    cbn [conn_prod]. destruct (is_zero n) eqn:Hz; [exact (conn_end_live_quiet a n l0 Hn Hz Hl0)|].
    cbn [hd_error]. unfold srv_tick. rewrite (exec_prod x).
    destruct (sraise x) as [e|].
    + rewrite (cli_read_logs l0 _ Hl0). cbn. reflexivity.
    + destruct (fin x) eqn:Hf.
      * destruct (emit x) as [b|]; cbn [data_frames].
        -- rewrite <- ?app_assoc. rewrite (cli_read_logs l0 _ Hl0).
           rewrite (cli_read_logs (slogs x) _ Hx). cbn [app cli_read]. cbn [andb negb].
           pose proof (conn_prod_ended a r (opred n) (may_stop_pred n a Hn)) as E.
           destruct (conn_prod CbRecord false r (opred n) [FEos]) as [es' z]. exact E.
        -- rewrite app_nil_r. rewrite <- ?app_assoc. rewrite (cli_read_logs l0 _ Hl0).
           rewrite (cli_read_logs (slogs x) _ Hx). cbn. reflexivity.
      * destruct (emit x) as [b|].
        -- rewrite (cli_read_logs l0 _ Hl0).
           rewrite (cli_read_logs (slogs x) _ Hx). cbn [app cli_read]. cbn [andb negb].
           specialize (IH (opred n) [] eq_refl Hr (may_stop_pred n a Hn)). cbn [map] in IH.
           destruct (conn_prod CbRecord true r (opred n) []) as [es' z]. exact IH.
        -- rewrite (cli_read_logs l0 _ Hl0). cbn. reflexivity.
Qed.

Lemma conn_exch_clean a : (a = AClose \/ a = ACancel) -> forall n sts l0,
  quiet l0 = true -> steps_quiet sts = true ->
  clean (conn_end CbRecord a (snd (conn_exch CbRecord true sts n (map FLog l0)))) = true.
Proof.
  intro Ha. induction n as [|n IH]; intros sts l0 Hl0 Hq.
  - cbn [conn_exch snd]. destruct Ha as [->| ->]; cbn [conn_end]; apply closed_conn_quiet; exact Hl0.
  - destruct (hd_quiet sts Hq) as [Hh Ht].
    cbn [conn_exch]. unfold srv_tick.
    pose proof (exec_exch (hd_error sts)) as He.
    destruct (exec_step false (hd_error sts)) as [fs fl|e].
    + destruct He as [-> ->]. { destruct (hd_error sts); [unfold steps_quiet; simpl; unfold step_logs in Hh; rewrite Hh; reflexivity|reflexivity]. }
      rewrite (cli_read_logs l0 _ Hl0). rewrite (cli_read_logs _ _ Hh). cbn [app cli_read andb negb].
      specialize (IH (tl sts) [] eq_refl Ht). cbn [map] in IH.
      destruct (conn_exch CbRecord true (tl sts) n []) as [es' z]. exact IH.
    + rewrite (cli_read_logs l0 _ Hl0). cbn. destruct Ha as [->| ->]; reflexivity.
Qed.

Lemma snd_cut_pair (X : list event * conn) : snd (let '(t, c') := X in (cut t, c')) = snd X.
Proof. destruct X; reflexivity. Qed.

Lemma conn_stream_clean v sp producer h a reads (cbody : list frame -> list event * bend) :
  quiet (ilogs sp) = true ->
  (forall l0, quiet l0 = true -> clean (conn_end CbRecord a (snd (cbody (map FLog l0)))) = true) ->
  (h = false -> eff_init v sp producer h = IOk) ->
  eff_init v sp producer h <> IDead ->
  (reads = true \/ a = AClose \/ a = ACancel) ->
  clean (snd (conn_stream v sp producer h CbRecord a reads cbody)) = true.
Proof.
  intros Hil Hbody Hless Hdead Hra. unfold conn_stream.
  destruct (eff_init v sp producer h) as [|e|] eqn:E.
  - pose proof (eff_ok _ _ _ _ E) as Eo. destruct (outcome_none _ _ _ Eo) as [Hi Hh].
    unfold srv_init_for. rewrite Eo.
    destruct h.
    + destruct (Hh eq_refl) as [x Hx]. rewrite Hx. cbn [fst].
      rewrite (cli_read_logs (ilogs sp) _ Hil). cbn [cli_read skip_eos].
      pose proof (Hbody [] eq_refl) as B. cbn [map] in B.
      destruct (cbody []) as [es' z]. exact B.
    + cbn [fst]. pose proof (Hbody (ilogs sp) Hil) as B.
      destruct (cbody (map FLog (ilogs sp))) as [es' z]. cbn [snd] in *.
      destruct Hra as [->|[->| ->]]; [exact B|destruct reads; exact B..].
  - destruct h; [reflexivity|]. specialize (Hless eq_refl). discriminate Hless.
  - exfalso. apply Hdead. reflexivity.
Qed.

Theorem conn_clean_after : forall v p sc, wellbehaved v p sc = true -> clean (snd (conn_call v p sc)) = true.
Proof.
  intros v p sc H. unfold conn_call. rewrite snd_cut_pair.
  unfold wellbehaved in H. apply andb_true_iff in H as [Hshape H].
  destruct p as [u|sp]; destruct sc as [c|h k a c|h n a c]; try discriminate Hshape.
  - apply conn_unary_clean. destruct c; exact H.
  - repeat (apply andb_true_iff in H as [H ?]).
    destruct c; try discriminate H.
    match goal with Hq : no_exc_logs _ = true |- _ => cbn in Hq; apply andb_true_iff in Hq as [Hil Hst] end.
    apply conn_stream_clean; try exact Hil.
    + intros l0 Hl0. apply conn_prod_clean; try assumption.
      destruct a; [left; reflexivity|right; left; reflexivity|right; right; reflexivity|discriminate].
    + intros ->. match goal with Hx : negb (headerless_init_failure _ _ _) = true |- _ => cbn in Hx end.
      destruct (eff_init v sp true false); try reflexivity; discriminate.
    + match goal with Hx : negb (uncaught_fault _ _ _) = true |- _ => cbn in Hx end.
      intro E. rewrite E in *. discriminate.
    + destruct a; [left; reflexivity|right; left; reflexivity|right; right; reflexivity|discriminate].
  - repeat (apply andb_true_iff in H as [H ?]).
    destruct c; try discriminate H.
    match goal with Hq : no_exc_logs _ = true |- _ => cbn in Hq; apply andb_true_iff in Hq as [Hil Hst] end.
    apply conn_stream_clean; try exact Hil.
    + intros l0 Hl0. apply conn_exch_clean; try assumption.
      destruct a; try discriminate; [left; reflexivity|right; reflexivity].
    + intros ->. match goal with Hx : negb (headerless_init_failure _ _ _) = true |- _ => cbn in Hx end.
      destruct (eff_init v sp false false); try reflexivity; discriminate.
    + match goal with Hx : negb (uncaught_fault _ _ _) = true |- _ => cbn in Hx end.
      intro E. rewrite E in *. discriminate.
    + destruct a; try discriminate; [right; left; reflexivity|right; right; reflexivity].
Qed.

(* ------------------------------------------------------------------ (3) histories *)
Definition wb (v : variant) (x : prog * script) : Prop := wellbehaved v (fst x) (snd x) = true.
(* its own response: what the call observes on a fresh connection *)
Definition own (x : prog * script) : outcome := Obs (run_pipe (fst x) (snd x)).

Lemma wb_no_uncaught v p sc : wellbehaved v p sc = true -> uncaught_fault v p sc = false.
Proof.
  unfold wellbehaved. intro H. apply andb_true_iff in H as [Hs H].
  destruct p as [u|sp]; destruct sc as [c|h k a c|h n a c]; try reflexivity; try discriminate Hs;
    repeat (apply andb_true_iff in H as [H ?]);
    match goal with Hx : negb (uncaught_fault _ _ _) = true |- _ => apply negb_true_iff in Hx; exact Hx end.
Qed.

Lemma conn_after_seq_dirty v c calls : clean c = false -> conn_after_seq v c calls = c.
Proof. intro H. destruct calls as [|[p sc] r]; [reflexivity|]. cbn [conn_after_seq]. rewrite H. reflexivity. Qed.

Lemma run_seq_app v : forall l1 c l2,
  run_seq v c (l1 ++ l2) = run_seq v c l1 ++ run_seq v (conn_after_seq v c l1) l2.
Proof.
  induction l1 as [|[p sc] r IH]; intros c l2; [reflexivity|].
  cbn [app run_seq conn_after_seq]. destruct (clean c) eqn:Hc.
  - destruct (conn_call v p sc) as [t c'] eqn:E. cbn [snd app]. rewrite (IH c' l2). reflexivity.
  - cbn [app]. rewrite (IH c l2). rewrite (conn_after_seq_dirty v c r Hc). reflexivity.
Qed.

Theorem run_seq_wb v : forall calls c, clean c = true -> Forall (wb v) calls ->
  run_seq v c calls = map own calls /\ clean (conn_after_seq v c calls) = true.
Proof.
  induction calls as [|[p sc] r IH]; intros c Hc Hall; [split; [reflexivity|exact Hc]|].
  inversion Hall as [|x l Hx Hr]; subst. cbn [run_seq conn_after_seq map]. rewrite Hc.
  pose proof (conn_call_obs v p sc (wb_no_uncaught v p sc Hx)) as Ho. pose proof (conn_clean_after v p sc Hx) as Hcl.
  destruct (conn_call v p sc) as [t c'] eqn:E. cbn [fst snd] in *.
  destruct (IH c' Hcl Hr) as [IH1 IH2]. split; [|exact IH2].
  rewrite IH1. unfold own at 2. cbn [fst snd]. rewrite Ho. reflexivity.
Qed.

Theorem next_call_own v : forall hist p sc, Forall (wb v) hist -> uncaught_fault v p sc = false ->
  run_seq v conn0 (hist ++ [(p, sc)]) = map own hist ++ [own (p, sc)].
Proof.
  intros hist p sc Hall Hu. rewrite run_seq_app.
  destruct (run_seq_wb v hist conn0 eq_refl Hall) as [H1 H2]. rewrite H1. f_equal.
  cbn [run_seq]. rewrite H2. pose proof (conn_call_obs v p sc Hu) as Ho.
  destruct (conn_call v p sc) as [t c']. cbn [fst] in Ho. rewrite Ho. reflexivity.
Qed.

(* ------------------------------------------------------------------ (4) progress: no well-behaved call blocks *)
Local Transparent err_event.

Lemma log_event_not_blocked c m : fst (log_event c m) <> EBlocked.
Proof. unfold log_event. destruct (lvl m); destruct c; cbn; discriminate. Qed.

Lemma deliver_no_blocked c : forall ls k, ~ In EBlocked k -> ~ In EBlocked (deliver c ls k).
Proof.
  induction ls as [|m r IH]; intros k Hk; [exact Hk|].
  cbn [deliver]. pose proof (log_event_not_blocked c m) as Hm.
  destruct (log_event c m) as [e go]. cbn [fst] in Hm. destruct go.
  - intros [H|H]; [exact (Hm H)|exact (IH k Hk H)].
  - intros [H|[]]. exact (Hm H).
Qed.

Ltac no_blocked := cbn; intuition discriminate.

Lemma obs_prod_no_blocked c : forall sts n, ~ In EBlocked (obs_prod c sts n).
Proof.
  induction sts as [|x r IH]; intro n.
  - cbn [obs_prod]. destruct (is_zero n); cbn; intuition discriminate.
  - cbn [obs_prod]. destruct (is_zero n); [intros []|].
    destruct (exec_step true (Some x)) as [fs [|]|e].
    + apply deliver_no_blocked. destruct (emit x); [destruct (is_zero (opred n))|]; no_blocked.
    + apply deliver_no_blocked. destruct (emit x); [|intros []].
      intros [H|H]; [discriminate H|exact (IH (opred n) H)].
    + unfold err_event. no_blocked.
Qed.

Lemma obs_exch_no_blocked c : forall n sts, ~ In EBlocked (obs_exch c sts n).
Proof.
  induction n as [|n IH]; intro sts; cbn [obs_exch]; [intros []|].
  destruct (exec_step false (hd_error sts)) as [fs fl|e].
  - apply deliver_no_blocked. intros [H|H]; [discriminate H|exact (IH (tl sts) H)].
  - unfold err_event. no_blocked.
Qed.

Lemma observe_no_blocked p sc : ~ In EBlocked (observe p sc).
Proof.
  unfold observe. destruct p as [u|sp]; destruct sc as [c|h k a c|h n a c]; try (intros []).
  - apply deliver_no_blocked. destruct (ures_of u); unfold err_event; no_blocked.
  - destruct (ires sp); try (unfold err_event; no_blocked); apply deliver_no_blocked;
      intro H; apply in_app_or in H as [H|H]; try exact (obs_prod_no_blocked c _ _ H);
      unfold hdr_events in H; destruct h; try destruct (hdr sp); cbn in H; intuition discriminate.
  - destruct (ires sp); try (unfold err_event; no_blocked); apply deliver_no_blocked;
      intro H; apply in_app_or in H as [H|H]; try exact (obs_exch_no_blocked c _ _ H);
      unfold hdr_events in H; destruct h; try destruct (hdr sp); cbn in H; intuition discriminate.
Qed.

Lemma in_cut (x : event) : forall t, In x (cut t) -> In x t.
Proof.
  induction t as [|e r IH]; [intros []|]. cbn [cut]. destruct (terminal e).
  - intros [H|[]]. left; exact H.
  - intros [H|H]; [left; exact H|right; exact (IH H)].
Qed.

Lemma cli_read_no_blocked c : forall q, runs_dry c q = false ->
  ~ In EBlocked (fst (fst (cli_read c q))) /\ (forall e, snd (fst (cli_read c q)) = RdFail e -> e <> EBlocked).
Proof.
  induction q as [|f r IH]; intro H; [discriminate H|].
  destruct f as [m|b|e|x|t|]; cbn [cli_read runs_dry] in *; try (split; [intros []|intros e' He; try discriminate He]).
  - pose proof (log_event_not_blocked c m) as Hm. destruct (log_event c m) as [e go]. cbn [fst snd] in *. destruct go.
    + specialize (IH H). destruct (cli_read c r) as [[es o] r']. cbn [fst snd] in *. destruct IH as [I1 I2].
      split; [intros [X|X]; [exact (Hm X)|exact (I1 X)]|exact I2].
    + destruct (lvl m); cbn [fst snd];
        [split; [intros []|intros e' He; injection He as <-; exact Hm]
        |split; [intros [X|[]]; exact (Hm X)|intros e' He; discriminate He]..].
  - injection He as <-. unfold err_event. discriminate.
Qed.

Local Opaque err_event.

Lemma unary_no_blocked u c : ~ In EBlocked (run_pipe (PUnary u) (SUnary c)).
Proof.
  intro H. rewrite <- (conn_call_obs v_old (PUnary u) (SUnary c) eq_refl) in H.
  unfold conn_call, conn_unary in H.
  pose proof (unary_tail c u) as T. pose proof (cli_read_no_blocked c (unary_reply u)) as N.
  destruct (cli_read c (unary_reply u)) as [[es o] r]. destruct T as [_ [Hd _]]. destruct (N Hd) as [N1 N2]. cbn [fst snd] in *.
  destruct o; destruct (ures_of u); cbn [fst] in H; apply in_cut in H; try exact (N1 H);
    apply in_app_or in H as [H|[H|[]]]; try exact (N1 H); try discriminate H; exact (N2 _ eq_refl H).
Qed.

Lemma wb_stream_refines v sp sc : (match sc with SUnary _ => False | _ => True end) ->
  wellbehaved v (PStream sp) sc = true ->
  legal (norm v sc (PStream sp)) sc = true /\ records sc = true /\ no_exc_logs (norm v sc (PStream sp)) = true
  /\ pipe_reads (norm v sc (PStream sp)) sc = true.
Proof.
  intros Hs H. unfold wellbehaved in H. apply andb_true_iff in H as [Hshape H].
  destruct sc as [c|h k a c|h n a c]; [contradiction| |];
    repeat (apply andb_true_iff in H as [H ?]);
    match goal with Hx : negb (headerless_init_failure _ _ _) = true |- _ => cbn in Hx; rename Hx into Hless end;
    match goal with Hx : negb (uncaught_fault _ _ _) = true |- _ => cbn in Hx; rename Hx into Hdead end;
    match goal with Hx : no_exc_logs _ = true |- _ => rename Hx into Hq end;
    match goal with Hx : ends_call _ = true |- _ => rename Hx into He end.
  - destruct (eff_init v sp true h) as [|e|] eqn:E; [| |discriminate Hdead].
    + destruct (norm_ok v (SIter h k a c) sp E) as [Hn [Hi Hh]]. rewrite Hn.
      repeat split; try assumption.
      * unfold legal. cbn. rewrite Hi. cbn. destruct h; [destruct (Hh eq_refl) as [x ->]|]; reflexivity.
      * unfold pipe_reads. cbn. rewrite Hi. destruct a; try discriminate He; destruct h; try reflexivity; destruct k; reflexivity.
    + rewrite (norm_err v (SIter h k a c) sp e E).
      assert (h = true) as -> by (destruct h; [reflexivity|rewrite E in Hless; discriminate Hless]).
      repeat split; try assumption; reflexivity.
  - destruct (eff_init v sp false h) as [|e|] eqn:E; [| |discriminate Hdead].
    + destruct (norm_ok v (SExch h n a c) sp E) as [Hn [Hi Hh]]. rewrite Hn.
      repeat split; try assumption.
      * unfold legal. cbn. rewrite Hi. cbn. destruct a; try discriminate Hshape; destruct h; try (destruct (Hh eq_refl) as [x ->]); reflexivity.
      * unfold pipe_reads. cbn. rewrite Hi. destruct a; try discriminate He; try discriminate Hshape; destruct h; try reflexivity; destruct n; reflexivity.
    + rewrite (norm_err v (SExch h n a c) sp e E).
      assert (h = true) as -> by (destruct h; [reflexivity|rewrite E in Hless; discriminate Hless]).
      repeat split; try assumption; try reflexivity.
Qed.

Theorem wb_observe v p sc : (match sc with SUnary _ => False | _ => True end) -> wellbehaved v p sc = true ->
  run_pipe p sc = cut (observe (norm v sc p) sc).
Proof.
  intros Hs H. rewrite <- (run_pipe_norm v p sc). destruct p as [u|sp].
  - unfold wellbehaved in H. destruct sc; try contradiction; discriminate H.
  - destruct (wb_stream_refines v sp sc Hs H) as [H1 [H2 [H3 H4]]]. apply pipe_refines; assumption.
Qed.

Theorem wb_no_blocked v p sc : wellbehaved v p sc = true -> ~ In EBlocked (run_pipe p sc).
Proof.
  intros H. destruct sc as [c|h k a c|h n a c].
  - destruct p as [u|sp]; [apply unary_no_blocked|discriminate H].
  - rewrite (wb_observe v p (SIter h k a c) I H). intro X. apply in_cut in X. exact (observe_no_blocked _ _ X).
  - rewrite (wb_observe v p (SExch h n a c) I H). intro X. apply in_cut in X. exact (observe_no_blocked _ _ X).
Qed.
