(* Lemmas about model/M_ExtStore.v (property C30): the integrity side.
   What one fetch attempt / the retry loop can deliver, for ALL pointers and ALL fetch results. *)
From Coq Require Import List NArith Bool Lia PeanoNat Arith.
From VGI Require Import Corr M_ExtStore.
Import ListNotations.
Open Scope N_scope.

(* ---------- specification vocabulary ---------- *)

(* an item the scan loop walks past: it parses, carries no vgi_rpc.location, is not an EXCEPTION-level log *)
Definition item_ok (it : item) : Prop :=
  exists b, it = IBatch b /\ has_loc b = false /\ classify b <> KExc.

(* the data batches / the log messages of a parsed stream *)
Fixpoint data_of (its : list item) : list batch :=
  match its with
  | [] => []
  | IBatch b :: r => match classify b with KData => b :: data_of r | _ => data_of r end
  | IBad :: r => data_of r
  end.

Fixpoint logs_of (its : list item) : list log :=
  match its with
  | [] => []
  | IBatch b :: r => match classify b with KLog l m => (l, m) :: logs_of r | _ => logs_of r end
  | IBad :: r => logs_of r
  end.

Definition sha_ok (expected : option bytes) (v : view) : Prop :=
  forall h, expected = Some h -> v_sha v = h.

Definition resolved (b : batch) (url : bytes) : batch := with_meta b (omerge (b_meta b) (provenance url)).

(* ---------- byte equality ---------- *)
Lemma bytes_eqb_eq : forall a b : bytes, bytes_eqb a b = true <-> a = b.
Proof. apply list_eqb_eq. intros x y. apply N.eqb_eq. Qed.

Lemma bytes_eqb_refl : forall a : bytes, bytes_eqb a a = true.
Proof. intro a. apply bytes_eqb_eq. reflexivity. Qed.

Lemma bytes_eqb_neq : forall a b : bytes, bytes_eqb a b = false <-> a <> b.
Proof.
  intros a b. split.
  - intros H E. apply bytes_eqb_eq in E. congruence.
  - intro H. destruct (bytes_eqb a b) eqn:E; [apply bytes_eqb_eq in E; contradiction | reflexivity].
Qed.

Lemma sha_bad_false : forall h v, sha_bad h (v_sha v) = false <-> sha_ok h v.
Proof.
  intros h v. unfold sha_bad, sha_ok. destruct h as [x|].
  - split.
    + intros H y Hy. inversion Hy; subst. apply negb_false_iff in H. apply bytes_eqb_eq in H. exact H.
    + intro H. apply negb_false_iff. apply bytes_eqb_eq. apply H. reflexivity.
  - split; [intros _ y Hy; discriminate | reflexivity].
Qed.

(* ---------- the scan loop ---------- *)
Lemma scan_done_iff : forall its lg ds,
  scan its = (lg, SDone ds) <-> Forall item_ok its /\ lg = logs_of its /\ ds = data_of its.
Proof.
  induction its as [|it r IH]; intros lg ds; simpl.
  - split.
    + intro H. inversion H; subst. repeat split. constructor.
    + intros (_ & -> & ->). reflexivity.
  - destruct it as [b|].
    + destruct (has_loc b) eqn:Hl.
      * split; [discriminate|]. intros (HF & _). inversion HF as [|x l Hx _]; subst.
        destruct Hx as (b' & Eb & Hb & _). inversion Eb; subst. congruence.
      * destruct (classify b) eqn:Hc.
        -- destruct (scan r) as [lg' s'] eqn:Es.
           split.
           ++ intro H. destruct s' as [e| |ds']; inversion H; subst.
              destruct (IH lg ds') as [IH1 _]. destruct (IH1 eq_refl) as (HF & -> & ->).
              repeat split. constructor; [|exact HF]. exists b. rewrite Hc. repeat split; [exact Hl | discriminate].
           ++ intros (HF & -> & ->). inversion HF as [|x l _ HF']; subst.
              destruct (IH (logs_of r) (data_of r)) as [_ IH2].
              assert (E : (lg', s') = (logs_of r, SDone (data_of r))) by (apply IH2; repeat split; exact HF').
              inversion E; subst. reflexivity.
        -- destruct (scan r) as [lg' s'] eqn:Es.
           split.
           ++ intro H. inversion H; subst.
              destruct (IH lg' ds) as [IH1 _]. destruct (IH1 eq_refl) as (HF & -> & ->).
              repeat split. constructor; [|exact HF]. exists b. rewrite Hc. repeat split; [exact Hl | discriminate].
           ++ intros (HF & -> & ->). inversion HF as [|x l0 _ HF']; subst.
              destruct (IH (logs_of r) (data_of r)) as [_ IH2].
              assert (E : (lg', s') = (logs_of r, SDone (data_of r))) by (apply IH2; repeat split; exact HF').
              inversion E; subst. reflexivity.
        -- split; [discriminate|]. intros (HF & _). inversion HF as [|x l Hx _]; subst.
           destruct Hx as (b' & Eb & _ & Hb). inversion Eb; subst. congruence.
        -- split.
           ++ intro H. destruct (IH lg ds) as [IH1 _]. destruct (IH1 H) as (HF & -> & ->).
              repeat split. constructor; [|exact HF]. exists b. rewrite Hc. repeat split; [exact Hl | discriminate].
           ++ intros (HF & -> & ->). inversion HF as [|x l _ HF']; subst.
              apply IH. repeat split. exact HF'.
    + split; [discriminate|]. intros (HF & _). inversion HF as [|x l Hx _]; subst.
      destruct Hx as (b' & Eb & _). discriminate.
Qed.

(* logs are only ever the log batches of the stream, in order, and no more than all of them *)
Lemma scan_logs_prefix : forall its lg s, scan its = (lg, s) -> exists rest, logs_of its = lg ++ rest.
Proof.
  induction its as [|it r IH]; intros lg s H; simpl in H.
  - inversion H; subst. exists []. reflexivity.
  - destruct it as [b|].
    + destruct (has_loc b).
      * inversion H; subst. eexists. reflexivity.
      * simpl. destruct (classify b) eqn:Hc.
        -- destruct (scan r) as [lg' s'] eqn:Es. inversion H; subst. eapply IH. reflexivity.
        -- destruct (scan r) as [lg' s'] eqn:Es. inversion H; subst.
           destruct (IH _ _ eq_refl) as [rest Hr]. exists rest. simpl. rewrite Hr. reflexivity.
        -- inversion H; subst. eexists. reflexivity.
        -- eapply IH. exact H.
    + inversion H; subst. eexists. reflexivity.
Qed.

(* ---------- one attempt ---------- *)
Theorem attempt_delivers_iff : forall sch url h f lg d,
  attempt sch url h f = (lg, ADeliver d) <->
  exists v b, f = FData v /\ sha_ok h v /\ Forall item_ok (v_items v) /\ data_of (v_items v) = [b] /\
              b_schema b = sch /\ lg = logs_of (v_items v) /\ d = resolved b url.
Proof.
  intros sch url h f lg d. unfold attempt. split.
  - destruct f as [[|]|v]; try discriminate.
    destruct (sha_bad h (v_sha v)) eqn:Hs; [discriminate|].
    destruct (scan (v_items v)) as [lg' s] eqn:Es.
    destruct s as [e| |ds]; try discriminate.
    destruct ds as [|b [|b2 r]]; try discriminate.
    destruct (b_schema b =? sch) eqn:Hsch; [|discriminate].
    intro H. inversion H; subst.
    apply scan_done_iff in Es. destruct Es as (HF & -> & Hd).
    exists v, b. repeat split; auto.
    + apply sha_bad_false. exact Hs.
    + apply N.eqb_eq. exact Hsch.
  - intros (v & b & -> & Hs & HF & Hd & Hsch & -> & ->).
    apply sha_bad_false in Hs. rewrite Hs.
    assert (Es : scan (v_items v) = (logs_of (v_items v), SDone (data_of (v_items v)))) by (apply scan_done_iff; auto).
    rewrite Es, Hd. subst sch. rewrite N.eqb_refl. reflexivity.
Qed.

(* the four rejection clauses of the property, with the error each one yields (in check order) *)
Lemma attempt_sha_mismatch : forall sch url x v, v_sha v <> x ->
  attempt sch url (Some x) (FData v) = ([], AErr EShaMismatch).
Proof.
  intros sch url x v H. unfold attempt, sha_bad.
  destruct (bytes_eqb (v_sha v) x) eqn:E; [apply bytes_eqb_eq in E; contradiction | reflexivity].
Qed.

Lemma attempt_no_data : forall sch url h v, sha_ok h v -> Forall item_ok (v_items v) -> data_of (v_items v) = [] ->
  attempt sch url h (FData v) = (logs_of (v_items v), AErr ENoData).
Proof.
  intros sch url h v Hs HF Hd. unfold attempt. apply sha_bad_false in Hs. rewrite Hs.
  assert (Es : scan (v_items v) = (logs_of (v_items v), SDone (data_of (v_items v)))) by (apply scan_done_iff; auto).
  rewrite Es, Hd. reflexivity.
Qed.

Lemma attempt_multi : forall sch url h v b1 b2 r, sha_ok h v -> Forall item_ok (v_items v) ->
  data_of (v_items v) = b1 :: b2 :: r ->
  attempt sch url h (FData v) = (logs_of (v_items v), AErr EMulti).
Proof.
  intros sch url h v b1 b2 r Hs HF Hd. unfold attempt. apply sha_bad_false in Hs. rewrite Hs.
  assert (Es : scan (v_items v) = (logs_of (v_items v), SDone (data_of (v_items v)))) by (apply scan_done_iff; auto).
  rewrite Es, Hd. reflexivity.
Qed.

Lemma attempt_schema : forall sch url h v b, sha_ok h v -> Forall item_ok (v_items v) ->
  data_of (v_items v) = [b] -> b_schema b <> sch ->
  attempt sch url h (FData v) = (logs_of (v_items v), AErr ESchema).
Proof.
  intros sch url h v b Hs HF Hd Hn. unfold attempt. apply sha_bad_false in Hs. rewrite Hs.
  assert (Es : scan (v_items v) = (logs_of (v_items v), SDone (data_of (v_items v)))) by (apply scan_done_iff; auto).
  rewrite Es, Hd. destruct (b_schema b =? sch) eqn:E; [apply N.eqb_eq in E; contradiction | reflexivity].
Qed.

Lemma scan_nested : forall its b, In (IBatch b) its -> has_loc b = true ->
  forall lg s, scan its = (lg, s) -> s = SRetry \/ exists e, s = SErr e.
Proof.
  induction its as [|it r IH]; intros b Hin Hl lg s H; [contradiction|].
  simpl in H. destruct it as [b0|].
  - destruct (has_loc b0) eqn:Hl0.
    + inversion H; subst. right. eexists. reflexivity.
    + destruct Hin as [E|Hin]; [inversion E; subst; congruence|].
      destruct (classify b0).
      * destruct (scan r) as [lg' s'] eqn:Es. inversion H; subst.
        destruct (IH b Hin Hl lg s' eq_refl) as [->|[e ->]]; [left; reflexivity | right; eexists; reflexivity].
      * destruct (scan r) as [lg' s'] eqn:Es. inversion H; subst.
        eapply IH; eauto.
      * inversion H; subst. right. eexists. reflexivity.
      * eapply IH; eauto.
  - inversion H; subst. left. reflexivity.
Qed.

(* whatever else is wrong with it, a payload that contains another pointer is never delivered *)
Lemma attempt_nested_pointer : forall sch url h v b, In (IBatch b) (v_items v) -> has_loc b = true ->
  forall lg a, attempt sch url h (FData v) = (lg, a) -> a = ARetry \/ exists e, a = AErr e.
Proof.
  intros sch url h v b Hin Hl lg a H. unfold attempt in H.
  destruct (sha_bad h (v_sha v)); [inversion H; subst; right; eexists; reflexivity|].
  destruct (scan (v_items v)) as [lg' s] eqn:Es. inversion H; subst.
  destruct (scan_nested _ _ Hin Hl _ _ Es) as [->|[e ->]]; [left; reflexivity | right; eexists; reflexivity].
Qed.

(* an attempt never returns anything but: deliver, a named error, or a retryable failure;
   and it delivers nothing unless all the conditions hold *)
Theorem attempt_corrupt_not_delivered : forall sch url h v,
  (exists x, h = Some x /\ v_sha v <> x) \/
  (exists b, In (IBatch b) (v_items v) /\ has_loc b = true) \/
  In IBad (v_items v) \/
  length (data_of (v_items v)) <> 1%nat \/
  (exists b, data_of (v_items v) = [b] /\ b_schema b <> sch) ->
  forall lg a, attempt sch url h (FData v) = (lg, a) -> a = ARetry \/ exists e, a = AErr e.
Proof.
  intros sch url h v Hbad lg a H.
  destruct a as [d|e|]; [|right; eexists; reflexivity | left; reflexivity].
  exfalso. apply attempt_delivers_iff in H.
  destruct H as (v' & b & Ev & Hs & HF & Hd & Hsch & _ & _). inversion Ev; subst v'.
  destruct Hbad as [(x & -> & Hx) | [(b' & Hin & Hl) | [Hin | [Hlen | (b' & Hd' & Hn)]]]].
  - apply Hx. apply Hs. reflexivity.
  - rewrite Forall_forall in HF. destruct (HF _ Hin) as (b'' & E & Hl' & _). inversion E; subst. congruence.
  - rewrite Forall_forall in HF. destruct (HF _ Hin) as (b'' & E & _). discriminate.
  - rewrite Hd in Hlen. apply Hlen. reflexivity.
  - rewrite Hd in Hd'. inversion Hd'; subst. contradiction.
Qed.

(* ---------- the retry loop ---------- *)
Lemma retry_loop_deliver : forall fuel k run lg d,
  retry_loop fuel k run = (lg, ODeliver d) ->
  exists j lgj, (k <= j < k + fuel)%nat /\ run j = (lgj, ADeliver d) /\
                (forall i, (k <= i < j)%nat -> snd (run i) = ARetry).
Proof.
  induction fuel as [|f IH]; intros k run lg d H; simpl in H; [discriminate|].
  destruct (run k) as [lg0 a] eqn:Er. destruct a as [b|e|].
  - inversion H; subst. exists k, lg. split; [lia | split; [exact Er | intros i Hi; lia]].
  - discriminate.
  - destruct (retry_loop f (S k) run) as [lg2 o] eqn:El. inversion H; subst.
    destruct (IH _ _ _ _ El) as (j & lgj & Hj & Hr & Hprev).
    exists j, lgj. split; [lia | split; [exact Hr |]].
    intros i Hi. destruct (Nat.eq_dec i k) as [->|Hne]; [rewrite Er; reflexivity | apply Hprev; lia].
Qed.

Lemma retry_loop_pass : forall fuel k run lg d, retry_loop fuel k run <> (lg, OPass d).
Proof.
  induction fuel as [|f IH]; intros k run lg d H; simpl in H; [discriminate|].
  destruct (run k) as [lg0 a]. destruct a as [b|e|]; try discriminate.
  destruct (retry_loop f (S k) run) as [lg2 o] eqn:El. inversion H; subst. eapply IH. exact El.
Qed.

(* ---------- resolve_external_location ---------- *)
Theorem resolve_never_hand_corrupt : forall hc mr ol p fetch lg d,
  resolve_with hc mr ol p fetch = (lg, ODeliver d) ->
  exists m url j v b,
    b_meta p = Some m /\ mget K_LOC m = Some url /\ is_pointer p = true /\
    (j < n_attempts mr)%nat /\ fetch url j = FData v /\
    sha_ok (mget K_SHA m) v /\ Forall item_ok (v_items v) /\ data_of (v_items v) = [b] /\
    b_schema b = b_schema p /\ d = resolved b url.
Proof.
  intros hc mr ol p fetch lg d H. unfold resolve_with in H.
  destruct (negb hc || negb (is_pointer p)) eqn:Hg; [discriminate|].
  apply orb_false_iff in Hg. destruct Hg as [_ Hp]. apply negb_false_iff in Hp.
  destruct (b_meta p) as [m|] eqn:Hm; [|discriminate].
  destruct (mget K_LOC m) as [url|] eqn:Hu; [|discriminate].
  destruct (retry_loop (n_attempts mr) 0 _) as [lg' o] eqn:El. inversion H; subst.
  apply retry_loop_deliver in El. destruct El as (j & lgj & Hj & Hr & _).
  apply attempt_delivers_iff in Hr. destruct Hr as (v & b & Ef & Hs & HF & Hd & Hsch & _ & ->).
  exists m, url, j, v, b. repeat split; auto. lia.
Qed.

Theorem resolve_pass_unchanged : forall hc mr ol p fetch lg d,
  resolve_with hc mr ol p fetch = (lg, OPass d) -> d = p /\ lg = [] /\ (hc = false \/ is_pointer p = false).
Proof.
  intros hc mr ol p fetch lg d H. unfold resolve_with in H.
  destruct (negb hc || negb (is_pointer p)) eqn:Hg.
  - inversion H; subst. repeat split. apply orb_true_iff in Hg. destruct Hg as [Hg|Hg]; apply negb_true_iff in Hg; auto.
  - apply orb_false_iff in Hg. destruct Hg as [_ Hp]. apply negb_false_iff in Hp.
    unfold is_pointer, has_loc, ohas in Hp.
    destruct (b_meta p) as [m|] eqn:Hm.
    + destruct (mget K_LOC m) as [url|] eqn:Hu.
      * destruct (retry_loop (n_attempts mr) 0 _) as [lg' o] eqn:El. inversion H; subst.
        exfalso. eapply retry_loop_pass. exact El.
      * rewrite andb_false_r in Hp. discriminate.
    + rewrite andb_false_r in Hp. discriminate.
Qed.

(* ---------- with an actual hash over actual bytes: the digest pins the payload ---------- *)
Section Pinned.
  Variable B : Type.
  Variable sha : B -> bytes.
  Variable parse : B -> list item.
  Variable decode : option N -> B -> option B.

  Theorem digest_pins_payload : forall (store : bytes -> nat -> option (B * option N)) (orig : B) mr ol p m lg d,
    b_meta p = Some m -> mget K_SHA m = Some (sha orig) ->
    (forall x, sha x = sha orig -> x = orig) ->
    resolve_with true mr ol p (fun u k => fetch_obj B sha parse decode (store u k)) = (lg, ODeliver d) ->
    exists url j body enc b,
      mget K_LOC m = Some url /\ store url j = Some (body, enc) /\ decode enc body = Some orig /\
      data_of (parse orig) = [b] /\ Forall item_ok (parse orig) /\ b_schema b = b_schema p /\ d = resolved b url.
  Proof.
    intros store orig mr ol p m lg d Hm Hsha Hinj H.
    apply resolve_never_hand_corrupt in H.
    destruct H as (m' & url & j & v & b & Hm' & Hu & _ & _ & Hf & Hs & HF & Hd & Hsch & ->).
    rewrite Hm in Hm'. inversion Hm'; subst m'.
    unfold fetch_obj in Hf. destruct (store url j) as [[body enc]|] eqn:Est; [|discriminate].
    destruct (decode enc body) as [x|] eqn:Ed; [|discriminate].
    inversion Hf; subst v. unfold view_of in *. simpl in *.
    assert (x = orig) by (apply Hinj; apply Hs; exact Hsha). subst x.
    exists url, j, body, enc, b. repeat split; auto.
  Qed.
End Pinned.
