(* Tie of the armour decoding: the source demands the canonical base64 text (gen_b64_canonical is regenerated from
   _open_cursor_token / _open_call_token on every run), so C12_served_text_is_canonical speaks about the source.
   Kept apart from tie/T_Token.v so that a source without the check breaks exactly this obligation. *)
From Coq Require Import List NArith ZArith Bool.
From VGI Require Import Bytes Layout M_Token L_Token L_TokenServe G_Token.
Import ListNotations.
Open Scope N_scope.

Lemma armour_tie : gen_b64_canonical = true.
Proof. reflexivity. Qed.

(* any text the source's armour check lets through is the canonical text of the envelope it decodes to:
   two different texts never open to the same envelope, so a re-encoded or bit-flipped text of a minted token is
   either refused as malformed or is a different envelope (which the AEAD then has to refuse) *)
Theorem C12_source_served_text_is_canonical : forall txt raw,
  decode_token gen_b64_canonical txt = Some raw -> txt = b64encode raw.
Proof. rewrite armour_tie. exact served_text_canonical. Qed.

Corollary C12_source_text_unique : forall t1 t2 raw,
  decode_token gen_b64_canonical t1 = Some raw -> decode_token gen_b64_canonical t2 = Some raw -> t1 = t2.
Proof.
  intros t1 t2 raw H1 H2. apply C12_source_served_text_is_canonical in H1. apply C12_source_served_text_is_canonical in H2.
  congruence.
Qed.
