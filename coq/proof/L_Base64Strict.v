(* The strict base64 armour of model/M_Token.v (C12: stream state tokens) round-trips for EVERY byte string:
     b64decode (b64encode b) = Some b          (binascii.a2b_base64(strict_mode=True) after base64.b64encode)
   and therefore [decode_token] -- with or without the canonical-text check of the source -- opens the text a mint
   produces to exactly the envelope that was armoured.

   Proof shape: per-sextet facts and the bit-recombination identities are finite sweeps (64 values; one or two bytes,
   at most 65536 cases, [forallb ... = true] by vm_compute lifted with forallb_forall); the decoder loop is followed
   three input bytes / four characters at a time ([list_ind3]) with the accumulator generalised. *)
From Coq Require Import List NArith ZArith Bool Lia.
From VGI Require Import Bytes FinSweep M_Token.
Import ListNotations.
Open Scope N_scope.

(* ---------- sextets ---------- *)
Lemma b64_val_chr : forall v, v < 64 -> b64_val (b64_chr v) = Some v.
Proof.
  intros v Hv.
  pose proof (sweep1 64 (fun v => match b64_val (b64_chr v) with Some w => w =? v | None => false end)) as S.
  specialize (S ltac:(vm_compute; reflexivity) v Hv). cbv beta in S.
  destruct (b64_val (b64_chr v)) as [w|]; [|discriminate S]. apply N.eqb_eq in S. subst w. reflexivity.
Qed.

Lemma b64_chr_not_pad : forall v, v < 64 -> (b64_chr v =? 61) = false.
Proof.
  intros v Hv.
  pose proof (sweep1 64 (fun v => negb (b64_chr v =? 61)) ltac:(vm_compute; reflexivity) v Hv) as S.
  cbv beta in S. apply negb_true_iff in S. exact S.
Qed.

(* ---------- one decoder step on a data character, per quad position ---------- *)
Lemma loop_data : forall v r q l p acc, v < 64 ->
  b64_loop (b64_chr v :: r) q l p false acc =
  if q =? 0 then b64_loop r 1 v 0 false acc
  else if q =? 1 then b64_loop r 2 (N.land v 15) 0 false (N.lor (N.shiftl l 2) (N.shiftr v 4) :: acc)
  else if q =? 2 then b64_loop r 3 (N.land v 3) 0 false (N.lor (N.shiftl l 4) (N.shiftr v 2) :: acc)
  else b64_loop r 0 0 0 false (N.lor (N.shiftl l 6) v :: acc).
Proof.
  intros v r q l p acc Hv. cbn [b64_loop]. rewrite (b64_chr_not_pad v Hv), (b64_val_chr v Hv). reflexivity.
Qed.

Lemma loop_data0 : forall v r l p acc, v < 64 ->
  b64_loop (b64_chr v :: r) 0 l p false acc = b64_loop r 1 v 0 false acc.
Proof. intros. rewrite loop_data by assumption. reflexivity. Qed.
Lemma loop_data1 : forall v r l p acc, v < 64 ->
  b64_loop (b64_chr v :: r) 1 l p false acc
  = b64_loop r 2 (N.land v 15) 0 false (N.lor (N.shiftl l 2) (N.shiftr v 4) :: acc).
Proof. intros. rewrite loop_data by assumption. reflexivity. Qed.
Lemma loop_data2 : forall v r l p acc, v < 64 ->
  b64_loop (b64_chr v :: r) 2 l p false acc
  = b64_loop r 3 (N.land v 3) 0 false (N.lor (N.shiftl l 4) (N.shiftr v 2) :: acc).
Proof. intros. rewrite loop_data by assumption. reflexivity. Qed.
Lemma loop_data3 : forall v r l p acc, v < 64 ->
  b64_loop (b64_chr v :: r) 3 l p false acc = b64_loop r 0 0 0 false (N.lor (N.shiftl l 6) v :: acc).
Proof. intros. rewrite loop_data by assumption. reflexivity. Qed.

(* the padding tails *)
Lemma loop_pad2 : forall l ps acc, b64_loop [61; 61] 2 l 0 ps acc = Some (rev acc).
Proof. reflexivity. Qed.
Lemma loop_pad3 : forall l ps acc, b64_loop [61] 3 l 0 ps acc = Some (rev acc).
Proof. reflexivity. Qed.

(* ---------- the sextets of the encoder are sextets; the decoder's recombination gives the bytes back.
   Every identity mentions at most two bytes. ---------- *)
Definition s1 (x : N) : N := N.shiftr x 2.
Definition s2 (x y : N) : N := N.lor (N.shiftl (N.land x 3) 4) (N.shiftr y 4).
Definition s3 (y z : N) : N := N.lor (N.shiftl (N.land y 15) 2) (N.shiftr z 6).
Definition s4 (z : N) : N := N.land z 63.

Definition t2 (x : N) : N := N.shiftl (N.land x 3) 4.      (* second sextet of a 1-byte tail *)
Definition t3 (y : N) : N := N.shiftl (N.land y 15) 2.     (* third sextet of a 2-byte tail *)

Ltac by_sweep1 P x Hx := refine (sweep1 256 P _ x Hx); vm_compute; reflexivity.
Ltac by_sweep2 P x y Hx Hy := refine (sweep2 256 256 P _ x y Hx Hy); vm_compute; reflexivity.

Lemma s1_lt : forall x, x < 256 -> s1 x < 64.
Proof. intros x Hx. apply N.ltb_lt. by_sweep1 (fun x => s1 x <? 64) x Hx. Qed.
Lemma s4_lt : forall x, x < 256 -> s4 x < 64.
Proof. intros x Hx. apply N.ltb_lt. by_sweep1 (fun x => s4 x <? 64) x Hx. Qed.
Lemma t2_lt : forall x, x < 256 -> t2 x < 64.
Proof. intros x Hx. apply N.ltb_lt. by_sweep1 (fun x => t2 x <? 64) x Hx. Qed.
Lemma t3_lt : forall x, x < 256 -> t3 x < 64.
Proof. intros x Hx. apply N.ltb_lt. by_sweep1 (fun x => t3 x <? 64) x Hx. Qed.
Lemma s2_lt : forall x y, x < 256 -> y < 256 -> s2 x y < 64.
Proof. intros x y Hx Hy. apply N.ltb_lt. by_sweep2 (fun x y => s2 x y <? 64) x y Hx Hy. Qed.
Lemma s3_lt : forall x y, x < 256 -> y < 256 -> s3 x y < 64.
Proof. intros x y Hx Hy. apply N.ltb_lt. by_sweep2 (fun x y => s3 x y <? 64) x y Hx Hy. Qed.

(* first byte; pending bits after the 2nd character *)
Lemma byte1_eq : forall x y, x < 256 -> y < 256 -> N.lor (N.shiftl (s1 x) 2) (N.shiftr (s2 x y) 4) = x.
Proof.
  intros x y Hx Hy. apply N.eqb_eq.
  by_sweep2 (fun x y => N.lor (N.shiftl (s1 x) 2) (N.shiftr (s2 x y) 4) =? x) x y Hx Hy.
Qed.
Lemma left2_eq : forall x y, x < 256 -> y < 256 -> N.land (s2 x y) 15 = N.shiftr y 4.
Proof. intros x y Hx Hy. apply N.eqb_eq. by_sweep2 (fun x y => N.land (s2 x y) 15 =? N.shiftr y 4) x y Hx Hy. Qed.
(* second byte; pending bits after the 3rd character *)
Lemma byte2_eq : forall y z, y < 256 -> z < 256 -> N.lor (N.shiftl (N.shiftr y 4) 4) (N.shiftr (s3 y z) 2) = y.
Proof.
  intros y z Hy Hz. apply N.eqb_eq.
  by_sweep2 (fun y z => N.lor (N.shiftl (N.shiftr y 4) 4) (N.shiftr (s3 y z) 2) =? y) y z Hy Hz.
Qed.
Lemma left3_eq : forall y z, y < 256 -> z < 256 -> N.land (s3 y z) 3 = N.shiftr z 6.
Proof. intros y z Hy Hz. apply N.eqb_eq. by_sweep2 (fun y z => N.land (s3 y z) 3 =? N.shiftr z 6) y z Hy Hz. Qed.
(* third byte *)
Lemma byte3_eq : forall z, z < 256 -> N.lor (N.shiftl (N.shiftr z 6) 6) (s4 z) = z.
Proof. intros z Hz. apply N.eqb_eq. by_sweep1 (fun z => N.lor (N.shiftl (N.shiftr z 6) 6) (s4 z) =? z) z Hz. Qed.
(* the tails: the last sextet carries zero low bits *)
Lemma tail1_eq : forall x, x < 256 -> N.lor (N.shiftl (s1 x) 2) (N.shiftr (t2 x) 4) = x.
Proof. intros x Hx. apply N.eqb_eq. by_sweep1 (fun x => N.lor (N.shiftl (s1 x) 2) (N.shiftr (t2 x) 4) =? x) x Hx. Qed.
Lemma tail2_eq : forall y, y < 256 -> N.lor (N.shiftl (N.shiftr y 4) 4) (N.shiftr (t3 y) 2) = y.
Proof. intros y Hy. apply N.eqb_eq. by_sweep1 (fun y => N.lor (N.shiftl (N.shiftr y 4) 4) (N.shiftr (t3 y) 2) =? y) y Hy. Qed.

Lemma bytes_ok_cons_inv : forall x b, bytes_ok (x :: b) = true -> x < 256 /\ bytes_ok b = true.
Proof.
  intros x b H. rewrite bytes_ok_cons in H. apply andb_prop in H. destruct H as [Hx Hb]. apply N.ltb_lt in Hx.
  split; assumption.
Qed.

(* ---------- the loop, with the accumulator generalised ---------- *)
Lemma b64_loop_encode : forall b acc,
  bytes_ok b = true -> b64_loop (b64encode b) 0 0 0 false acc = Some (rev acc ++ b).
Proof.
  induction b as [|x|x y|x y z r IH] using list_ind3; intros acc Hok.
  - cbn [b64encode b64_loop]. rewrite app_nil_r. reflexivity.
  - apply bytes_ok_cons_inv in Hok. destruct Hok as [Hx _].
    cbn [b64encode]. fold (s1 x). fold (t2 x).
    rewrite loop_data0 by (apply s1_lt; exact Hx). rewrite loop_data1 by (apply t2_lt; exact Hx).
    rewrite loop_pad2. rewrite (tail1_eq x Hx). reflexivity.
  - apply bytes_ok_cons_inv in Hok. destruct Hok as [Hx Hok]. apply bytes_ok_cons_inv in Hok. destruct Hok as [Hy _].
    cbn [b64encode]. fold (s1 x). fold (s2 x y). fold (t3 y).
    rewrite loop_data0 by (apply s1_lt; exact Hx). rewrite loop_data1 by (apply s2_lt; assumption).
    rewrite loop_data2 by (apply t3_lt; exact Hy). rewrite loop_pad3.
    rewrite (byte1_eq x y Hx Hy), (left2_eq x y Hx Hy), (tail2_eq y Hy).
    cbn [rev app]. rewrite <- app_assoc. reflexivity.
  - apply bytes_ok_cons_inv in Hok. destruct Hok as [Hx Hok]. apply bytes_ok_cons_inv in Hok. destruct Hok as [Hy Hok].
    apply bytes_ok_cons_inv in Hok. destruct Hok as [Hz Hok].
    cbn [b64encode]. fold (s1 x). fold (s2 x y). fold (s3 y z). fold (s4 z).
    rewrite loop_data0 by (apply s1_lt; exact Hx). rewrite loop_data1 by (apply s2_lt; assumption).
    rewrite loop_data2 by (apply s3_lt; assumption). rewrite loop_data3 by (apply s4_lt; exact Hz).
    rewrite (byte1_eq x y Hx Hy), (left2_eq x y Hx Hy), (byte2_eq y z Hy Hz), (left3_eq y z Hy Hz), (byte3_eq z Hz).
    rewrite (IH _ Hok). cbn [rev app]. rewrite <- !app_assoc. reflexivity.
Qed.

(* ---------- the round trip ---------- *)
Theorem b64decode_encode : forall b, bytes_ok b = true -> b64decode (b64encode b) = Some b.
Proof. intros b Hok. unfold b64decode. rewrite (b64_loop_encode b [] Hok). reflexivity. Qed.

Corollary b64encode_inj : forall b1 b2,
  bytes_ok b1 = true -> bytes_ok b2 = true -> b64encode b1 = b64encode b2 -> b1 = b2.
Proof.
  intros b1 b2 H1 H2 E. apply b64decode_encode in H1. apply b64decode_encode in H2. rewrite E in H1. congruence.
Qed.

(* the armour check of the source accepts the text of a mint, with or without the canonical-text comparison *)
Theorem decode_token_encode : forall canonical raw,
  bytes_ok raw = true -> decode_token canonical (b64encode raw) = Some raw.
Proof.
  intros c raw Hok. unfold decode_token. rewrite (b64decode_encode raw Hok). rewrite bytes_eqb_refl.
  cbn [negb]. rewrite andb_false_r. reflexivity.
Qed.

(* canonicity, both directions: under the canonical check the accepted texts are exactly the encoder's outputs *)
Theorem decode_token_canonical_iff : forall txt raw,
  bytes_ok raw = true -> (decode_token true txt = Some raw <-> txt = b64encode raw).
Proof.
  intros txt raw Hok. split.
  - unfold decode_token. destruct (b64decode txt) as [r|]; [|discriminate].
    cbn [andb]. destruct (bytes_eqb (b64encode r) txt) eqn:E; cbn [negb]; [|discriminate].
    intros H. injection H as H. subst r. apply bytes_eqb_eq in E. symmetry. exact E.
  - intros ->. apply decode_token_encode. exact Hok.
Qed.

(* the two mints of the model *)
Section Mints.
  Variable normalize_key : bytes -> bytes.
  Variable aead_seal : bytes -> bytes -> bytes -> bytes -> bytes.
  Variable zstd_compress : bytes -> bytes.

  Theorem minted_tokens_decode : forall cfg canonical i created call_id nonce,
    (forall state,
       let env := seal_bytes normalize_key aead_seal (pack_plaintext zstd_compress (cursor_plaintext created call_id state))
                             (c_key cfg) (compute_aad KCursor i) CURSOR_TOKEN_VERSION nonce in
       bytes_ok env = true ->
       decode_token canonical (seal_cursor_token normalize_key aead_seal zstd_compress cfg i created call_id state nonce)
       = Some env) /\
    (forall cs ty sch isch sid,
       let env := seal_bytes normalize_key aead_seal
                             (pack_plaintext zstd_compress (call_plaintext created call_id cs ty sch isch sid))
                             (c_key cfg) (compute_aad KCall i) CALL_TOKEN_VERSION nonce in
       bytes_ok env = true ->
       decode_token canonical
         (seal_call_token normalize_key aead_seal zstd_compress cfg i created call_id cs ty sch isch sid nonce)
       = Some env).
  Proof.
    intros cfg c i created call_id nonce. split.
    - intros state env Hok. unfold seal_cursor_token. fold env. apply decode_token_encode. exact Hok.
    - intros cs ty sch isch sid env Hok. unfold seal_call_token. fold env. apply decode_token_encode. exact Hok.
  Qed.

  (* the envelope is a byte string as soon as nonce and AEAD output are *)
  Lemma seal_bytes_ok : forall payload key aad ver nonce,
    ver < 256 -> bytes_ok nonce = true -> bytes_ok (aead_seal (normalize_key key) aad nonce payload) = true ->
    bytes_ok (seal_bytes normalize_key aead_seal payload key aad ver nonce) = true.
  Proof.
    intros payload key aad ver nonce Hv Hn Ha. unfold seal_bytes. rewrite bytes_ok_cons, bytes_ok_app, Hn, Ha.
    apply N.ltb_lt in Hv. rewrite Hv. reflexivity.
  Qed.
End Mints.

(* end to end, as one statement: every envelope, every armour mode, both mints (under the server's own mode) *)
Theorem armour_roundtrip :
  (forall raw, bytes_ok raw = true -> b64decode (b64encode raw) = Some raw) /\
  (forall canonical raw, bytes_ok raw = true -> decode_token canonical (b64encode raw) = Some raw) /\
  (forall normalize_key aead_seal zstd_compress cfg i created call_id state nonce,
     let env := seal_bytes normalize_key aead_seal (pack_plaintext zstd_compress (cursor_plaintext created call_id state))
                           (c_key cfg) (compute_aad KCursor i) CURSOR_TOKEN_VERSION nonce in
     bytes_ok env = true ->
     decode_token (c_canonical cfg)
       (seal_cursor_token normalize_key aead_seal zstd_compress cfg i created call_id state nonce) = Some env) /\
  (forall normalize_key aead_seal zstd_compress cfg i created call_id cs ty sch isch sid nonce,
     let env := seal_bytes normalize_key aead_seal
                           (pack_plaintext zstd_compress (call_plaintext created call_id cs ty sch isch sid))
                           (c_key cfg) (compute_aad KCall i) CALL_TOKEN_VERSION nonce in
     bytes_ok env = true ->
     decode_token (c_canonical cfg)
       (seal_call_token normalize_key aead_seal zstd_compress cfg i created call_id cs ty sch isch sid nonce) = Some env).
Proof.
  split; [exact b64decode_encode|]. split; [exact decode_token_encode|]. split.
  - intros nk ase zc cfg i created call_id state nonce.
    apply (proj1 (minted_tokens_decode nk ase zc cfg (c_canonical cfg) i created call_id nonce)).
  - intros nk ase zc cfg i created call_id cs ty sch isch sid nonce.
    apply (proj2 (minted_tokens_decode nk ase zc cfg (c_canonical cfg) i created call_id nonce)).
Qed.

(* non-vacuity: a 1-, 2- and 3-byte remainder, with high bits set *)
Example b64_roundtrip_ex :
  b64decode (b64encode [255]) = Some [255] /\ b64decode (b64encode [0; 200]) = Some [0; 200] /\
  b64decode (b64encode [1; 2; 3; 250]) = Some [1; 2; 3; 250] /\ b64encode [1; 2; 3; 250] = [65; 81; 73; 68; 43; 103; 61; 61].
Proof. vm_compute. repeat split; reflexivity. Qed.
