(* Proofs about model/M_CapHeaders.v (property C40). *)
From Coq Require Import List NArith ZArith Bool String Ascii Lia.
From VGI Require Import UnicodeTables M_Version L_Version Corr M_CapHeaders.
Import ListNotations.
Open Scope N_scope.

(* ------------------------------------------------------------------ *)
(* strings                                                             *)
(* ------------------------------------------------------------------ *)
Lemma bytes_eqb_eq : forall a b, bytes_eqb a b = true <-> a = b.
Proof. apply list_eqb_eq. intros x y. apply N.eqb_eq. Qed.
Lemma bytes_eqb_refl : forall a, bytes_eqb a a = true.
Proof. intro a. apply bytes_eqb_eq. reflexivity. Qed.
Lemma bytes_eqb_neq : forall a b, a <> b -> bytes_eqb a b = false.
Proof. intros a b H. destruct (bytes_eqb a b) eqn:E; [apply bytes_eqb_eq in E; contradiction | reflexivity]. Qed.

(* ------------------------------------------------------------------ *)
(* association lists                                                   *)
(* ------------------------------------------------------------------ *)
Lemma lookup_notin : forall k h, ~ In k (map fst h) -> lookup k h = None.
Proof.
  intros k h; induction h as [|[k' v] r IH]; intro Hn; cbn; [reflexivity|].
  cbn in Hn. rewrite bytes_eqb_neq by (intro E; apply Hn; left; exact E).
  apply IH. intro Hin. apply Hn. right. exact Hin.
Qed.
Lemma lookup_some_in : forall k h v, lookup k h = Some v -> In k (map fst h).
Proof.
  intros k h; induction h as [|[k' v'] r IH]; intros v H; cbn in *; [discriminate|].
  destruct (bytes_eqb k' k) eqn:E.
  - left. apply bytes_eqb_eq. exact E.
  - right. eapply IH. exact H.
Qed.
Lemma assoc_set_fresh : forall h k v, ~ In k (map fst h) -> assoc_set h k v = h ++ [(k, v)].
Proof.
  intros h k v; induction h as [|[k' v'] r IH]; intro Hn; cbn; [reflexivity|].
  cbn in Hn. rewrite bytes_eqb_neq by (intro E; apply Hn; left; exact E).
  f_equal. apply IH. intro Hin. apply Hn. right. exact Hin.
Qed.
Lemma lookup_assoc_set_same : forall h k v, lookup k (assoc_set h k v) = Some v.
Proof.
  intros h k v; induction h as [|[k' v'] r IH]; cbn.
  - rewrite bytes_eqb_refl. reflexivity.
  - destruct (bytes_eqb k' k) eqn:E; cbn; rewrite E; [reflexivity | exact IH].
Qed.
Lemma lookup_assoc_set_other : forall h k v K, K <> k -> lookup K (assoc_set h k v) = lookup K h.
Proof.
  intros h k v K Hne; induction h as [|[k' v'] r IH]; cbn.
  - rewrite bytes_eqb_neq by (intro E; apply Hne; symmetry; exact E). reflexivity.
  - destruct (bytes_eqb k' k) eqn:E; cbn.
    + apply bytes_eqb_eq in E. subst k'.
      rewrite bytes_eqb_neq by (intro E; apply Hne; symmetry; exact E). reflexivity.
    + destruct (bytes_eqb k' K); [reflexivity | exact IH].
Qed.

(* the statement sequence with pairwise distinct keys just appends *)
Lemma build_fresh : forall env tbl outs,
  Forall2 (fun r o => row_eval env r = Some o) tbl outs ->
  forall acc, NoDup (map fst (acc ++ flat_map opt_list outs)) ->
  build env tbl acc = Some (acc ++ flat_map opt_list outs).
Proof.
  intros env tbl outs HF. induction HF as [|r o tbl' outs' Hr HF IH]; intros acc Hnd; cbn.
  - rewrite app_nil_r. reflexivity.
  - rewrite Hr. destruct o as [[k v]|]; cbn in *.
    + assert (Hk : ~ In k (map fst acc)).
      { rewrite map_app in Hnd. cbn in Hnd. apply NoDup_remove_2 in Hnd.
        intro Hin. apply Hnd. rewrite in_app_iff. left. exact Hin. }
      rewrite assoc_set_fresh by exact Hk.
      rewrite IH; rewrite <- app_assoc; cbn; [reflexivity | exact Hnd].
    + apply IH. exact Hnd.
Qed.

(* ------------------------------------------------------------------ *)
(* the twelve rows                                                     *)
(* ------------------------------------------------------------------ *)
Ltac row_tac c :=
  destruct c as [mreq mresp mext ec es up mup comp zrt zdis proof intro st ti tf echo];
  unfold row_eval, adv_row, adv_row_with, advertised, flag; cbn.

Lemma rows_eval : forall c,
  Forall2 (fun r o => row_eval (env_of c) r = Some o) cap_table (map (adv_row c) all_features).
Proof.
  intro c. unfold cap_table, all_features. cbn [map].
  repeat apply Forall2_cons; try apply Forall2_nil.
  - row_tac c. destruct mreq; reflexivity.
  - row_tac c. destruct mresp; reflexivity.
  - row_tac c. destruct mext; reflexivity.
  - row_tac c. destruct ec, es; reflexivity.
  - row_tac c. destruct up; reflexivity.
  - row_tac c. destruct up, mup; reflexivity.
  - row_tac c. reflexivity.
  - row_tac c. destruct proof; reflexivity.
  - row_tac c. destruct intro; reflexivity.
  - row_tac c. destruct st; reflexivity.
  - row_tac c. destruct st; reflexivity.
  - row_tac c. destruct st, echo; reflexivity.
Qed.

(* ------------------------------------------------------------------ *)
(* distinct names                                                      *)
(* ------------------------------------------------------------------ *)
Definition lname (f : feature) : list N := lower (fname f).

Fixpoint nodupb (l : list (list N)) : bool :=
  match l with
  | [] => true
  | x :: r => negb (existsb (bytes_eqb x) r) && nodupb r
  end.
Lemma nodupb_NoDup : forall l, nodupb l = true -> NoDup l.
Proof.
  induction l as [|x r IH]; cbn; intro H; [constructor|].
  apply andb_true_iff in H as [H1 H2]. constructor; [|apply IH; exact H2].
  intro Hin. apply negb_true_iff in H1.
  assert (existsb (bytes_eqb x) r = true) as E.
  { apply existsb_exists. exists x. split; [exact Hin | apply bytes_eqb_refl]. }
  congruence.
Qed.
Lemma fname_nodup : NoDup (map fname all_features).
Proof. apply nodupb_NoDup. vm_compute. reflexivity. Qed.
Lemma lname_nodup : NoDup (map lname all_features).
Proof. apply nodupb_NoDup. vm_compute. reflexivity. Qed.
Lemma all_features_complete : forall f, In f all_features.
Proof. intro f; destruct f; cbn; tauto. Qed.
(* no mixed-case constant coincides with a lower-cased one *)
Lemma fname_not_lname : forall f g, fname f <> lname g.
Proof.
  intros f g E. apply bytes_eqb_eq in E.
  destruct f, g; vm_compute in E; discriminate.
Qed.
Lemma NoDup_map_inj : forall (g : feature -> list N) l a b,
  NoDup (map g l) -> In a l -> In b l -> g a = g b -> a = b.
Proof.
  intros g l; induction l as [|x r IH]; intros a b Hnd Ha Hb E; [destruct Ha|].
  cbn in Hnd. inversion Hnd as [|? ? Hx Hr]; subst.
  destruct Ha as [Ha|Ha], Hb as [Hb|Hb]; subst.
  - reflexivity.
  - exfalso. apply Hx. rewrite E. apply in_map. exact Hb.
  - exfalso. apply Hx. rewrite <- E. apply in_map. exact Ha.
  - apply IH; assumption.
Qed.

Section SpecHeaders.
  Variable g : feature -> list N.
  Variable c : config.

  Lemma spec_keys_sub : forall l k,
    In k (map fst (flat_map (fun f => opt_list (adv_row_with g c f)) l)) -> In k (map g l).
  Proof.
    induction l as [|f r IH]; intros k H; cbn in *; [exact H|].
    rewrite map_app, in_app_iff in H. destruct H as [H|H].
    - left. unfold adv_row_with in H. destruct (advertised c f); cbn in H; [|destruct H].
      destruct H as [H|[]]. exact H.
    - right. apply IH. exact H.
  Qed.

  Lemma spec_keys_nodup : forall l, NoDup (map g l) ->
    NoDup (map fst (flat_map (fun f => opt_list (adv_row_with g c f)) l)).
  Proof.
    induction l as [|f r IH]; intro Hnd; cbn; [constructor|].
    cbn in Hnd. inversion Hnd as [|? ? Hx Hr]; subst.
    rewrite map_app. unfold adv_row_with at 1. destruct (advertised c f); cbn.
    - constructor; [|apply IH; exact Hr]. intro Hin. apply Hx. apply spec_keys_sub. exact Hin.
    - apply IH. exact Hr.
  Qed.

  Lemma spec_lookup_in : forall l f, NoDup (map g l) -> In f l ->
    lookup (g f) (flat_map (fun f => opt_list (adv_row_with g c f)) l) = advertised c f.
  Proof.
    induction l as [|x r IH]; intros f Hnd Hin; [destruct Hin|].
    cbn in Hnd. inversion Hnd as [|? ? Hx Hr]; subst. cbn.
    destruct Hin as [->|Hin].
    - unfold adv_row_with at 1. destruct (advertised c f) eqn:E; cbn.
      + rewrite bytes_eqb_refl. reflexivity.
      + apply lookup_notin. intro H. apply Hx. apply spec_keys_sub. exact H.
    - assert (g x <> g f) as Hne by (intro E; apply Hx; rewrite E; apply in_map; exact Hin).
      unfold adv_row_with at 1. destruct (advertised c x); cbn.
      + rewrite bytes_eqb_neq by exact Hne. apply IH; assumption.
      + apply IH; assumption.
  Qed.

  Lemma spec_lookup_none : forall l K, (forall f, K <> g f) ->
    lookup K (flat_map (fun f => opt_list (adv_row_with g c f)) l) = None.
  Proof.
    intros l K H. apply lookup_notin. intro Hin. apply spec_keys_sub in Hin.
    apply in_map_iff in Hin as [f [E _]]. apply (H f). symmetry. exact E.
  Qed.
End SpecHeaders.

Lemma spec_headers_nodup : forall c, NoDup (map fst (spec_headers c)).
Proof. intro c. apply spec_keys_nodup. exact fname_nodup. Qed.

Lemma wire_spec : forall c, wire (spec_headers c) = spec_headers_with lname c.
Proof.
  intro c. unfold spec_headers, spec_headers_with, wire.
  induction all_features as [|f r IH]; cbn; [reflexivity|].
  rewrite map_app, IH. f_equal.
  unfold adv_row_with. destruct (advertised c f); reflexivity.
Qed.

(* ------------------------------------------------------------------ *)
(* theorem 1: the dictionary is the specified one                      *)
(* ------------------------------------------------------------------ *)
Lemma cap_headers_closed_form : forall c, cap_headers c = Some (spec_headers c).
Proof.
  intro c. unfold cap_headers, cap_headers_with.
  pose proof (build_fresh (env_of c) cap_table (map (adv_row c) all_features) (rows_eval c) []) as H.
  cbn [app] in H.
  assert (E : flat_map opt_list (map (adv_row c) all_features) = spec_headers c).
  { unfold spec_headers, spec_headers_with, adv_row. rewrite flat_map_concat_map, map_map, <- flat_map_concat_map. reflexivity. }
  rewrite E in H. apply H. apply spec_headers_nodup.
Qed.

Lemma in_spec_headers : forall c K v,
  In (K, v) (spec_headers c) <-> exists f, K = fname f /\ advertised c f = Some v.
Proof.
  intros c K v. unfold spec_headers, spec_headers_with. rewrite in_flat_map. split.
  - intros [f [_ H]]. unfold adv_row_with in H. destruct (advertised c f) eqn:E; cbn in H; [|destruct H].
    destruct H as [H|[]]. inversion H; subst. exists f. split; [reflexivity | exact E].
  - intros [f [-> E]]. exists f. split; [apply all_features_complete|].
    unfold adv_row_with. rewrite E. cbn. left. reflexivity.
Qed.

(* what the code emits is the text of the configured value, for whole-second TTLs *)
Lemma advertised_is_configured_text : forall c, integral_ttl c -> forall f v,
  advertised c f = Some v <-> exists cv, configured c f = Some cv /\ text_of cv = Some v.
Proof.
  intros c Hint f v. unfold integral_ttl in Hint.
  destruct c as [mreq mresp mext ec es up mup comp zrt zdis proof intro st ti tf echo]; cbn in Hint.
  destruct f; unfold advertised, configured, flag; cbn.
  - destruct mreq; cbn; split; [intro H; inversion H; eexists; split; reflexivity | intros [cv [H1 H2]]; inversion H1; subst; exact H2 | discriminate | intros [cv [H1 _]]; discriminate].
  - destruct mresp; cbn; split; [intro H; inversion H; eexists; split; reflexivity | intros [cv [H1 H2]]; inversion H1; subst; exact H2 | discriminate | intros [cv [H1 _]]; discriminate].
  - destruct mext; cbn; split; [intro H; inversion H; eexists; split; reflexivity | intros [cv [H1 H2]]; inversion H1; subst; exact H2 | discriminate | intros [cv [H1 _]]; discriminate].
  - split; [intro H; inversion H; eexists; split; reflexivity | intros [cv [H1 H2]]; inversion H1; subst; exact H2].
  - destruct up; cbn; split; [intro H; inversion H; eexists; split; reflexivity | intros [cv [H1 H2]]; inversion H1; subst; exact H2 | discriminate | intros [cv [H1 _]]; discriminate].
  - destruct up, mup; cbn; split; try discriminate; try (intros [cv [H1 _]]; discriminate);
      [intro H; inversion H; eexists; split; reflexivity | intros [cv [H1 H2]]; inversion H1; subst; exact H2].
  - split; [intro H; inversion H; eexists; split; reflexivity | intros [cv [H1 H2]]; inversion H1; subst; exact H2].
  - destruct proof; cbn; split; [intro H; inversion H; eexists; split; reflexivity | intros [cv [H1 H2]]; inversion H1; subst; exact H2 | discriminate | intros [cv [H1 _]]; discriminate].
  - destruct intro; cbn; split; [intro H; inversion H; eexists; split; reflexivity | intros [cv [H1 H2]]; inversion H1; subst; exact H2 | discriminate | intros [cv [H1 _]]; discriminate].
  - destruct st; cbn; split; [intro H; inversion H; eexists; split; reflexivity | intros [cv [H1 H2]]; inversion H1; subst; exact H2 | discriminate | intros [cv [H1 _]]; discriminate].
  - destruct st; cbn; [rewrite (Hint eq_refl)|]; split;
      [intro H; inversion H; eexists; split; reflexivity | intros [cv [H1 H2]]; inversion H1; subst; exact H2 | discriminate | intros [cv [H1 _]]; discriminate].
  - destruct st, echo; cbn; split; try discriminate; try (intros [cv [H1 _]]; discriminate);
      [intro H; inversion H; eexists; split; reflexivity | intros [cv [H1 H2]]; inversion H1; subst; exact H2].
Qed.

Lemma header_iff_configured_with_value : forall c, integral_ttl c ->
  exists hs, cap_headers c = Some hs /\ NoDup (map fst hs) /\
    forall K v, In (K, v) hs <-> exists f cv, K = fname f /\ configured c f = Some cv /\ text_of cv = Some v.
Proof.
  intros c Hint. exists (spec_headers c). split; [apply cap_headers_closed_form|].
  split; [apply spec_headers_nodup|]. intros K v. rewrite in_spec_headers. split.
  - intros [f [E H]]. apply (advertised_is_configured_text c Hint) in H as [cv [H1 H2]]. exists f, cv. auto.
  - intros [f [cv [E [H1 H2]]]]. exists f. split; [exact E|]. apply (advertised_is_configured_text c Hint). exists cv. auto.
Qed.

Lemma never_empty : forall c hs, cap_headers c = Some hs -> hs <> [] /\ installed cap_install hs = true.
Proof.
  intros c hs H. rewrite cap_headers_closed_form in H. inversion H; subst.
  assert (In (fname FExternalization, if c_ext_config c && c_ext_storage c then lit_true else lit_false) (spec_headers c)) as Hin.
  { apply in_spec_headers. exists FExternalization. split; reflexivity. }
  destruct (spec_headers c); [destruct Hin|]. split; [discriminate | reflexivity].
Qed.

(* ------------------------------------------------------------------ *)
(* theorem 2: every response                                           *)
(* ------------------------------------------------------------------ *)
Definition frame_ok (f : request -> headers -> headers) : Prop :=
  forall rq h K, is_cap_name K = true -> lookup K (f rq h) = lookup K h.

Lemma stamp_all_lookup : forall capd h K,
  NoDup (map fst (wire capd)) ->
  lookup K (stamp_all capd h) = match lookup K (wire capd) with Some v => Some v | None => lookup K h end.
Proof.
  unfold stamp_all. induction capd as [|[k v] r IH]; intros h K Hnd; [reflexivity|].
  change (wire ((k, v) :: r)) with ((lower k, v) :: wire r) in *.
  cbn [map fst] in Hnd. inversion Hnd as [|? ? Hx Hr]; subst.
  cbn [fold_left fst snd lookup]. rewrite IH by exact Hr. unfold set_header.
  destruct (bytes_eqb (lower k) K) eqn:E.
  - apply bytes_eqb_eq in E. subst K.
    rewrite (lookup_notin (lower k) (wire r)) by exact Hx.
    apply lookup_assoc_set_same.
  - destruct (lookup K (wire r)); [reflexivity|].
    apply lookup_assoc_set_other. intro E2. subst K. rewrite bytes_eqb_refl in E. discriminate.
Qed.

Lemma cache_control_not_cap : is_cap_name (lower (s2l "Cache-Control")) = false.
Proof. vm_compute. reflexivity. Qed.

Lemma cap_process_response_lookup : forall capd rq h K,
  NoDup (map fst (wire capd)) -> is_cap_name K = true ->
  lookup K (cap_process_response cap_mw_stmts capd rq h)
  = match lookup K (wire capd) with Some v => Some v | None => lookup K h end.
Proof.
  intros capd rq h K Hnd HK. unfold cap_process_response, cap_mw_stmts. cbn [fold_left run_stmt].
  destruct (eval_guard rq (GMethodEq (s2l "OPTIONS"))).
  - unfold set_header. rewrite lookup_assoc_set_other.
    + apply stamp_all_lookup. exact Hnd.
    + intro E. subst K. rewrite cache_control_not_cap in HK. discriminate.
  - apply stamp_all_lookup. exact Hnd.
Qed.

Definition rstep (capd : headers) (rq : request) (h : headers) (m : mw) : headers :=
  match m with MwCap => cap_process_response cap_mw_stmts capd rq h | MwOther f => f rq h end.

Lemma rstep_after : forall capd rq, NoDup (map fst (wire capd)) ->
  forall l h, (forall f, In (MwOther f) l -> frame_ok f) ->
    (forall K, is_cap_name K = true -> lookup K h = lookup K (wire capd)) ->
    forall K, is_cap_name K = true -> lookup K (fold_left (rstep capd rq) l h) = lookup K (wire capd).
Proof.
  intros capd rq Hnd. induction l as [|m l IH]; intros h Hf Hh K HK; cbn [fold_left]; [apply Hh; exact HK|].
  apply IH; [intros f Hf'; apply Hf; right; exact Hf' | | exact HK].
  intros K2 HK2. destruct m as [|f]; unfold rstep.
  - rewrite cap_process_response_lookup by assumption. rewrite Hh by exact HK2.
    destruct (lookup K2 (wire capd)); reflexivity.
  - rewrite (Hf f (or_introl eq_refl)) by exact HK2. apply Hh. exact HK2.
Qed.

Lemma rstep_before : forall capd rq, NoDup (map fst (wire capd)) ->
  forall l h, In MwCap l -> (forall f, In (MwOther f) l -> frame_ok f) ->
    (forall K, is_cap_name K = true -> lookup K h = None) ->
    forall K, is_cap_name K = true -> lookup K (fold_left (rstep capd rq) l h) = lookup K (wire capd).
Proof.
  intros capd rq Hnd. induction l as [|m l IH]; intros h Hc Hf Hh K HK; [destruct Hc|].
  cbn [fold_left]. destruct m as [|f].
  - apply rstep_after; [exact Hnd | intros f Hf'; apply Hf; right; exact Hf' | | exact HK].
    intros K2 HK2. unfold rstep. rewrite cap_process_response_lookup by assumption. rewrite Hh by exact HK2.
    destruct (lookup K2 (wire capd)); reflexivity.
  - destruct Hc as [Hc|Hc]; [discriminate|].
    apply IH; [exact Hc | intros f' Hf'; apply Hf; right; exact Hf' | | exact HK].
    intros K2 HK2. unfold rstep. rewrite (Hf f (or_introl eq_refl)) by exact HK2. apply Hh. exact HK2.
Qed.

Lemma respond_lookup : forall capd mws rq h0,
  NoDup (map fst (wire capd)) ->
  In MwCap mws ->
  (forall f, In (MwOther f) mws -> frame_ok f) ->
  (forall K, is_cap_name K = true -> lookup K h0 = None) ->
  forall K, is_cap_name K = true ->
    lookup K (respond cap_mw_stmts capd mws rq h0) = lookup K (wire capd).
Proof.
  intros capd mws rq h0 Hnd Hin Hfr H0 K HK.
  change (respond cap_mw_stmts capd mws rq h0) with (fold_left (rstep capd rq) (rev mws) h0).
  apply rstep_before; try assumption.
  - apply in_rev in Hin. exact Hin.
  - intros f Hf. apply Hfr. apply in_rev. exact Hf.
Qed.

Lemma wire_spec_nodup : forall c, NoDup (map fst (wire (spec_headers c))).
Proof. intro c. rewrite wire_spec. apply spec_keys_nodup. exact lname_nodup. Qed.

Lemma is_cap_name_iff : forall K, is_cap_name K = true <-> exists f, K = lname f.
Proof.
  intro K. unfold is_cap_name. rewrite existsb_exists. split.
  - intros [f [_ E]]. apply bytes_eqb_eq in E. exists f. symmetry. exact E.
  - intros [f ->]. exists f. split; [apply all_features_complete | apply bytes_eqb_refl].
Qed.

Lemma lookup_wire_spec : forall c f, lookup (lname f) (wire (spec_headers c)) = advertised c f.
Proof.
  intros c f. rewrite wire_spec. apply spec_lookup_in; [exact lname_nodup | apply all_features_complete].
Qed.

Lemma on_every_response : forall c hs others rq h0,
  cap_headers c = Some hs ->
  (forall f, In (MwOther f) others -> frame_ok f) ->
  (forall K, is_cap_name K = true -> lookup K h0 = None) ->
  forall f, lookup (lname f) (respond cap_mw_stmts hs (app_middleware cap_install hs others) rq h0) = advertised c f.
Proof.
  intros c hs others rq h0 Hc Hfr H0 f.
  destruct (never_empty c hs Hc) as [_ Hinst].
  rewrite cap_headers_closed_form in Hc. inversion Hc; subst hs. clear Hc.
  rewrite respond_lookup.
  - apply lookup_wire_spec.
  - apply wire_spec_nodup.
  - unfold app_middleware. rewrite Hinst. apply in_or_app. right. left. reflexivity.
  - intros g Hg. unfold app_middleware in Hg. rewrite Hinst in Hg. apply in_app_or in Hg as [Hg|[Hg|[]]]; [apply Hfr; exact Hg | discriminate].
  - exact H0.
  - apply is_cap_name_iff. exists f. reflexivity.
Qed.

(* ------------------------------------------------------------------ *)
(* theorem 3: the probe                                                *)
(* ------------------------------------------------------------------ *)
Lemma lstrip_by_id : forall p c r, p c = false -> lstrip_by p (c :: r) = c :: r.
Proof. intros p c r H. cbn. rewrite H. reflexivity. Qed.

Lemma last_rev_head : forall (s : list N) c r d, rev s = c :: r -> last s d = c.
Proof.
  intros s c r d H. assert (s = rev (c :: r)) as E by (rewrite <- H, rev_involutive; reflexivity).
  subst s. cbn. apply last_last.
Qed.

Lemma strip_by_id : forall p s, s <> [] -> p (hd 0 s) = false -> p (last s 0) = false -> strip_by p s = s.
Proof.
  intros p s Hne Hh Hl. unfold strip_by. destruct s as [|c r]; [contradiction|]. cbn [hd] in Hh.
  rewrite lstrip_by_id by exact Hh.
  destruct (rev (c :: r)) as [|c' r'] eqn:E.
  - apply (f_equal (@List.length N)) in E. rewrite rev_length in E. discriminate.
  - rewrite (last_rev_head (c :: r) c' r' 0 E) in Hl. rewrite lstrip_by_id by exact Hl.
    rewrite <- E. apply rev_involutive.
Qed.

Lemma digit_not_ws : forall c, is_digit09 c = true -> is_ws c = false.
Proof.
  intros c H. apply is_digit09_iff in H. unfold is_ws.
  repeat (apply orb_false_iff; split); try (apply andb_false_iff); try (apply N.eqb_neq); try lia.
  - right. apply N.leb_gt. lia.
  - right. apply N.leb_gt. lia.
  - left. apply N.leb_gt. lia.
Qed.

Lemma digits_last : forall s, digits s -> s <> [] -> is_digit09 (last s 0) = true.
Proof.
  intros s Hd Hne. unfold digits in Hd. rewrite Forall_forall in Hd. apply Hd.
  destruct s as [|c r]; [contradiction|]. clear. revert c. induction r as [|x r IH]; intro c; cbn; [left; reflexivity|].
  right. apply IH.
Qed.

Lemma int_body_digits : forall s acc b, digits s -> (s <> [] \/ b = true) ->
  int_body acc b s = Some (value_acc acc s).
Proof.
  induction s as [|c r IH]; intros acc b Hd Hb; cbn.
  - destruct Hb as [Hb|Hb]; [contradiction | subst; reflexivity].
  - inversion Hd as [|? ? Hc Hr]; subst. pose proof Hc as Hc'. apply is_digit09_iff in Hc'.
    replace (c =? 95) with false by (symmetry; apply N.eqb_neq; lia).
    rewrite ascii_digit_is_udigit by lia.
    apply IH; [exact Hr | right; reflexivity].
Qed.

Lemma show_digits : forall n, digits (show n) /\ show n <> [].
Proof. intro n. split; [apply canon_num_digits, show_canon | apply canon_num_nonempty, show_canon]. Qed.

Lemma show_head : forall n, exists d r, show n = d :: r /\ is_digit09 d = true.
Proof.
  intro n. destruct (show_digits n) as [Hd Hne]. destruct (show n) as [|d r]; [contradiction|].
  exists d, r. split; [reflexivity|]. inversion Hd; assumption.
Qed.

Lemma int_body_show : forall n, int_body 0 false (show n) = Some n.
Proof.
  intro n. destruct (show_digits n) as [Hd Hne].
  rewrite int_body_digits; [|exact Hd | left; exact Hne].
  f_equal. apply value_show.
Qed.

Lemma is_ws_int_le : forall c, is_ws c = false -> is_ws_int c = false.
Proof. intros c H. unfold is_ws_int. rewrite H. reflexivity. Qed.

Lemma strip_int_show : forall n, strip_by is_ws_int (show n) = show n.
Proof.
  intro n. destruct (show_digits n) as [Hd Hne]. destruct (show_head n) as [d [r [E Hdg]]].
  apply strip_by_id; [exact Hne | | ].
  - rewrite E. cbn. apply is_ws_int_le, digit_not_ws. exact Hdg.
  - apply is_ws_int_le, digit_not_ws, digits_last; assumption.
Qed.

Lemma digit_cases : forall d, is_digit09 d = true -> In d [48; 49; 50; 51; 52; 53; 54; 55; 56; 57].
Proof. intros d H. apply is_digit09_iff in H. cbn. lia. Qed.

Lemma py_int_show_N : forall n, py_int (show n) = Some (Z.of_N n).
Proof.
  intro n. unfold py_int. rewrite strip_int_show.
  destruct (show_head n) as [d [r [E Hdg]]]. pose proof (int_body_show n) as Hb. rewrite E in *.
  apply digit_cases in Hdg. cbn [In] in Hdg.
  repeat (destruct Hdg as [Hdg|Hdg]; [subst d; cbv beta iota; rewrite Hb; reflexivity|]).
  destruct Hdg.
Qed.

Lemma py_int_show_Z : forall z, py_int (show_Z z) = Some z.
Proof.
  intro z. destruct z as [|p|p]; cbn [show_Z].
  - rewrite py_int_show_N. reflexivity.
  - rewrite py_int_show_N. reflexivity.
  - unfold py_int.
    assert (strip_by is_ws_int (45 :: show (N.pos p)) = 45 :: show (N.pos p)) as E.
    { destruct (show_digits (N.pos p)) as [Hd Hne]. apply strip_by_id; [discriminate | reflexivity |].
      destruct (show (N.pos p)) as [|d r] eqn:Es; [contradiction|].
      change (last (45 :: d :: r) 0) with (last (d :: r) 0).
      apply is_ws_int_le, digit_not_ws, digits_last; [exact Hd | discriminate]. }
    rewrite E. cbv beta iota. rewrite int_body_show. reflexivity.
Qed.

Lemma int_suppress_show : forall o, int_suppress (option_map show_Z o) = o.
Proof. intros [z|]; cbn; [apply py_int_show_Z | reflexivity]. Qed.

(* --- echo names --- *)
Definition tail_str (names : list (list N)) : list N := flat_map (fun n => 44 :: 32 :: n) names.
Lemma join_cons : forall n r, join comma_sp (n :: r) = n ++ tail_str r.
Proof.
  intros n r. revert n. induction r as [|m r IH]; intro n.
  - cbn. rewrite app_nil_r. reflexivity.
  - change (join comma_sp (n :: m :: r)) with (n ++ comma_sp ++ join comma_sp (m :: r)).
    rewrite IH. cbn. reflexivity.
Qed.

Lemma split_nosep : forall sep s cur, existsb (N.eqb sep) s = false -> split_on sep cur s = [rev cur ++ s].
Proof.
  intros sep s; induction s as [|c r IH]; intros cur H; cbn in *.
  - rewrite app_nil_r. reflexivity.
  - apply orb_false_iff in H as [H1 H2]. rewrite N.eqb_sym, H1. rewrite IH by exact H2.
    cbn. rewrite <- app_assoc. reflexivity.
Qed.
Lemma split_app_sep : forall sep s cur rest, existsb (N.eqb sep) s = false ->
  split_on sep cur (s ++ sep :: rest) = (rev cur ++ s) :: split_on sep [] rest.
Proof.
  intros sep s; induction s as [|c r IH]; intros cur rest H; cbn in *.
  - rewrite N.eqb_refl, app_nil_r. reflexivity.
  - apply orb_false_iff in H as [H1 H2]. rewrite N.eqb_sym, H1. rewrite IH by exact H2.
    cbn. rewrite <- app_assoc. reflexivity.
Qed.

Lemma name_ok_parts : forall n, name_ok n = true ->
  n <> [] /\ is_ws (hd 0 n) = false /\ is_ws (last n 0) = false /\ existsb (N.eqb 44) n = false.
Proof.
  intros n H. unfold name_ok in H. destruct n as [|c r]; [discriminate|].
  apply andb_true_iff in H as [H H3]. apply andb_true_iff in H as [H1 H2].
  apply negb_true_iff in H1, H2, H3. repeat split; try assumption. discriminate.
Qed.

Lemma split_joined : forall r pre, existsb (N.eqb 44) pre = false -> forallb name_ok r = true ->
  split_on 44 [] (pre ++ tail_str r) = pre :: map (cons 32) r.
Proof.
  induction r as [|n r IH]; intros pre Hpre Hr.
  - cbn. rewrite app_nil_r. rewrite split_nosep by exact Hpre. reflexivity.
  - cbn in Hr. apply andb_true_iff in Hr as [Hn Hr].
    change (tail_str (n :: r)) with (44 :: ((32 :: n) ++ tail_str r)).
    rewrite split_app_sep by exact Hpre. cbn [rev app map]. f_equal.
    apply (IH (32 :: n)); [|exact Hr].
    cbn. apply name_ok_parts in Hn as [_ [_ [_ Hn]]]. exact Hn.
Qed.

Lemma strip_name : forall n, name_ok n = true -> strip n = n.
Proof.
  intros n H. apply name_ok_parts in H as [H1 [H2 [H3 _]]]. apply strip_by_id; assumption.
Qed.
Lemma strip_sp_name : forall n, name_ok n = true -> strip (32 :: n) = n.
Proof.
  intros n H. pose proof (strip_name n H) as E. unfold strip, strip_by in *.
  change (lstrip_by is_ws (32 :: n)) with (lstrip_by is_ws n). exact E.
Qed.

Lemma echo_roundtrip : forall n r, forallb name_ok (n :: r) = true ->
  filter (fun x => negb (is_nil x)) (map strip (split_on 44 [] (join comma_sp (n :: r)))) = n :: r.
Proof.
  intros n r H. cbn in H. apply andb_true_iff in H as [Hn Hr].
  rewrite join_cons. rewrite split_joined; [| apply name_ok_parts in Hn; tauto | exact Hr].
  cbn [map filter]. rewrite strip_name by exact Hn.
  destruct (name_ok_parts n Hn) as [Hne _]. destruct n as [|c n']; [contradiction|]. cbn [is_nil negb].
  f_equal. clear -Hr. induction r as [|m r IH]; [reflexivity|].
  cbn in Hr. apply andb_true_iff in Hr as [Hm Hr]. cbn [map filter].
  rewrite strip_sp_name by exact Hm.
  destruct (name_ok_parts m Hm) as [Hne _]. destruct m as [|c m']; [contradiction|]. cbn [is_nil negb].
  f_equal. apply IH. exact Hr.
Qed.

(* --- encodings: three possible lists --- *)
Lemma enabled_encodings_cases : forall c,
  enabled_encodings c = [] \/ enabled_encodings c = [Gzip] \/ enabled_encodings c = [Zstd; Gzip].
Proof.
  intro c. unfold enabled_encodings. destruct (c_compression c), (c_zstd_runtime c), (c_zstd_disabled c); cbn; tauto.
Qed.

Lemma probe_encodings : forall l, l = [] \/ l = [Gzip] \/ l = [Zstd; Gzip] ->
  (let v := join comma_sp (map enc_value l) in
   if is_nil (strip v) then [] else match parse_encoding_list v with [] => [Zstd] | p => p end) = l.
Proof. intros l [->|[->| ->]]; vm_compute; reflexivity. Qed.

(* --- the probe on the wire headers --- *)
Lemma get_or_wire : forall c f, get_or (wire (spec_headers c)) (fname f) = advertised c f.
Proof.
  intros c f. unfold get_or.
  assert (lookup (fname f) (wire (spec_headers c)) = None) as E.
  { rewrite wire_spec. apply spec_lookup_none. intro g. apply fname_not_lname. }
  rewrite E. cbn. apply lookup_wire_spec.
Qed.

Lemma is_true_flag : forall b, is_true_str (flag b) = b.
Proof. intros [|]; vm_compute; reflexivity. Qed.

Lemma probe_roundtrip : forall c, echo_names_ok c ->
  probe (wire (spec_headers c)) = caps_of_config c.
Proof.
  intros c Hecho. unfold probe.
  assert (lookup (fname FEncodings) (wire (spec_headers c)) = None) as Eenc.
  { rewrite wire_spec. apply spec_lookup_none. intro g. apply fname_not_lname. }
  rewrite Eenc. change (lower (fname FEncodings)) with (lname FEncodings).
  rewrite lookup_wire_spec. rewrite !get_or_wire.
  unfold caps_of_config. f_equal.
  - apply int_suppress_show.
  - apply int_suppress_show.
  - apply int_suppress_show.
  - cbn. destruct (c_ext_config c && c_ext_storage c); vm_compute; reflexivity.
  - apply is_true_flag.
  - cbn. destruct (c_upload_provider c); [apply int_suppress_show | reflexivity].
  - cbn [advertised]. apply (probe_encodings (enabled_encodings c)). apply enabled_encodings_cases.
  - apply is_true_flag.
  - cbn. destruct (c_sticky c); [cbn; apply py_int_show_Z | reflexivity].
  - cbn [advertised]. unfold echo_names_ok in Hecho. destruct (c_sticky c); [|reflexivity].
    destruct (c_echo c) as [|n r]; [reflexivity|]. cbn [is_nil negb andb].
    assert (truthy_str (Some (join comma_sp (n :: r))) = true) as Et.
    { rewrite join_cons. cbn in Hecho. apply andb_true_iff in Hecho as [Hn _].
      destruct (name_ok_parts n Hn) as [Hne _]. destruct n; [contradiction | reflexivity]. }
    rewrite Et. apply echo_roundtrip. exact Hecho.
Qed.

Lemma client_probe_roundtrip : forall c hs, echo_names_ok c -> cap_headers c = Some hs ->
  probe (wire hs) = caps_of_config c.
Proof.
  intros c hs He H. rewrite cap_headers_closed_form in H. inversion H; subst. apply probe_roundtrip. exact He.
Qed.
