(* Proofs about model/M_TokIntrospect.v: the JWS regex refuses exactly three base64url segments
   (optionally followed by one line feed), _read_token yields exactly the well-formed subjects, and the
   endpoint's decision is the table of property C36. *)
From Coq Require Import List NArith ZArith Bool Lia.
From VGI Require Import Regex Corr M_TokIntrospect.
Import ListNotations.
Open Scope N_scope.

Definition P0 : params := params_expected.

(* ------------------------------------------------------------------ *)
(** * Strings, allowlist                                               *)
(* ------------------------------------------------------------------ *)

Lemma str_eqb_eq : forall a b : str, str_eqb a b = true <-> a = b.
Proof.
  induction a as [| x a IH]; intros [| y b]; cbn [str_eqb list_eqb]; split; intros H;
    try reflexivity; try discriminate.
  - apply andb_true_iff in H. destruct H as [Hx Hr]. apply N.eqb_eq in Hx. subst y.
    f_equal. apply IH. exact Hr.
  - inversion H; subst. apply andb_true_iff. split; [apply N.eqb_refl | apply IH; reflexivity].
Qed.

Lemma nonempty_iff : forall s : str, nonempty s = true <-> s <> [].
Proof. intros [| c s]; cbn; split; intros H; congruence. Qed.

Lemma allowed_iff : forall allow name,
  allowed allow name = true <-> In name allow /\ name <> [].
Proof.
  intros allow name. unfold allowed. rewrite existsb_exists. split.
  - intros (x & Hin & Heq). apply filter_In in Hin. destruct Hin as [Hin Hne].
    apply str_eqb_eq in Heq. subst x. split; [exact Hin | apply nonempty_iff; exact Hne].
  - intros [Hin Hne]. exists name. split.
    + apply filter_In. split; [exact Hin | apply nonempty_iff; exact Hne].
    + apply str_eqb_eq. reflexivity.
Qed.

(* the caller may introspect: authenticated, named, and named in the configured allowlist *)
Definition introspector (E : env) : Prop :=
  c_authenticated (e_caller E) = true /\
  In (caller_name (e_caller E)) (e_allow E) /\ caller_name (e_caller E) <> [].

Lemma introspector_iff : forall E,
  negb (c_authenticated (e_caller E)) || negb (allowed (e_allow E) (caller_name (e_caller E))) = false
  <-> introspector E.
Proof.
  intros E. unfold introspector. rewrite orb_false_iff, !negb_false_iff, allowed_iff. tauto.
Qed.

(* ------------------------------------------------------------------ *)
(** * The JWS regex                                                    *)
(* ------------------------------------------------------------------ *)

Lemma den_seg_plus : forall b s post, den penv0 seg_plus b s post <-> s <> [] /\ b64s s.
Proof. intros b s post. unfold seg_plus, b64s, is_b64url. apply den_plus_cls. Qed.

Lemma den_dot : forall b s post, den penv0 dot b s post <-> s = [46].
Proof.
  intros b s post. unfold dot. rewrite den_chr. split.
  - intros (c & -> & Hc). cbn [cls_mem] in Hc. apply N.eqb_eq in Hc. subst c. reflexivity.
  - intros ->. exists 46. split; reflexivity.
Qed.

Lemma den_jws : forall m post,
  den penv0 jws_re true m post <->
  jws_shaped m /\ (post = [] \/ post = [10]).
Proof.
  intros m post. unfold jws_re, jws_shaped. split.
  - intros H.
    apply den_cat in H. destruct H as (x0 & m1 & -> & H0 & H).
    apply den_bos in H0. destruct H0 as [-> _].
    apply den_cat in H. destruct H as (a & m2 & -> & Ha & H).
    apply den_seg_plus in Ha. destruct Ha as [Hane Ha].
    apply den_cat in H. destruct H as (d1 & m3 & -> & Hd1 & H).
    apply den_dot in Hd1. subst d1.
    apply den_cat in H. destruct H as (b & m4 & -> & Hb & H).
    apply den_seg_plus in Hb. destruct Hb as [Hbne Hb].
    apply den_cat in H. destruct H as (d2 & m5 & -> & Hd2 & H).
    apply den_dot in Hd2. subst d2.
    apply den_cat in H. destruct H as (c & m6 & -> & Hc & H).
    apply den_star_cls in Hc.
    apply den_dollar in H. destruct H as [-> Hpost].
    split; [| exact Hpost].
    exists a, b, c. rewrite app_nil_r. cbn [app].
    split; [reflexivity |]. split; [exact Hane |]. split; [exact Hbne |].
    split; [exact Ha |]. split; [exact Hb | exact Hc].
  - intros [(a & b & c & -> & Hane & Hbne & Ha & Hb & Hc) Hpost].
    apply den_cat. exists [], (a ++ [46] ++ b ++ [46] ++ c).
    split; [reflexivity |]. split; [apply den_bos; split; reflexivity |].
    apply den_cat. exists a, ([46] ++ b ++ [46] ++ c).
    split; [reflexivity |]. split; [apply den_seg_plus; split; assumption |].
    apply den_cat. exists [46], (b ++ [46] ++ c).
    split; [reflexivity |]. split; [apply den_dot; reflexivity |].
    apply den_cat. exists b, ([46] ++ c).
    split; [reflexivity |]. split; [apply den_seg_plus; split; assumption |].
    apply den_cat. exists [46], c.
    split; [reflexivity |]. split; [apply den_dot; reflexivity |].
    apply den_cat. exists c, [].
    split; [symmetry; apply app_nil_r |]. split; [apply den_star_cls; exact Hc |].
    apply den_dollar. split; [reflexivity | exact Hpost].
Qed.

Lemma jws_match_iff : forall t, py_match penv0 jws_re t = true <-> jws_refused t.
Proof.
  intros t. rewrite py_match_spec. unfold jws_refused. split.
  - intros (m & post & -> & H). apply den_jws in H. destruct H as [Hm [-> | ->]].
    + left. rewrite app_nil_r. exact Hm.
    + right. exists m. split; [reflexivity | exact Hm].
  - intros [Hm | (t' & -> & Hm)].
    + exists t, []. split; [symmetry; apply app_nil_r |]. apply den_jws. split; [exact Hm | left; reflexivity].
    + exists t', [10]. split; [reflexivity |]. apply den_jws. split; [exact Hm | right; reflexivity].
Qed.

Lemma jws_shaped_refused : forall t, jws_shaped t -> jws_refused t.
Proof. intros t H. left. exact H. Qed.

(* ------------------------------------------------------------------ *)
(** * _read_token                                                      *)
(* ------------------------------------------------------------------ *)

(* the body carries the well-formed subject credential t *)
Definition subject (b : body) (t : str) : Prop :=
  (forall l, b_content_length b = Some l -> l <= 8192) /\
  b_read_len b <= 8192 /\
  b_shape b = JObjToken t /\
  t <> [] /\ len t <= 4096 /\ Forall (fun c => is_surrogate c = false) t.

Lemma encodable_iff : forall t, encodable t = true <-> Forall (fun c => is_surrogate c = false) t.
Proof.
  intros t. unfold encodable. rewrite negb_true_iff. induction t as [| c t IH]; cbn [existsb].
  - split; [constructor | reflexivity].
  - rewrite orb_false_iff, IH. split.
    + intros [Hc Ht]. constructor; assumption.
    + intros H. inversion H; subst. split; assumption.
Qed.

Lemma read_token_eq : forall b,
  read_token P0 b =
  if match b_content_length b with Some l => 8192 <? l | None => false end then None
  else if 8192 <? b_read_len b then None
  else match b_shape b with
       | JObjToken t =>
           match t with
           | [] => None
           | _ => if 4096 <? len t then None else if encodable t then Some t else None
           end
       | _ => None
       end.
Proof.
  intros [cl rl sh]. unfold read_token, P0, params_expected.
  cbn [p_checks existsb rcheck_rejects p_max_body p_max_token b_content_length b_read_len b_shape].
  destruct (match cl with Some l => 8192 <? l | None => false end); [reflexivity |].
  destruct (8192 <? rl); [reflexivity |].
  destruct sh as [| | | | t]; try reflexivity.
  destruct t as [| c t]; [reflexivity |].
  cbn [orb]. destruct (4096 <? len (c :: t)); [reflexivity |].
  cbn [orb]. destruct (encodable (c :: t)); reflexivity.
Qed.

Lemma read_token_spec : forall b t, read_token P0 b = Some t <-> subject b t.
Proof.
  intros b t. rewrite read_token_eq. unfold subject. split.
  - intros H.
    destruct (b_content_length b) as [l |] eqn:Ecl.
    + destruct (8192 <? l) eqn:El; [discriminate |].
      destruct (8192 <? b_read_len b) eqn:Er; [discriminate |].
      destruct (b_shape b) as [| | | | t0] eqn:Es; try discriminate.
      destruct t0 as [| c t0]; [discriminate |].
      destruct (4096 <? len (c :: t0)) eqn:Elen; [discriminate |].
      destruct (encodable (c :: t0)) eqn:Eenc; [| discriminate].
      inversion H; subst t.
      apply N.ltb_ge in El, Er, Elen. apply encodable_iff in Eenc.
      split; [intros l' Hl'; inversion Hl'; subst; exact El |].
      split; [exact Er |]. split; [reflexivity |]. split; [discriminate |]. split; assumption.
    + destruct (8192 <? b_read_len b) eqn:Er; [discriminate |].
      destruct (b_shape b) as [| | | | t0] eqn:Es; try discriminate.
      destruct t0 as [| c t0]; [discriminate |].
      destruct (4096 <? len (c :: t0)) eqn:Elen; [discriminate |].
      destruct (encodable (c :: t0)) eqn:Eenc; [| discriminate].
      inversion H; subst t.
      apply N.ltb_ge in Er, Elen. apply encodable_iff in Eenc.
      split; [intros l' Hl'; discriminate |].
      split; [exact Er |]. split; [reflexivity |]. split; [discriminate |]. split; assumption.
  - intros (Hcl & Hr & Hs & Hne & Hlen & Henc).
    assert (E1 : match b_content_length b with Some l => 8192 <? l | None => false end = false).
    { destruct (b_content_length b) as [l |]; [| reflexivity]. apply N.ltb_ge. apply Hcl. reflexivity. }
    rewrite E1. apply N.ltb_ge in Hr. rewrite Hr, Hs.
    destruct t as [| c t]; [congruence |].
    apply N.ltb_ge in Hlen. rewrite Hlen. apply encodable_iff in Henc. rewrite Henc. reflexivity.
Qed.

Lemma read_token_encodable : forall b t, read_token P0 b = Some t -> encodable t = true.
Proof.
  intros b t H. apply read_token_spec in H. destruct H as (_ & _ & _ & _ & _ & H).
  apply encodable_iff. exact H.
Qed.

Lemma read_token_none : forall b, (forall t, ~ subject b t) -> read_token P0 b = None.
Proof.
  intros b H. destruct (read_token P0 b) as [t |] eqn:E; [| reflexivity].
  exfalso. apply (H t). apply read_token_spec. exact E.
Qed.

(* ------------------------------------------------------------------ *)
(** * on_post as an explicit decision                                  *)
(* ------------------------------------------------------------------ *)

Definition mk (r : response) (l : list logev) (c : list str) : result :=
  {| r_resp := r; r_log := l; r_calls := c |}.

Definition R403 : response := refusal P0 [] 403 s_not_an_introspector.
Definition R429 : response := refusal P0 [HRetryAfter 1%Z] 429 s_rate_limited.
Definition R404 : response := refusal P0 [] 404 s_unresolved.
Definition R_disabled : response := disabled_response P0.
Definition resp_identity (p n : str) (ttl : ttl_val) : response :=
  {| status := 200; headers := [HJson; HNoStore];
     rbody_of := BObject [(s_principal, JStr p); (s_token_name, JStr n); (s_ttl_seconds, JTtl ttl)] |}.

Definition decide (E : env) : result :=
  let name := caller_name (e_caller E) in
  if negb (c_authenticated (e_caller E)) || negb (allowed (e_allow E) name)
  then mk R403 [LogEv 1 false [name]] []
  else if negb (e_limiter_allows E)
  then mk R429 [LogEv 2 false [name]] []
  else match read_token P0 (e_body E) with
       | None => mk R404 [] []
       | Some t =>
           if encodable t then
             if py_match penv0 jws_re t then mk R404 [LogEv 4 true [name]] []
             else match e_resolver E t with
                  | RUnavailable msg ra => mk (resp_503 msg ra) [LogEv 7 true [name; msg]] [t]
                  | RRaise => mk resp_500 [] [t]
                  | RNone => mk R404 [LogEv 5 true [name]] [t]
                  | RIdentity p n ttl =>
                      if negb (usable_ttl ttl) then mk resp_500 [LogEv 6 true [name]] [t]
                      else mk (resp_identity p n ttl) [LogEv 8 true [name; p]] [t]
                  end
           else mk resp_500 [] []
       end.

Lemma endpoint_eq : forall E, endpoint P0 E = decide E.
Proof.
  intros E. unfold endpoint, decide.
  change (p_steps P0) with steps_expected. unfold steps_expected.
  cbn [interp eval_cond].
  destruct (negb (c_authenticated (e_caller E)) || negb (allowed (e_allow E) (caller_name (e_caller E)))).
  { reflexivity. }
  cbn [interp eval_cond].
  destruct (negb (e_limiter_allows E)).
  { reflexivity. }
  cbn [interp eval_cond s_read s_token].
  destruct (read_token P0 (e_body E)) as [t |]; [| reflexivity].
  cbn [interp eval_cond s_read s_token].
  destruct (encodable t); [| reflexivity].
  cbn [interp eval_cond s_read s_token].
  change (p_jws P0) with jws_re.
  destruct (py_match penv0 jws_re t); [reflexivity |].
  cbn [interp eval_cond s_read s_token s_digest s_identity s_log s_calls].
  destruct (e_resolver E t) as [p n ttl | | msg ra |]; reflexivity.
Qed.

(* ------------------------------------------------------------------ *)
(** * The response table                                               *)
(* ------------------------------------------------------------------ *)

Lemma forbidden : forall E, ~ introspector E -> endpoint P0 E = mk R403 [LogEv 1 false [caller_name (e_caller E)]] [].
Proof.
  intros E H. rewrite endpoint_eq. unfold decide.
  destruct (negb (c_authenticated (e_caller E)) || negb (allowed (e_allow E) (caller_name (e_caller E)))) eqn:Ec.
  - reflexivity.
  - exfalso. apply H. apply introspector_iff. exact Ec.
Qed.

Lemma status_403_iff : forall E, status (r_resp (endpoint P0 E)) = 403 <-> ~ introspector E.
Proof.
  intros E. split.
  - intros H Hi. rewrite endpoint_eq in H. unfold decide in H.
    apply introspector_iff in Hi. rewrite Hi in H.
    destruct (negb (e_limiter_allows E)); [discriminate H |].
    destruct (read_token P0 (e_body E)) as [t |]; [| discriminate H].
    destruct (encodable t); [| discriminate H].
    destruct (py_match penv0 jws_re t); [discriminate H |].
    destruct (e_resolver E t) as [p n ttl | | msg ra |]; try discriminate H.
    destruct (negb (usable_ttl ttl)); discriminate H.
  - intros H. rewrite (forbidden E H). reflexivity.
Qed.

(* past the two caller guards *)
Lemma admitted_eq : forall E,
  introspector E -> e_limiter_allows E = true ->
  endpoint P0 E =
  let name := caller_name (e_caller E) in
  match read_token P0 (e_body E) with
  | None => mk R404 [] []
  | Some t =>
      if py_match penv0 jws_re t then mk R404 [LogEv 4 true [name]] []
      else match e_resolver E t with
           | RUnavailable msg ra => mk (resp_503 msg ra) [LogEv 7 true [name; msg]] [t]
           | RRaise => mk resp_500 [] [t]
           | RNone => mk R404 [LogEv 5 true [name]] [t]
           | RIdentity p n ttl =>
               if usable_ttl ttl then mk (resp_identity p n ttl) [LogEv 8 true [name; p]] [t]
               else mk resp_500 [LogEv 6 true [name]] [t]
           end
  end.
Proof.
  intros E Hi Hl. rewrite endpoint_eq. unfold decide.
  apply introspector_iff in Hi. rewrite Hi, Hl. cbn [negb].
  destruct (read_token P0 (e_body E)) as [t |] eqn:Er; [| reflexivity].
  rewrite (read_token_encodable _ _ Er).
  destruct (py_match penv0 jws_re t); [reflexivity |].
  destruct (e_resolver E t) as [p n ttl | | msg ra |]; try reflexivity.
  destruct (usable_ttl ttl); reflexivity.
Qed.

Lemma usable_ttl_iff : forall t, usable_ttl t = true <-> ttl_finite_positive t.
Proof.
  intros t. unfold ttl_finite_positive. split.
  - destruct t as [z | m e | | neg | b |]; cbn [usable_ttl]; intros H; try discriminate.
    + exists z, 0%Z. split; [reflexivity | apply Z.ltb_lt; exact H].
    + exists m, e. split; [reflexivity | apply Z.ltb_lt; exact H].
  - intros (m & e & Hn & Hm). destruct t as [z | m' e' | | neg | b |]; cbn [ttl_number] in Hn; try discriminate.
    + inversion Hn; subst. apply Z.ltb_lt. exact Hm.
    + inversion Hn; subst. apply Z.ltb_lt. exact Hm.
Qed.

(* the three classes the statement wants to be indistinguishable *)
Inductive unresolved_class (E : env) : Prop :=
| UMalformed : (forall t, ~ subject (e_body E) t) -> unresolved_class E
| UJws : forall t, subject (e_body E) t -> jws_refused t -> unresolved_class E
| UUnknown : forall t, subject (e_body E) t -> ~ jws_refused t -> e_resolver E t = RNone -> unresolved_class E.

Lemma unresolved_404 : forall E,
  introspector E -> e_limiter_allows E = true -> unresolved_class E ->
  r_resp (endpoint P0 E) = R404.
Proof.
  intros E Hi Hl Hc. rewrite (admitted_eq E Hi Hl). cbv zeta.
  destruct Hc as [Hm | t Hs Hj | t Hs Hj Hr].
  - rewrite (read_token_none _ Hm). reflexivity.
  - apply read_token_spec in Hs. rewrite Hs. apply jws_match_iff in Hj. rewrite Hj. reflexivity.
  - apply read_token_spec in Hs. rewrite Hs.
    destruct (py_match penv0 jws_re t) eqn:Ej; [exfalso; apply Hj; apply jws_match_iff; exact Ej |].
    rewrite Hr. reflexivity.
Qed.

Lemma no_call_without_subject : forall E,
  introspector E -> e_limiter_allows E = true ->
  ((forall t, ~ subject (e_body E) t) \/ exists t, subject (e_body E) t /\ jws_refused t) ->
  r_calls (endpoint P0 E) = [].
Proof.
  intros E Hi Hl Hc. rewrite (admitted_eq E Hi Hl). cbv zeta.
  destruct Hc as [Hm | (t & Hs & Hj)].
  - rewrite (read_token_none _ Hm). reflexivity.
  - apply read_token_spec in Hs. rewrite Hs. apply jws_match_iff in Hj. rewrite Hj. reflexivity.
Qed.

(* whatever the caller, the limiter, the body and the resolver: the resolver sees at most the one
   well-formed, not JWS-shaped subject, and only for an introspector *)
Lemma calls_spec : forall E t,
  In t (r_calls (endpoint P0 E)) ->
  r_calls (endpoint P0 E) = [t] /\ introspector E /\ e_limiter_allows E = true /\
  subject (e_body E) t /\ ~ jws_refused t.
Proof.
  intros E t H. rewrite endpoint_eq in *. unfold decide in *.
  destruct (negb (c_authenticated (e_caller E)) || negb (allowed (e_allow E) (caller_name (e_caller E)))) eqn:Ec;
    [destruct H |].
  destruct (e_limiter_allows E) eqn:El; cbn [negb] in *; [| destruct H].
  destruct (read_token P0 (e_body E)) as [t0 |] eqn:Er; [| destruct H].
  destruct (encodable t0); [| destruct H].
  destruct (py_match penv0 jws_re t0) eqn:Ej; [destruct H |].
  assert (Ht : t = t0 /\ r_calls
     match e_resolver E t0 with
     | RIdentity p n ttl =>
         if negb (usable_ttl ttl) then mk resp_500 [LogEv 6 true [caller_name (e_caller E)]] [t0]
         else mk (resp_identity p n ttl) [LogEv 8 true [caller_name (e_caller E); p]] [t0]
     | RNone => mk R404 [LogEv 5 true [caller_name (e_caller E)]] [t0]
     | RUnavailable msg ra => mk (resp_503 msg ra) [LogEv 7 true [caller_name (e_caller E); msg]] [t0]
     | RRaise => mk resp_500 [] [t0]
     end = [t0]).
  { destruct (e_resolver E t0) as [p n ttl | | msg ra |].
    - destruct (negb (usable_ttl ttl)); cbn [r_calls mk] in *; destruct H as [<- | []]; split; reflexivity.
    - cbn [r_calls mk] in *; destruct H as [<- | []]; split; reflexivity.
    - cbn [r_calls mk] in *; destruct H as [<- | []]; split; reflexivity.
    - cbn [r_calls mk] in *; destruct H as [<- | []]; split; reflexivity. }
  destruct Ht as [-> Hc]. split; [exact Hc |].
  split; [apply introspector_iff; exact Ec |]. split; [reflexivity |].
  split; [apply read_token_spec; exact Er |].
  intros Hj. apply jws_match_iff in Hj. rewrite Hj in Ej. discriminate Ej.
Qed.

(* an identity body is only ever emitted with a usable ttl, and is exactly the three fields *)
Lemma identity_body_spec : forall E fields,
  rbody_of (r_resp (endpoint P0 E)) = BObject fields ->
  exists t p n ttl, e_resolver E t = RIdentity p n ttl /\ subject (e_body E) t /\
    fields = [(s_principal, JStr p); (s_token_name, JStr n); (s_ttl_seconds, JTtl ttl)] /\
    status (r_resp (endpoint P0 E)) = 200 /\ ttl_finite_positive ttl.
Proof.
  intros E fields H. rewrite endpoint_eq in *. unfold decide in *.
  destruct (negb (c_authenticated (e_caller E)) || negb (allowed (e_allow E) (caller_name (e_caller E))));
    [discriminate H |].
  destruct (negb (e_limiter_allows E)); [discriminate H |].
  destruct (read_token P0 (e_body E)) as [t |] eqn:Er; [| discriminate H].
  destruct (encodable t); [| discriminate H].
  destruct (py_match penv0 jws_re t); [discriminate H |].
  destruct (e_resolver E t) as [p n ttl | | msg ra |] eqn:Eo; try discriminate H.
  destruct (usable_ttl ttl) eqn:Eu; cbn [negb] in *; [| discriminate H].
  cbn [r_resp mk rbody_of resp_identity] in H. inversion H; subst fields.
  exists t, p, n, ttl. split; [exact Eo |]. split; [apply read_token_spec; exact Er |].
  split; [reflexivity |]. split; [reflexivity |]. apply usable_ttl_iff. exact Eu.
Qed.

(* ------------------------------------------------------------------ *)
(** * The subject credential does not flow into the response or the log *)
(* ------------------------------------------------------------------ *)

Definition with_token (E : env) (t : str) : env :=
  {| e_allow := e_allow E; e_resolver := e_resolver E; e_limiter_allows := e_limiter_allows E;
     e_caller := e_caller E;
     e_body := {| b_content_length := b_content_length (e_body E); b_read_len := b_read_len (e_body E);
                  b_shape := JObjToken t |} |}.

(* everything the endpoint itself looks at in a token *)
Definition tok_class (t : str) : bool * bool * bool * bool :=
  (nonempty t, 4096 <? len t, encodable t, py_match penv0 jws_re t).

Lemma read_token_with_token : forall E t,
  read_token P0 (e_body (with_token E t)) =
  if match b_content_length (e_body E) with Some l => 8192 <? l | None => false end then None
  else if 8192 <? b_read_len (e_body E) then None
  else if nonempty t then if 4096 <? len t then None else if encodable t then Some t else None
  else None.
Proof.
  intros E t. rewrite read_token_eq. cbn [with_token e_body b_content_length b_read_len b_shape].
  destruct t as [| c t]; reflexivity.
Qed.

Lemma noninterference : forall E t1 t2,
  tok_class t1 = tok_class t2 ->
  e_resolver E t1 = e_resolver E t2 ->
  r_resp (endpoint P0 (with_token E t1)) = r_resp (endpoint P0 (with_token E t2)) /\
  r_log (endpoint P0 (with_token E t1)) = r_log (endpoint P0 (with_token E t2)).
Proof.
  intros E t1 t2 Hc Hr. unfold tok_class in Hc. inversion Hc as [[Hne Hlen Henc Hjws]]. clear Hc.
  rewrite !endpoint_eq. unfold decide. rewrite !read_token_with_token.
  cbn [with_token e_caller e_allow e_limiter_allows e_resolver].
  destruct (negb (c_authenticated (e_caller E)) || negb (allowed (e_allow E) (caller_name (e_caller E))));
    [split; reflexivity |].
  destruct (negb (e_limiter_allows E)); [split; reflexivity |].
  destruct (match b_content_length (e_body E) with Some l => 8192 <? l | None => false end);
    [split; reflexivity |].
  destruct (8192 <? b_read_len (e_body E)); [split; reflexivity |].
  rewrite <- Hne, <- Hlen, <- Henc.
  destruct (nonempty t1); [| split; reflexivity].
  destruct (4096 <? len t1); [split; reflexivity |].
  destruct (encodable t1) eqn:Ee; [| split; reflexivity].
  rewrite <- Henc, Ee, <- Hjws.
  destruct (py_match penv0 jws_re t1); [split; reflexivity |].
  rewrite <- Hr.
  destruct (e_resolver E t1) as [p n ttl | | msg ra |]; try (split; reflexivity).
  destruct (negb (usable_ttl ttl)); split; reflexivity.
Qed.

(* ------------------------------------------------------------------ *)
(** * Disabled worker                                                  *)
(* ------------------------------------------------------------------ *)

Lemma disabled_const : forall E, worker P0 false E = mk R_disabled [] [].
Proof. reflexivity. Qed.

(* ------------------------------------------------------------------ *)
(** * A well-formed, not JWS-shaped subject: the answer is the resolver's *)
(* ------------------------------------------------------------------ *)

Lemma resolved_table : forall E t,
  introspector E -> e_limiter_allows E = true -> subject (e_body E) t -> ~ jws_refused t ->
  r_calls (endpoint P0 E) = [t] /\
  r_resp (endpoint P0 E) =
    match e_resolver E t with
    | RNone => R404
    | RUnavailable msg ra => resp_503 msg ra
    | RRaise => resp_500
    | RIdentity p n ttl => if usable_ttl ttl then resp_identity p n ttl else resp_500
    end.
Proof.
  intros E t Hi Hl Hs Hj. rewrite (admitted_eq E Hi Hl). cbv zeta.
  apply read_token_spec in Hs. rewrite Hs.
  destruct (py_match penv0 jws_re t) eqn:Ej; [exfalso; apply Hj; apply jws_match_iff; exact Ej |].
  destruct (e_resolver E t) as [p n ttl | | msg ra |]; try (split; reflexivity).
  destruct (usable_ttl ttl); split; reflexivity.
Qed.

Lemma unusable_ttl_iff : forall t, usable_ttl t = false <-> ~ ttl_finite_positive t.
Proof.
  intros t. rewrite <- usable_ttl_iff. destruct (usable_ttl t); split; intros H; congruence.
Qed.

(* ------------------------------------------------------------------ *)
(** * Statements of prop/P_C36.v in their final form                   *)
(* ------------------------------------------------------------------ *)

Lemma forbidden_403 : forall E,
  ~ introspector E ->
  r_resp (worker P0 true E) = R403 /\ r_calls (worker P0 true E) = [].
Proof. intros E H. cbn [worker]. rewrite (forbidden E H). split; reflexivity. Qed.

Lemma unresolved_byte_identical : forall E1 E2,
  introspector E1 -> e_limiter_allows E1 = true -> unresolved_class E1 ->
  introspector E2 -> e_limiter_allows E2 = true -> unresolved_class E2 ->
  r_resp (worker P0 true E1) = R404 /\ r_resp (worker P0 true E2) = r_resp (worker P0 true E1).
Proof.
  intros E1 E2 Hi1 Hl1 Hc1 Hi2 Hl2 Hc2. cbn [worker].
  rewrite (unresolved_404 E1 Hi1 Hl1 Hc1), (unresolved_404 E2 Hi2 Hl2 Hc2). split; reflexivity.
Qed.

Lemma jws_never_called : forall E t,
  In t (r_calls (worker P0 true E)) -> ~ jws_shaped t /\ ~ jws_refused t.
Proof.
  intros E t H. destruct (calls_spec E t H) as (_ & _ & _ & _ & Hj).
  split; [intros Hs; apply Hj; apply jws_shaped_refused; exact Hs | exact Hj].
Qed.

Lemma unavailable_503 : forall E t msg ra,
  introspector E -> e_limiter_allows E = true -> subject (e_body E) t -> ~ jws_refused t ->
  e_resolver E t = RUnavailable msg ra ->
  status (r_resp (worker P0 true E)) = 503 /\ In (HRetryAfter ra) (headers (r_resp (worker P0 true E))).
Proof.
  intros E t msg ra Hi Hl Hs Hj Hr. destruct (resolved_table E t Hi Hl Hs Hj) as [_ H].
  cbn [worker]. rewrite H, Hr. split; [reflexivity | left; reflexivity].
Qed.

Lemma identity_exact : forall E t p n ttl,
  introspector E -> e_limiter_allows E = true -> subject (e_body E) t -> ~ jws_refused t ->
  e_resolver E t = RIdentity p n ttl ->
  (ttl_finite_positive ttl ->
     r_resp (worker P0 true E) =
       {| status := 200; headers := [HJson; HNoStore];
          rbody_of := BObject [(s_principal, JStr p); (s_token_name, JStr n); (s_ttl_seconds, JTtl ttl)] |}) /\
  (~ ttl_finite_positive ttl -> r_resp (worker P0 true E) = resp_500).
Proof.
  intros E t p n ttl Hi Hl Hs Hj Hr. destruct (resolved_table E t Hi Hl Hs Hj) as [_ H].
  cbn [worker]. rewrite H, Hr. split; intros Hu.
  - apply usable_ttl_iff in Hu. rewrite Hu. reflexivity.
  - apply unusable_ttl_iff in Hu. rewrite Hu. reflexivity.
Qed.

Lemma disabled_definitive : forall E,
  worker P0 false E = mk R_disabled [] [] /\ status R_disabled = 404.
Proof. intros E. split; reflexivity. Qed.
