(* Two literal handler tables for the request path, used for non-vacuity examples (prop/P_C05.v) and for the record
   of the behaviour before the repair (refuted/R_C05.v).  They are NOT what the theorems are tied to: the tie is to the
   table regenerated from the source (tie/T_ReadReq.v).  Also the framework's metadata keys as literals. *)
From Coq Require Import List String NArith Bool.
From VGI Require Import M_ReadReq L_ReadReq.
Import ListNotations.
Open Scope string_scope.

Definition lv_serve : list raw_handler :=
  [(["EOFError"; "StopIteration"], (false, "break"));
   (["BrokenPipeError"; "ConnectionResetError"; "ConnectionAbortedError"], (false, "break"));
   (["pa.ArrowInvalid"], (false, "break"))].
Definition lv_so_read : list raw_handler :=
  [(["pa.ArrowInvalid"], (true, "reraise")); (["VersionError"; "RpcError"], (true, "return"))].
Definition lv_wrap : list raw_handler :=
  [(["RpcError"; "VersionError"], (false, "reraise")); (["Exception"], (false, "raise:RpcError"))].
Definition lv_shm_meta : list raw_handler := [(["ValueError"; "UnicodeDecodeError"], (false, "return"))].
Definition lv_attach : list raw_handler := [(["Exception"], (false, "return"))].
Definition lv_validate : list raw_handler := [(["Exception"], (true, "return"))].
Definition lv_ver : list raw_handler := [(["ProtocolVersionError"], (true, "return"))].
Definition lv_mdec : list raw_handler := [(["UnicodeDecodeError"], (false, "raise:RpcError"))].

Definition sv : string * list raw_handler := ("serve", lv_serve).
Definition rd : raw_stack := [("serve_one", lv_so_read); sv].

Definition mk_tables (dec : raw_stack) (mdec_fn : string) (attach trace : list (string * list raw_handler)) : tables :=
  [("open", rd); ("read", rd); ("drain", rd);
   ("meta_rpc", dec); ("meta_version", dec); ("method_decode", (mdec_fn, lv_mdec) :: dec);
   ("tp_decode", (trace ++ dec)%list); ("ts_decode", (trace ++ dec)%list); ("ext", dec);
   ("rr_shm_meta", ("_maybe_attach_shm", lv_shm_meta) :: dec); ("rr_attach", (attach ++ dec)%list);
   ("resolve_shm", dec); ("rows", dec); ("as_py", dec); ("release", dec);
   ("check_version", [("serve_one", lv_ver); sv]);
   ("deserialize", [("serve_one", lv_validate); sv]); ("validate_sig", [("serve_one", lv_validate); sv]);
   ("validate_params", [("serve_one", lv_validate); sv]);
   ("refresh_shm_meta", [("_maybe_attach_shm", lv_shm_meta); sv]); ("refresh_attach", (attach ++ [sv])%list);
   ("dyn_shm_meta", [("_maybe_attach_shm", lv_shm_meta); sv]); ("dyn_attach", (attach ++ [sv])%list)].

(* after the repair (commit "a well-framed but undecodable request ended the socket connection without a reply"):
   on the socket path (contain_decode_errors=True) _decode_request runs under a catch-all in _read_request,
   _maybe_attach_shm guards the attach, the trace headers are decoded under their own guard *)
Definition repaired_tables : tables :=
  mk_tables (("_read_request", lv_wrap) :: rd) "_decode_request" [("_maybe_attach_shm", lv_attach)] [("_decode_request", lv_mdec)].
(* the same source when _read_request is called WITHOUT contain_decode_errors=True (what the HTTP shells do, and what
   serve_one would do if it stopped passing the flag): the catch-all level is gone *)
Definition repaired_flag_off_tables : tables :=
  mk_tables rd "_decode_request" [("_maybe_attach_shm", lv_attach)] [("_decode_request", lv_mdec)].
(* before: nothing between the decoding steps and serve_one's (ArrowInvalid | VersionError, RpcError) handlers *)
Definition old_tables : tables := mk_tables rd "_read_request" [] [].

Lemma repaired_covers : covers repaired_tables = true.
Proof. vm_compute. reflexivity. Qed.
Lemma old_does_not_cover : covers old_tables = false.
Proof. vm_compute. reflexivity. Qed.
Lemma flag_off_does_not_cover : covers repaired_flag_off_tables = false.
Proof. vm_compute. reflexivity. Qed.

Open Scope N_scope.
Definition std_keys : keys := {|
  K_METHOD := [118;103;105;95;114;112;99;46;109;101;116;104;111;100];
  K_VERSION := [118;103;105;95;114;112;99;46;114;101;113;117;101;115;116;95;118;101;114;115;105;111;110];
  V_VERSION := [49];
  K_TP := [116;114;97;99;101;112;97;114;101;110;116];
  K_TS := [116;114;97;99;101;115;116;97;116;101];
  K_LOCATION := [118;103;105;95;114;112;99;46;108;111;99;97;116;105;111;110];
  K_LOG_LEVEL := [118;103;105;95;114;112;99;46;108;111;103;95;108;101;118;101;108];
  K_SHM_OFFSET := [118;103;105;95;114;112;99;46;115;104;109;95;111;102;102;115;101;116];
  K_SHM_LENGTH := [118;103;105;95;114;112;99;46;115;104;109;95;108;101;110;103;116;104];
  K_SEG_NAME := [118;103;105;95;114;112;99;46;115;104;109;95;115;101;103;109;101;110;116;95;110;97;109;101];
  K_SEG_SIZE := [118;103;105;95;114;112;99;46;115;104;109;95;115;101;103;109;101;110;116;95;115;105;122;101];
  N_TRANSPORT_OPTIONS := [95;95;116;114;97;110;115;112;111;114;116;95;111;112;116;105;111;110;115;95;95]
|}.

(* sample requests: method f, request_version 1 *)
Definition md_f : list (bytes * bytes) := [(K_METHOD std_keys, [102]); (K_VERSION std_keys, [49])].
Definition req0 (md : list (bytes * bytes)) (cols : list (option exc)) : req :=
  {| q_open := None; q_read := None; q_drain := None; q_md := md; q_cols := cols; q_rows := 1;
     q_ext := RBatch [] 0; q_shm_meta_ok := true; q_attach := None; q_shmres := RBatch [] 0; q_release := None;
     q_vercheck := None; q_validate := None |}.
Definition cfg0 (loop : bool) : config :=
  {| c_ext := false; c_static_shm := false; c_declares_version := false; c_methods := [[102]]; c_in_loop := loop |}.
(* traceparent = b"\xff\xfe" *)
Definition req_bad_traceparent : req := req0 (md_f ++ [(K_TP std_keys, [255; 254])]) [None].
(* vgi_rpc.shm_segment_name = b"no_such_seg", size b"4096": ShmSegment.attach raises FileNotFoundError *)
Definition req_missing_segment : req :=
  let r := req0 (md_f ++ [(K_SEG_NAME std_keys, [110;111;95;115;117;99;104;95;115;101;103]); (K_SEG_SIZE std_keys, [52;48;57;54])]) [None] in
  {| q_open := None; q_read := None; q_drain := None; q_md := q_md r; q_cols := q_cols r; q_rows := 1;
     q_ext := RBatch [] 0; q_shm_meta_ok := true; q_attach := Some XFileNotFoundError; q_shmres := RBatch [] 0;
     q_release := None; q_vercheck := None; q_validate := None |}.
(* a timestamp[s] column holding 2**62: as_py raises OverflowError *)
Definition req_overflowing_column : req := req0 md_f [Some XOverflowError].
(* a column whose as_py raises ArrowInvalid (timestamp with an unknown time zone) *)
Definition req_arrowinvalid_column : req := req0 md_f [Some XArrowInvalid].
