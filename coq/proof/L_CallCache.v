(* Lemmas about model/M_CallCache.v: cache operations, the world invariant, and the transparency argument. *)
From Coq Require Import List NArith ZArith Bool Lia Arith ZifyBool.
From VGI Require Import Corr M_CallCache.
Import ListNotations.
Open Scope N_scope.
Ltac Zify.zify_post_hook ::= Z.div_mod_to_equations.

(* ---- boolean equalities ---------------------------------------------------------------------------------- *)
Lemma lN_eqb_eq : forall a b, lN_eqb a b = true <-> a = b.
Proof. intros a b. unfold lN_eqb. apply list_eqb_eq. intros x y. apply N.eqb_eq. Qed.

Lemma ct_eqb_eq : forall x y, ct_eqb x y = true <-> x = y.
Proof.
  intros [c1 a1 t1 y1 p1] [c2 a2 t2 y2 p2]. unfold ct_eqb. cbn [ct_cid ct_aad ct_created ct_ty ct_payload].
  rewrite !andb_true_iff, !N.eqb_eq, lN_eqb_eq. split.
  - intros [[[[H1 H2] H3] H4] H5]. subst. reflexivity.
  - intros H. inversion H. subst. repeat split.
Qed.

Lemma cu_eqb_eq : forall x y, cu_eqb x y = true <-> x = y.
Proof.
  intros [c1 a1 t1 s1] [c2 a2 t2 s2]. unfold cu_eqb. cbn [cu_cid cu_aad cu_created cu_state].
  rewrite !andb_true_iff, !N.eqb_eq, lN_eqb_eq. split.
  - intros [[[H1 H2] H3] H4]. subst. reflexivity.
  - intros H. inversion H. subst. repeat split.
Qed.

Lemma mem_ct_In : forall t l, mem_ct t l = true <-> In t l.
Proof.
  intros t l. unfold mem_ct. rewrite existsb_exists. split.
  - intros [x [Hx He]]. apply ct_eqb_eq in He. subst. exact Hx.
  - intros H. exists t. split; [exact H | apply ct_eqb_eq; reflexivity].
Qed.

Lemma mem_cu_In : forall t l, mem_cu t l = true <-> In t l.
Proof.
  intros t l. unfold mem_cu. rewrite existsb_exists. split.
  - intros [x [Hx He]]. apply cu_eqb_eq in He. subst. exact Hx.
  - intros H. exists t. split; [exact H | apply cu_eqb_eq; reflexivity].
Qed.

Lemma key_eqb_eq : forall k1 k2, key_eqb k1 k2 = true <-> k1 = k2.
Proof.
  intros [a1 b1] [a2 b2]. unfold key_eqb. cbn [fst snd]. rewrite andb_true_iff, N.eqb_eq, lN_eqb_eq. split.
  - intros [H1 H2]. subst. reflexivity.
  - intros H. inversion H. subst. split; reflexivity.
Qed.

(* ---- cache operations ---------------------------------------------------------------------------------------- *)
Lemma c_find_In : forall k c v, c_find k c = Some v -> In (k, v) c.
Proof.
  intros k c. induction c as [|[k' v'] r IH]; intros v H; cbn [c_find] in H.
  - discriminate.
  - destruct (key_eqb k k') eqn:E.
    + apply key_eqb_eq in E. inversion H. subst. left. reflexivity.
    + right. apply IH. exact H.
Qed.

Lemma c_remove_In : forall k c e, In e (c_remove k c) -> In e c.
Proof.
  intros k c. induction c as [|[k' v'] r IH]; intros e H; cbn [c_remove] in H.
  - exact H.
  - destruct (key_eqb k k') eqn:E.
    + right. exact H.
    + destruct H as [H|H]; [left; exact H | right; apply IH; exact H].
Qed.

Lemma c_remove_length_le : forall k c, (length (c_remove k c) <= length c)%nat.
Proof.
  intros k c. induction c as [|[k' v'] r IH]; cbn [c_remove length].
  - lia.
  - destruct (key_eqb k k'); cbn [length]; lia.
Qed.

Lemma c_remove_length_found : forall k c v, c_find k c = Some v -> (S (length (c_remove k c)) = length c)%nat.
Proof.
  intros k c. induction c as [|[k' v'] r IH]; intros v H; cbn [c_find] in H; cbn [c_remove length].
  - discriminate.
  - destruct (key_eqb k k') eqn:E.
    + reflexivity.
    + cbn [length]. rewrite (IH v H). reflexivity.
Qed.

Lemma cache_get_In : forall k now c c' e, fst (cache_get k now c) = c' -> In e c' -> In e c.
Proof.
  intros k now c c' e Hc Hin. unfold cache_get in Hc.
  destruct (c_find k c) as [[exp r]|] eqn:F.
  - destruct (get_expired exp now); cbn [fst] in Hc; subst c'.
    + eapply c_remove_In; exact Hin.
    + apply in_app_or in Hin. destruct Hin as [Hin|[Hin|[]]].
      * eapply c_remove_In; exact Hin.
      * subst e. apply c_find_In. exact F.
  - cbn [fst] in Hc. subst c'. exact Hin.
Qed.

Lemma cache_get_hit : forall k now c r, snd (cache_get k now c) = Some r -> exists exp, In (k, (exp, r)) c /\ now < exp.
Proof.
  intros k now c r H. unfold cache_get in H.
  destruct (c_find k c) as [[exp r']|] eqn:F.
  - destruct (get_expired exp now) eqn:E; cbn [snd] in H; [discriminate|].
    inversion H. subst r'. exists exp. split; [apply c_find_In; exact F | apply N.leb_gt; exact E].
  - cbn [snd] in H. discriminate.
Qed.

Lemma cache_get_length : forall k now c, (length (fst (cache_get k now c)) <= length c)%nat.
Proof.
  intros k now c. unfold cache_get.
  destruct (c_find k c) as [[exp r]|] eqn:F.
  - destruct (get_expired exp now); cbn [fst].
    + apply c_remove_length_le.
    + rewrite app_length. cbn [length]. rewrite <- (c_remove_length_found k c _ F). lia.
  - cbn [fst]. lia.
Qed.

Lemma trim_loop_In : forall fuel cap c e, In e (trim_loop fuel cap c) -> In e c.
Proof.
  intros fuel cap. induction fuel as [|f IH]; intros c e H; cbn [trim_loop] in H.
  - exact H.
  - destruct (over_capacity (N.of_nat (length c)) cap).
    + apply IH in H. destruct c as [|x r]; [exact H | right; exact H].
    + exact H.
Qed.

Lemma trim_In : forall cap c e, In e (trim cap c) -> In e c.
Proof. intros cap c e H. unfold trim in H. eapply trim_loop_In. exact H. Qed.

Lemma trim_loop_length : forall fuel cap c, (length c <= fuel)%nat -> (length (trim_loop fuel cap c) <= N.to_nat cap)%nat.
Proof.
  intros fuel cap. induction fuel as [|f IH]; intros c H; cbn [trim_loop].
  - destruct c; cbn [length] in *; lia.
  - destruct (over_capacity (N.of_nat (length c)) cap) eqn:E.
    + apply IH. destruct c as [|x r]; cbn [tl length] in *; lia.
    + unfold over_capacity in E. apply N.ltb_ge in E. lia.
Qed.

Lemma trim_length : forall cap c, (length (trim cap c) <= N.to_nat cap)%nat.
Proof. intros cap c. unfold trim. apply trim_loop_length. lia. Qed.

Lemma cache_put_In : forall cap ttlc k r now c e,
  In e (cache_put cap ttlc k r now c) -> In e c \/ e = (k, (put_expiry now ttlc, r)).
Proof.
  intros cap ttlc k r now c e H. unfold cache_put in H. apply trim_In in H.
  apply in_app_or in H. destruct H as [H|[H|[]]].
  - left. eapply c_remove_In; exact H.
  - right. symmetry. exact H.
Qed.

Lemma cache_put_length : forall cap ttlc k r now c, (length (cache_put cap ttlc k r now c) <= N.to_nat cap)%nat.
Proof. intros. unfold cache_put. apply trim_length. Qed.

(* capacity 0: the cache is always empty *)
Lemma cache_put_cap0 : forall ttlc k r now c, cache_put 0 ttlc k r now c = [].
Proof.
  intros. pose proof (cache_put_length 0 ttlc k r now c) as H.
  destruct (cache_put 0 ttlc k r now c); [reflexivity | cbn in H; lia].
Qed.

(* ---- lists of caches -------------------------------------------------------------------------------------- *)
Lemma nth_upd : forall {A} (l : list A) w w' x d,
  (w' = w /\ nth w' (upd w x l) d = x) \/ nth w' (upd w x l) d = nth w' l d.
Proof.
  intros A l. induction l as [|y r IH]; intros w w' x d.
  - right. destruct w; reflexivity.
  - destruct w as [|w]; destruct w' as [|w']; cbn [upd nth].
    + left. split; reflexivity.
    + right. reflexivity.
    + right. reflexivity.
    + destruct (IH w w' x d) as [[E H]|H].
      * left. split; [f_equal; exact E | exact H].
      * right. exact H.
Qed.

Lemma upd_length : forall {A} (l : list A) w x, length (upd w x l) = length l.
Proof.
  intros A l. induction l as [|y r IH]; intros w x; destruct w; cbn [upd length]; try reflexivity.
  rewrite IH. reflexivity.
Qed.

(* ---- identities ------------------------------------------------------------------------------------------------ *)
Definition nul_free (l : list N) : Prop := ~ In 0 l.
Definition dom_nul_free (a : auth) : Prop := match a with Anon => True | Auth d p => nul_free d end.

Lemma split_at_nul_unique : forall d1 p1 d2 p2,
  nul_free d1 -> nul_free d2 -> d1 ++ 0 :: p1 = d2 ++ 0 :: p2 -> d1 = d2 /\ p1 = p2.
Proof.
  intros d1. induction d1 as [|x r IH]; intros p1 d2 p2 H1 H2 E.
  - destruct d2 as [|y r2]; cbn [app] in E.
    + inversion E. split; reflexivity.
    + inversion E. subst y. exfalso. apply H2. left. reflexivity.
  - destruct d2 as [|y r2]; cbn [app] in E.
    + inversion E. subst x. exfalso. apply H1. left. reflexivity.
    + inversion E. subst y.
      assert (Hr : nul_free r) by (intro Hin; apply H1; right; exact Hin).
      assert (Hr2 : nul_free r2) by (intro Hin; apply H2; right; exact Hin).
      destruct (IH p1 r2 p2 Hr Hr2 H3) as [Ea Eb]. subst. split; reflexivity.
Qed.

Lemma aad_id_inj : forall a b, dom_nul_free a -> dom_nul_free b -> aad_id a = aad_id b -> a = b.
Proof.
  intros [|d1 p1] [|d2 p2] Ha Hb E; cbn [aad_id] in E.
  - reflexivity.
  - unfold anon_tail in E. inversion E.
  - unfold anon_tail in E. inversion E.
  - inversion E as [E']. destruct (split_at_nul_unique d1 p1 d2 p2 Ha Hb E') as [E1 E2]. subst. reflexivity.
Qed.

(* ---- the world invariant ------------------------------------------------------------------------------------ *)
(* cache_sound: an entry under (cid, identity) holds exactly the call that was minted, with that id, for a caller
   whose cache identity is the key's *)
Definition entry_ok (cs : list call_tok) (e : entry) : Prop :=
  exists ct a, In ct cs /\ ct_cid ct = fst (fst e) /\ snd (snd e) = resolved_of ct
               /\ snd (fst e) = cache_id a /\ ct_aad ct = aad_id a.

Record Inv (wd : world) : Prop := {
  inv_fresh : forall ct, In ct (calls wd) -> ct_cid ct < next_cid wd;
  inv_uniq : forall ct ct', In ct (calls wd) -> In ct' (calls wd) -> ct_cid ct = ct_cid ct' -> ct = ct';
  inv_cur : forall cu, In cu (curs wd) -> exists ct, In ct (calls wd) /\ ct_cid ct = cu_cid cu /\ ct_aad ct = cu_aad cu;
  inv_cache : forall w e, In e (cache_of wd w) -> entry_ok (calls wd) e
}.

Definition pub_eq (w1 w2 : world) : Prop :=
  clock w1 = clock w2 /\ next_cid w1 = next_cid w2 /\ calls w1 = calls w2 /\ curs w1 = curs w2.

Lemma pub_eq_refl : forall w, pub_eq w w.
Proof. intros w. repeat split. Qed.

Lemma pub_eq_set_cache : forall wd w c, pub_eq (set_cache wd w c) wd.
Proof. intros. repeat split. Qed.

Lemma cache_of_set_cache : forall wd w w' c,
  (w' = w /\ cache_of (set_cache wd w c) w' = c) \/ cache_of (set_cache wd w c) w' = cache_of wd w'.
Proof. intros wd w w' c. unfold cache_of, set_cache. cbn [caches]. apply nth_upd. Qed.

Lemma entry_ok_mono : forall cs cs' e, (forall ct, In ct cs -> In ct cs') -> entry_ok cs e -> entry_ok cs' e.
Proof.
  intros cs cs' e Hsub [ct [a [H1 H2]]]. exists ct, a. split; [apply Hsub; exact H1 | exact H2].
Qed.

(* Inv only depends on calls/curs/next_cid and on every cache being sound *)
Lemma Inv_set_cache : forall wd w c,
  Inv wd -> (forall e, In e c -> entry_ok (calls wd) e) -> Inv (set_cache wd w c).
Proof.
  intros wd w c [H1 H2 H3 H4] Hc. constructor; cbn [set_cache calls curs next_cid]; try assumption.
  intros w' e He. destruct (cache_of_set_cache wd w w' c) as [[_ E]|E]; rewrite E in He.
  - apply Hc. exact He.
  - eapply H4. exact He.
Qed.

Lemma open_cursor_inr : forall t now cs a p cu,
  open_cursor t now cs a p = inr cu -> In cu cs /\ cu_aad cu = aad_id a /\ p = PTok cu /\ expired t now (cu_created cu) = false.
Proof.
  intros t now cs a p cu H. destruct p as [| | |x]; cbn [open_cursor] in H; try discriminate.
  destruct (mem_cu x cs && lN_eqb (cu_aad x) (aad_id a)) eqn:E; [|discriminate].
  destruct (expired t now (cu_created x)) eqn:X; [discriminate|].
  inversion H. subst x. apply andb_true_iff in E as [E1 E2].
  apply mem_cu_In in E1. apply lN_eqb_eq in E2. repeat split; assumption.
Qed.

Lemma resolve_cold_inr : forall dec t now cs a m cid p r,
  resolve_cold dec t now cs a m cid p = inr r ->
  exists ct, p = PTok ct /\ In ct cs /\ ct_aad ct = aad_id a /\ ct_cid ct = cid /\ r = resolved_of ct
             /\ expired t now (ct_created ct) = false /\ ((ct_ty ct =? 0) || dec m (ct_ty ct)) = true.
Proof.
  intros dec t now cs a m cid p r H. destruct p as [| | |x]; cbn [resolve_cold] in H; try discriminate.
  destruct (mem_ct x cs && lN_eqb (ct_aad x) (aad_id a)) eqn:E; [|discriminate].
  destruct (expired t now (ct_created x)) eqn:X; [discriminate|].
  destruct (ct_cid x =? cid) eqn:C; [|discriminate].
  destruct ((ct_ty x =? 0) || dec m (ct_ty x)) eqn:D; [|discriminate].
  inversion H. apply andb_true_iff in E as [E1 E2]. apply mem_ct_In in E1. apply lN_eqb_eq in E2. apply N.eqb_eq in C.
  exists x. repeat split; try assumption; try reflexivity.
Qed.

Lemma resolve_cold_inl : forall dec t now cs a m cid p e,
  resolve_cold dec t now cs a m cid p = inl e -> In e call_reasons.
Proof.
  intros dec t now cs a m cid p e H. unfold call_reasons.
  destruct p as [| | |x]; cbn [resolve_cold] in H.
  - inversion H. cbn. tauto.
  - inversion H. cbn. tauto.
  - inversion H. cbn. tauto.
  - destruct (mem_ct x cs && lN_eqb (ct_aad x) (aad_id a)); [|inversion H; cbn; tauto].
    destruct (expired t now (ct_created x)); [inversion H; cbn; tauto|].
    destruct (ct_cid x =? cid); [|inversion H; cbn; tauto].
    destruct ((ct_ty x =? 0) || dec m (ct_ty x)); [discriminate | inversion H; cbn; tauto].
Qed.

Lemma init_cache_empty : forall c t0 w, cache_of (init_world c t0) w = [].
Proof.
  intros c t0 w. unfold cache_of, init_world. cbn [caches]. revert w.
  induction (caps c) as [|x r IH]; intros [|w']; cbn [map nth]; try reflexivity. apply IH.
Qed.

(* ---- lifetimes (sources with dated_miss = true) ----------------------------------------------------------------- *)
Lemma init_birth_ok : forall t now, 0 < t -> put_expiry now (cache_ttl t) < 4 * (sec now + t + 1).
Proof.
  intros t now Ht. unfold put_expiry, cache_ttl, cache_ttl_sec, sec.
  assert (E : (0 <? t) = true) by (apply N.ltb_lt; exact Ht). rewrite E. lia.
Qed.

Lemma alive_unexpired : forall t now exp created, now < exp -> exp < 4 * (created + t + 1) -> expired t now created = false.
Proof.
  intros t now exp created H1 H2. unfold expired, sec.
  destruct (0 <? t); [|reflexivity]. cbn [andb]. apply N.ltb_ge. lia.
Qed.

Definition exp_ok (c : cfg) (e : entry) : Prop := fst (snd e) < 4 * (rc_created (snd (snd e)) + ttl c + 1).
Definition Dated (c : cfg) (wd : world) : Prop := forall w e, In e (cache_of wd w) -> exp_ok c e.

Lemma Dated_set_cache : forall c wd w cw, Dated c wd -> (forall e, In e cw -> exp_ok c e) -> Dated c (set_cache wd w cw).
Proof.
  intros c wd w cw HD Hc w' e He. destruct (cache_of_set_cache wd w w' cw) as [[_ E]|E]; rewrite E in He.
  - apply Hc. exact He.
  - eapply HD. exact He.
Qed.

Lemma miss_birth_ok : forall c now r, dated_miss c = true -> 0 < ttl c ->
  put_expiry (miss_birth c now r) (cache_ttl (ttl c)) < 4 * (rc_created r + ttl c + 1).
Proof.
  intros c now r Hd Ht. unfold miss_birth, put_expiry, cache_ttl, cache_ttl_sec. rewrite Hd.
  assert (E : (0 <? ttl c) = true) by (apply N.ltb_lt; exact Ht). rewrite E. cbn [andb]. lia.
Qed.

Section Proofs.
  Variable declares : N -> N -> bool.
  Variable init_fn : N -> N -> option (N * N * N).
  Variable turn : N -> N -> N -> N -> N -> N * option N.

  Notation step := (step declares init_fn turn).
  Notation step_cont := (step_cont declares turn).
  Notation step_init := (step_init init_fn).
  Notation proceed := (proceed turn).
  Notation run_from := (run_from declares init_fn turn).
  Notation run := (run declares init_fn turn).
  Notation outcomes := (outcomes declares init_fn turn).
  Notation excluded := (excluded declares).
  Notation admissible_from := (admissible_from declares init_fn turn).
  Notation admissible := (admissible declares init_fn turn).

  (* ---- proceed ---------------------------------------------------------------------------------------------- *)
  Lemma proceed_Inv : forall wd a m cu r body,
    Inv wd -> In cu (curs wd) -> cu_aad cu = aad_id a -> Inv (fst (proceed wd a m cu r body)).
  Proof.
    intros wd a m cu r body HI Hcu Haad. unfold M_CallCache.proceed.
    destruct (turn m (rc_ty r) (rc_payload r) (cu_state cu) body) as [out [s'|]]; cbn [fst]; [|exact HI].
    destruct HI as [H1 H2 H3 H4]. constructor; cbn [calls curs next_cid]; try assumption.
    - intros cu' [E|Hin].
      + subst cu'. cbn [cu_cid cu_aad]. destruct (H3 cu Hcu) as [ct [Hct [Ec Ea]]].
        exists ct. repeat split; try assumption. rewrite Ea. exact Haad.
      + apply H3. exact Hin.
  Qed.

  Lemma proceed_pub : forall wd1 wd2 a m cu r body,
    pub_eq wd1 wd2 ->
    snd (proceed wd1 a m cu r body) = snd (proceed wd2 a m cu r body)
    /\ pub_eq (fst (proceed wd1 a m cu r body)) (fst (proceed wd2 a m cu r body)).
  Proof.
    intros wd1 wd2 a m cu r body [E1 [E2 [E3 E4]]]. unfold M_CallCache.proceed.
    destruct (turn m (rc_ty r) (rc_payload r) (cu_state cu) body) as [out [s'|]]; cbn [fst snd].
    - rewrite E1. split; [reflexivity|]. repeat split; cbn [clock next_cid calls curs]; congruence.
    - split; [reflexivity|]. repeat split; assumption.
  Qed.

  Lemma proceed_served : forall wd a m cu r body, exists out nx, snd (proceed wd a m cu r body) = OServed out nx.
  Proof.
    intros. unfold M_CallCache.proceed.
    destruct (turn m (rc_ty r) (rc_payload r) (cu_state cu) body) as [out [s'|]]; cbn [snd]; eauto.
  Qed.

  (* ---- Inv is preserved by every request (no side condition) --------------------------------------------------- *)
  Lemma get_sound : forall wd w k now, Inv wd ->
    forall e, In e (fst (cache_get k now (cache_of wd w))) -> entry_ok (calls wd) e.
  Proof.
    intros wd w k now HI e He. eapply (inv_cache wd HI w). eapply cache_get_In; [reflexivity | exact He].
  Qed.

  Lemma step_cont_Inv : forall c wd w a m cur call body, Inv wd -> Inv (fst (step_cont c wd w a m cur call body)).
  Proof.
    intros c wd w a m cur call body HI. unfold M_CallCache.step_cont.
    destruct (open_cursor (ttl c) (clock wd) (curs wd) a cur) as [e|cu] eqn:OC; [exact HI|].
    apply open_cursor_inr in OC as [Hcu [Haad [_ _]]].
    destruct (cache_get (cu_cid cu, cache_id a) (clock wd) (cache_of wd w)) as [cw hit] eqn:G.
    assert (Hcw : forall e, In e cw -> entry_ok (calls wd) e).
    { intros e He. apply (get_sound wd w (cu_cid cu, cache_id a) (clock wd) HI). rewrite G. exact He. }
    destruct hit as [r|].
    - apply proceed_Inv; [apply Inv_set_cache; assumption | exact Hcu | exact Haad].
    - destruct (resolve_cold declares (ttl c) (clock wd) (calls wd) a m (cu_cid cu) call) as [e|r] eqn:RC.
      + cbn [fst]. apply Inv_set_cache; assumption.
      + apply resolve_cold_inr in RC as [ct [_ [Hct [Hca [Hcc [Hr _]]]]]].
        apply proceed_Inv; [|exact Hcu | exact Haad].
        apply Inv_set_cache; [exact HI|].
        intros e He. apply cache_put_In in He as [He|He]; [apply Hcw; exact He|].
        subst e. exists ct, a. cbn [fst snd]. repeat split; assumption.
  Qed.

  Lemma step_init_Inv : forall c wd w a m arg, Inv wd -> Inv (fst (step_init c wd w a m arg)).
  Proof.
    intros c wd w a m arg HI. unfold M_CallCache.step_init.
    destruct (init_fn m arg) as [[[ty payload] s0]|]; [|exact HI].
    cbn [fst]. destruct HI as [H1 H2 H3 H4].
    set (ct := CT (next_cid wd) (aad_id a) (sec (clock wd)) ty payload).
    assert (Hcid : ct_cid ct = next_cid wd) by reflexivity.
    assert (Hca : ct_aad ct = aad_id a) by reflexivity.
    constructor; cbn [calls curs next_cid].
    - intros x [E|Hin]; [subst x; lia | specialize (H1 x Hin); lia].
    - intros x y [Ex|Hx] [Ey|Hy] E.
      + congruence.
      + subst x. specialize (H1 y Hy). lia.
      + subst y. specialize (H1 x Hx). lia.
      + apply H2; assumption.
    - intros cu [E|Hin].
      + subst cu. exists ct. cbn [cu_cid cu_aad]. split; [left; reflexivity | split; assumption].
      + destruct (H3 cu Hin) as [x [Hx Hrest]]. exists x. split; [right; exact Hx | exact Hrest].
    - intros w' e He. unfold cache_of in He. cbn [caches] in He.
      match type of He with context [upd w ?x (caches wd)] =>
        destruct (nth_upd (caches wd) w w' x []) as [[_ E]|E]; rewrite E in He end.
      + apply cache_put_In in He as [He|He].
        * eapply entry_ok_mono; [|eapply H4; exact He]. intros x Hx. right. exact Hx.
        * subst e. exists ct, a. cbn [fst snd]. split; [left; reflexivity|]. repeat split; assumption.
      + eapply entry_ok_mono; [|eapply H4; exact He]. intros x Hx. right. exact Hx.
  Qed.

  Lemma step_Inv : forall c wd r, Inv wd -> Inv (fst (step c wd r)).
  Proof.
    intros c wd r HI. destruct r as [w a m arg|w a m cur call body|dt|w]; cbn [M_CallCache.step].
    - apply step_init_Inv. exact HI.
    - apply step_cont_Inv. exact HI.
    - cbn [fst]. destruct HI as [H1 H2 H3 H4]. constructor; cbn [calls curs next_cid]; assumption.
    - cbn [fst]. apply Inv_set_cache; [exact HI | intros e []].
  Qed.

  Lemma init_world_Inv : forall c t0, Inv (init_world c t0).
  Proof.
    intros c t0. constructor; unfold init_world; cbn [calls curs next_cid].
    - intros ct [].
    - intros ct ct' [].
    - intros cu [].
    - intros w e He. change (In e (cache_of (init_world c t0) w)) in He. rewrite init_cache_empty in He. destruct He.
  Qed.

  Lemma run_from_Inv : forall c h wd, Inv wd -> Inv (fst (run_from c wd h)).
  Proof.
    intros c h. induction h as [|r rest IH]; intros wd HI; cbn [M_CallCache.run_from].
    - exact HI.
    - destruct (step c wd r) as [wd1 o] eqn:S.
      destruct (run_from c wd1 rest) as [wd2 os] eqn:R. cbn [fst].
      specialize (IH wd1). rewrite R in IH. cbn [fst] in IH. apply IH.
      pose proof (step_Inv c wd r HI) as H. rewrite S in H. exact H.
  Qed.

  Lemma run_Inv : forall c t0 h, Inv (fst (run c t0 h)).
  Proof. intros. unfold M_CallCache.run. apply run_from_Inv. apply init_world_Inv. Qed.

  (* ---- size <= capacity ------------------------------------------------------------------------------------------ *)
  Definition Sized (c : cfg) (wd : world) : Prop :=
    forall w, (length (cache_of wd w) <= N.to_nat (cap_of c w))%nat.

  Lemma Sized_set_cache : forall c wd w cw,
    Sized c wd -> (length cw <= N.to_nat (cap_of c w))%nat -> Sized c (set_cache wd w cw).
  Proof.
    intros c wd w cw HS Hc w'. destruct (cache_of_set_cache wd w w' cw) as [[E1 E]|E]; rewrite E.
    - subst w'. exact Hc.
    - apply HS.
  Qed.

  Lemma proceed_Sized : forall c wd a m cu r body, Sized c wd -> Sized c (fst (proceed wd a m cu r body)).
  Proof.
    intros c wd a m cu r body HS. unfold M_CallCache.proceed.
    destruct (turn m (rc_ty r) (rc_payload r) (cu_state cu) body) as [out [s'|]]; cbn [fst]; exact HS.
  Qed.

  Lemma step_Sized : forall c wd r, Sized c wd -> Sized c (fst (step c wd r)).
  Proof.
    intros c wd r HS. destruct r as [w a m arg|w a m cur call body|dt|w]; cbn [M_CallCache.step].
    - unfold M_CallCache.step_init. destruct (init_fn m arg) as [[[ty payload] s0]|]; [|exact HS].
      cbn [fst]. intros w'. unfold cache_of. cbn [caches].
      match goal with |- context [upd w ?x (caches wd)] => destruct (nth_upd (caches wd) w w' x []) as [[E1 E]|E]; rewrite E end.
      + subst w'. apply cache_put_length.
      + apply HS.
    - unfold M_CallCache.step_cont.
      destruct (open_cursor (ttl c) (clock wd) (curs wd) a cur) as [e|cu]; [exact HS|].
      destruct (cache_get (cu_cid cu, cache_id a) (clock wd) (cache_of wd w)) as [cw hit] eqn:G.
      assert (Hcw : (length cw <= N.to_nat (cap_of c w))%nat).
      { pose proof (cache_get_length (cu_cid cu, cache_id a) (clock wd) (cache_of wd w)) as H. rewrite G in H. cbn [fst] in H.
        specialize (HS w). lia. }
      destruct hit as [r|].
      + apply proceed_Sized. apply Sized_set_cache; assumption.
      + destruct (resolve_cold declares (ttl c) (clock wd) (calls wd) a m (cu_cid cu) call) as [e|r].
        * cbn [fst]. apply Sized_set_cache; assumption.
        * apply proceed_Sized. apply Sized_set_cache; [exact HS | apply cache_put_length].
    - cbn [fst]. exact HS.
    - cbn [fst]. apply Sized_set_cache; [exact HS | cbn; lia].
  Qed.

  Lemma run_from_Sized : forall c h wd, Sized c wd -> Sized c (fst (run_from c wd h)).
  Proof.
    intros c h. induction h as [|r rest IH]; intros wd HS; cbn [M_CallCache.run_from].
    - exact HS.
    - destruct (step c wd r) as [wd1 o] eqn:S.
      destruct (run_from c wd1 rest) as [wd2 os] eqn:R. cbn [fst].
      specialize (IH wd1). rewrite R in IH. cbn [fst] in IH. apply IH.
      pose proof (step_Sized c wd r HS) as H. rewrite S in H. exact H.
  Qed.

  Lemma size_le_cap : forall c t0 h w, (length (cache_of (fst (run c t0 h)) w) <= N.to_nat (cap_of c w))%nat.
  Proof.
    intros c t0 h. apply run_from_Sized. intros w. rewrite init_cache_empty. cbn [length]. lia.
  Qed.

  (* ---- cache_sound and hit => same identity ------------------------------------------------------------------- *)
  Lemma cache_sound : forall c t0 h w k exp r,
    In (k, (exp, r)) (cache_of (fst (run c t0 h)) w) ->
    exists ct a, In ct (calls (fst (run c t0 h))) /\ ct_cid ct = fst k /\ r = resolved_of ct
                 /\ snd k = cache_id a /\ ct_aad ct = aad_id a.
  Proof.
    intros c t0 h w k exp r Hin. exact (inv_cache _ (run_Inv c t0 h) w _ Hin).
  Qed.

  Lemma hit_resolved : forall wd w a cu cw r,
    Inv wd -> In cu (curs wd) -> cu_aad cu = aad_id a ->
    cache_get (cu_cid cu, cache_id a) (clock wd) (cache_of wd w) = (cw, Some r) ->
    exists ct, In ct (calls wd) /\ ct_cid ct = cu_cid cu /\ ct_aad ct = aad_id a /\ r = resolved_of ct.
  Proof.
    intros wd w a cu cw r HI Hcu Haad G.
    assert (Hs : snd (cache_get (cu_cid cu, cache_id a) (clock wd) (cache_of wd w)) = Some r) by (rewrite G; reflexivity).
    apply cache_get_hit in Hs as [exp [Hin _]].
    destruct (inv_cache wd HI w _ Hin) as [ct [a' [Hct [Hc [Hr _]]]]]. cbn [fst snd] in Hc, Hr.
    destruct (inv_cur wd HI cu Hcu) as [ct' [Hct' [Hc' Ha']]].
    assert (ct = ct') by (apply (inv_uniq wd HI); [assumption | assumption | congruence]). subst ct'.
    exists ct. repeat split; try assumption. congruence.
  Qed.

  Lemma hit_same_identity : forall c t0 h w a cu cw r,
    let wd := fst (run c t0 h) in
    open_cursor (ttl c) (clock wd) (curs wd) a (PTok cu) = inr cu ->
    cache_get (cu_cid cu, cache_id a) (clock wd) (cache_of wd w) = (cw, Some r) ->
    rc_for r = aad_id a
    /\ exists ct, In ct (calls wd) /\ ct_cid ct = cu_cid cu /\ ct_aad ct = aad_id a /\ r = resolved_of ct.
  Proof.
    intros c t0 h w a cu cw r wd OC G.
    apply open_cursor_inr in OC as [Hcu [Haad _]].
    destruct (hit_resolved wd w a cu cw r (run_Inv c t0 h) Hcu Haad G) as [ct [H1 [H2 [H3 H4]]]].
    split; [subst r; cbn [resolved_of rc_for]; exact H3 | exists ct; repeat split; assumption].
  Qed.

  (* ---- the transparency argument ---------------------------------------------------------------------------- *)
  (* a continuation that the cold path can resolve is resolved to the SAME call whatever the cache holds *)
  Lemma step_cont_resolved : forall c wd w a m cur call body cu r0,
    Inv wd ->
    open_cursor (ttl c) (clock wd) (curs wd) a cur = inr cu ->
    resolve_cold declares (ttl c) (clock wd) (calls wd) a m (cu_cid cu) call = inr r0 ->
    exists wd', pub_eq wd' wd /\ step_cont c wd w a m cur call body = proceed wd' a m cu r0 body.
  Proof.
    intros c wd w a m cur call body cu r0 HI OC RC. unfold M_CallCache.step_cont. rewrite OC.
    pose proof (open_cursor_inr _ _ _ _ _ _ OC) as [Hcu [Haad _]].
    destruct (cache_get (cu_cid cu, cache_id a) (clock wd) (cache_of wd w)) as [cw hit] eqn:G.
    destruct hit as [r|].
    - destruct (hit_resolved wd w a cu cw r HI Hcu Haad G) as [ct [H1 [H2 [H3 H4]]]].
      apply resolve_cold_inr in RC as [ct' [_ [H1' [H3' [H2' [H4' _]]]]]].
      assert (ct = ct') by (apply (inv_uniq wd HI); [assumption | assumption | congruence]). subst ct'.
      subst. eexists. split; [apply pub_eq_set_cache | reflexivity].
    - rewrite RC. eexists. split; [apply pub_eq_set_cache | reflexivity].
  Qed.

  Lemma pub_eq_sym : forall a b, pub_eq a b -> pub_eq b a.
  Proof. intros a b [H1 [H2 [H3 H4]]]. repeat split; symmetry; assumption. Qed.
  Lemma pub_eq_trans : forall a b c, pub_eq a b -> pub_eq b c -> pub_eq a c.
  Proof. intros a b c [H1 [H2 [H3 H4]]] [G1 [G2 [G3 G4]]]. repeat split; congruence. Qed.

  Lemma excluded_pub : forall c1 c2 wd1 wd2 r, ttl c1 = ttl c2 -> pub_eq wd1 wd2 -> excluded c1 wd1 r = excluded c2 wd2 r.
  Proof.
    intros c1 c2 wd1 wd2 r Et [E1 [E2 [E3 E4]]]. destruct r; cbn [M_CallCache.excluded]; try reflexivity.
    rewrite Et, E1, E3, E4. reflexivity.
  Qed.

  (* two workers / systems whose public state agrees, with ANY sound cache contents and ANY capacities *)
  Lemma step_agree : forall c1 c2 wd1 wd2 r,
    ttl c1 = ttl c2 -> Inv wd1 -> Inv wd2 -> pub_eq wd1 wd2 -> excluded c1 wd1 r = false ->
    snd (step c1 wd1 r) = snd (step c2 wd2 r) /\ pub_eq (fst (step c1 wd1 r)) (fst (step c2 wd2 r)).
  Proof.
    intros c1 c2 wd1 wd2 r Et HI1 HI2 HP HX.
    pose proof HP as [E1 [E2 [E3 E4]]].
    destruct r as [w a m arg|w a m cur call body|dt|w]; cbn [M_CallCache.step].
    - unfold M_CallCache.step_init. destruct (init_fn m arg) as [[[ty payload] s0]|]; cbn [fst snd].
      + rewrite E1, E2, E3, E4. split; [reflexivity | repeat split].
      + split; [reflexivity | exact HP].
    - cbn [M_CallCache.excluded] in HX.
      destruct (open_cursor (ttl c1) (clock wd1) (curs wd1) a cur) as [e|cu] eqn:OC.
      + unfold M_CallCache.step_cont. rewrite OC. rewrite Et, E1, E4 in OC. rewrite OC. cbn [fst snd].
        split; [reflexivity | exact HP].
      + destruct (resolve_cold declares (ttl c1) (clock wd1) (calls wd1) a m (cu_cid cu) call) as [e|r0] eqn:RC; [discriminate|].
        destruct (step_cont_resolved c1 wd1 w a m cur call body cu r0 HI1 OC RC) as [wd1' [P1 S1]].
        rewrite Et, E1, E4 in OC. rewrite Et, E1, E3 in RC.
        destruct (step_cont_resolved c2 wd2 w a m cur call body cu r0 HI2 OC RC) as [wd2' [P2 S2]].
        rewrite S1, S2. apply proceed_pub.
        eapply pub_eq_trans; [exact P1|]. eapply pub_eq_trans; [exact HP|]. apply pub_eq_sym. exact P2.
    - cbn [fst snd]. split; [reflexivity|]. repeat split; cbn [clock next_cid calls curs]; congruence.
    - cbn [fst snd]. split; [reflexivity|].
      eapply pub_eq_trans; [apply pub_eq_set_cache|]. eapply pub_eq_trans; [exact HP|]. apply pub_eq_sym. apply pub_eq_set_cache.
  Qed.

  (* without the side condition: the only possible disagreement is "served" against a call-token rejection *)
  Lemma step_cont_shape : forall c wd w a m cur call body cu e,
    Inv wd ->
    open_cursor (ttl c) (clock wd) (curs wd) a cur = inr cu ->
    resolve_cold declares (ttl c) (clock wd) (calls wd) a m (cu_cid cu) call = inl e ->
    snd (step_cont c wd w a m cur call body) = ORejected e
    \/ exists ct cw, In ct (calls wd) /\ ct_cid ct = cu_cid cu /\ ct_aad ct = aad_id a
                     /\ step_cont c wd w a m cur call body = proceed (set_cache wd w cw) a m cu (resolved_of ct) body.
  Proof.
    intros c wd w a m cur call body cu e HI OC RC. unfold M_CallCache.step_cont. rewrite OC.
    pose proof (open_cursor_inr _ _ _ _ _ _ OC) as [Hcu [Haad _]].
    destruct (cache_get (cu_cid cu, cache_id a) (clock wd) (cache_of wd w)) as [cw hit] eqn:G.
    destruct hit as [r|].
    - right. destruct (hit_resolved wd w a cu cw r HI Hcu Haad G) as [ct [H1 [H2 [H3 H4]]]].
      exists ct, cw. subst r. repeat split; assumption.
    - left. rewrite RC. reflexivity.
  Qed.

  Lemma step_divergence : forall c1 c2 wd1 wd2 r,
    ttl c1 = ttl c2 -> Inv wd1 -> Inv wd2 -> pub_eq wd1 wd2 ->
    let o1 := snd (step c1 wd1 r) in
    let o2 := snd (step c2 wd2 r) in
    o1 = o2 \/ exists e out nx, In e call_reasons /\
                 ((o1 = OServed out nx /\ o2 = ORejected e) \/ (o1 = ORejected e /\ o2 = OServed out nx)).
  Proof.
    intros c1 c2 wd1 wd2 r Et HI1 HI2 HP o1 o2. subst o1 o2.
    destruct (excluded c1 wd1 r) eqn:HX.
    2:{ left. apply (step_agree c1 c2 wd1 wd2 r Et HI1 HI2 HP HX). }
    pose proof HP as [E1 [E2 [E3 E4]]].
    destruct r as [w a m arg|w a m cur call body|dt|w]; cbn [M_CallCache.excluded] in HX; try discriminate.
    cbn [M_CallCache.step].
    destruct (open_cursor (ttl c1) (clock wd1) (curs wd1) a cur) as [e|cu] eqn:OC; [discriminate|].
    destruct (resolve_cold declares (ttl c1) (clock wd1) (calls wd1) a m (cu_cid cu) call) as [e|r0] eqn:RC; [|discriminate].
    pose proof (resolve_cold_inl _ _ _ _ _ _ _ _ _ RC) as He.
    pose proof (step_cont_shape c1 wd1 w a m cur call body cu e HI1 OC RC) as S1.
    rewrite Et, E1, E4 in OC. rewrite Et, E1, E3 in RC.
    pose proof (step_cont_shape c2 wd2 w a m cur call body cu e HI2 OC RC) as S2.
    destruct S1 as [S1|[ct1 [cw1 [A1 [B1 [C1 S1]]]]]]; destruct S2 as [S2|[ct2 [cw2 [A2 [B2 [C2 S2]]]]]].
    - left. congruence.
    - right. rewrite S1, S2. destruct (proceed_served (set_cache wd2 w cw2) a m cu (resolved_of ct2) body) as [out [nx Hs]].
      exists e, out, nx. split; [exact He|]. right. split; [reflexivity | exact Hs].
    - right. rewrite S1, S2. destruct (proceed_served (set_cache wd1 w cw1) a m cu (resolved_of ct1) body) as [out [nx Hs]].
      exists e, out, nx. split; [exact He|]. left. split; [exact Hs | reflexivity].
    - left. rewrite S1, S2. rewrite E3 in A1.
      assert (ct1 = ct2) by (apply (inv_uniq wd2 HI2); [assumption | assumption | congruence]). subst ct2.
      apply proceed_pub.
      eapply pub_eq_trans; [apply pub_eq_set_cache|]. eapply pub_eq_trans; [exact HP|]. apply pub_eq_sym. apply pub_eq_set_cache.
  Qed.

  (* ---- histories ------------------------------------------------------------------------------------------------ *)
  Lemma run_from_agree : forall c1 c2 h wd1 wd2,
    ttl c1 = ttl c2 -> Inv wd1 -> Inv wd2 -> pub_eq wd1 wd2 -> admissible_from c1 wd1 h = true ->
    snd (run_from c1 wd1 h) = snd (run_from c2 wd2 h).
  Proof.
    intros c1 c2 h. induction h as [|r rest IH]; intros wd1 wd2 Et HI1 HI2 HP HA; cbn [M_CallCache.run_from].
    - reflexivity.
    - cbn [M_CallCache.admissible_from] in HA. apply andb_true_iff in HA as [HX HA]. apply negb_true_iff in HX.
      destruct (step_agree c1 c2 wd1 wd2 r Et HI1 HI2 HP HX) as [Eo EP].
      pose proof (step_Inv c1 wd1 r HI1) as I1. pose proof (step_Inv c2 wd2 r HI2) as I2.
      destruct (step c1 wd1 r) as [wd1' o1]. destruct (step c2 wd2 r) as [wd2' o2]. cbn [fst snd] in *.
      specialize (IH wd1' wd2' Et I1 I2 EP HA).
      destruct (run_from c1 wd1' rest) as [x1 os1]. destruct (run_from c2 wd2' rest) as [x2 os2]. cbn [snd] in *.
      congruence.
  Qed.

  Lemma any_two_agree : forall c1 c2 t0 h,
    ttl c1 = ttl c2 -> admissible c1 t0 h = true -> outcomes c1 t0 h = outcomes c2 t0 h.
  Proof.
    intros c1 c2 t0 h Et HA. unfold M_CallCache.outcomes, M_CallCache.run.
    apply run_from_agree; try assumption; try apply init_world_Inv.
    unfold init_world. repeat split.
  Qed.

  Lemma cache_transparent_partial : forall c t0 h,
    admissible c t0 h = true -> outcomes c t0 h = outcomes (cold c) t0 h.
  Proof. intros c t0 h HA. apply any_two_agree; [reflexivity | exact HA]. Qed.

  (* the reference system really is cache-less: every cache stays empty *)
  Lemma cold_caps : forall c w, cap_of (cold c) w = 0.
  Proof.
    intros c w. unfold cap_of, cold. cbn [caps]. generalize w.
    induction (caps c) as [|x r IH]; intros [|w']; cbn; try reflexivity. apply IH.
  Qed.

  Lemma cold_caches_empty : forall c t0 h w, cache_of (fst (run (cold c) t0 h)) w = [].
  Proof.
    intros c t0 h w. pose proof (size_le_cap (cold c) t0 h w) as H. rewrite cold_caps in H.
    destruct (cache_of (fst (run (cold c) t0 h)) w); [reflexivity | cbn in H; lia].
  Qed.

  (* local form: the serving worker's cache emptied just before the request *)
  Lemma step_transparent_partial : forall c t0 h r w,
    let wd := fst (run c t0 h) in
    excluded c wd r = false ->
    snd (step c wd r) = snd (step c (set_cache wd w []) r)
    /\ snd (step c wd r) = snd (step (cold c) (set_cache wd w []) r).
  Proof.
    intros c t0 h r w wd HX.
    assert (HI : Inv wd) by apply run_Inv.
    assert (HI' : Inv (set_cache wd w [])) by (apply Inv_set_cache; [exact HI | intros e []]).
    assert (HP : pub_eq wd (set_cache wd w [])) by (apply pub_eq_sym; apply pub_eq_set_cache).
    split.
    - apply (step_agree c c wd (set_cache wd w []) r eq_refl HI HI' HP HX).
    - apply (step_agree c (cold c) wd (set_cache wd w []) r eq_refl HI HI' HP HX).
  Qed.

  Lemma divergence_vs_emptied : forall c t0 h r w,
    let wd := fst (run c t0 h) in
    let warm := snd (step c wd r) in
    let cold_o := snd (step c (set_cache wd w []) r) in
    warm = cold_o \/ exists e out nx, In e call_reasons /\
                 ((warm = OServed out nx /\ cold_o = ORejected e) \/ (warm = ORejected e /\ cold_o = OServed out nx)).
  Proof.
    intros c t0 h r w wd warm cold_o. subst warm cold_o.
    assert (HI : Inv wd) by apply run_Inv.
    assert (HI' : Inv (set_cache wd w [])) by (apply Inv_set_cache; [exact HI | intros e []]).
    assert (HP : pub_eq wd (set_cache wd w [])) by (apply pub_eq_sym; apply pub_eq_set_cache).
    apply (step_divergence c c wd (set_cache wd w []) r eq_refl HI HI' HP).
  Qed.
  (* ---- sources whose miss path dates the entry from the call token (dated_miss = true) ---------------------------- *)
  Notation genuine := (genuine declares).
  Notation genuine_from := (genuine_from declares init_fn turn).
  Notation all_genuine := (all_genuine declares init_fn turn).

  Lemma proceed_Dated : forall c wd a m cu r body, Dated c wd -> Dated c (fst (proceed wd a m cu r body)).
  Proof.
    intros c wd a m cu r body HD. unfold M_CallCache.proceed.
    destruct (turn m (rc_ty r) (rc_payload r) (cu_state cu) body) as [out [s'|]]; cbn [fst]; exact HD.
  Qed.

  Lemma step_Dated : forall c wd r, dated_miss c = true -> 0 < ttl c -> Dated c wd -> Dated c (fst (step c wd r)).
  Proof.
    intros c wd r Hd Ht HD. destruct r as [w a m arg|w a m cur call body|dt|w]; cbn [M_CallCache.step].
    - unfold M_CallCache.step_init. destruct (init_fn m arg) as [[[ty payload] s0]|]; [|exact HD].
      cbn [fst]. intros w' e He. unfold cache_of in He. cbn [caches] in He.
      match type of He with context [upd w ?x (caches wd)] =>
        destruct (nth_upd (caches wd) w w' x []) as [[_ E]|E]; rewrite E in He end.
      + apply cache_put_In in He as [He|He]; [eapply HD; exact He|].
        subst e. unfold exp_ok. cbn [fst snd resolved_of rc_created ct_created]. apply init_birth_ok. exact Ht.
      + eapply HD. exact He.
    - unfold M_CallCache.step_cont.
      destruct (open_cursor (ttl c) (clock wd) (curs wd) a cur) as [e|cu]; [exact HD|].
      destruct (cache_get (cu_cid cu, cache_id a) (clock wd) (cache_of wd w)) as [cw hit] eqn:G.
      assert (Hcw : forall e, In e cw -> exp_ok c e).
      { intros e He. eapply (HD w). eapply cache_get_In; [|exact He]. rewrite G. reflexivity. }
      destruct hit as [r|].
      + apply proceed_Dated. apply Dated_set_cache; assumption.
      + destruct (resolve_cold declares (ttl c) (clock wd) (calls wd) a m (cu_cid cu) call) as [e|r].
        * cbn [fst]. apply Dated_set_cache; assumption.
        * apply proceed_Dated. apply Dated_set_cache; [exact HD|].
          intros e He. apply cache_put_In in He as [He|He]; [apply Hcw; exact He|].
          subst e. unfold exp_ok. cbn [fst snd]. apply miss_birth_ok; assumption.
    - cbn [fst]. exact HD.
    - cbn [fst]. apply Dated_set_cache; [exact HD | intros e []].
  Qed.

  Lemma init_world_Dated : forall c t0, Dated c (init_world c t0).
  Proof. intros c t0 w e He. rewrite init_cache_empty in He. destruct He. Qed.

  Lemma run_from_Dated : forall c h wd, dated_miss c = true -> 0 < ttl c -> Dated c wd -> Dated c (fst (run_from c wd h)).
  Proof.
    intros c h. induction h as [|r rest IH]; intros wd Hd Ht HD; cbn [M_CallCache.run_from].
    - exact HD.
    - destruct (step c wd r) as [wd1 o] eqn:S.
      destruct (run_from c wd1 rest) as [wd2 os] eqn:R. cbn [fst].
      specialize (IH wd1 Hd Ht). rewrite R in IH. cbn [fst] in IH. apply IH.
      pose proof (step_Dated c wd r Hd Ht HD) as H. rewrite S in H. exact H.
  Qed.

  (* a genuine call token that the miss path refuses is refused for its age -- and then no live entry exists *)
  Lemma dated_genuine_rejects : forall c wd w a m cur call body cu e,
    Inv wd -> Dated c wd ->
    open_cursor (ttl c) (clock wd) (curs wd) a cur = inr cu ->
    resolve_cold declares (ttl c) (clock wd) (calls wd) a m (cu_cid cu) call = inl e ->
    genuine c wd (RCont w a m cur call body) = true ->
    exists cw, step_cont c wd w a m cur call body = (set_cache wd w cw, ORejected e).
  Proof.
    intros c wd w a m cur call body cu e HI HD OC RC HG.
    cbn [M_CallCache.genuine] in HG. rewrite OC in HG.
    destruct call as [| | |t]; try discriminate.
    apply andb_true_iff in HG as [HG Hty]. apply andb_true_iff in HG as [HG Hcid]. apply andb_true_iff in HG as [Hmem Haad'].
    cbn [resolve_cold] in RC. rewrite Hmem, Haad', Hcid, Hty in RC. cbn [andb] in RC.
    destruct (expired (ttl c) (clock wd) (ct_created t)) eqn:X; [|discriminate].
    apply mem_ct_In in Hmem. apply lN_eqb_eq in Haad'. apply N.eqb_eq in Hcid.
    unfold M_CallCache.step_cont. rewrite OC.
    pose proof (open_cursor_inr _ _ _ _ _ _ OC) as [Hcu [Haad _]].
    destruct (cache_get (cu_cid cu, cache_id a) (clock wd) (cache_of wd w)) as [cw hit] eqn:G.
    destruct hit as [r|].
    - exfalso.
      destruct (hit_resolved wd w a cu cw r HI Hcu Haad G) as [ct [H1 [H2 [H3 H4]]]].
      assert (ct = t) by (apply (inv_uniq wd HI); [assumption | assumption | congruence]). subst ct.
      assert (Hs : snd (cache_get (cu_cid cu, cache_id a) (clock wd) (cache_of wd w)) = Some r) by (rewrite G; reflexivity).
      apply cache_get_hit in Hs as [exp [Hin Hlt]].
      pose proof (HD w _ Hin) as Hok. unfold exp_ok in Hok. cbn [fst snd] in Hok. subst r. cbn [resolved_of rc_created] in Hok.
      rewrite (alive_unexpired (ttl c) (clock wd) exp (ct_created t) Hlt Hok) in X. discriminate.
    - exists cw. cbn [resolve_cold]. rewrite (proj2 (mem_ct_In t (calls wd)) Hmem).
      rewrite (proj2 (lN_eqb_eq _ _) Haad'). cbn [andb]. rewrite X. inversion RC. reflexivity.
  Qed.

  Lemma genuine_pub : forall c1 c2 wd1 wd2 r, ttl c1 = ttl c2 -> pub_eq wd1 wd2 -> genuine c1 wd1 r = genuine c2 wd2 r.
  Proof.
    intros c1 c2 wd1 wd2 r Et [E1 [E2 [E3 E4]]]. destruct r; cbn [M_CallCache.genuine]; try reflexivity.
    rewrite Et, E1, E3, E4. reflexivity.
  Qed.

  Lemma step_agree_dated : forall c1 c2 wd1 wd2 r,
    ttl c1 = ttl c2 -> Inv wd1 -> Inv wd2 -> Dated c1 wd1 -> Dated c2 wd2 -> pub_eq wd1 wd2 -> genuine c1 wd1 r = true ->
    snd (step c1 wd1 r) = snd (step c2 wd2 r) /\ pub_eq (fst (step c1 wd1 r)) (fst (step c2 wd2 r)).
  Proof.
    intros c1 c2 wd1 wd2 r Et HI1 HI2 HD1 HD2 HP HG.
    destruct (excluded c1 wd1 r) eqn:HX.
    2:{ apply step_agree; assumption. }
    pose proof HP as [E1 [E2 [E3 E4]]].
    pose proof HG as HG2. rewrite (genuine_pub c1 c2 wd1 wd2 r Et HP) in HG2.
    destruct r as [w a m arg|w a m cur call body|dt|w]; cbn [M_CallCache.excluded] in HX; try discriminate.
    cbn [M_CallCache.step].
    destruct (open_cursor (ttl c1) (clock wd1) (curs wd1) a cur) as [e|cu] eqn:OC; [discriminate|].
    destruct (resolve_cold declares (ttl c1) (clock wd1) (calls wd1) a m (cu_cid cu) call) as [e|r0] eqn:RC; [|discriminate].
    destruct (dated_genuine_rejects c1 wd1 w a m cur call body cu e HI1 HD1 OC RC HG) as [cw1 S1].
    rewrite Et, E1, E4 in OC. rewrite Et, E1, E3 in RC.
    destruct (dated_genuine_rejects c2 wd2 w a m cur call body cu e HI2 HD2 OC RC HG2) as [cw2 S2].
    rewrite S1, S2. cbn [fst snd]. split; [reflexivity|].
    eapply pub_eq_trans; [apply pub_eq_set_cache|]. eapply pub_eq_trans; [exact HP|]. apply pub_eq_sym. apply pub_eq_set_cache.
  Qed.

  Lemma run_from_agree_dated : forall c1 c2 h wd1 wd2,
    ttl c1 = ttl c2 -> dated_miss c1 = true -> dated_miss c2 = true -> 0 < ttl c1 ->
    Inv wd1 -> Inv wd2 -> Dated c1 wd1 -> Dated c2 wd2 -> pub_eq wd1 wd2 -> genuine_from c1 wd1 h = true ->
    snd (run_from c1 wd1 h) = snd (run_from c2 wd2 h).
  Proof.
    intros c1 c2 h. induction h as [|r rest IH]; intros wd1 wd2 Et Hd1 Hd2 Ht HI1 HI2 HD1 HD2 HP HA; cbn [M_CallCache.run_from].
    - reflexivity.
    - cbn [M_CallCache.genuine_from] in HA. apply andb_true_iff in HA as [HG HA].
      destruct (step_agree_dated c1 c2 wd1 wd2 r Et HI1 HI2 HD1 HD2 HP HG) as [Eo EP].
      pose proof (step_Inv c1 wd1 r HI1) as I1. pose proof (step_Inv c2 wd2 r HI2) as I2.
      assert (Ht2 : 0 < ttl c2) by (rewrite <- Et; exact Ht).
      pose proof (step_Dated c1 wd1 r Hd1 Ht HD1) as D1. pose proof (step_Dated c2 wd2 r Hd2 Ht2 HD2) as D2.
      destruct (step c1 wd1 r) as [wd1' o1]. destruct (step c2 wd2 r) as [wd2' o2]. cbn [fst snd] in *.
      specialize (IH wd1' wd2' Et Hd1 Hd2 Ht I1 I2 D1 D2 EP HA).
      destruct (run_from c1 wd1' rest) as [x1 os1]. destruct (run_from c2 wd2' rest) as [x2 os2]. cbn [snd] in *.
      congruence.
  Qed.

  (* ttl = 0: tokens never expire, a genuine token is never excluded *)
  Lemma genuine_not_excluded_ttl0 : forall c wd r, ttl c = 0 -> genuine c wd r = true -> excluded c wd r = false.
  Proof.
    intros c wd r Ht HG. destruct r as [w a m arg|w a m cur call body|dt|w]; cbn [M_CallCache.excluded]; try reflexivity.
    cbn [M_CallCache.genuine] in HG.
    destruct (open_cursor (ttl c) (clock wd) (curs wd) a cur) as [e|cu]; [reflexivity|].
    destruct call as [| | |t]; try discriminate.
    apply andb_true_iff in HG as [HG Hty]. apply andb_true_iff in HG as [HG Hcid]. apply andb_true_iff in HG as [Hmem Haad'].
    cbn [resolve_cold]. rewrite Hmem, Haad', Hcid, Hty. cbn [andb]. unfold expired. rewrite Ht. reflexivity.
  Qed.

  Lemma genuine_from_admissible_ttl0 : forall c h wd, ttl c = 0 -> genuine_from c wd h = true -> admissible_from c wd h = true.
  Proof.
    intros c h. induction h as [|r rest IH]; intros wd Ht HG; cbn [M_CallCache.genuine_from M_CallCache.admissible_from] in *.
    - reflexivity.
    - apply andb_true_iff in HG as [H1 H2]. apply andb_true_iff. split.
      + apply negb_true_iff. apply genuine_not_excluded_ttl0; assumption.
      + apply IH; assumption.
  Qed.

  (* the honest-client form of the statement, for sources with dated_miss = true: every continuation echoes the genuine
     call token of its stream (whatever its age) *)
  Lemma dated_cache_transparent : forall c1 c2 t0 h,
    ttl c1 = ttl c2 -> dated_miss c1 = true -> dated_miss c2 = true ->
    all_genuine c1 t0 h = true -> outcomes c1 t0 h = outcomes c2 t0 h.
  Proof.
    intros c1 c2 t0 h Et Hd1 Hd2 HG. unfold M_CallCache.all_genuine in HG.
    destruct (N.eq_dec (ttl c1) 0) as [Z|NZ].
    - apply any_two_agree; [exact Et|]. unfold M_CallCache.admissible. apply genuine_from_admissible_ttl0; assumption.
    - unfold M_CallCache.outcomes, M_CallCache.run.
      apply run_from_agree_dated; try assumption; try apply init_world_Inv; try apply init_world_Dated; try lia.
      unfold init_world. repeat split.
  Qed.
End Proofs.
