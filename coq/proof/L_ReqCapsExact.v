(* Instance B = list N of model/M_ReqCaps.v: the instance laws, and exactness of the two chunk loops on
   decoders that faithfully stream a payload d (whatever chunking they choose):
   the loop returns d when |d| <= cap and reports the limit otherwise. *)
From Coq Require Import List NArith Bool Lia.
From VGI Require Import M_ReqCaps L_ReqCaps.
Import ListNotations.
Open Scope N_scope.

Lemma lenN_app : forall a b : list N, lenN (a ++ b) = lenN a + lenN b.
Proof. intros a b. unfold lenN. rewrite app_length. lia. Qed.
Lemma lenN_nil : lenN [] = 0.
Proof. reflexivity. Qed.
Lemma lenN_take : forall n (b : list N), lenN (takeN n b) = N.min n (lenN b).
Proof. intros n b. unfold lenN, takeN. rewrite firstn_length. lia. Qed.
Lemma lenN_zero : forall b : list N, lenN b = 0 -> b = [].
Proof. intros [| x r] H; [reflexivity | unfold lenN in H; cbn in H; lia]. Qed.
Lemma takeN_all : forall b : list N, takeN (lenN b) b = b.
Proof. intros b. unfold takeN, lenN. rewrite Nat2N.id. apply firstn_all. Qed.

Notation zloopB := (zloop (list N) lenN (@app N)).
Notation gloopB := (gloop (list N) lenN (@app N)).
Notation gfinishB := (gfinish (list N) lenN (@app N)).

(* a zstd stream reader that faithfully serves payload d: whatever positive size is asked for, it answers
   with a chunk no longer than that, a prefix of what is left, empty only when nothing is left *)
Fixpoint zserves (r : reader (list N)) (d : list N) : Prop :=
  match r with
  | Rd _ _ _ _ _ _ f =>
      forall n, 1 <= n ->
        match f n with
        | SRaise => False
        | SChunk ch _ r' => lenN ch <= n /\ exists d', d = ch ++ d' /\ (ch = [] -> d = []) /\ (ch <> [] -> zserves r' d')
        end
  end.

Lemma zloop_exact : forall k c, 1 <= chunk k -> forall r d total acc log,
  zserves r d -> total <= c ->
  d_res _ (zloopB k c r total acc log) = if lenN d + total <=? c then DOk (acc ++ d) else DLimit.
Proof.
  intros k c Hk r. induction r as [fl fle eof ra rafl raeof f IH] using reader_ind2.
  intros d total acc log Hs Ht. cbn [zloop zserves] in *.
  destruct (req_size_bounds k c total Hk Ht) as [Hn _]. set (n := req_size k c total) in *.
  specialize (Hs n (proj1 Hn)). destruct (f n) as [| ch ut r'] eqn:E; [contradiction |].
  destruct Hs as [Hch (d' & Hd & Hempty & Hs')].
  destruct (lenN ch =? 0) eqn:E0.
  - apply N.eqb_eq, lenN_zero in E0. subst ch. rewrite (Hempty eq_refl).
    assert (Hq : (lenN [] + total <=? c) = true) by (apply N.leb_le; cbn; lia).
    rewrite Hq. cbn. rewrite app_nil_r. reflexivity.
  - apply N.eqb_neq in E0. subst d. rewrite lenN_app.
    destruct (c <? total + lenN ch) eqn:E1.
    + apply N.ltb_lt in E1. replace (lenN ch + lenN d' + total <=? c) with false by (symmetry; apply N.leb_gt; lia). reflexivity.
    + apply N.ltb_ge in E1.
      assert (Hne : ch <> []) by (intros ->; apply E0; reflexivity).
      rewrite (IH n ch ut r' E d' (total + lenN ch) (acc ++ ch) (log ++ [CRead n]) (Hs' Hne) E1).
      replace (lenN d' + (total + lenN ch)) with (lenN ch + lenN d' + total) by lia.
      rewrite <- app_assoc. reflexivity.
Qed.

(* a zlib decompressobj that faithfully serves payload d: as above, and whenever the loop is about to leave
   (no unconsumed input is left, or the end-of-stream marker has been decoded) the rest of the payload is what
   flush() returns and the stream is complete *)
Fixpoint gserves (r : reader (list N)) (d : list N) : Prop :=
  match r with
  | Rd _ _ _ _ _ _ f =>
      forall n, 1 <= n ->
        match f n with
        | SRaise => False
        | SChunk ch ut r' =>
            lenN ch <= n /\ exists d', d = ch ++ d' /\ (ut = true -> gserves r' d') /\
            (ut = false \/ rd_eof _ r' = true -> rd_fl _ r' = Some d' /\ rd_fl_eof _ r' = true)
        end
  end.

Lemma gfinish_exact : forall k c r d total acc log,
  rd_fl _ r = Some d -> rd_fl_eof _ r = true -> total <= c ->
  d_res _ (gfinishB k c r total acc log) = if lenN d + total <=? c then DOk (acc ++ d) else DLimit.
Proof.
  intros k c r d total acc log Hfl Heof Ht. unfold gfinish. rewrite Hfl, Heof.
  destruct (lenN d =? 0) eqn:E0.
  - apply N.eqb_eq in E0.
    replace (lenN d + total <=? c) with true by (symmetry; apply N.leb_le; lia).
    apply lenN_zero in E0. subst d. cbn [negb andb lenN length N.of_nat N.eqb].
    destruct (gzip_eof_check k); reflexivity.
  - apply N.eqb_neq in E0. cbn [negb andb]. destruct (c <? total + lenN d) eqn:E1.
    + apply N.ltb_lt in E1. replace (lenN d + total <=? c) with false by (symmetry; apply N.leb_gt; lia). reflexivity.
    + apply N.ltb_ge in E1. replace (lenN d + total <=? c) with true by (symmetry; apply N.leb_le; lia).
      destruct (gzip_eof_check k); reflexivity.
Qed.

Lemma gloop_exact : forall k c, 1 <= chunk k -> forall r d total acc log,
  gserves r d -> total <= c ->
  d_res _ (gloopB k c r total acc log) = if lenN d + total <=? c then DOk (acc ++ d) else DLimit.
Proof.
  intros k c Hk r. induction r as [fl fle eof ra rafl raeof f IH] using reader_ind2.
  intros d total acc log Hs Ht. cbn [gloop gserves] in *.
  destruct (req_size_bounds k c total Hk Ht) as [Hn _]. set (n := req_size k c total) in *.
  specialize (Hs n (proj1 Hn)). destruct (f n) as [| ch ut r'] eqn:E; [contradiction |].
  destruct Hs as [Hch (d' & Hd & Hs' & Hleave)]. subst d. rewrite lenN_app.
  destruct (negb (lenN ch =? 0) && (c <? total + lenN ch)) eqn:E1.
  - apply andb_true_iff in E1 as [_ E1]. apply N.ltb_lt in E1.
    replace (lenN ch + lenN d' + total <=? c) with false by (symmetry; apply N.leb_gt; lia). reflexivity.
  - assert (Hle : total + lenN ch <= c).
    { apply andb_false_iff in E1 as [E1 | E1].
      - apply negb_false_iff, N.eqb_eq in E1. lia.
      - apply N.ltb_ge in E1. exact E1. }
    set (log' := log ++ [CGz n] ++ (if gzip_eof_break k then [CEof] else [])).
    assert (Hfin : ut = false \/ rd_eof _ r' = true ->
                   d_res _ (gfinishB k c r' (total + lenN ch) (acc ++ ch) log') =
                   (if lenN ch + lenN d' + total <=? c then DOk (acc ++ ch ++ d') else DLimit)).
    { intros Hl. destruct (Hleave Hl) as [Hfl Hfe].
      rewrite (gfinish_exact k c r' d' (total + lenN ch) (acc ++ ch) log' Hfl Hfe Hle).
      replace (lenN d' + (total + lenN ch)) with (lenN ch + lenN d' + total) by lia.
      rewrite <- app_assoc. reflexivity. }
    destruct (gzip_eof_break k && rd_eof _ r') eqn:Eb.
    + apply andb_true_iff in Eb as [_ Eb]. apply Hfin. right. exact Eb.
    + destruct ut.
      * rewrite (IH n ch true r' E d' (total + lenN ch) (acc ++ ch) log' (Hs' eq_refl) Hle).
        replace (lenN d' + (total + lenN ch)) with (lenN ch + lenN d' + total) by lia.
        rewrite <- app_assoc. reflexivity.
      * apply Hfin. left. reflexivity.
Qed.

(* ---- faithful decoders exist: the reader that serves d in exactly the requested pieces ---- *)
Definition is_nil (b : list N) : bool := match b with [] => true | _ => false end.
Definition dropN (n : N) (b : list N) : list N := skipn (N.to_nat n) b.
Definition dead_rd : reader (list N) := Rd (Some []) true true None None false (fun _ => SRaise).
Fixpoint honest_rd (fuel : nat) (d : list N) : reader (list N) :=
  Rd (Some []) true (is_nil d) None None false
     (fun n => match fuel with
               | O => SChunk [] false dead_rd
               | S fuel' => SChunk (takeN n d) (negb (is_nil (dropN n d))) (honest_rd fuel' (dropN n d))
               end).

Lemma take_drop : forall n d, d = takeN n d ++ dropN n d.
Proof. intros n d. unfold takeN, dropN. symmetry. apply firstn_skipn. Qed.
Lemma dropN_length : forall n d, 1 <= n -> d <> [] -> (length (dropN n d) < length d)%nat.
Proof.
  intros n d Hn Hd. unfold dropN. rewrite skipn_length. destruct d as [| x r]; [contradiction |]. cbn [length]. lia.
Qed.
Lemma is_nil_true : forall b, is_nil b = true -> b = [].
Proof. intros [| x r] H; [reflexivity | discriminate H]. Qed.

Lemma honest_zserves : forall fuel d, (length d <= fuel)%nat -> zserves (honest_rd fuel d) d.
Proof.
  induction fuel as [| fuel IH]; intros d Hlen; cbn [honest_rd zserves]; intros n Hn.
  - destruct d as [| x r]; [| cbn in Hlen; lia]. split; [cbn; lia |]. exists []. repeat split; auto. intros H; contradiction H; reflexivity.
  - split; [rewrite lenN_take; lia |]. exists (dropN n d). split; [apply take_drop |]. split.
    + intros Ht. destruct d as [| x r]; [reflexivity |]. unfold takeN in Ht.
      destruct (N.to_nat n) eqn:En; [lia | discriminate Ht].
    + intros Hne. apply IH. destruct d as [| x r]; [unfold takeN in Hne; rewrite firstn_nil in Hne; contradiction Hne; reflexivity |].
      pose proof (dropN_length n (x :: r) Hn ltac:(discriminate)). lia.
Qed.

Lemma honest_gserves : forall fuel d, (length d <= fuel)%nat -> gserves (honest_rd fuel d) d.
Proof.
  induction fuel as [| fuel IH]; intros d Hlen; cbn [honest_rd gserves]; intros n Hn.
  - destruct d as [| x r]; [| cbn in Hlen; lia]. split; [cbn; lia |]. exists []. split; [reflexivity |]. split.
    + intros H; discriminate H.
    + intros _. split; reflexivity.
  - split; [rewrite lenN_take; lia |]. exists (dropN n d). split; [apply take_drop |]. split.
    + intros Hut. apply negb_true_iff in Hut. apply IH.
      destruct d as [| x r]; [unfold dropN in Hut; rewrite skipn_nil in Hut; discriminate Hut |].
      pose proof (dropN_length n (x :: r) Hn ltac:(discriminate)). lia.
    + intros Hl. assert (Hnil : dropN n d = []).
      { destruct Hl as [Hl | Hl].
        - apply negb_false_iff in Hl. apply is_nil_true. exact Hl.
        - destruct fuel; cbn in Hl; apply is_nil_true; exact Hl. }
      rewrite Hnil. destruct fuel; cbn; split; reflexivity.
Qed.

(* ---- the instance of the handle-level theorems ---- *)
Notation classifyB := classify.
Definition decode_withB := decode_with (list N) lenN (@app N) [].
Definition decoders_okB := decoders_ok (list N) lenN.
Definition cap_stageB := cap_stage (list N) lenN takeN.
Definition body_ofB := body_of (list N) takeN.

Lemma handle_enabled : forall k zdec gdec r c n e,
  cap k = Some c -> r_cl _ r = Some n -> n <= c -> classify k (r_ce _ r) = TEnabled e ->
  o_out _ (handle_bytes k zdec gdec r) = out_of_dres _ (d_res _ (decode_withB k zdec gdec e (takeN n (r_stream _ r)))).
Proof.
  intros k zdec gdec r c n e Hc Hn Hle He. unfold handle_bytes.
  rewrite (handle_unfold (list N) lenN (@app N) [] takeN).
  pose proof (cap_stage_spec (list N) lenN [] takeN lenN_nil lenN_take k r) as Hs.
  destruct (cap_stage (list N) lenN takeN k r) as [s | capped].
  - destruct Hs as [_ (c' & n' & Hc' & Hn' & Hlt)]. rewrite Hc in Hc'. rewrite Hn in Hn'.
    inversion Hc'; inversion Hn'; subst. lia.
  - destruct Hs as [_ [_ Hbody]]. cbn zeta. rewrite (Hbody n Hn), He. reflexivity.
Qed.

Lemma handle_zstd_stream_exact : forall k zdec gdec r c n d,
  cap k = Some c -> 1 <= chunk k -> r_cl _ r = Some n -> n <= c ->
  classify k (r_ce _ r) = TEnabled Zstd ->
  z_hdr _ (zdec (takeN n (r_stream _ r))) = Some None ->
  zserves (z_rd _ (zdec (takeN n (r_stream _ r)))) d ->
  o_out _ (handle_bytes k zdec gdec r) = if lenN d <=? c then Deliver d else Refuse 413.
Proof.
  intros k zdec gdec r c n d Hc Hk Hn Hle He Hh Hs.
  rewrite (handle_enabled k zdec gdec r c n Zstd Hc Hn Hle He).
  unfold decode_withB, decode_with, dec_zstd. rewrite Hh, Hc.
  rewrite (zloop_exact k c Hk _ d 0 [] [CHdr] Hs (N.le_0_l c)). rewrite N.add_0_r.
  destruct (lenN d <=? c); reflexivity.
Qed.

Lemma handle_gzip_exact : forall k zdec gdec r c n d,
  cap k = Some c -> 1 <= chunk k -> r_cl _ r = Some n -> n <= c ->
  classify k (r_ce _ r) = TEnabled Gzip ->
  takeN n (r_stream _ r) <> [] ->
  gserves (gdec (takeN n (r_stream _ r))) d ->
  o_out _ (handle_bytes k zdec gdec r) = if lenN d <=? c then Deliver d else Refuse 413.
Proof.
  intros k zdec gdec r c n d Hc Hk Hn Hle He Hne Hs.
  rewrite (handle_enabled k zdec gdec r c n Gzip Hc Hn Hle He).
  unfold decode_withB, decode_with, dec_gzip. rewrite Hc.
  destruct (lenN (takeN n (r_stream _ r)) =? 0) eqn:E0.
  - apply N.eqb_eq, lenN_zero in E0. contradiction.
  - rewrite (gloop_exact k c Hk _ d 0 [] [] Hs (N.le_0_l c)). rewrite N.add_0_r.
    destruct (lenN d <=? c); reflexivity.
Qed.

Lemma handle_zstd_declared_exact : forall k zdec gdec r c n dd,
  cap k = Some c -> r_cl _ r = Some n -> n <= c ->
  classify k (r_ce _ r) = TEnabled Zstd ->
  z_hdr _ (zdec (takeN n (r_stream _ r))) = Some (Some dd) ->
  o_out _ (handle_bytes k zdec gdec r) =
    if c <? dd then Refuse 413
    else match z_one _ (zdec (takeN n (r_stream _ r))) with Some out => Deliver out | None => Refuse 400 end.
Proof.
  intros k zdec gdec r c n dd Hc Hn Hle He Hh.
  rewrite (handle_enabled k zdec gdec r c n Zstd Hc Hn Hle He).
  unfold decode_withB, decode_with, dec_zstd. rewrite Hh, Hc.
  destruct (c <? dd); [reflexivity |].
  destruct (z_one _ (zdec (takeN n (r_stream _ r)))); reflexivity.
Qed.

(* header strings: a token that normalises to a wire name is classified by the table alone *)
Lemma classify_identity : forall k ce, norm_ce ce = tok_identity -> identity_pass k = true -> classify k ce = TIdentityPass.
Proof. intros k ce H Hi. unfold classify. rewrite H, Hi. reflexivity. Qed.
Lemma classify_none : forall k, classify k None = TNone.
Proof. reflexivity. Qed.
