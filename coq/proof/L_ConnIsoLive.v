(* L_ConnIsoLive: no connection is ever stuck -- from EVERY reachable state of the generic system there is a
   continuation of the schedule after which all connections are Done (given max_connections <> 0 and machines
   whose solo runs finish).  Strategy of the witness: first let every connection that is inside serve() (or whose
   server side died) run to its end -- that needs no permit; then nobody is being served, so a permit is free, and
   the waiting / not yet connected ones are served one after the other. *)
From Coq Require Import List NArith ZArith Bool Arith Lia.
From VGI Require Import Corr M_Wire M_ConnIso L_ConnIso.
Import ListNotations.
Open Scope nat_scope.

Section Live.
  Variable St : Type.
  Variable fin lost : St -> bool.
  Variable cstep : St -> St.

  Notation conn := (conn St).
  Notation sys := (sys St).
  Notation sys_step := (sys_step fin lost cstep).
  Notation conn_step := (conn_step fin lost cstep).
  Notation run := (run fin lost cstep).
  Notation solo := (solo fin cstep).

  Definition finishes (x : St) : Prop := exists k, fin (solo k x) = true.
  Definition good (g : sys) : Prop := forall i c, nth_error (conns g) i = Some c -> finishes (st c).
  Definition same_others (g g' : sys) (i : nat) : Prop := forall j, j <> i -> nth_error (conns g') j = nth_error (conns g) j.
  Definition active (c : conn) : Prop := ph c = Serving \/ ph c = Zombie.
  Definition quiet (g : sys) : Prop := forall i c, nth_error (conns g) i = Some c -> ~ active c.
  (* the semaphore is unlimited, or consistent with a positive max_connections *)
  Definition pc (g : sys) : Prop := permits g = None \/ exists m, 1 <= m /\ sem_inv St m g.

  Lemma run_app a b (g : sys) : run (a ++ b) g = run b (run a g).
  Proof. unfold M_ConnIso.run. apply fold_left_app. Qed.

  Lemma finishes_cstep x : finishes x -> fin x = false -> finishes (cstep x).
  Proof.
    intros [k H] F. destruct k as [|k]; simpl in H; [congruence|]. rewrite F in H. exists k; exact H.
  Qed.

  Lemma good_step g i : good g -> good (sys_step g i).
  Proof.
    intros G j c Hj. destruct (Nat.eq_dec i j) as [<-|Hne].
    - destruct (nth_error (conns g) i) as [c0|] eqn:E.
      + rewrite (sys_step_self St fin lost cstep g i c0 E) in Hj. inversion Hj; subst c; clear Hj.
        destruct (conn_step_private St fin lost cstep (permits g) c0) as [H|(F & H & _)]; rewrite H.
        * apply (G i c0 E).
        * apply finishes_cstep; [apply (G i c0 E)|exact F].
      + unfold M_ConnIso.sys_step in Hj. rewrite E in Hj. rewrite E in Hj. discriminate.
    - rewrite (sys_step_frame St fin lost cstep g i j Hne) in Hj. apply (G j c Hj).
  Qed.

  Lemma good_run sched : forall g, good g -> good (run sched g).
  Proof. induction sched as [|i r IH]; intros g G; [exact G|]. simpl. apply IH, good_step, G. Qed.

  Lemma pc_step g i : pc g -> pc (sys_step g i).
  Proof.
    intros [N|(m & Hm & S)].
    - left. unfold M_ConnIso.sys_step. destruct (nth_error (conns g) i) as [c|]; [|exact N].
      rewrite N. unfold M_ConnIso.conn_step.
      destruct (ph c); simpl; try reflexivity.
      + destruct (fin (st c)); simpl; [reflexivity|]. destruct (lost (cstep (st c))); reflexivity.
      + destruct (fin (st c)); reflexivity.
    - right. exists m. split; [exact Hm|]. apply (sem_step St fin lost cstep m g i S).
  Qed.

  Lemma pc_run sched : forall g, pc g -> pc (run sched g).
  Proof. induction sched as [|i r IH]; intros g G; [exact G|]. simpl. apply IH, pc_step, G. Qed.

  Lemma quiet_served0 (cs : list conn) : (forall c, In c cs -> ph c <> Serving) -> served cs = 0.
  Proof.
    induction cs as [|c r IH]; intro H; [reflexivity|]. simpl.
    rewrite IH by (intros x Hx; apply H; right; exact Hx).
    specialize (H c (or_introl eq_refl)). destruct (ph c); try reflexivity. congruence.
  Qed.

  Lemma quiet_has_permit g : pc g -> quiet g -> has_permit (permits g) = true.
  Proof.
    intros [N|(m & Hm & (p & Hp & Hs & _))] Q; [rewrite N; reflexivity|].
    assert (Z : served (conns g) = 0).
    { apply quiet_served0. intros c Hc. apply In_nth_error in Hc as [i Hi]. intro P. apply (Q i c Hi). left; exact P. }
    rewrite Hp. destruct p; [lia|reflexivity].
  Qed.

  (* ---------------------------------------------------------------- single steps of an active connection *)
  Lemma step_active_fin g i c : nth_error (conns g) i = Some c -> active c -> fin (st c) = true ->
    exists c1, nth_error (conns (sys_step g i)) i = Some c1 /\ ph c1 = Done.
  Proof.
    intros Hc Ha F. rewrite (sys_step_self St fin lost cstep g i c Hc). eexists. split; [reflexivity|].
    unfold M_ConnIso.conn_step. destruct Ha as [P|P]; rewrite P, F; reflexivity.
  Qed.

  Lemma step_active_go g i c : nth_error (conns g) i = Some c -> active c -> fin (st c) = false ->
    exists c1, nth_error (conns (sys_step g i)) i = Some c1 /\ active c1 /\ st c1 = cstep (st c).
  Proof.
    intros Hc Ha F. rewrite (sys_step_self St fin lost cstep g i c Hc). eexists. split; [reflexivity|].
    unfold M_ConnIso.conn_step, active. destruct Ha as [P|P]; rewrite P, F.
    - destruct (lost (cstep (st c))); simpl; auto.
    - simpl; auto.
  Qed.

  Lemma drive : forall k g i c, nth_error (conns g) i = Some c -> active c -> fin (solo k (st c)) = true ->
    exists n, (exists c', nth_error (conns (run (repeat i n) g)) i = Some c' /\ ph c' = Done)
              /\ same_others g (run (repeat i n) g) i.
  Proof.
    induction k as [|k IH]; intros g i c Hc Ha Hf.
    - simpl in Hf. exists 1. simpl. split.
      + apply (step_active_fin g i c Hc Ha Hf).
      + intros j Hn. apply sys_step_frame. auto.
    - destruct (fin (st c)) eqn:F.
      + exists 1. simpl. split.
        * apply (step_active_fin g i c Hc Ha F).
        * intros j Hn. apply sys_step_frame. auto.
      + simpl in Hf. rewrite F in Hf.
        destruct (step_active_go g i c Hc Ha F) as (c1 & Hc1 & Ha1 & Hs1).
        rewrite <- Hs1 in Hf.
        destruct (IH (sys_step g i) i c1 Hc1 Ha1 Hf) as (n & Hd & Ho).
        exists (S n). simpl. split; [exact Hd|].
        intros j Hn. rewrite (Ho j Hn). apply sys_step_frame. auto.
  Qed.

  (* ---------------------------------------------------------------- a waiting connection with a free permit *)
  Lemma drive_queued g i c : nth_error (conns g) i = Some c -> ph c = Queued -> has_permit (permits g) = true ->
    finishes (st c) ->
    exists sched, (exists c', nth_error (conns (run sched g)) i = Some c' /\ ph c' = Done) /\ same_others g (run sched g) i.
  Proof.
    intros Hc Q P [k Hk].
    assert (H1 : nth_error (conns (sys_step g i)) i = Some {| ph := Serving; st := st c |}).
    { rewrite (sys_step_self St fin lost cstep g i c Hc). unfold M_ConnIso.conn_step. rewrite Q, P. reflexivity. }
    destruct (drive k (sys_step g i) i _ H1 (or_introl eq_refl) Hk) as (n & Hd & Ho).
    exists (i :: repeat i n). simpl. split; [exact Hd|].
    intros j Hn. rewrite (Ho j Hn). apply sys_step_frame. auto.
  Qed.

  Lemma drive_fresh g i c : nth_error (conns g) i = Some c -> ph c = Fresh -> has_permit (permits g) = true ->
    finishes (st c) ->
    exists sched, (exists c', nth_error (conns (run sched g)) i = Some c' /\ ph c' = Done) /\ same_others g (run sched g) i.
  Proof.
    intros Hc Q P Hf.
    assert (H1 : nth_error (conns (sys_step g i)) i = Some {| ph := Queued; st := st c |}).
    { rewrite (sys_step_self St fin lost cstep g i c Hc). unfold M_ConnIso.conn_step. rewrite Q. reflexivity. }
    assert (P1 : has_permit (permits (sys_step g i)) = true).
    { unfold M_ConnIso.sys_step. rewrite Hc. unfold M_ConnIso.conn_step. rewrite Q. simpl. exact P. }
    destruct (drive_queued (sys_step g i) i _ H1 eq_refl P1 Hf) as (sched & Hd & Ho).
    exists (i :: sched). simpl. split; [exact Hd|].
    intros j Hn. rewrite (Ho j Hn). apply sys_step_frame. auto.
  Qed.

  (* ---------------------------------------------------------------- phase A: let everybody inside serve() finish *)
  Lemma calm : forall n g, good g -> n <= length (conns g) ->
    exists sched, (forall i c, i < n -> nth_error (conns (run sched g)) i = Some c -> ~ active c)
                  /\ (forall i, n <= i -> nth_error (conns (run sched g)) i = nth_error (conns g) i).
  Proof.
    induction n as [|n IH]; intros g G L.
    - exists []. simpl. split; [intros i c Hi; lia|reflexivity].
    - destruct (IH g G ltac:(lia)) as (s1 & A1 & U1).
      set (g1 := run s1 g) in *.
      destruct (nth_error (conns g1) n) as [c|] eqn:E.
      2:{ apply nth_error_None in E. unfold g1 in E. rewrite (run_length St fin lost cstep) in E. lia. }
      assert (Keep : ~ active c ->
                exists sched, (forall i c0, i < S n -> nth_error (conns (run sched g)) i = Some c0 -> ~ active c0)
                              /\ (forall i, S n <= i -> nth_error (conns (run sched g)) i = nth_error (conns g) i)).
      { intro Na. exists s1. split.
        - intros i c0 Hi Hc0. destruct (Nat.eq_dec i n) as [->|Hne].
          + fold g1 in Hc0. rewrite E in Hc0. inversion Hc0; subst c0. exact Na.
          + apply (A1 i c0 ltac:(lia) Hc0).
        - intros i Hi. apply U1. lia. }
      assert (Go : active c ->
                exists sched, (forall i c0, i < S n -> nth_error (conns (run sched g)) i = Some c0 -> ~ active c0)
                              /\ (forall i, S n <= i -> nth_error (conns (run sched g)) i = nth_error (conns g) i)).
      { intro Ha. destruct (good_run s1 g G n c E) as [k Hk].
        destruct (drive k g1 n c E Ha Hk) as (m & (c' & Hc' & D) & Ho).
        exists (s1 ++ repeat n m). rewrite run_app. fold g1. split.
        - intros i c0 Hi Hc0. destruct (Nat.eq_dec i n) as [->|Hne].
          + rewrite Hc' in Hc0. inversion Hc0; subst c0. unfold active. rewrite D. intros [X|X]; discriminate.
          + rewrite (Ho i Hne) in Hc0. apply (A1 i c0 ltac:(lia) Hc0).
        - intros i Hi. rewrite (Ho i ltac:(lia)). apply U1. lia. }
      destruct (ph c) eqn:P.
      + apply Keep. intros [X|X]; rewrite P in X; discriminate.
      + apply Keep. intros [X|X]; rewrite P in X; discriminate.
      + apply Go. left; exact P.
      + apply Go. right; exact P.
      + apply Keep. intros [X|X]; rewrite P in X; discriminate.
  Qed.

  (* ---------------------------------------------------------------- phase B: serve the others one after the other *)
  Lemma finish_from_quiet : forall n g, good g -> pc g -> quiet g -> n <= length (conns g) ->
    exists sched, (forall i c, i < n -> nth_error (conns (run sched g)) i = Some c -> ph c = Done)
                  /\ (forall i, n <= i -> nth_error (conns (run sched g)) i = nth_error (conns g) i).
  Proof.
    induction n as [|n IH]; intros g G Pc Q L.
    - exists []. simpl. split; [intros i c Hi; lia|reflexivity].
    - destruct (IH g G Pc Q ltac:(lia)) as (s1 & A1 & U1).
      set (g1 := run s1 g) in *.
      assert (Q1 : quiet g1).
      { intros i c Hc. destruct (Nat.lt_ge_cases i n) as [Hi|Hi].
        - pose proof (A1 i c Hi Hc) as D0. intros [D|D]; rewrite D0 in D; discriminate.
        - rewrite (U1 i Hi) in Hc. apply (Q i c Hc). }
      assert (P1 : has_permit (permits g1) = true) by (apply quiet_has_permit; [apply pc_run; exact Pc|exact Q1]).
      destruct (nth_error (conns g1) n) as [c|] eqn:E.
      2:{ apply nth_error_None in E. unfold g1 in E. rewrite (run_length St fin lost cstep) in E. lia. }
      assert (Fc : finishes (st c)) by (apply (good_run s1 g G n c E)).
      assert (Done_case : ph c = Done ->
                exists sched, (forall i c0, i < S n -> nth_error (conns (run sched g)) i = Some c0 -> ph c0 = Done)
                              /\ (forall i, S n <= i -> nth_error (conns (run sched g)) i = nth_error (conns g) i)).
      { intro D. exists s1. split.
        - intros i c0 Hi Hc0. destruct (Nat.eq_dec i n) as [->|Hne].
          + fold g1 in Hc0. rewrite E in Hc0. inversion Hc0; subst c0. exact D.
          + apply (A1 i c0 ltac:(lia) Hc0).
        - intros i Hi. apply U1. lia. }
      assert (Driven : (exists sched, (exists c', nth_error (conns (run sched g1)) n = Some c' /\ ph c' = Done) /\ same_others g1 (run sched g1) n) ->
                exists sched, (forall i c0, i < S n -> nth_error (conns (run sched g)) i = Some c0 -> ph c0 = Done)
                              /\ (forall i, S n <= i -> nth_error (conns (run sched g)) i = nth_error (conns g) i)).
      { intros (s2 & (c' & Hc' & D) & Ho). exists (s1 ++ s2). rewrite run_app. fold g1. split.
        - intros i c0 Hi Hc0. destruct (Nat.eq_dec i n) as [->|Hne].
          + rewrite Hc' in Hc0. inversion Hc0; subst c0. exact D.
          + rewrite (Ho i Hne) in Hc0. apply (A1 i c0 ltac:(lia) Hc0).
        - intros i Hi. rewrite (Ho i ltac:(lia)). apply U1. lia. }
      destruct (ph c) eqn:P.
      + apply Driven. apply (drive_fresh g1 n c E P P1 Fc).
      + apply Driven. apply (drive_queued g1 n c E P P1 Fc).
      + exfalso. apply (Q1 n c E). left; exact P.
      + exfalso. apply (Q1 n c E). right; exact P.
      + apply Done_case. reflexivity.
  Qed.

  Lemma all_done_of (g : sys) : (forall i c, i < length (conns g) -> nth_error (conns g) i = Some c -> ph c = Done) -> all_done g = true.
  Proof.
    intro H. unfold M_ConnIso.all_done. apply forallb_forall. intros c Hc.
    apply In_nth_error in Hc as [i Hi]. assert (L : i < length (conns g)) by (apply nth_error_Some; rewrite Hi; discriminate).
    rewrite (H i c L Hi). reflexivity.
  Qed.

  Theorem can_complete_from g : good g -> pc g -> exists sched, all_done (run sched g) = true.
  Proof.
    intros G Pc.
    destruct (calm (length (conns g)) g G (le_n _)) as (s1 & A1 & _).
    set (g1 := run s1 g) in *.
    assert (Q1 : quiet g1).
    { intros i c Hc. apply (A1 i c); [|exact Hc].
      assert (L : i < length (conns g1)) by (apply nth_error_Some; rewrite Hc; discriminate).
      unfold g1 in L. rewrite (run_length St fin lost cstep) in L. exact L. }
    assert (L1 : length (conns g1) = length (conns g)) by (unfold g1; apply (run_length St fin lost cstep)).
    destruct (finish_from_quiet (length (conns g1)) g1 (good_run s1 g G) (pc_run s1 g Pc) Q1 (le_n _)) as (s2 & A2 & _).
    exists (s1 ++ s2). rewrite run_app. fold g1. apply all_done_of.
    intros i c Hi Hc. rewrite (run_length St fin lost cstep) in Hi. apply (A2 i c Hi Hc).
  Qed.

  (* every schedule can be continued to one after which all connections are Done *)
  Theorem can_complete maxc (ss : list St) sched :
    maxc <> Some 0 -> (forall s0, In s0 ss -> finishes s0) ->
    exists sched', all_done (run (sched ++ sched') (init maxc ss)) = true.
  Proof.
    intros Hm Ht.
    assert (G0 : good (init maxc ss)).
    { intros i c Hc. simpl in Hc. rewrite nth_error_map in Hc. destruct (nth_error ss i) as [s0|] eqn:E; simpl in Hc; [|discriminate].
      inversion Hc; subst c. simpl. apply Ht. eapply nth_error_In; exact E. }
    assert (P0 : pc (init maxc ss)).
    { destruct maxc as [m|]; [|left; reflexivity]. right. exists m. split; [destruct m; [congruence|lia]|apply sem_init]. }
    destruct (can_complete_from (run sched (init maxc ss)) (good_run sched _ G0) (pc_run sched _ P0)) as [s' H].
    exists s'. rewrite run_app. exact H.
  Qed.
End Live.
