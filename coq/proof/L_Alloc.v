(* Proofs about model/M_Alloc.v: the chain invariant of the allocation table, first-fit soundness,
   completeness and minimality, exactness of free, and containment of the direct write. *)
From Coq Require Import List NArith ZArith Bool Lia Permutation Sorted.
From VGI Require Import M_Alloc.
Import ListNotations.
Open Scope N_scope.

(* ------------------------------------------------------------------ *)
(** * The invariant                                                    *)
(* ------------------------------------------------------------------ *)

(* entries are positive-length, start at or after lo, each starts at or after the end of the
   previous one, and the last ends at or before hi *)
Fixpoint chain (lo : N) (t : table) (hi : N) : Prop :=
  match t with
  | [] => lo <= hi
  | (o, l) :: r => lo <= o /\ 0 < l /\ chain (o + l) r hi
  end.

Definition Inv (total : N) (t : table) : Prop :=
  chain HEADER_SIZE t total /\ tlen t <= MAX_ALLOCS.

(* the four clauses of the property text, in their usual form *)
Definition sorted_by_offset (t : table) : Prop := StronglySorted (fun a b => fst a < fst b) t.
Definition non_overlapping (t : table) : Prop := forall a b, In a t -> In b t -> a <> b -> disjoint a b.
Definition within_data_region (total : N) (t : table) : Prop :=
  Forall (fun e => HEADER_SIZE <= fst e /\ 0 < snd e /\ fst e + snd e <= total) t.
Definition within_entry_limit (t : table) : Prop := tlen t <= MAX_ALLOCS.

Definition Wf (total : N) (t : table) : Prop :=
  sorted_by_offset t /\ non_overlapping t /\ within_data_region total t /\ within_entry_limit t.

Lemma chain_le : forall t lo hi, chain lo t hi -> lo <= hi.
Proof.
  induction t as [|[o l] r IH]; intros lo hi H; cbn [chain] in H.
  - exact H.
  - destruct H as (H1 & H2 & H3). apply IH in H3. lia.
Qed.

Lemma chain_weaken : forall t lo lo' hi, lo' <= lo -> chain lo t hi -> chain lo' t hi.
Proof.
  intros [|[o l] r] lo lo' hi Hle H; cbn [chain] in *.
  - lia.
  - destruct H as (H1 & H2 & H3). repeat split; [lia | exact H2 | exact H3].
Qed.

Lemma chain_In : forall t lo hi o l, chain lo t hi -> In (o, l) t -> lo <= o /\ 0 < l /\ o + l <= hi.
Proof.
  induction t as [|[o' l'] r IH]; intros lo hi o l H Hin; cbn [chain] in H.
  - destruct Hin.
  - destruct H as (H1 & H2 & H3). destruct Hin as [E | Hin].
    + inversion E; subst. apply chain_le in H3. lia.
    + destruct (IH _ _ _ _ H3 Hin) as (A & B & C). lia.
Qed.

Lemma chain_sorted_ends : forall t lo hi, chain lo t hi ->
  StronglySorted (fun a b => fst a + snd a <= fst b) t.
Proof.
  induction t as [|[o l] r IH]; intros lo hi H; cbn [chain] in H.
  - constructor.
  - destruct H as (H1 & H2 & H3). constructor; [eapply IH; exact H3 |].
    apply Forall_forall. intros [o' l'] Hin. cbn [fst snd].
    destruct (chain_In _ _ _ _ _ H3 Hin) as (A & _). exact A.
Qed.

Lemma chain_sorted : forall t lo hi, chain lo t hi -> sorted_by_offset t.
Proof.
  induction t as [|[o l] r IH]; intros lo hi H; cbn [chain] in H.
  - constructor.
  - destruct H as (H1 & H2 & H3). constructor; [eapply IH; exact H3 |].
    apply Forall_forall. intros [o' l'] Hin. cbn [fst].
    destruct (chain_In _ _ _ _ _ H3 Hin) as (A & _). lia.
Qed.

Lemma chain_non_overlapping : forall t lo hi, chain lo t hi -> non_overlapping t.
Proof.
  induction t as [|[o l] r IH]; intros lo hi H a b Ha Hb Hne; cbn [chain] in H.
  - destruct Ha.
  - destruct H as (H1 & H2 & H3). unfold disjoint.
    destruct Ha as [Ea | Ha], Hb as [Eb | Hb].
    + subst. congruence.
    + subst a. destruct b as [o' l']. destruct (chain_In _ _ _ _ _ H3 Hb) as (A & _).
      left. cbn [fst snd]. exact A.
    + subst b. destruct a as [o' l']. destruct (chain_In _ _ _ _ _ H3 Ha) as (A & _).
      right. cbn [fst snd]. exact A.
    + exact (IH _ _ H3 a b Ha Hb Hne).
Qed.

Lemma chain_within : forall t lo hi, chain lo t hi ->
  Forall (fun e => lo <= fst e /\ 0 < snd e /\ fst e + snd e <= hi) t.
Proof.
  intros t lo hi H. apply Forall_forall. intros [o l] Hin. cbn [fst snd].
  exact (chain_In _ _ _ _ _ H Hin).
Qed.

Lemma Inv_Wf : forall total t, Inv total t -> Wf total t.
Proof.
  intros total t [Hc Hl]. repeat split.
  - eapply chain_sorted; exact Hc.
  - eapply chain_non_overlapping; exact Hc.
  - apply chain_within; exact Hc.
  - exact Hl.
Qed.

(* the converse: the invariant is not stronger than the four clauses *)
Lemma Wf_chain : forall t lo hi, lo <= hi ->
  StronglySorted (fun a b => fst a < fst b) t ->
  (forall a b, In a t -> In b t -> a <> b -> disjoint a b) ->
  Forall (fun e => lo <= fst e /\ 0 < snd e /\ fst e + snd e <= hi) t ->
  chain lo t hi.
Proof.
  induction t as [|[o l] r IH]; intros lo hi Hle Hs Hd Hw; cbn [chain].
  - exact Hle.
  - inversion Hs as [|? ? Hs' Hlt]; subst. inversion Hw as [|? ? Hw1 Hw']; subst.
    cbn [fst snd] in Hw1. destruct Hw1 as (W1 & W2 & W3).
    split; [exact W1 |]. split; [exact W2 |].
    apply IH.
    + exact W3.
    + exact Hs'.
    + intros a b Ha Hb. apply Hd; right; assumption.
    + apply Forall_forall. intros [o' l'] Hin. cbn [fst snd].
      rewrite Forall_forall in Hw', Hlt.
      specialize (Hw' _ Hin). specialize (Hlt _ Hin). cbn [fst snd] in Hw', Hlt.
      assert (Hne : (o, l) <> (o', l')) by (intro E; inversion E; lia).
      specialize (Hd (o, l) (o', l') (or_introl eq_refl) (or_intror Hin) Hne).
      unfold disjoint in Hd. cbn [fst snd] in Hd. lia.
Qed.

Lemma Wf_Inv : forall total t, HEADER_SIZE <= total -> Wf total t -> Inv total t.
Proof.
  intros total t Hle (Hs & Hd & Hw & Hl). split; [| exact Hl].
  apply Wf_chain; assumption.
Qed.

(* ------------------------------------------------------------------ *)
(** * The scan                                                         *)
(* ------------------------------------------------------------------ *)

Definition fits_from (lo total : N) (t : table) (x size : N) : Prop :=
  lo <= x /\ x + size <= total /\ forall o l, In (o, l) t -> x + size <= o \/ o + l <= x.

Lemma fits_is_fits_from : forall total t x size, fits total t x size <-> fits_from HEADER_SIZE total t x size.
Proof. intros. unfold fits, fits_from. tauto. Qed.

Lemma scan_some : forall size total, 0 < size -> forall t lo t' x,
  chain lo t total -> scan size total lo t = Some (t', x) ->
  chain lo t' total /\
  fits_from lo total t x size /\
  (forall y, fits_from lo total t y size -> x <= y) /\
  (forall e, In e t' <-> e = (x, size) \/ In e t) /\
  length t' = S (length t) /\
  free t' x = Some t.
Proof.
  intros size total Hsz. induction t as [|[o l] r IH]; intros lo t' x Hc H; cbn [scan] in H.
  - unfold fit_guard, gap_of in H. destruct (size <=? total - lo) eqn:E; [| discriminate].
    inversion H; subst t' x. apply N.leb_le in E. cbn [chain] in Hc.
    split; [cbn [chain]; lia |].
    split; [unfold fits_from; repeat split; [lia | lia | intros o l []] |].
    split; [intros y (Hy & _); exact Hy |].
    split; [intros e; cbn [In]; intuition congruence |].
    split; [reflexivity |].
    cbn [free]. unfold free_match. rewrite N.eqb_refl. reflexivity.
  - cbn [chain] in Hc. destruct Hc as (H1 & H2 & H3).
    unfold fit_guard, gap_of in H. destruct (size <=? o - lo) eqn:E.
    + inversion H; subst t' x. apply N.leb_le in E.
      split; [cbn [chain]; repeat split; try lia; exact H3 |].
      split.
      { unfold fits_from. repeat split; [lia | apply chain_le in H3; lia |].
        intros o' l' [Eq | Hin].
        - inversion Eq; subst. left; lia.
        - destruct (chain_In _ _ _ _ _ H3 Hin) as (A & _). left; lia. }
      split; [intros y (Hy & _); exact Hy |].
      split; [intros e; cbn [In]; intuition congruence |].
      split; [reflexivity |].
      cbn [free]. unfold free_match. rewrite N.eqb_refl. reflexivity.
    + apply N.leb_gt in E.
      destruct (scan size total (next_end o l) r) as [[r' x']|] eqn:Es; [| discriminate].
      inversion H; subst t' x. unfold next_end in Es.
      destruct (IH _ _ _ H3 Es) as (C & F & Lst & Mem & Len & Fr).
      destruct F as (F1 & F2 & F3).
      split; [cbn [chain]; repeat split; assumption |].
      split.
      { unfold fits_from. repeat split; [lia | exact F2 |].
        intros o' l' [Eq | Hin].
        - inversion Eq; subst. right; exact F1.
        - apply F3; exact Hin. }
      split.
      { intros y (Y1 & Y2 & Y3). apply Lst. unfold fits_from.
        destruct (Y3 o l (or_introl eq_refl)) as [Yl | Yr]; [lia |].
        repeat split; [exact Yr | exact Y2 |].
        intros o' l' Hin. apply Y3. right; exact Hin. }
      split.
      { intros e. cbn [In]. rewrite Mem. tauto. }
      split; [cbn [length]; rewrite Len; reflexivity |].
      cbn [free]. unfold free_match. destruct (o =? x') eqn:Eo; [apply N.eqb_eq in Eo; lia |].
      rewrite Fr. reflexivity.
Qed.

Lemma scan_none : forall size total, 0 < size -> forall t lo,
  chain lo t total -> scan size total lo t = None ->
  forall y, ~ fits_from lo total t y size.
Proof.
  intros size total Hsz. induction t as [|[o l] r IH]; intros lo Hc H y (Y1 & Y2 & Y3); cbn [scan] in H.
  - unfold fit_guard, gap_of in H. destruct (size <=? total - lo) eqn:E; [discriminate |].
    apply N.leb_gt in E. lia.
  - cbn [chain] in Hc. destruct Hc as (H1 & H2 & H3).
    unfold fit_guard, gap_of in H. destruct (size <=? o - lo) eqn:E; [discriminate |].
    apply N.leb_gt in E.
    destruct (scan size total (next_end o l) r) as [[r' x']|] eqn:Es; [discriminate |].
    unfold next_end in Es.
    apply (IH _ H3 Es y). unfold fits_from.
    destruct (Y3 o l (or_introl eq_refl)) as [Yl | Yr]; [lia |].
    repeat split; [exact Yr | exact Y2 |].
    intros o' l' Hin. apply Y3. right; exact Hin.
Qed.

(* ------------------------------------------------------------------ *)
(** * allocate                                                         *)
(* ------------------------------------------------------------------ *)

Lemma tlen_S : forall (t t' : table), length t' = S (length t) -> tlen t' = tlen t + 1.
Proof. intros t t' H. unfold tlen. rewrite H. lia. Qed.

Lemma allocate_some : forall total t size t' x,
  Inv total t -> 0 < size -> allocate total t size = Some (t', x) ->
  Inv total t' /\
  fits total t x size /\
  (forall y, fits total t y size -> x <= y) /\
  (forall e, In e t' <-> e = (x, size) \/ In e t) /\
  free t' x = Some t.
Proof.
  intros total t size t' x [Hc Hl] Hsz H. unfold allocate in H.
  unfold full_guard in H. destruct (MAX_ALLOCS <=? tlen t) eqn:Ef; [discriminate |].
  apply N.leb_gt in Ef.
  destruct (scan_some size total Hsz t HEADER_SIZE t' x Hc H) as (C & F & Lst & Mem & Len & Fr).
  split; [split; [exact C | rewrite (tlen_S _ _ Len); lia] |].
  split; [apply fits_is_fits_from; exact F |].
  split; [intros y Hy; apply Lst; apply fits_is_fits_from; exact Hy |].
  split; [exact Mem | exact Fr].
Qed.

Lemma allocate_none_iff : forall total t size,
  Inv total t -> 0 < size ->
  (allocate total t size = None <->
   MAX_ALLOCS <= tlen t \/ ~ exists x, fits total t x size).
Proof.
  intros total t size [Hc Hl] Hsz. unfold allocate, full_guard. split.
  - intros H. destruct (MAX_ALLOCS <=? tlen t) eqn:Ef.
    + left. apply N.leb_le; exact Ef.
    + right. intros [x Hx]. apply fits_is_fits_from in Hx.
      exact (scan_none size total Hsz t HEADER_SIZE Hc H x Hx).
  - intros [Hfull | Hno].
    + apply N.leb_le in Hfull. rewrite Hfull. reflexivity.
    + destruct (MAX_ALLOCS <=? tlen t) eqn:Ef; [reflexivity |].
      destruct (scan size total HEADER_SIZE t) as [[t' x]|] eqn:Es; [| reflexivity].
      exfalso. apply Hno. exists x.
      destruct (scan_some size total Hsz t HEADER_SIZE t' x Hc Es) as (_ & F & _).
      apply fits_is_fits_from; exact F.
Qed.

(* ------------------------------------------------------------------ *)
(** * free                                                             *)
(* ------------------------------------------------------------------ *)

Lemma free_chain : forall t lo hi x t', chain lo t hi -> free t x = Some t' -> chain lo t' hi.
Proof.
  induction t as [|[o l] r IH]; intros lo hi x t' Hc H; cbn [free] in H; [discriminate |].
  cbn [chain] in Hc. destruct Hc as (H1 & H2 & H3). unfold free_match in H.
  destruct (o =? x) eqn:E.
  - inversion H; subst t'. eapply chain_weaken; [| exact H3]. lia.
  - destruct (free r x) as [r'|] eqn:Er; [| discriminate]. inversion H; subst t'.
    cbn [chain]. repeat split; try assumption. eapply IH; eassumption.
Qed.

Lemma free_length : forall t x t', free t x = Some t' -> length t = S (length t').
Proof.
  induction t as [|[o l] r IH]; intros x t' H; cbn [free] in H; [discriminate |]. unfold free_match in H.
  destruct (o =? x) eqn:E.
  - inversion H; subst; reflexivity.
  - destruct (free r x) as [r'|] eqn:Er; [| discriminate]. inversion H; subst t'.
    cbn [length]. rewrite (IH _ _ Er). reflexivity.
Qed.

Lemma free_In : forall t lo hi x t', chain lo t hi -> free t x = Some t' ->
  forall e, In e t' <-> In e t /\ fst e <> x.
Proof.
  induction t as [|[o l] r IH]; intros lo hi x t' Hc H e; cbn [free] in H; [discriminate |].
  cbn [chain] in Hc. destruct Hc as (H1 & H2 & H3). unfold free_match in H.
  destruct (o =? x) eqn:E.
  - inversion H; subst t'. apply N.eqb_eq in E. subst x. cbn [In]. split.
    + intros Hin. split; [right; exact Hin |].
      destruct e as [o' l']. destruct (chain_In _ _ _ _ _ H3 Hin) as (A & _). cbn [fst]. lia.
    + intros [[Eq | Hin] Hne]; [subst e; cbn [fst] in Hne; congruence | exact Hin].
  - destruct (free r x) as [r'|] eqn:Er; [| discriminate]. inversion H; subst t'.
    apply N.eqb_neq in E. cbn [In]. rewrite (IH _ _ _ _ H3 Er e). split.
    + intros [Eq | [Hin Hne]]; [subst e; cbn [fst]; split; [left; reflexivity | exact E] | split; [right; exact Hin | exact Hne]].
    + intros [[Eq | Hin] Hne]; [left; exact Eq | right; split; assumption].
Qed.

Lemma free_none_iff : forall t x, free t x = None <-> ~ exists l, In (x, l) t.
Proof.
  induction t as [|[o l] r IH]; intros x; cbn [free]; unfold free_match.
  - split; [intros _ [l []] | reflexivity].
  - destruct (o =? x) eqn:E.
    + apply N.eqb_eq in E. subst. split; [discriminate |].
      intros H. exfalso. apply H. exists l. left; reflexivity.
    + apply N.eqb_neq in E. destruct (free r x) as [r'|] eqn:Er.
      * split; [discriminate |]. intros H. exfalso.
        assert (Hn : free r x <> None) by (rewrite Er; discriminate).
        apply Hn. apply IH. intros [l' Hin]. apply H. exists l'. right; exact Hin.
      * split; [| reflexivity]. intros _ [l' [Eq | Hin]]; [inversion Eq; congruence |].
        apply (proj1 (IH x) Er). exists l'; exact Hin.
Qed.

Lemma free_some : forall total t x t', Inv total t -> free t x = Some t' ->
  Inv total t' /\ (exists l, In (x, l) t) /\ (forall e, In e t' <-> In e t /\ fst e <> x) /\
  tlen t = tlen t' + 1.
Proof.
  intros total t x t' [Hc Hl] H.
  pose proof (free_length _ _ _ H) as Len.
  assert (Ht : tlen t = tlen t' + 1) by (unfold tlen; rewrite Len; lia).
  split; [split; [eapply free_chain; eassumption | lia] |].
  split.
  { destruct (free_none_iff t x) as [_ B].
    destruct (in_dec N.eq_dec x (map fst t)) as [Hin | Hnin].
    - apply in_map_iff in Hin. destruct Hin as ([o l] & Eq & Hin). cbn [fst] in Eq. subst o. exists l; exact Hin.
    - exfalso. assert (free t x = None); [| congruence].
      apply B. intros [l Hin]. apply Hnin. apply in_map_iff. exists (x, l). split; [reflexivity | exact Hin]. }
  split; [eapply free_In; eassumption | exact Ht].
Qed.

(* ------------------------------------------------------------------ *)
(** * Histories                                                        *)
(* ------------------------------------------------------------------ *)

Lemma Inv_nil : forall total, HEADER_SIZE <= total -> Inv total [].
Proof. intros total H. split; [exact H | unfold tlen; cbn; lia]. Qed.

Lemma size_guard_false : forall size, size_guard size = false -> 0 < Z.to_N size.
Proof. intros size H. unfold size_guard in H. apply Z.leb_gt in H. lia. Qed.

Lemma Inv_step : forall total t o, HEADER_SIZE <= total -> Inv total t -> Inv total (step_table total t o).
Proof.
  intros total t o Ht HI. unfold step_table. destruct o as [size | offset |]; cbn [step].
  - destruct (size_guard size) eqn:Eg; [exact HI |].
    destruct (allocate total t (Z.to_N size)) as [[t' x]|] eqn:Ea; [| exact HI].
    cbn [fst]. apply size_guard_false in Eg.
    exact (proj1 (allocate_some _ _ _ _ _ HI Eg Ea)).
  - destruct (free t offset) as [t'|] eqn:Ef; [| exact HI].
    cbn [fst]. exact (proj1 (free_some _ _ _ _ HI Ef)).
  - cbn [fst]. apply Inv_nil; exact Ht.
Qed.

Lemma Inv_run_from : forall total ops t, HEADER_SIZE <= total -> Inv total t -> Inv total (run_from total t ops).
Proof.
  intros total ops. induction ops as [|o r IH]; intros t Ht HI; unfold run_from; cbn [fold_left].
  - exact HI.
  - apply IH; [exact Ht | apply Inv_step; assumption].
Qed.

Lemma Inv_run : forall total ops, HEADER_SIZE <= total -> Inv total (run total ops).
Proof. intros total ops Ht. apply (Inv_run_from total ops [] Ht). apply Inv_nil; exact Ht. Qed.

(* outcomes of the allocate operation for every integer size *)
Lemma alloc_outcomes : forall total t size, Inv total t ->
  (snd (step total t (OAlloc size)) = RNone <->
     (0 < size)%Z /\ (MAX_ALLOCS <= tlen t \/ ~ exists x, fits total t x (Z.to_N size))) /\
  (snd (step total t (OAlloc size)) = RError <-> (size <= 0)%Z) /\
  (forall r, snd (step total t (OAlloc size)) = r -> r = RNone \/ r = RError -> fst (step total t (OAlloc size)) = t).
Proof.
  intros total t size HI. cbn [step]. unfold size_guard.
  destruct (size <=? 0)%Z eqn:Eg.
  - apply Z.leb_le in Eg. cbn [fst snd]. split; [split; [discriminate | lia] |].
    split; [split; [intros _; exact Eg | reflexivity] | reflexivity].
  - apply Z.leb_gt in Eg. assert (Hs : 0 < Z.to_N size) by lia.
    pose proof (allocate_none_iff total t (Z.to_N size) HI Hs) as Hn.
    destruct (allocate total t (Z.to_N size)) as [[t' x]|] eqn:Ea; cbn [fst snd].
    + split; [split; [discriminate | intros [_ Hc]; apply Hn in Hc; discriminate] |].
      split; [split; [discriminate | lia] |].
      intros r <- [Hr | Hr]; discriminate.
    + split; [split; [intros _; split; [exact Eg | apply Hn; reflexivity] | reflexivity] |].
      split; [split; [discriminate | lia] | reflexivity].
Qed.

Lemma last_cons : forall (A : Type) (l : list A) (x d : A), last (x :: l) d = last l x.
Proof.
  intros A l. induction l as [|a r IH]; intros x d; [reflexivity |].
  change (last (x :: a :: r) d) with (last (a :: r) d).
  rewrite (IH a d), (IH a x). reflexivity.
Qed.

(* the last table of a trace is the table after the history *)
Lemma trace_last : forall total ops t, last (map snd (trace total t ops)) t = run_from total t ops.
Proof.
  intros total ops. induction ops as [|o r IH]; intros t; [reflexivity |].
  cbn [trace]. unfold run_from. cbn [fold_left]. unfold step_table at 2.
  destruct (step total t o) as [t' res] eqn:Es. cbn [map snd fst].
  rewrite last_cons. apply IH.
Qed.

(* the fields fit the header encoding: uint32 count, uint64 offsets and lengths, table inside the header *)
Lemma table_fits_header : HEADER_FIXED + ENTRY_SIZE * MAX_ALLOCS <= HEADER_SIZE /\ MAX_ALLOCS < 2 ^ 32 /\ MAX_ALLOCS = 4094.
Proof. vm_compute. repeat split; discriminate. Qed.

Lemma Inv_fields_uint64 : forall total t, Inv total t -> total <= 2 ^ 64 ->
  Forall (fun e => fst e < 2 ^ 64 /\ snd e < 2 ^ 64) t.
Proof.
  intros total t [Hc _]. generalize (2 ^ 64). intros bound Hb.
  apply Forall_forall. intros [o l] Hin. cbn [fst snd].
  destruct (chain_In _ _ _ _ _ Hc Hin) as (A & B & C). unfold HEADER_SIZE in A. lia.
Qed.

(* Python computes the gaps on unbounded integers; truncated subtraction decides the same *)
Lemma fit_guard_Z : forall hi lo size, 0 < size ->
  fit_guard (gap_of hi lo) size = (Z.of_N size <=? Z.of_N hi - Z.of_N lo)%Z.
Proof.
  intros hi lo size Hs. unfold fit_guard, gap_of.
  destruct (size <=? hi - lo) eqn:E; symmetry.
  - apply N.leb_le in E. apply Z.leb_le. lia.
  - apply N.leb_gt in E. apply Z.leb_gt. lia.
Qed.

(* ------------------------------------------------------------------ *)
(** * The sink                                                         *)
(* ------------------------------------------------------------------ *)

Lemma store_outside : forall m pos c a, ~ (pos <= a < pos + c_len c) -> store m pos c a = m a.
Proof.
  intros m pos c a H. unfold store.
  destruct (pos <=? a) eqn:E1; [| reflexivity].
  destruct (a <? pos + c_len c) eqn:E2; [| reflexivity].
  apply N.leb_le in E1. apply N.ltb_lt in E2. exfalso. apply H. lia.
Qed.

Lemma store_inside : forall m pos c a, pos <= a < pos + c_len c -> store m pos c a = c_byte c (a - pos).
Proof.
  intros m pos c a [H1 H2]. unfold store.
  apply N.leb_le in H1. apply N.ltb_lt in H2. rewrite H1, H2. reflexivity.
Qed.

Fixpoint sum_len (cs : list chunk) : N :=
  match cs with [] => 0 | c :: r => c_len c + sum_len r end.

Lemma sink_over_stays : forall cs s, s_over s = true ->
  fold_left sink_write cs s = mk_sink (s_pos s) (s_limit s) true (s_mem s).
Proof.
  induction cs as [|c r IH]; intros s H; cbn [fold_left].
  - destruct s; cbn in *; subst; reflexivity.
  - unfold sink_write at 2, sink_guard. rewrite H. cbn [orb]. rewrite IH; reflexivity.
Qed.

(* start <= pos <= limit, and memory differs from the initial one only in [start, pos) *)
Lemma sink_fold : forall cs s start m0,
  start <= s_pos s -> s_pos s <= s_limit s ->
  (forall a, ~ (start <= a < s_pos s) -> s_mem s a = m0 a) ->
  let s' := fold_left sink_write cs s in
  s_limit s' = s_limit s /\ start <= s_pos s' /\ s_pos s' <= s_limit s' /\
  (forall a, ~ (start <= a < s_pos s') -> s_mem s' a = m0 a).
Proof.
  induction cs as [|c r IH]; intros s start m0 H1 H2 H3; cbn [fold_left]; cbv zeta.
  - repeat split; first [assumption | reflexivity].
  - assert (S1 : s_limit (sink_write s c) = s_limit s /\ start <= s_pos (sink_write s c) /\
                 s_pos (sink_write s c) <= s_limit s /\
                 forall a, ~ (start <= a < s_pos (sink_write s c)) -> s_mem (sink_write s c) a = m0 a).
    { unfold sink_write, sink_guard. destruct (s_over s || (s_limit s <? s_pos s + c_len c)) eqn:E; cbn [s_pos s_limit s_mem].
      - repeat split; first [assumption | reflexivity].
      - apply orb_false_iff in E. destruct E as [_ E]. apply N.ltb_ge in E.
        repeat split; try lia. intros a Ha. rewrite store_outside by lia. apply H3. lia. }
    destruct S1 as (A & B & C & D).
    assert (C' : s_pos (sink_write s c) <= s_limit (sink_write s c)) by (rewrite A; exact C).
    destruct (IH (sink_write s c) start m0 B C' D) as (A1 & B1 & C1 & D1).
    repeat split; try assumption. rewrite A1. exact A.
Qed.

(* the sink overflows exactly when the stream is longer than what remains *)
Lemma sink_over_iff : forall cs s, s_over s = false -> s_pos s <= s_limit s ->
  let s' := fold_left sink_write cs s in
  (s_over s' = true <-> s_limit s < s_pos s + sum_len cs) /\
  (s_over s' = false -> s_pos s' = s_pos s + sum_len cs).
Proof.
  induction cs as [|c r IH]; intros s Ho Hp; cbn [fold_left sum_len]; cbv zeta.
  - rewrite Ho. split; [split; [discriminate | lia] | intros _; lia].
  - destruct (s_limit s <? s_pos s + c_len c) eqn:E.
    + assert (S1 : sink_write s c = mk_sink (s_pos s) (s_limit s) true (s_mem s))
        by (unfold sink_write, sink_guard; rewrite Ho, E; reflexivity).
      rewrite S1. rewrite sink_over_stays by reflexivity. cbn [s_over s_pos s_limit].
      apply N.ltb_lt in E. split; [split; [intros _; lia | reflexivity] | discriminate].
    + assert (S1 : sink_write s c = mk_sink (s_pos s + c_len c) (s_limit s) false (store (s_mem s) (s_pos s) c))
        by (unfold sink_write, sink_guard; rewrite Ho, E; reflexivity).
      rewrite S1. apply N.ltb_ge in E.
      destruct (IH (mk_sink (s_pos s + c_len c) (s_limit s) false (store (s_mem s) (s_pos s) c)) eq_refl E) as [I1 I2].
      cbn [s_pos s_limit] in I1, I2.
      split; [rewrite I1; lia | intros H; rewrite (I2 H); lia].
Qed.

(* ------------------------------------------------------------------ *)
(** * allocate_and_write                                               *)
(* ------------------------------------------------------------------ *)

Definition unchanged_on (m m' : mem) (P : N -> Prop) : Prop := forall a, P a -> m' a = m a.

Lemma write_contained : forall total t m est chunks t' m' r,
  Inv total t -> 0 < est ->
  allocate_and_write total t m est chunks = (t', m', r) ->
  Inv total t' /\
  (* no other live batch, nothing in the header and nothing outside the segment is altered *)
  (forall e, In e t -> unchanged_on m m' (in_region e)) /\
  unchanged_on m m' (fun a => a < HEADER_SIZE) /\
  unchanged_on m m' (fun a => total <= a) /\
  match r with
  | Some (off, written) =>
      (* the batch lies inside its own allocation, which is the entry (off, est) of the new table *)
      written <= est /\ written = sum_len chunks /\
      fits total t off est /\
      (forall e, In e t' <-> e = (off, est) \/ In e t) /\
      unchanged_on m m' (fun a => ~ (off <= a < off + written))
  | None =>
      (* inline fallback: the table is as before *)
      t' = t /\
      (allocate total t est = None \/ est < sum_len chunks)
  end.
Proof.
  intros total t m est chunks t' m' r HI Hest H. unfold allocate_and_write, sink_limit, bytes_written in H.
  destruct (allocate total t est) as [[t1 off]|] eqn:Ea.
  2:{ inversion H; subst. split; [exact HI |]. split; [intros e _ a _; reflexivity |].
      split; [intros a _; reflexivity |]. split; [intros a _; reflexivity |].
      split; [reflexivity | left; reflexivity]. }
  destruct (allocate_some _ _ _ _ _ HI Hest Ea) as (HI1 & F & _ & Mem & Fr).
  destruct F as (F1 & F2 & F3).
  set (s0 := mk_sink off (off + est) false m) in H.
  pose proof (sink_fold chunks s0 off m) as SF. cbn [s0 s_pos s_limit s_mem] in SF.
  destruct SF as (L & P1 & P2 & Un); [lia | lia | intros a _; reflexivity |].
  pose proof (sink_over_iff chunks s0 eq_refl) as SO. cbn [s0 s_pos s_limit] in SO.
  destruct SO as (O1 & O2); [lia |].
  fold s0 in L, P1, P2, Un, O1, O2.
  set (s' := fold_left sink_write chunks s0) in *.
  assert (Hlive : forall e, In e t -> unchanged_on m (s_mem s') (in_region e)).
  { intros [o l] Hin a Ha. unfold in_region in Ha. cbn [fst snd] in Ha.
    apply Un. destruct (F3 o l Hin); lia. }
  assert (Hhdr : unchanged_on m (s_mem s') (fun a => a < HEADER_SIZE)).
  { intros a Ha. apply Un. lia. }
  assert (Hout : unchanged_on m (s_mem s') (fun a => total <= a)).
  { intros a Ha. apply Un. lia. }
  destruct (s_over s') eqn:Eo.
  - rewrite Fr in H. inversion H; subst t' m' r.
    split; [exact HI |]. split; [exact Hlive |]. split; [exact Hhdr |]. split; [exact Hout |].
    split; [reflexivity |]. right. apply proj1 in O1. specialize (O1 eq_refl). lia.
  - inversion H; subst t' m' r.
    specialize (O2 eq_refl).
    split; [exact HI1 |]. split; [exact Hlive |]. split; [exact Hhdr |]. split; [exact Hout |].
    split; [lia |]. split; [lia |].
    split; [unfold fits; repeat split; assumption |].
    split; [exact Mem |].
    intros a Ha. apply Un. lia.
Qed.

(* on the table, a write is the history [allocate est] or the empty history *)
Lemma write_table_is_history : forall total t m est chunks,
  Inv total t -> 0 < est ->
  let t' := fst (fst (allocate_and_write total t m est chunks)) in
  t' = t \/ t' = run_from total t [OAlloc (Z.of_N est)].
Proof.
  intros total t m est chunks HI Hest. cbv zeta. unfold allocate_and_write.
  destruct (allocate total t est) as [[t1 off]|] eqn:Ea; [| left; reflexivity].
  destruct (allocate_some _ _ _ _ _ HI Hest Ea) as (_ & _ & _ & _ & Fr).
  destruct (s_over _).
  - left. rewrite Fr. reflexivity.
  - right. cbn [fst]. unfold run_from. cbn [fold_left]. unfold step_table. cbn [step].
    assert (Hg : size_guard (Z.of_N est) = false) by (unfold size_guard; apply Z.leb_gt; lia).
    rewrite Hg, N2Z.id, Ea. reflexivity.
Qed.

Lemma copy_contained : forall total t m c t' m' r,
  Inv total t -> 0 < c_len c ->
  allocate_and_copy total t m c = (t', m', r) ->
  Inv total t' /\
  (forall e, In e t -> unchanged_on m m' (in_region e)) /\
  unchanged_on m m' (fun a => a < HEADER_SIZE) /\
  unchanged_on m m' (fun a => total <= a) /\
  match r with
  | Some (off, written) =>
      written = c_len c /\ fits total t off written /\
      (forall e, In e t' <-> e = (off, written) \/ In e t) /\
      unchanged_on m m' (fun a => ~ (off <= a < off + written))
  | None => t' = t /\ m' = m
  end.
Proof.
  intros total t m c t' m' r HI Hlen H. unfold allocate_and_copy in H.
  destruct (allocate total t (c_len c)) as [[t1 off]|] eqn:Ea.
  2:{ inversion H; subst. split; [exact HI |]. split; [intros e _ a _; reflexivity |].
      split; [intros a _; reflexivity |]. split; [intros a _; reflexivity |].
      split; reflexivity. }
  destruct (allocate_some _ _ _ _ _ HI Hlen Ea) as (HI1 & F & _ & Mem & _).
  inversion H; subst t' m' r.
  pose proof F as (F1 & F2 & F3).
  split; [exact HI1 |].
  split.
  { intros [o l] Hin a Ha. unfold in_region in Ha. cbn [fst snd] in Ha.
    apply store_outside. destruct (F3 o l Hin); lia. }
  split; [intros a Ha; apply store_outside; lia |].
  split; [intros a Ha; apply store_outside; lia |].
  split; [reflexivity |]. split; [exact F |]. split; [exact Mem |].
  intros a Ha. apply store_outside. exact Ha.
Qed.

(* the fixed overhead suffices exactly when the non-batch part of the stream is at most STREAM_OVERHEAD *)
Lemma estimate_suffices_iff : forall batch_msg rest,
  batch_msg + rest <= batch_msg + STREAM_OVERHEAD <-> rest <= STREAM_OVERHEAD.
Proof. intros. lia. Qed.
