(* L_AccessLogTs: the timestamp VgiJsonFormatter.formatTime renders always matches the schema's timestamp pattern. *)
From Coq Require Import List NArith ZArith Bool Lia String.
From VGI Require Import Corr Regex M_Wire M_AccessLog L_AccessLog.
Import ListNotations.
Open Scope N_scope.

Definition digc : Regex.cls := CRange 48 57.
Definition is_dig (c : N) : Prop := cls_mem E0 digc c = true.

(* ^[0-9]{4}-[0-9]{2}-[0-9]{2}T[0-9]{2}:[0-9]{2}:[0-9]{2}\.[0-9]{3}Z$ as translated from the schema *)
Definition ts_re : re :=
  Cat Bos (Cat (rep_cls digc 4 4) (Cat (Chr (CChar 45)) (Cat (rep_cls digc 2 2) (Cat (Chr (CChar 45)) (Cat (rep_cls digc 2 2)
  (Cat (Chr (CChar 84)) (Cat (rep_cls digc 2 2) (Cat (Chr (CChar 58)) (Cat (rep_cls digc 2 2) (Cat (Chr (CChar 58)) (Cat (rep_cls digc 2 2)
  (Cat (Chr (CChar 46)) (Cat (rep_cls digc 3 3) (Cat (Chr (CChar 90)) Dollar)))))))))))))).

Lemma ts_lookup : lookup (s "timestamp") P = Some [CType TString; CPattern ts_re].
Proof. vm_compute; reflexivity. Qed.

Lemma dig_is_dig : forall n, n < 10 -> is_dig (dig n).
Proof.
  intros n H. unfold is_dig, digc, dig. cbn [cls_mem]. apply andb_true_intro; split; apply N.leb_le; lia.
Qed.

Lemma den_digits : forall b l post n, List.length l = n -> Forall is_dig l -> den E0 (rep_cls digc n n) b l post.
Proof. intros b l post n Hl HF. apply den_rep_cls; [lia|]. split; [lia | exact HF]. Qed.

Lemma den_lit1 : forall b c post, den E0 (Chr (CChar c)) b [c] post.
Proof. intros b c post. apply DChr. cbn [cls_mem]. apply N.eqb_refl. Qed.

(* any string of the shape dddd-dd-ddTdd:dd:dd.dddZ is found by the (unanchored-search) pattern *)
Lemma ts_shape_matches : forall y1 y2 y3 y4 m1 m2 d1 d2 h1 h2 i1 i2 s1 s2 f1 f2 f3,
  Forall is_dig [y1; y2; y3; y4; m1; m2; d1; d2; h1; h2; i1; i2; s1; s2; f1; f2; f3] ->
  py_search E0 ts_re [y1; y2; y3; y4; 45; m1; m2; 45; d1; d2; 84; h1; h2; 58; i1; i2; 58; s1; s2; 46; f1; f2; f3; 90] = true.
Proof.
  intros y1 y2 y3 y4 m1 m2 d1 d2 h1 h2 i1 i2 s1 s2 f1 f2 f3 HF.
  repeat match goal with H : Forall _ (_ :: _) |- _ => inversion H; clear H; subst end.
  apply py_search_spec. exists [], [y1; y2; y3; y4; 45; m1; m2; 45; d1; d2; 84; h1; h2; 58; i1; i2; 58; s1; s2; 46; f1; f2; f3; 90], [].
  split; [reflexivity|]. unfold ts_re.
  change [y1; y2; y3; y4; 45; m1; m2; 45; d1; d2; 84; h1; h2; 58; i1; i2; 58; s1; s2; 46; f1; f2; f3; 90]
    with ([] ++ [y1; y2; y3; y4] ++ [45] ++ [m1; m2] ++ [45] ++ [d1; d2] ++ [84] ++ [h1; h2] ++ [58] ++ [i1; i2] ++ [58] ++ [s1; s2] ++ [46] ++ [f1; f2; f3] ++ [90] ++ []).
  apply DCat; [apply DBos|].
  repeat (apply DCat; [first [apply den_lit1 | apply den_digits; [reflexivity | repeat constructor; assumption]] |]).
  apply DDollar. left; reflexivity.
Qed.

Lemma pad3_digits : forall n, n < 1000 -> exists f1 f2 f3, pad3 n = [f1; f2; f3] /\ is_dig f1 /\ is_dig f2 /\ is_dig f3.
Proof.
  intros n H. unfold pad3. replace (n <? 1000) with true by (symmetry; apply N.ltb_lt; exact H).
  do 3 eexists. split; [reflexivity|]. repeat split; apply dig_is_dig.
  - apply N.div_lt_upper_bound; lia.
  - apply N.mod_lt; lia.
  - apply N.mod_lt; lia.
Qed.

(* every instant: whatever strftime's date-time digits and whatever dt.microsecond, the field passes its schema property *)
Theorem ts_valid : forall y1 y2 y3 y4 m1 m2 d1 d2 h1 h2 i1 i2 s1 s2 micro,
  Forall is_dig [y1; y2; y3; y4; m1; m2; d1; d2; h1; h2; i1; i2; s1; s2] -> micro < 1000000 ->
  field_ok P (s "timestamp", JStr (render_ts [y1; y2; y3; y4; 45; m1; m2; 45; d1; d2; 84; h1; h2; 58; i1; i2; 58; s1; s2] micro)) = true.
Proof.
  intros y1 y2 y3 y4 m1 m2 d1 d2 h1 h2 i1 i2 s1 s2 micro HF Hm.
  unfold field_ok; cbn [fst snd]; rewrite ts_lookup. cbn [forallb check has_type].
  assert (Hf : micro / 1000 < 1000) by (apply N.div_lt_upper_bound; lia).
  destruct (pad3_digits (micro / 1000) Hf) as (f1 & f2 & f3 & Hp & D1 & D2 & D3).
  unfold render_ts, render_ts_with, millis. rewrite Hp. cbn [app].
  rewrite ts_shape_matches; [reflexivity|].
  repeat match goal with H : Forall _ (_ :: _) |- _ => inversion H; clear H; subst end.
  repeat constructor; assumption.
Qed.
