(* L_WireLog: lemmas for C08 -- dispatch robustness, the log round trip, and "once, in order, before the data item"
   for the socket family and HTTP (on top of L_Wire.pipe_refines and the HTTP lemmas of L_WireHttp). *)
From Coq Require Import List NArith ZArith Bool Lia String.
From VGI Require Import Corr M_Wire L_Wire L_WireHttp M_WireLog.
Import ListNotations.
Open Scope N_scope.

Local Opaque err_event finish_refused no_data_batch empty_batch cap_exn.

(* ================================================================== A. one received batch *)
Lemma parse_extra_total sh x :
  sh_requires_dict sh = true -> (forall f, suppressed sh f = true) -> exists d, parse_extra sh x = inl d.
Proof.
  intros Hd Hs. destruct x as [|f|v]; cbn.
  - eauto.
  - rewrite Hs. eauto.
  - destruct v; rewrite ?Hd; eauto.
Qed.

(* any shape with the four repaired facets never lets an unrelated exception escape, whatever the peer sent *)
Theorem dispatch_robust_sh sh md :
  sh_requires_dict sh = true -> sh_ctor_kwargs sh = false -> sh_level_guard sh = true -> (forall f, suppressed sh f = true) ->
  is_crash (client_dispatch_sh sh md) = false.
Proof.
  intros Hd Hk Hg Hs. unfold client_dispatch_sh.
  destruct (negb (p_has_md md)); [reflexivity|].
  destruct (negb (p_rows md =? 0)); [reflexivity|].
  destruct (p_level md) as [l|]; [|reflexivity].
  destruct (p_message md) as [m|]; [|reflexivity].
  destruct (parse_extra_total sh (p_extra md) Hd Hs) as [d ->].
  destruct (str_eqb l (exc_value (sh_levels sh))); [reflexivity|].
  destruct (lookup_level (sh_levels sh) l); [|rewrite Hg; reflexivity].
  rewrite Hk. reflexivity.
Qed.

Lemma repaired_suppresses_all f : suppressed repaired_shape f = true.
Proof. destruct f; reflexivity. Qed.

Theorem dispatch_robust md : is_crash (client_dispatch md) = false.
Proof. apply dispatch_robust_sh; try reflexivity. exact repaired_suppresses_all. Qed.

(* the outcome, spelled out: not a log batch / delivered / ignored / RpcError *)
Theorem dispatch_cases md :
  client_dispatch md = NotLog \/ (exists l t ex, client_dispatch md = Deliver l t ex) \/ client_dispatch md = Ignore
  \/ (exists ty m, client_dispatch md = RaiseRpc ty m).
Proof.
  pose proof (dispatch_robust md) as H. destruct (client_dispatch md) as [|l t ex| |ty m|c]; try discriminate H; eauto 8.
Qed.

(* a zero-row batch carrying a level the client knows and a message IS delivered -- whatever the extra field holds --
   with every member of an extra OBJECT preserved (keys 'level', 'message', 'self' included) *)
Definition peer_extras (x : xraw) : dict := match x with XJson (JObj kv) => dict_of kv | _ => [] end.

Theorem dispatch_delivers md l lv m :
  p_has_md md = true -> p_rows md = 0 -> p_level md = Some l -> p_message md = Some m ->
  lookup_level level_table l = Some lv -> lv <> EXC ->
  client_dispatch md = Deliver lv m (dset_opt (s "request_id") (nonempty (p_request_id md)) (dset_opt (s "server_id") (p_server_id md) (peer_extras (p_extra md)))).
Proof.
  intros H1 H2 H3 H4 H5 H6. unfold client_dispatch, client_dispatch_sh. rewrite H1, H2, H3, H4. cbn [negb N.eqb].
  assert (Hp : parse_extra repaired_shape (p_extra md) = inl (peer_extras (p_extra md))).
  { destruct (p_extra md) as [|f|v]; [reflexivity| |destruct v; reflexivity].
    cbn [parse_extra]. rewrite repaired_suppresses_all. reflexivity. }
  rewrite Hp. cbn [sh_levels repaired_shape sh_ctor_kwargs andb].
  destruct (str_eqb l (exc_value level_table)) eqn:E.
  - exfalso. unfold level_table in *. cbn [exc_value lookup_level] in *. rewrite E in H5. inversion H5. congruence.
  - rewrite H5. reflexivity.
Qed.

(* ---- the round trip of a message the Python server emits *)
Fixpoint uniq (ks : list str) : bool :=
  match ks with [] => true | k :: r => negb (existsb (fun k2 => str_eqb k2 k) r) && uniq r end.

Lemma dset_fresh k v d : existsb (str_eqb k) (map fst d) = false -> dset k v d = d ++ [(k, v)].
Proof.
  induction d as [|[k' v'] r IH]; intro H; [reflexivity|].
  cbn in H. apply orb_false_iff in H as [H1 H2]. cbn. rewrite H1, (IH H2). reflexivity.
Qed.

Lemma dict_of_acc : forall kv acc,
  uniq (map fst kv) = true -> (forall k, In k (map fst kv) -> existsb (str_eqb k) (map fst acc) = false) ->
  fold_left (fun d p => dset (fst p) (snd p) d) kv acc = acc ++ kv.
Proof.
  induction kv as [|[k v] r IH]; intros acc Hu Hf; [cbn; rewrite app_nil_r; reflexivity|].
  cbn in Hu. apply andb_true_iff in Hu as [Hk Hr]. cbn [fold_left fst snd].
  rewrite (dset_fresh k v acc (Hf k (or_introl eq_refl))).
  rewrite (IH (acc ++ [(k, v)]) Hr).
  - rewrite <- app_assoc. reflexivity.
  - intros k2 Hin. rewrite map_app, existsb_app, (Hf k2 (or_intror Hin)). cbn. rewrite orb_false_r.
    destruct (str_eqb k2 k) eqn:E; [|reflexivity].
    exfalso. apply negb_true_iff in Hk. assert (existsb (fun k0 => str_eqb k0 k) (map fst r) = true) as Hx.
    { apply existsb_exists. exists k2. split; assumption. }
    cbn in Hk. rewrite Hx in Hk. discriminate Hk.
Qed.

Lemma dict_of_uniq kv : uniq (map fst kv) = true -> dict_of kv = kv.
Proof. intro H. unfold dict_of. rewrite (dict_of_acc kv [] H); [reflexivity|]. intros; reflexivity. Qed.

Lemma jextras_keys m : map fst (jextras m) = map fst (extra m).
Proof. unfold jextras. rewrite map_map. reflexivity. Qed.

(* what the server encodes for a non-EXCEPTION message is delivered with the same level, the same text and the same
   extras (keys unique as in a Python dict; any key, 'level' / 'message' / 'self' included), plus the ids the
   framework adds from the batch's own metadata *)
Theorem log_roundtrip m sid rid :
  lvl m <> EXC -> uniq (map fst (extra m)) = true ->
  client_dispatch (encode_log m sid rid) =
  Deliver (lvl m) (text m) (dset_opt (s "request_id") (nonempty rid) (dset_opt (s "server_id") sid (jextras m))).
Proof.
  intros Hl Hu.
  rewrite (dispatch_delivers (encode_log m sid rid) (level_name (lvl m)) (lvl m) (text m)); try reflexivity.
  - cbn [encode_log p_request_id p_server_id p_extra]. f_equal. f_equal. f_equal.
    destruct (extra m) as [|p r] eqn:E; [unfold jextras; rewrite E; reflexivity|].
    cbn [peer_extras]. apply dict_of_uniq. rewrite jextras_keys, E. exact Hu.
  - destruct (lvl m); reflexivity.
  - exact Hl.
Qed.

(* ================================================================== B. prefixes and [early] *)
Lemma prefix_refl t : prefix_of t t.
Proof. exists []. rewrite app_nil_r. reflexivity. Qed.
Lemma prefix_nil t : prefix_of [] t.
Proof. exists t. reflexivity. Qed.
Lemma prefix_trans a b c : prefix_of a b -> prefix_of b c -> prefix_of a c.
Proof. intros [r1 ->] [r2 ->]. exists (r1 ++ r2). rewrite app_assoc. reflexivity. Qed.
Lemma prefix_app l a b : prefix_of a b -> prefix_of (l ++ a) (l ++ b).
Proof. intros [r ->]. exists r. rewrite app_assoc. reflexivity. Qed.
Lemma prefix_cons e a b : prefix_of a b -> prefix_of (e :: a) (e :: b).
Proof. apply (prefix_app [e]). Qed.

Lemma cut_prefix t : prefix_of (cut t) t.
Proof.
  induction t as [|e r IH]; [apply prefix_refl|]. cbn. destruct (terminal e).
  - exists r. reflexivity.
  - apply prefix_cons, IH.
Qed.

Lemma data_no_logs D : forallb is_data D = true -> filter is_log D = [].
Proof.
  induction D as [|e r IH]; [reflexivity|]. cbn. intro H. apply andb_true_iff in H as [He Hr].
  destruct e; try discriminate He; cbn; exact (IH Hr).
Qed.

Lemma early_logs_prefix ls R T : early R T -> early (map ELog ls ++ R) (map ELog ls ++ T).
Proof. intro H. induction ls as [|m r IH]; [exact H|]. cbn. apply (early_hoist m [] _ _ eq_refl). exact IH. Qed.

(* what [early E T] means for the client *)
Theorem early_sound R T : early R T ->
  logs_of T = logs_of R /\ data_of T = data_of R /\
  forall T1 d T2, T = T1 ++ d :: T2 -> is_data d = true ->
    exists R1 R2, R = R1 ++ d :: R2 /\ data_of R1 = data_of T1 /\ exists more, logs_of T1 = logs_of R1 ++ more.
Proof.
  unfold logs_of, data_of. induction 1 as [t|m D R T HD HE [IHl [IHd IHb]]].
  - split; [reflexivity|]. split; [reflexivity|]. intros T1 d T2 -> _. exists T1, T2. split; [reflexivity|]. split; [reflexivity|].
    exists []. rewrite app_nil_r. reflexivity.
  - pose proof (data_no_logs D HD) as HDl. rewrite !filter_app in *. cbn [filter is_log is_data]. rewrite HDl in *. cbn [app] in *.
    split; [rewrite IHl; reflexivity|]. split; [exact IHd|].
    intros T1 d T2 HT Hd. destruct T1 as [|e T1'].
    + cbn in HT. inversion HT; subst d. discriminate Hd.
    + cbn in HT. inversion HT; subst e T. clear HT.
      destruct (IHb T1' d T2 eq_refl Hd) as [R1' [R2' [HR [Hdat [more Hlog]]]]].
      destruct (app_eq_app _ _ _ _ HR) as [l [[H1 H2]|[H1 H2]]].
      * destruct l as [|d' l'].
        -- (* the split falls exactly at the end of D *)
           rewrite app_nil_r in H1. subst R1'. cbn in H2. subst R.
           exists (D ++ [ELog m]), R2'. rewrite <- app_assoc. split; [reflexivity|].
           rewrite !filter_app. cbn [filter is_data is_log]. rewrite HDl, app_nil_r. split; [exact Hdat|].
           cbn [app filter is_log]. rewrite Hlog, HDl. exists more. reflexivity.
        -- inversion H2; subst d' R2'. subst D.
           exists R1', (l' ++ ELog m :: R). rewrite <- app_assoc. split; [reflexivity|]. split; [exact Hdat|].
           cbn [filter is_log]. rewrite Hlog. rewrite filter_app in HDl. apply app_eq_nil in HDl as [HDl1 _]. rewrite HDl1.
           exists (ELog m :: more). reflexivity.
      * subst R1' R. exists (D ++ ELog m :: l), R2'. rewrite <- app_assoc. split; [reflexivity|].
        rewrite !filter_app in *. cbn [filter is_data is_log]. split; [exact Hdat|].
        rewrite Hlog, HDl. cbn [app]. exists more. reflexivity.
Qed.

(* ================================================================== C. the reference observation against the emission sequence *)
Lemma forallb_tl {A} (f : A -> bool) l : forallb f l = true -> forallb f (tl l) = true.
Proof. destruct l; [intros; reflexivity|]. cbn. intro H. apply andb_true_iff in H as [_ H]. exact H. Qed.

Lemma no_logs_nil ls : no_logs ls = true -> ls = [].
Proof. destruct ls; [reflexivity|discriminate]. Qed.

Lemma obs_prod_emit : forall sts, steps_quiet sts = true -> forallb (step_lossless true) sts = true ->
  obs_prod CbRecord sts None = emit_prod sts.
Proof.
  induction sts as [|x r IH]; intros Hq Hl; [reflexivity|].
  unfold steps_quiet in Hq. cbn in Hq, Hl. apply andb_true_iff in Hq as [Hx Hr]. apply andb_true_iff in Hl as [Hlx Hlr].
  cbn [obs_prod emit_prod is_zero]. unfold step_lossless in Hlx.
  destruct (exec_step true (Some x)) as [fs [|]|e].
  - rewrite (deliver_quiet _ _ Hx). destruct (emit x); reflexivity.
  - rewrite (deliver_quiet _ _ Hx). destruct (emit x); [|reflexivity]. cbn [opred option_map]. rewrite (IH Hr Hlr). reflexivity.
  - rewrite (no_logs_nil _ Hlx). reflexivity.
Qed.

Lemma obs_prod_prefix : forall sts n, steps_quiet sts = true ->
  prefix_of (obs_prod CbRecord sts n) (obs_prod CbRecord sts None).
Proof.
  induction sts as [|x r IH]; intros n Hq.
  - cbn. destruct (is_zero n); [apply prefix_nil|apply prefix_refl].
  - unfold steps_quiet in Hq. cbn in Hq. apply andb_true_iff in Hq as [Hx Hr].
    cbn [obs_prod is_zero]. destruct (is_zero n); [apply prefix_nil|].
    destruct (exec_step true (Some x)) as [fs [|]|e]; [| |apply prefix_refl].
    + rewrite !(deliver_quiet _ _ Hx). apply prefix_app. destruct (emit x); [|apply prefix_refl].
      apply prefix_cons. cbn [opred option_map is_zero]. destruct (is_zero (opred n)); [apply prefix_nil|apply prefix_refl].
    + rewrite !(deliver_quiet _ _ Hx). apply prefix_app. destruct (emit x); [|apply prefix_refl].
      apply prefix_cons. cbn [opred option_map]. apply IH, Hr.
Qed.

Lemma obs_exch_emit : forall n sts, steps_quiet sts = true -> forallb (step_lossless false) sts = true ->
  obs_exch CbRecord sts n = emit_exch sts n.
Proof.
  induction n as [|n IH]; intros sts Hq Hl; [reflexivity|].
  destruct (hd_quiet sts Hq) as [Hh Ht]. cbn [obs_exch emit_exch].
  destruct (exec_step false (hd_error sts)) as [fs fl|e] eqn:E.
  - rewrite (deliver_quiet _ _ Hh), (IH _ Ht (forallb_tl _ _ Hl)). reflexivity.
  - destruct sts as [|x r]; [reflexivity|]. cbn [hd_error step_logs] in *. cbn in Hl. apply andb_true_iff in Hl as [Hlx _].
    unfold step_lossless in Hlx. rewrite E in Hlx. rewrite (no_logs_nil _ Hlx). reflexivity.
Qed.

Lemma legal_parts sp h : script_kind_ok (PStream sp) (SIter h 0 AStop CbRecord) = true ->
  ires sp <> InitBadReturn /\ (h && match hdr sp with None => true | Some _ => false end) = false.
Proof.
  cbn. intro H. apply andb_true_iff in H as [Hi Hh]. split.
  - destruct (ires sp); congruence.
  - destruct h; [destruct (hdr sp); [reflexivity|discriminate Hh]|reflexivity].
Qed.

(* the reference observation of M_Wire is a prefix of the emission sequence (equal to it when the call is run to its end) *)
Lemma observe_prefix p sc :
  legal p sc = true -> records sc = true -> no_exc_logs p = true -> lossless p sc = true ->
  prefix_of (observe p sc) (emitted p sc).
Proof.
  intros Hlegal Hrec Hq Hl.
  destruct p as [u|sp]; destruct sc as [c|h k a c|h n a c]; try discriminate Hlegal;
    destruct c; try discriminate Hrec; clear Hrec.
  - cbn in Hq. cbn [observe emitted]. rewrite (deliver_quiet _ _ Hq). destruct (ures_of u); apply prefix_refl.
  - cbn in Hq. apply andb_true_iff in Hq as [Hil Hst]. cbn in Hl. apply andb_true_iff in Hl as [Hli Hls].
    unfold legal in Hlegal. apply andb_true_iff in Hlegal as [Hk _]. cbn in Hk. apply andb_true_iff in Hk as [Hi _].
    cbn [observe emitted]. unfold init_lossless in Hli.
    destruct (ires sp) as [|e|]; try discriminate Hi.
    + rewrite (deliver_quiet _ _ Hil). apply prefix_app, prefix_app.
      rewrite <- (obs_prod_emit _ Hst Hls). apply obs_prod_prefix, Hst.
    + rewrite (no_logs_nil _ Hli). apply prefix_refl.
  - cbn in Hq. apply andb_true_iff in Hq as [Hil Hst]. cbn in Hl. apply andb_true_iff in Hl as [Hli Hls].
    unfold legal in Hlegal. apply andb_true_iff in Hlegal as [Hk _]. cbn in Hk. apply andb_true_iff in Hk as [Hi _].
    cbn [observe emitted]. unfold init_lossless in Hli.
    destruct (ires sp) as [|e|]; try discriminate Hi.
    + rewrite (deliver_quiet _ _ Hil), (obs_exch_emit _ _ Hst Hls). apply prefix_refl.
    + rewrite (no_logs_nil _ Hli). apply prefix_refl.
Qed.

Lemma observe_complete p sc :
  legal p sc = true -> records sc = true -> no_exc_logs p = true -> lossless p sc = true -> complete sc = true ->
  observe p sc = emitted p sc.
Proof.
  intros Hlegal Hrec Hq Hl Hc.
  destruct p as [u|sp]; destruct sc as [c|h k a c|h n a c]; try discriminate Hlegal;
    destruct c; try discriminate Hrec; clear Hrec.
  - cbn in Hq. cbn [observe emitted]. rewrite (deliver_quiet _ _ Hq). destruct (ures_of u); reflexivity.
  - destruct a; try discriminate Hc.
    cbn in Hq. apply andb_true_iff in Hq as [Hil Hst]. cbn in Hl. apply andb_true_iff in Hl as [Hli Hls].
    unfold legal in Hlegal. apply andb_true_iff in Hlegal as [Hk _]. cbn in Hk. apply andb_true_iff in Hk as [Hi _].
    cbn [observe emitted]. unfold init_lossless in Hli.
    destruct (ires sp) as [|e|]; try discriminate Hi.
    + rewrite (deliver_quiet _ _ Hil), (obs_prod_emit _ Hst Hls). reflexivity.
    + rewrite (no_logs_nil _ Hli). reflexivity.
  - cbn in Hq. apply andb_true_iff in Hq as [Hil Hst]. cbn in Hl. apply andb_true_iff in Hl as [Hli Hls].
    unfold legal in Hlegal. apply andb_true_iff in Hlegal as [Hk _]. cbn in Hk. apply andb_true_iff in Hk as [Hi _].
    cbn [observe emitted]. unfold init_lossless in Hli.
    destruct (ires sp) as [|e|]; try discriminate Hi.
    + rewrite (deliver_quiet _ _ Hil), (obs_exch_emit _ _ Hst Hls). reflexivity.
    + rewrite (no_logs_nil _ Hli). reflexivity.
Qed.

Lemma cut_obs_exch c : forall n sts, cut (obs_exch c sts n) = obs_exch c sts n.
Proof.
  induction n as [|n IH]; intro sts; [reflexivity|]. cbn [obs_exch].
  destruct (exec_step false (hd_error sts)); [|apply cut_single].
  rewrite cut_deliver. f_equal. cbn. rewrite IH. reflexivity.
Qed.

Lemma cut_observe p sc : cut (observe p sc) = observe p sc.
Proof.
  destruct p as [u|sp]; destruct sc as [c|h k a c|h n a c]; try reflexivity; cbn [observe].
  - rewrite cut_deliver. f_equal. destruct (ures_of u); [reflexivity|apply cut_single].
  - destruct (ires sp); try apply cut_single; rewrite cut_deliver; f_equal;
      rewrite (cut_app_nt _ _ (nonterm_hdr h sp)), cut_obs_prod; reflexivity.
  - destruct (ires sp); try apply cut_single; rewrite cut_deliver; f_equal;
      rewrite (cut_app_nt _ _ (nonterm_hdr h sp)), cut_obs_exch; reflexivity.
Qed.

(* ================================================================== D. socket family *)
Theorem pipe_once_in_order p sc :
  legal p sc = true -> records sc = true -> no_exc_logs p = true -> pipe_reads p sc = true -> lossless p sc = true ->
  prefix_of (run_pipe p sc) (emitted p sc).
Proof.
  intros H1 H2 H3 H4 H5. rewrite (pipe_refines p sc H1 H2 H3 H4).
  eapply prefix_trans; [apply cut_prefix|apply observe_prefix; assumption].
Qed.

Theorem pipe_none_lost p sc :
  legal p sc = true -> records sc = true -> no_exc_logs p = true -> pipe_reads p sc = true -> lossless p sc = true ->
  complete sc = true -> run_pipe p sc = emitted p sc.
Proof.
  intros H1 H2 H3 H4 H5 H6. rewrite (pipe_refines p sc H1 H2 H3 H4), cut_observe.
  apply observe_complete; assumption.
Qed.

(* ================================================================== E. HTTP *)
Lemma consume_prefix c : forall fs n, prefix_of (http_consume c fs n) (http_consume c fs None).
Proof.
  induction fs as [|f r IH]; intro n.
  - cbn. destruct (is_zero n); [apply prefix_nil|apply prefix_refl].
  - cbn [http_consume is_zero]. destruct (is_zero n); [apply prefix_nil|].
    destruct f as [m|b|e|v|t|]; try apply IH.
    + destruct (log_event c m) as [ev go]. destruct go; [apply prefix_cons, IH|apply prefix_refl].
    + apply prefix_cons. cbn [opred option_map]. apply IH.
    + apply prefix_refl.
Qed.

Lemma parse_init_logs ls q pend : quiet ls = true ->
  http_parse_init CbRecord (map FLog ls ++ q) pend =
  let '(es, o) := http_parse_init CbRecord q pend in (map ELog ls ++ es, o).
Proof.
  induction ls as [|m r IH]; intro H.
  - cbn. destruct (http_parse_init CbRecord q pend). reflexivity.
  - apply quiet_cons in H as [Hm Hr]. cbn [map app http_parse_init]. rewrite (log_event_quiet m Hm), (IH Hr).
    destruct (http_parse_init CbRecord q pend). reflexivity.
Qed.

Lemma batches_are_data pend : forallb is_data (map EBatch pend) = true.
Proof. induction pend; [reflexivity|exact IHpend]. Qed.

(* the eagerly parsed first response: its logs are delivered ahead of the header H and of its batches -- [early] *)
Lemma parse_init_early H : forallb is_data H = true ->
  forall fs pend es pend' later,
  http_parse_init CbRecord fs pend = (es, Some (pend', later)) ->
  early (H ++ map EBatch pend ++ http_consume CbRecord fs None)
        (es ++ H ++ http_consume CbRecord (map FData pend' ++ later) None)
  /\ forallb is_log es = true.
Proof.
  intros HH. induction fs as [|fr r IH]; intros pend es pend' later Hp.
  - inversion Hp; subst. cbn [app]. rewrite (consume_data pend' []). split; [apply early_refl|reflexivity].
  - cbn [http_parse_init] in Hp. destruct fr as [m|b|e|v|t|].
    + destruct (log_event CbRecord m) as [ev go] eqn:E. destruct go; [|inversion Hp].
      destruct (http_parse_init CbRecord r pend) as [es' o'] eqn:E'. inversion Hp; subst.
      pose proof (log_event_go _ _ _ E) as ->.
      destruct (IH _ _ _ _ E') as [IH1 IH2]. split; [|exact IH2].
      cbn [http_consume is_zero]. rewrite E. cbn [app].
      rewrite app_assoc. apply early_hoist.
      * rewrite forallb_app, HH, batches_are_data. reflexivity.
      * rewrite <- app_assoc. exact IH1.
    + destruct (IH _ _ _ _ Hp) as [IH1 IH2]. split; [|exact IH2].
      cbn [http_consume is_zero opred option_map]. rewrite map_app in IH1. cbn [map] in IH1. rewrite <- app_assoc in IH1. exact IH1.
    + inversion Hp.
    + destruct (IH _ _ _ _ Hp) as [IH1 IH2]. split; [exact IH1|exact IH2].
    + inversion Hp; subst. cbn [app http_consume is_zero]. rewrite consume_data. split; [apply early_refl|reflexivity].
    + destruct (IH _ _ _ _ Hp) as [IH1 IH2]. split; [exact IH1|exact IH2].
Qed.

Lemma hdr_is_data h sp : forallb is_data (hdr_events h sp) = true.
Proof. unfold hdr_events. destruct h; [destruct (hdr sp)|]; reflexivity. Qed.

(* unary and exchange responses are read sequentially: the HTTP observation IS the reference observation *)
Lemma http_exact_unary_exch cfg p sc :
  legal p sc = true -> records sc = true -> no_exc_logs p = true -> fits cfg p sc = true ->
  match sc with SIter _ _ _ _ => False | _ => True end ->
  run_http cfg p sc = cut (observe p sc).
Proof.
  intros Hlegal Hrec Hq Hfit Hsc. unfold run_http.
  destruct p as [u|sp]; destruct sc as [c|h k a c|h n a c]; try discriminate Hlegal; try contradiction;
    destruct c; try discriminate Hrec; clear Hrec.
  - f_equal. cbn in Hq. cbn [observe fits] in *. rewrite (deliver_quiet _ _ Hq).
    destruct (ures_of u) as [v|e].
    + cbn [andb]. destruct (over_cap cfg _); [discriminate Hfit|].
      rewrite <- app_assoc. rewrite (cli_read_logs _ _ Hq). cbn. rewrite ?app_nil_r. reflexivity.
    + cbn [andb]. rewrite <- app_assoc. rewrite (cli_read_logs _ _ Hq). cbn. rewrite ?app_nil_r. reflexivity.
  - f_equal. cbn in Hq. apply andb_true_iff in Hq as [Hil Hst].
    unfold legal in Hlegal. cbn [script_kind_ok after_ok] in Hlegal. apply andb_true_iff in Hlegal as [Hk Ha].
    apply andb_true_iff in Hk as [Hi Hh].
    cbn [observe fits] in *.
    destruct (ires sp) as [|e|]; try discriminate Hi; [|reflexivity].
    assert (Hnh : (h && match hdr sp with None => true | Some _ => false end) = false).
    { destruct h; [destruct (hdr sp); [reflexivity|discriminate Hh]|reflexivity]. }
    rewrite Hnh. rewrite (http_exch_exact cfg _ _ Hst Hfit). reflexivity.
Qed.

(* producer over HTTP: what an exhaustive client observes (T) is the emission sequence with the first response's logs
   delivered early; a client that stops after k batches observes a prefix of T *)
Lemma http_producer cfg sp h k a :
  legal (PStream sp) (SIter h k a CbRecord) = true -> no_exc_logs (PStream sp) = true ->
  first_turn_ok cfg (PStream sp) (SIter h k a CbRecord) = true -> lossless (PStream sp) (SIter h k a CbRecord) = true ->
  exists T, prefix_of (run_http cfg (PStream sp) (SIter h k a CbRecord)) T /\ early (emitted (PStream sp) (SIter h k a CbRecord)) T
            /\ (a = AStop -> run_http cfg (PStream sp) (SIter h k a CbRecord) = T).
Proof.
  intros Hlegal Hq Hok Hl.
  cbn in Hq. apply andb_true_iff in Hq as [Hil Hst]. cbn in Hl. apply andb_true_iff in Hl as [Hli Hls].
  unfold legal in Hlegal. cbn in Hlegal. rewrite andb_true_r in Hlegal. apply andb_true_iff in Hlegal as [Hi Hh].
  unfold run_http. cbn [emitted first_turn_ok] in *. unfold init_lossless in Hli.
  destruct (ires sp) as [|e|]; try discriminate Hi.
  2:{ rewrite (no_logs_nil _ Hli). cbn [map app]. exists [err_event e]. rewrite cut_single.
      split; [apply prefix_refl|]. split; [apply early_refl|reflexivity]. }
  assert (Hnh : (h && match hdr sp with None => true | Some _ => false end) = false).
  { destruct h; [destruct (hdr sp); [reflexivity|discriminate Hh]|reflexivity]. }
  rewrite Hnh.
  set (z0 := add_sizes cfg (base cfg) (if h then [] else map FLog (ilogs sp))) in *.
  rewrite (parse_init_logs _ _ _ Hil) in *.
  destruct (http_parse_init CbRecord (http_frames cfg (steps sp) 0 z0) []) as [es o] eqn:E.
  cbn [snd] in Hok. destruct o as [[pend later]|]; [|discriminate Hok].
  destruct (parse_init_early (hdr_events h sp) (hdr_is_data h sp) _ _ _ _ _ E) as [He Hes].
  cbn [map app] in He. rewrite (consume_frames _ _ _ _ Hst), (obs_prod_emit _ Hst Hls) in He.
  assert (Hnt : nonterm (map ELog (ilogs sp) ++ es) = true).
  { apply logs_nonterm. rewrite forallb_app, Hes, andb_true_r. clear. induction (ilogs sp); [reflexivity|assumption]. }
  exists ((map ELog (ilogs sp) ++ es) ++ hdr_events h sp ++ http_consume CbRecord (map FData pend ++ later) None).
  rewrite (cut_app_nt _ _ Hnt), (cut_app_nt _ _ (nonterm_hdr h sp)), cut_consume.
  split; [apply prefix_app, prefix_app, consume_prefix|].
  split; [rewrite <- app_assoc; apply early_logs_prefix; exact He|].
  intros ->. reflexivity.
Qed.

Theorem http_once_in_order cfg p sc :
  legal p sc = true -> records sc = true -> no_exc_logs p = true -> fits cfg p sc = true -> first_turn_ok cfg p sc = true ->
  lossless p sc = true ->
  exists T, prefix_of (run_http cfg p sc) T /\ early (emitted p sc) T /\ (complete sc = true -> run_http cfg p sc = T).
Proof.
  intros H1 H2 H3 H4 H5 H6.
  destruct sc as [c|h k a c|h n a c].
  - exists (emitted p (SUnary c)). rewrite (http_exact_unary_exch cfg p _ H1 H2 H3 H4 I), cut_observe.
    split; [apply observe_prefix; assumption|]. split; [apply early_refl|]. intro Hc. apply observe_complete; assumption.
  - destruct c; try discriminate H2. destruct p as [u|sp]; [discriminate H1|].
    destruct (http_producer cfg sp h k a H1 H3 H5 H6) as [T [Ha [Hb Hc]]]. exists T. split; [exact Ha|]. split; [exact Hb|].
    intro Hcomp. apply Hc. destruct a; try discriminate Hcomp. reflexivity.
  - exists (emitted p (SExch h n a c)). rewrite (http_exact_unary_exch cfg p _ H1 H2 H3 H4 I), cut_observe.
    split; [apply observe_prefix; assumption|]. split; [apply early_refl|]. intro Hc. apply observe_complete; assumption.
Qed.

(* ================================================================== F. a stream the client ends itself *)
(* whatever the script does afterwards (no read at all, then close / cancel; k reads; exhaustion), the logs a successful
   init emitted head the observation: the close / cancel drain of a header-less stream delivers them *)
Theorem pipe_init_logs_delivered sp sc :
  legal (PStream sp) sc = true -> records sc = true -> no_exc_logs (PStream sp) = true -> pipe_reads (PStream sp) sc = true ->
  ires sp = InitOk -> prefix_of (map ELog (ilogs sp)) (run_pipe (PStream sp) sc).
Proof.
  intros H1 H2 H3 H4 Hi. rewrite (pipe_refines _ _ H1 H2 H3 H4).
  cbn in H3. apply andb_true_iff in H3 as [Hil _].
  destruct sc as [c|h k a c|h n a c]; try discriminate H1; destruct c; try discriminate H2;
    cbn [observe]; rewrite Hi, (deliver_quiet _ _ Hil), (cut_app_nt _ _ (nonterm_logs _)); eexists; reflexivity.
Qed.

Theorem http_init_logs_delivered cfg sp sc :
  legal (PStream sp) sc = true -> records sc = true -> no_exc_logs (PStream sp) = true ->
  ires sp = InitOk -> prefix_of (map ELog (ilogs sp)) (run_http cfg (PStream sp) sc).
Proof.
  intros H1 H2 H3 Hi. cbn in H3. apply andb_true_iff in H3 as [Hil _].
  unfold legal in H1. apply andb_true_iff in H1 as [Hk _].
  destruct sc as [c|h k a c|h n a c]; try discriminate Hk; destruct c; try discriminate H2;
    cbn in Hk; apply andb_true_iff in Hk as [_ Hh];
    assert (Hnh : (h && match hdr sp with None => true | Some _ => false end) = false)
      by (destruct h; [destruct (hdr sp); [reflexivity|discriminate Hh]|reflexivity]);
    unfold run_http; rewrite Hi, Hnh.
  - rewrite (parse_init_logs _ _ _ Hil).
    destruct (http_parse_init CbRecord _ []) as [es o]. destruct o as [[pend later]|].
    + rewrite <- app_assoc, (cut_app_nt _ _ (nonterm_logs _)). eexists; reflexivity.
    + rewrite (cut_app_nt _ _ (nonterm_logs _)). eexists; reflexivity.
  - rewrite (deliver_quiet _ _ Hil), (cut_app_nt _ _ (nonterm_logs _)). eexists; reflexivity.
Qed.
