(* Proofs about model/M_Version.v: the semver regex accepts exactly three canonical numerals
   joined by dots, parse_version inverts canon_version, and the gate dispatches exactly on a
   canonical client version whose (major, minor) equals the server's. *)
From Coq Require Import List NArith Bool Lia.
From VGI Require Import Regex UnicodeTables Utf8 M_Version L_Utf8.
Import ListNotations.
Open Scope N_scope.

Definition major (srv : N * N * N) : N := fst (fst srv).
Definition minor (srv : N * N * N) : N := snd (fst srv).

(* ------------------------------------------------------------------ *)
(** * Digit strings                                                    *)
(* ------------------------------------------------------------------ *)

Definition digits (s : list N) : Prop := Forall (fun c => is_digit09 c = true) s.

Lemma is_digit09_iff : forall c, is_digit09 c = true <-> 48 <= c <= 57.
Proof. intros c. unfold is_digit09. rewrite andb_true_iff, !N.leb_le. tauto. Qed.

Lemma canon_num_digits : forall s, canon_num s -> digits s.
Proof.
  intros s [-> | (d & r & -> & Hd & Hr)].
  - constructor; [reflexivity | constructor].
  - constructor; [apply is_digit09_iff; lia | exact Hr].
Qed.

Lemma canon_num_nonempty : forall s, canon_num s -> s <> [].
Proof. intros s [-> | (d & r & -> & _)]; discriminate. Qed.

Lemma digits_nodot : forall s, digits s -> Forall (fun c => c <> 46) s.
Proof.
  intros s H. eapply Forall_impl; [| exact H].
  intros c Hc. apply is_digit09_iff in Hc. lia.
Qed.

Lemma digits_ascii : forall s, digits s -> all_ascii s = true.
Proof.
  intros s H. unfold all_ascii. induction H as [| c r Hc Hr IH].
  - reflexivity.
  - cbn [forallb]. rewrite IH, andb_true_r. apply is_digit09_iff in Hc.
    apply N.ltb_lt. lia.
Qed.

(* ------------------------------------------------------------------ *)
(** * (a) (b) the regex                                                *)
(* ------------------------------------------------------------------ *)

Lemma den_num_re : forall b s post, den penv_py num_re b s post <-> canon_num s.
Proof.
  intros b s post. unfold num_re, canon_num. rewrite den_alt, den_chr, den_cat. split.
  - intros [(c & -> & Hc) | (s1 & s2 & -> & H1 & H2)].
    + left. cbn [cls_mem] in Hc. apply N.eqb_eq in Hc. subst c. reflexivity.
    + right. apply den_chr in H1. destruct H1 as (d & -> & Hd).
      apply den_star_cls in H2.
      exists d, s2. split; [reflexivity |]. split; [| exact H2].
      unfold digit19 in Hd. cbn [cls_mem] in Hd.
      apply andb_true_iff in Hd. rewrite !N.leb_le in Hd. exact Hd.
  - intros [-> | (d & r & -> & Hd & Hr)].
    + left. exists 48. split; reflexivity.
    + right. exists [d], r. split; [reflexivity |]. split.
      * apply den_chr. exists d. split; [reflexivity |].
        unfold digit19. cbn [cls_mem]. apply andb_true_iff. rewrite !N.leb_le. exact Hd.
      * apply den_star_cls. exact Hr.
Qed.

Lemma den_dot_re : forall b s post, den penv_py dot_re b s post <-> s = [46].
Proof.
  intros b s post. unfold dot_re. rewrite den_chr. split.
  - intros (c & -> & Hc). cbn [cls_mem] in Hc. apply N.eqb_eq in Hc. subst c. reflexivity.
  - intros ->. exists 46. split; reflexivity.
Qed.

Definition semver_shape (s : list N) : Prop :=
  exists s1 s2 s3, s = s1 ++ [46] ++ s2 ++ [46] ++ s3 /\
                   canon_num s1 /\ canon_num s2 /\ canon_num s3.

Lemma den_semver_re : forall m post,
  den penv_py semver_re true m post <->
  post = [] /\ exists s1 s2 s3, m = s1 ++ [46] ++ s2 ++ [46] ++ s3 /\
                                canon_num s1 /\ canon_num s2 /\ canon_num s3.
Proof.
  intros m post. unfold semver_re. split.
  - intros H.
    apply den_cat in H. destruct H as (x0 & m1 & -> & H0 & H).
    apply den_bos in H0. destruct H0 as [-> _].
    apply den_cat in H. destruct H as (s1 & m2 & -> & H1 & H).
    apply den_num_re in H1.
    apply den_cat in H. destruct H as (d1 & m3 & -> & Hd1 & H).
    apply den_dot_re in Hd1. subst d1.
    apply den_cat in H. destruct H as (s2 & m4 & -> & H2 & H).
    apply den_num_re in H2.
    apply den_cat in H. destruct H as (d2 & m5 & -> & Hd2 & H).
    apply den_dot_re in Hd2. subst d2.
    apply den_cat in H. destruct H as (s3 & m6 & -> & H3 & H).
    apply den_num_re in H3.
    apply den_endz in H. destruct H as [-> ->].
    split; [reflexivity |]. exists s1, s2, s3.
    split; [| split; [exact H1 | split; [exact H2 | exact H3]]].
    rewrite app_nil_r. reflexivity.
  - intros (-> & s1 & s2 & s3 & -> & C1 & C2 & C3).
    apply den_cat. exists [], (s1 ++ [46] ++ s2 ++ [46] ++ s3).
    split; [reflexivity |]. split; [apply den_bos; split; reflexivity |].
    apply den_cat. exists s1, ([46] ++ s2 ++ [46] ++ s3).
    split; [reflexivity |]. split; [apply den_num_re; exact C1 |].
    apply den_cat. exists [46], (s2 ++ [46] ++ s3).
    split; [reflexivity |]. split; [apply den_dot_re; reflexivity |].
    apply den_cat. exists s2, ([46] ++ s3).
    split; [reflexivity |]. split; [apply den_num_re; exact C2 |].
    apply den_cat. exists [46], s3.
    split; [reflexivity |]. split; [apply den_dot_re; reflexivity |].
    apply den_cat. exists s3, [].
    split; [symmetry; apply app_nil_r |]. split; [apply den_num_re; exact C3 |].
    apply den_endz. split; reflexivity.
Qed.

Lemma py_match_semver : forall s,
  py_match penv_py semver_re s = true <-> semver_shape s.
Proof.
  intros s. unfold semver_shape. rewrite py_match_spec. split.
  - intros (m & post & -> & H). apply den_semver_re in H.
    destruct H as (-> & s1 & s2 & s3 & -> & C).
    exists s1, s2, s3. split; [apply app_nil_r | exact C].
  - intros (s1 & s2 & s3 & -> & C).
    exists (s1 ++ [46] ++ s2 ++ [46] ++ s3), [].
    split; [symmetry; apply app_nil_r |].
    apply den_semver_re. split; [reflexivity |].
    exists s1, s2, s3. split; [reflexivity | exact C].
Qed.

(* ------------------------------------------------------------------ *)
(** * (c) group extraction by splitting on dots                        *)
(* ------------------------------------------------------------------ *)

Lemma split_dot_aux_nodot : forall s cur,
  Forall (fun c => c <> 46) s -> split_dot_aux cur s = [rev cur ++ s].
Proof.
  induction s as [| c s IH]; intros cur H; cbn [split_dot_aux].
  - rewrite app_nil_r. reflexivity.
  - inversion H as [| c' s' Hc Hs]; subst.
    destruct (c =? 46) eqn:E; [apply N.eqb_eq in E; contradiction |].
    rewrite (IH _ Hs). cbn [rev]. rewrite <- app_assoc. reflexivity.
Qed.

Lemma split_dot_aux_dot : forall s cur rest,
  Forall (fun c => c <> 46) s ->
  split_dot_aux cur (s ++ 46 :: rest) = (rev cur ++ s) :: split_dot_aux [] rest.
Proof.
  induction s as [| c s IH]; intros cur rest H; cbn [app split_dot_aux].
  - rewrite N.eqb_refl, app_nil_r. reflexivity.
  - inversion H as [| c' s' Hc Hs]; subst.
    destruct (c =? 46) eqn:E; [apply N.eqb_eq in E; contradiction |].
    rewrite (IH _ _ Hs). cbn [rev]. rewrite <- app_assoc. reflexivity.
Qed.

Lemma split_dot_shape : forall s1 s2 s3,
  digits s1 -> digits s2 -> digits s3 ->
  split_dot (s1 ++ [46] ++ s2 ++ [46] ++ s3) = [s1; s2; s3].
Proof.
  intros s1 s2 s3 H1 H2 H3. unfold split_dot. cbn [app].
  rewrite (split_dot_aux_dot _ _ _ (digits_nodot _ H1)).
  rewrite (split_dot_aux_dot _ _ _ (digits_nodot _ H2)).
  rewrite (split_dot_aux_nodot _ _ (digits_nodot _ H3)).
  reflexivity.
Qed.

(* ------------------------------------------------------------------ *)
(** * (d) int() on ASCII digit strings                                 *)
(* ------------------------------------------------------------------ *)

Lemma int_of_digits_acc_digits : forall s acc,
  digits s -> int_of_digits_acc acc s = Some (value_acc acc s).
Proof.
  induction s as [| c s IH]; intros acc H; cbn [int_of_digits_acc value_acc].
  - reflexivity.
  - inversion H as [| c' s' Hc Hs]; subst.
    rewrite (ascii_digit_is_udigit c (proj1 (is_digit09_iff c) Hc)).
    apply IH. exact Hs.
Qed.

Lemma int_of_digits_digits : forall s,
  digits s -> s <> [] -> int_of_digits s = Some (value s).
Proof.
  intros s H Hne. destruct s as [| c r]; [congruence |].
  unfold int_of_digits, value. apply int_of_digits_acc_digits. exact H.
Qed.

Lemma int_of_digits_canon : forall s, canon_num s -> int_of_digits s = Some (value s).
Proof.
  intros s H. apply int_of_digits_digits;
    [apply canon_num_digits | apply canon_num_nonempty]; exact H.
Qed.

(* ------------------------------------------------------------------ *)
(** * parse_version                                                    *)
(* ------------------------------------------------------------------ *)

Lemma parse_version_shape : forall s1 s2 s3,
  canon_num s1 -> canon_num s2 -> canon_num s3 ->
  parse_version (s1 ++ [46] ++ s2 ++ [46] ++ s3) = Some (value s1, value s2, value s3).
Proof.
  intros s1 s2 s3 C1 C2 C3. unfold parse_version, parse_version_with.
  assert (Hm : py_match penv_py semver_re (s1 ++ [46] ++ s2 ++ [46] ++ s3) = true).
  { apply py_match_semver. exists s1, s2, s3.
    split; [reflexivity | split; [exact C1 | split; [exact C2 | exact C3]]]. }
  rewrite Hm.
  rewrite (split_dot_shape _ _ _ (canon_num_digits _ C1) (canon_num_digits _ C2)
             (canon_num_digits _ C3)).
  rewrite (int_of_digits_canon _ C1), (int_of_digits_canon _ C2), (int_of_digits_canon _ C3).
  reflexivity.
Qed.

Lemma parse_version_iff : forall s a b c,
  parse_version s = Some (a, b, c) <->
  exists s1 s2 s3, s = s1 ++ [46] ++ s2 ++ [46] ++ s3 /\
                   canon_num s1 /\ canon_num s2 /\ canon_num s3 /\
                   value s1 = a /\ value s2 = b /\ value s3 = c.
Proof.
  intros s a b c. split.
  - intros H.
    assert (Hm : py_match penv_py semver_re s = true).
    { unfold parse_version, parse_version_with in H.
      destruct (py_match penv_py semver_re s); [reflexivity | discriminate H]. }
    apply py_match_semver in Hm. destruct Hm as (s1 & s2 & s3 & -> & C1 & C2 & C3).
    rewrite (parse_version_shape _ _ _ C1 C2 C3) in H. inversion H; subst.
    exists s1, s2, s3.
    split; [reflexivity |]. split; [exact C1 |]. split; [exact C2 |]. split; [exact C3 |].
    split; [reflexivity |]. split; reflexivity.
  - intros (s1 & s2 & s3 & -> & C1 & C2 & C3 & <- & <- & <-).
    apply parse_version_shape; assumption.
Qed.

(* ------------------------------------------------------------------ *)
(** * (e) value / show                                                 *)
(* ------------------------------------------------------------------ *)

Lemma value_acc_snoc : forall s a d,
  value_acc a (s ++ [d]) = 10 * value_acc a s + (d - 48).
Proof.
  induction s as [| c s IH]; intros a d; cbn [app value_acc].
  - reflexivity.
  - apply IH.
Qed.

Lemma value_snoc : forall s d, value (s ++ [d]) = 10 * value s + (d - 48).
Proof. intros s d. apply value_acc_snoc. Qed.

Lemma value_acc_ge : forall s a, a <= value_acc a s.
Proof.
  induction s as [| c s IH]; intros a; cbn [value_acc].
  - lia.
  - specialize (IH (10 * a + (c - 48))). lia.
Qed.

(* numerals with a non-zero leading digit *)
Definition lead (s : list N) : Prop :=
  exists d r, s = d :: r /\ 49 <= d <= 57 /\ digits r.

Lemma canon_num_lead : forall s, canon_num s <-> s = [48] \/ lead s.
Proof. intros s. reflexivity. Qed.

Lemma lead_value_pos : forall s, lead s -> 1 <= value s.
Proof.
  intros s (d & r & -> & Hd & _). unfold value. cbn [value_acc].
  pose proof (value_acc_ge r (10 * 0 + (d - 48))). lia.
Qed.

Lemma lead_snoc : forall s d, lead s -> 48 <= d <= 57 -> lead (s ++ [d]).
Proof.
  intros s d (d0 & r & -> & Hd0 & Hr) Hd.
  exists d0, (r ++ [d]). split; [reflexivity |]. split; [exact Hd0 |].
  apply Forall_app. split; [exact Hr |].
  constructor; [apply is_digit09_iff; exact Hd | constructor].
Qed.

Lemma lead_snoc_inv : forall s d,
  lead (s ++ [d]) -> (s = [] /\ 49 <= d <= 57) \/ (lead s /\ 48 <= d <= 57).
Proof.
  intros s d (d0 & r & Heq & Hd0 & Hr).
  destruct s as [| c s'].
  - left. cbn [app] in Heq. inversion Heq; subst. split; [reflexivity | exact Hd0].
  - right. cbn [app] in Heq. inversion Heq; subst.
    apply Forall_app in Hr. destruct Hr as [Hs' Hd].
    inversion Hd as [| x l Hx _]; subst. apply is_digit09_iff in Hx.
    split; [| exact Hx]. exists d0, s'. split; [reflexivity |]. split; assumption.
Qed.

Lemma lead_inj : forall s t, lead s -> lead t -> value s = value t -> s = t.
Proof.
  induction s as [| d s' IH] using rev_ind; intros t Hs Ht Hv.
  - destruct Hs as (d & r & Heq & _). discriminate Heq.
  - destruct t as [| e t' _] using rev_ind.
    + destruct Ht as (d0 & r & Heq & _). discriminate Heq.
    + rewrite !value_snoc in Hv.
      apply lead_snoc_inv in Hs. apply lead_snoc_inv in Ht.
      destruct Hs as [[-> Hd] | [Ls Hd]]; destruct Ht as [[-> He] | [Lt He]].
      * change (value []) with 0 in Hv. assert (d = e) by lia. subst e. reflexivity.
      * exfalso. apply lead_value_pos in Lt. change (value []) with 0 in Hv. lia.
      * exfalso. apply lead_value_pos in Ls. change (value []) with 0 in Hv. lia.
      * assert (Hvv : value s' = value t') by lia.
        assert (d = e) by lia. subst e.
        rewrite (IH t' Ls Lt Hvv). reflexivity.
Qed.

Lemma canon_num_inj : forall s t,
  canon_num s -> canon_num t -> value s = value t -> s = t.
Proof.
  intros s t [-> | Ls] [-> | Lt] Hv.
  - reflexivity.
  - exfalso. apply lead_value_pos in Lt. change (value [48]) with 0 in Hv. lia.
  - exfalso. apply lead_value_pos in Ls. change (value [48]) with 0 in Hv. lia.
  - apply lead_inj; assumption.
Qed.

(* fuel f suffices for n as soon as n < 2^f (and f > 0, to print the digit of 0) *)
Lemma show_fuel_ok : forall f n acc,
  (0 < f)%nat -> n < 2 ^ N.of_nat f ->
  exists t, show_fuel f n acc = t ++ acc /\ canon_num t /\ value t = n.
Proof.
  induction f as [| f IH]; intros n acc Hf Hn; [lia |].
  cbn [show_fuel].
  assert (Hdm : n = 10 * (n / 10) + n mod 10) by (apply N.div_mod; lia).
  assert (Hmod : n mod 10 < 10) by (apply N.mod_lt; lia).
  (* abstract the quotient and remainder so that lia sees plain variables *)
  remember (n / 10) as q eqn:Eq0. remember (n mod 10) as r eqn:Er0. clear Eq0 Er0.
  destruct (q =? 0) eqn:Eq.
  - apply N.eqb_eq in Eq. exists [48 + r]. split; [reflexivity |]. split.
    + destruct (N.eq_dec r 0) as [Z | NZ].
      * left. rewrite Z. reflexivity.
      * right. exists (48 + r), []. split; [reflexivity |].
        split; [lia | constructor].
    + unfold value. cbn [value_acc]. lia.
  - apply N.eqb_neq in Eq.
    assert (Hp : 2 ^ N.of_nat (S f) = 2 * 2 ^ N.of_nat f).
    { rewrite Nat2N.inj_succ, N.pow_succ_r'. reflexivity. }
    rewrite Hp in Hn.
    assert (Hq : q < 2 ^ N.of_nat f).
    { revert Hn. generalize (2 ^ N.of_nat f). intros P Hn. lia. }
    assert (Hf' : (0 < f)%nat).
    { destruct f as [| f']; [| lia]. change (2 ^ N.of_nat 0) with 1 in Hq. lia. }
    destruct (IH q ((48 + r) :: acc) Hf' Hq) as (t & Ht & Ct & Vt).
    exists (t ++ [48 + r]).
    split; [rewrite Ht, <- app_assoc; reflexivity |]. split.
    + destruct Ct as [-> | Lt].
      * exfalso. change (value [48]) with 0 in Vt. lia.
      * right. apply lead_snoc; [exact Lt | lia].
    + rewrite value_snoc, Vt. lia.
Qed.

Lemma show_spec : forall n, canon_num (show n) /\ value (show n) = n.
Proof.
  intros n. unfold show.
  destruct (show_fuel_ok (S (N.to_nat (N.log2 n))) n []) as (t & Ht & Ct & Vt).
  - lia.
  - rewrite Nat2N.inj_succ, N2Nat.id.
    destruct (N.eq_dec n 0) as [-> | NZ].
    + reflexivity.
    + apply N.log2_spec. lia.
  - rewrite Ht, app_nil_r. split; assumption.
Qed.

Lemma show_canon : forall n, canon_num (show n).
Proof. intros n. apply show_spec. Qed.

Lemma value_show : forall n, value (show n) = n.
Proof. intros n. apply show_spec. Qed.

Lemma show_value : forall s, canon_num s -> show (value s) = s.
Proof.
  intros s H. apply canon_num_inj; [apply show_canon | exact H | apply value_show].
Qed.

(* canonical numerals are exactly the image of show *)
Lemma canon_num_iff_show : forall s, canon_num s <-> exists n, s = show n.
Proof.
  intros s. split.
  - intros H. exists (value s). symmetry. apply show_value. exact H.
  - intros (n & ->). apply show_canon.
Qed.

(* ------------------------------------------------------------------ *)
(** * parse_version inverts canon_version                              *)
(* ------------------------------------------------------------------ *)

Lemma parse_version_canonical : forall s a b c,
  parse_version s = Some (a, b, c) <-> s = canon_version a b c.
Proof.
  intros s a b c. rewrite parse_version_iff. unfold canon_version. split.
  - intros (s1 & s2 & s3 & -> & C1 & C2 & C3 & <- & <- & <-).
    rewrite !show_value by assumption. reflexivity.
  - intros ->. exists (show a), (show b), (show c).
    split; [reflexivity |].
    split; [apply show_canon |]. split; [apply show_canon |]. split; [apply show_canon |].
    split; [apply value_show |]. split; apply value_show.
Qed.

Lemma parse_canon_version : forall a b c, parse_version (canon_version a b c) = Some (a, b, c).
Proof. intros a b c. apply parse_version_canonical. reflexivity. Qed.

Lemma all_ascii_canon_version : forall a b c, all_ascii (canon_version a b c) = true.
Proof.
  intros a b c. unfold canon_version, all_ascii. rewrite !forallb_app.
  fold (all_ascii (show a)). fold (all_ascii (show b)). fold (all_ascii (show c)).
  rewrite (digits_ascii _ (canon_num_digits _ (show_canon a))).
  rewrite (digits_ascii _ (canon_num_digits _ (show_canon b))).
  rewrite (digits_ascii _ (canon_num_digits _ (show_canon c))).
  reflexivity.
Qed.

Lemma utf8_decode_canon_version : forall a b c,
  utf8_decode (canon_version a b c) = Some (canon_version a b c).
Proof. intros a b c. apply utf8_decode_ascii, all_ascii_canon_version. Qed.

(* ------------------------------------------------------------------ *)
(** * The gate                                                         *)
(* ------------------------------------------------------------------ *)

Lemma check_version_eq : forall sa sb sc md,
  check_version (sa, sb, sc) md =
  match md with
  | None => RefNotDeclared
  | Some bytes =>
      match utf8_decode bytes with
      | None => RefUndecodable
      | Some s =>
          match parse_version s with
          | None => RefMalformed s
          | Some (a, b, _) =>
              if (a =? sa) && (b =? sb) then Dispatch
              else if lex_lt (a, b) (sa, sb) then RefClientOld s
              else RefServerOld s
          end
      end
  end.
Proof. reflexivity. Qed.

Lemma lex_lt_total : forall a b sa sb,
  (a =? sa) && (b =? sb) = false -> lex_lt (a, b) (sa, sb) = false ->
  lex_lt (sa, sb) (a, b) = true.
Proof.
  intros a b sa sb E L. unfold lex_lt in *. cbn [fst snd] in *.
  apply orb_false_iff in L. destruct L as [L1 L2].
  apply N.ltb_ge in L1.
  destruct (N.eqb_spec a sa) as [-> | Na].
  - cbn [andb] in E, L2. apply N.eqb_neq in E. apply N.ltb_ge in L2.
    rewrite N.ltb_irrefl, N.eqb_refl. cbn [orb andb]. apply N.ltb_lt. lia.
  - assert (Hlt : sa < a) by lia. apply N.ltb_lt in Hlt. rewrite Hlt. reflexivity.
Qed.

Lemma check_version_dispatch : forall srv md,
  check_version srv md = Dispatch <->
  exists a b c, md = Some (canon_version a b c) /\ a = major srv /\ b = minor srv.
Proof.
  intros [[sa sb] sc] md. unfold major, minor. cbn [fst snd].
  rewrite check_version_eq. split.
  - destruct md as [bytes |]; [| discriminate].
    destruct (utf8_decode bytes) as [s |] eqn:Hu; [| discriminate].
    destruct (parse_version s) as [[[a b] c] |] eqn:Hp; [| discriminate].
    destruct ((a =? sa) && (b =? sb)) eqn:E.
    + intros _. apply andb_true_iff in E. destruct E as [Ea Eb].
      apply N.eqb_eq in Ea, Eb. apply parse_version_canonical in Hp. subst s.
      exists a, b, c. split; [| split; assumption].
      f_equal. apply (utf8_decode_ascii_inv _ _ Hu). apply all_ascii_canon_version.
    + destruct (lex_lt (a, b) (sa, sb)); discriminate.
  - intros (a & b & c & -> & -> & ->).
    rewrite utf8_decode_canon_version, parse_canon_version, !N.eqb_refl. reflexivity.
Qed.

Lemma gate_dispatch_iff : forall srv md,
  gate (Some srv) false md = Dispatch <->
  exists a b c, md = Some (canon_version a b c) /\ a = major srv /\ b = minor srv.
Proof. intros srv md. cbn [gate]. apply check_version_dispatch. Qed.

Lemma gate_refusal : forall srv bytes,
  match gate (Some srv) false (Some bytes) with
  | Dispatch => True
  | RefNotDeclared => False
  | RefUndecodable => utf8_decode bytes = None
  | RefMalformed s => utf8_decode bytes = Some s /\ parse_version s = None
  | RefClientOld s =>
      utf8_decode bytes = Some s /\
      exists a b c, s = canon_version a b c /\ lex_lt (a, b) (major srv, minor srv) = true
  | RefServerOld s =>
      utf8_decode bytes = Some s /\
      exists a b c, s = canon_version a b c /\ lex_lt (major srv, minor srv) (a, b) = true
  end.
Proof.
  intros [[sa sb] sc] bytes. unfold major, minor. cbn [fst snd gate].
  rewrite check_version_eq.
  destruct (utf8_decode bytes) as [s |] eqn:Hu; [| reflexivity].
  destruct (parse_version s) as [[[a b] c] |] eqn:Hp; [| split; [reflexivity | exact Hp]].
  destruct ((a =? sa) && (b =? sb)) eqn:E; [exact I |].
  apply parse_version_canonical in Hp.
  destruct (lex_lt (a, b) (sa, sb)) eqn:L.
  - split; [reflexivity |]. exists a, b, c. split; [exact Hp | exact L].
  - split; [reflexivity |]. exists a, b, c. split; [exact Hp |].
    apply lex_lt_total; assumption.
Qed.

Lemma gate_absent : forall srv, gate (Some srv) false None = RefNotDeclared.
Proof. intros [[sa sb] sc]. reflexivity. Qed.

Lemma gate_undeclared : forall d md, gate None d md = Dispatch.
Proof. reflexivity. Qed.

Lemma gate_describe : forall srv md, gate (Some srv) true md = Dispatch.
Proof. reflexivity. Qed.
