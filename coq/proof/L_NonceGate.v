(* Gate level of C23: the proof token's validity window [ts - skew, ts + skew] against the cache ttl. *)
From Coq Require Import List NArith ZArith Bool Lia.
From VGI Require Import Sched_C23 M_Nonce L_Nonce.
Import ListNotations.
Open Scope N_scope.

Lemma ts_ok_iff : forall skew ts cur, ts_ok skew ts cur = true <-> (ts - skew <= cur <= ts + skew)%Z.
Proof.
  intros skew ts cur. unfold ts_ok, ts_ok_with, cmpz_eval.
  rewrite andb_true_iff, !negb_true_iff, !Z.ltb_ge. lia.
Qed.

(* A proof whose first presentation passed the timestamp step at time w0 and was accepted by a cache call
   that read the clock not before w0, is refused by every later presentation whose cache step happens while
   the proof would still pass the timestamp step -- under any interleaving -- provided the cache remembers
   for more than 2*skew (i.e. at least the 2*skew+1 whole seconds of [ts-skew, ts+skew]). *)
Lemma gate_no_replay_while_valid : forall cap skew mul add co, 0 < cap ->
  2 * skew < gate_ttl mul add skew ->
  forall progs sch pre ei mid ek post (ts w0 : Z),
  events (mkCfg cap (gate_ttl mul add skew) (std_shape co)) progs sch = pre ++ ei :: mid ++ ek :: post ->
  ev_ok ei = true -> ev_nonce ek = ev_nonce ei ->
  ts_ok (Z.of_N skew) ts w0 = true ->
  (w0 <= Z.of_N (ev_now ei))%Z ->
  ts_ok (Z.of_N skew) ts (Z.of_N (ev_clk ek)) = true ->
  count_others (ev_nonce ei) mid < cap ->
  ev_ok ek = false.
Proof.
  intros cap skew mul add co Hc Httl progs sch pre ei mid ek post ts w0 Hl Hok Hn H0 Hw H1 Hcnt.
  apply ts_ok_iff in H0. apply ts_ok_iff in H1.
  eapply (no_replay_in_window cap (gate_ttl mul add skew) co Hc); try eassumption. lia.
Qed.
