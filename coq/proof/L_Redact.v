(* Lemmas about model/M_Redact.v: what the redaction regex accepts, what recursive redaction does to a
   claim tree (at every depth), and what the fail-closed wrapper / the access-log branch emit. *)
From Coq Require Import List NArith ZArith Bool Lia.
From VGI Require Import Regex M_Redact.
Import ListNotations.
Open Scope N_scope.

(* ------------------------------------------------------------------ *)
(** * The regex                                                        *)
(* ------------------------------------------------------------------ *)

Lemma den_alts : forall E rs b s post,
  den E (alts rs) b s post <-> exists r, In r rs /\ den E r b s post.
Proof.
  intros E rs. induction rs as [| r rest IH]; intros b s post.
  - cbn [alts]. rewrite den_emp. split; [tauto | intros (r & [] & _)].
  - destruct rest as [| r2 rest'].
    + cbn [alts]. split.
      * intros H. exists r. split; [left; reflexivity | exact H].
      * intros (r' & [<- | []] & H). exact H.
    + change (alts (r :: r2 :: rest')) with (Alt r (alts (r2 :: rest'))).
      rewrite den_alt, IH. split.
      * intros [H | (r' & Hin & H)].
        -- exists r. split; [left; reflexivity | exact H].
        -- exists r'. split; [right; exact Hin | exact H].
      * intros (r' & [<- | Hin] & H).
        -- left. exact H.
        -- right. exists r'. split; assumption.
Qed.

Lemma den_iseq : forall E w tail b s post,
  den E (iseq w tail) b s post <->
  exists x t, s = x ++ t /\ Forall2 (fun c d => cls_mem E (icls c) d = true) w x /\
              den E tail (b && isnil x) t post.
Proof.
  intros E w tail. induction w as [| c r IH]; intros b s post; cbn [iseq].
  - split.
    + intros H. exists [], s. split; [reflexivity |]. split; [constructor |].
      cbn [isnil]. rewrite andb_true_r. exact H.
    + intros (x & t & -> & Hx & H). inversion Hx; subst. cbn [isnil app] in *.
      rewrite andb_true_r in H. exact H.
  - rewrite den_cat. split.
    + intros (s1 & s2 & -> & H1 & H2). apply den_chr in H1. destruct H1 as (d & -> & Hd).
      cbn [isnil] in H2. rewrite andb_false_r in H2.
      apply IH in H2. destruct H2 as (x & t & -> & Hx & Ht).
      exists (d :: x), t. split; [reflexivity |]. split; [constructor; assumption |].
      cbn [isnil]. rewrite andb_false_r. cbn [andb] in Ht. exact Ht.
    + intros (x & t & -> & Hx & Ht). inversion Hx as [| c' d r' x' Hd Hx']; subst.
      exists [d], (x' ++ t). split; [reflexivity |]. split.
      * apply den_chr. exists d. split; [reflexivity | exact Hd].
      * cbn [isnil]. rewrite andb_false_r. apply IH. exists x', t.
        split; [reflexivity |]. split; [exact Hx' |].
        cbn [isnil andb] in *. rewrite andb_false_r in Ht. exact Ht.
Qed.

Lemma den_ilit : forall E w, w <> [] -> forall b s post,
  den E (ilit w) b s post <-> Forall2 (fun c d => cls_mem E (icls c) d = true) w s.
Proof.
  intros E w. induction w as [| c r IH]; intros Hne b s post; [congruence |].
  destruct r as [| c2 r'].
  - cbn [ilit]. rewrite den_chr. split.
    + intros (d & -> & Hd). constructor; [exact Hd | constructor].
    + intros H. inversion H as [| c' d r0 x' Hd Hx']; subst. inversion Hx'; subst.
      exists d. split; [reflexivity | exact Hd].
  - change (ilit (c :: c2 :: r')) with (Cat (Chr (icls c)) (ilit (c2 :: r'))).
    rewrite den_cat. split.
    + intros (s1 & s2 & -> & H1 & H2). apply den_chr in H1. destruct H1 as (d & -> & Hd).
      apply IH in H2; [| discriminate]. constructor; assumption.
    + intros H. inversion H as [| c' d r0 x' Hd Hx']; subst.
      exists [d], x'. split; [reflexivity |]. split.
      * apply den_chr. exists d. split; [reflexivity | exact Hd].
      * apply IH; [discriminate | exact Hx'].
Qed.

Lemma sub_words_nonempty : forall w, In w sub_words -> w <> [].
Proof.
  intros w H. unfold sub_words, words_before, words_after in H. cbn [app In] in H.
  repeat (destruct H as [<- | H]; [discriminate |]). destruct H.
Qed.

(* complete description of the keys the regex finds *)
Lemma sensitive_iff : forall k,
  sensitive k = true <->
  (exists w pre x post, In w sub_words /\ k = pre ++ x ++ post /\ imatch w x) \/
  (exists x, imatch w_name x /\ (k = x \/ k = x ++ [10])).
Proof.
  intros k. unfold sensitive, sensitive_with. rewrite py_search_spec. split.
  - intros (pre & m & post & -> & H). unfold redact_re in H. apply den_alts in H.
    destruct H as (r & Hin & H). apply in_app_or in Hin. destruct Hin as [Hin | Hin].
    + apply in_map_iff in Hin. destruct Hin as (w & <- & Hw).
      assert (Hs : In w sub_words) by (unfold sub_words; apply in_or_app; left; exact Hw).
      apply den_ilit in H; [| apply sub_words_nonempty; exact Hs].
      left. exists w, pre, m, post. split; [exact Hs |]. split; [reflexivity | exact H].
    + apply in_app_or in Hin. destruct Hin as [[<- | []] | Hin].
      * right. unfold name_re in H. apply den_cat in H.
        destruct H as (s1 & s2 & -> & H1 & H2). apply den_bos in H1. destruct H1 as [-> Hb].
        destruct pre as [| p0 pre']; [| discriminate Hb]. cbn [isnil andb app] in *.
        apply den_iseq in H2. destruct H2 as (x & t & -> & Hx & Ht).
        apply den_dollar in Ht. destruct Ht as [-> [-> | ->]]; exists x; (split; [exact Hx |]).
        -- left. rewrite !app_nil_r. reflexivity.
        -- right. rewrite app_nil_r. reflexivity.
      * apply in_map_iff in Hin. destruct Hin as (w & <- & Hw).
        assert (Hs : In w sub_words) by (unfold sub_words; apply in_or_app; right; exact Hw).
        apply den_ilit in H; [| apply sub_words_nonempty; exact Hs].
        left. exists w, pre, m, post. split; [exact Hs |]. split; [reflexivity | exact H].
  - intros [(w & pre & x & post & Hw & -> & Hx) | (x & Hx & Hk)].
    + exists pre, x, post. split; [reflexivity |]. unfold redact_re. apply den_alts.
      exists (ilit w). split.
      * unfold sub_words in Hw. apply in_app_or in Hw. destruct Hw as [Hw | Hw].
        -- apply in_or_app. left. apply in_map. exact Hw.
        -- apply in_or_app. right. apply in_or_app. right. apply in_map. exact Hw.
      * apply den_ilit; [apply sub_words_nonempty; exact Hw | exact Hx].
    + assert (Hden : forall post, post = [] \/ post = [10] -> den penv0 redact_re true x post).
      { intros post Hp. unfold redact_re. apply den_alts. exists name_re. split.
        - apply in_or_app. right. apply in_or_app. left. left. reflexivity.
        - unfold name_re. apply den_cat. exists [], x. split; [reflexivity |]. split.
          + apply den_bos. split; reflexivity.
          + cbn [isnil andb]. apply den_iseq. exists x, []. split; [rewrite app_nil_r; reflexivity |].
            split; [exact Hx |]. apply den_dollar. split; [reflexivity | exact Hp]. }
      destruct Hk as [-> | ->].
      * exists [], x, []. split; [rewrite app_nil_r; reflexivity |]. apply Hden. left; reflexivity.
      * exists [], x, [10]. split; [reflexivity |]. apply Hden. right; reflexivity.
Qed.

Lemma icls_self : forall c, cls_mem penv0 (icls c) c = true.
Proof.
  intros c. unfold icls.
  destruct (c =? 105) eqn:E1; [apply N.eqb_eq in E1; subst; reflexivity |].
  destruct (c =? 107) eqn:E2; [apply N.eqb_eq in E2; subst; reflexivity |].
  destruct (c =? 115) eqn:E3; [apply N.eqb_eq in E3; subst; reflexivity |].
  destruct ((97 <=? c) && (c <=? 122)) eqn:E4; cbn [cls_mem].
  - rewrite N.eqb_refl. apply orb_true_r.
  - apply N.eqb_refl.
Qed.

Lemma icls_upper : forall c, 97 <= c <= 122 -> cls_mem penv0 (icls c) (c - 32) = true.
Proof.
  intros c Hc. unfold icls.
  destruct (c =? 105) eqn:E1; [apply N.eqb_eq in E1; subst; reflexivity |].
  destruct (c =? 107) eqn:E2; [apply N.eqb_eq in E2; subst; reflexivity |].
  destruct (c =? 115) eqn:E3; [apply N.eqb_eq in E3; subst; reflexivity |].
  destruct ((97 <=? c) && (c <=? 122)) eqn:E4; cbn [cls_mem].
  - rewrite N.eqb_refl. reflexivity.
  - apply andb_false_iff in E4. destruct E4 as [E4 | E4]; apply N.leb_gt in E4; lia.
Qed.

Lemma ascii_case_variant_imatch : forall w x, ascii_case_variant w x -> imatch w x.
Proof.
  intros w x H. unfold ascii_case_variant, imatch in *.
  induction H as [| c d w' x' Hcd _ IH]; constructor; [| exact IH].
  destruct Hcd as [-> | [Hc ->]]; [apply icls_self | apply icls_upper; exact Hc].
Qed.

(* every listed word, in any mixture of ASCII cases, anywhere in the key *)
Lemma listed_substring_sensitive : forall w pre x post,
  In w sub_words -> ascii_case_variant w x -> sensitive (pre ++ x ++ post) = true.
Proof.
  intros w pre x post Hw Hx. apply sensitive_iff. left.
  exists w, pre, x, post. split; [exact Hw |]. split; [reflexivity |].
  apply ascii_case_variant_imatch. exact Hx.
Qed.

Lemma name_key_sensitive : forall x, ascii_case_variant w_name x -> sensitive x = true.
Proof.
  intros x Hx. apply sensitive_iff. right. exists x. split; [| left; reflexivity].
  apply ascii_case_variant_imatch. exact Hx.
Qed.

(* ------------------------------------------------------------------ *)
(** * Induction principle for the nested type                          *)
(* ------------------------------------------------------------------ *)

Section JvInd.
  Variable P : jv -> Prop.
  Hypothesis HNull : P JNull.
  Hypothesis HBool : forall b, P (JBool b).
  Hypothesis HNum : forall z, P (JNum z).
  Hypothesis HStr : forall s, P (JStr s).
  Hypothesis HList : forall xs, Forall P xs -> P (JList xs).
  Hypothesis HObj : forall es, Forall (fun e => P (snd e)) es -> P (JObj es).

  Fixpoint jv_ind' (v : jv) : P v :=
    match v with
    | JNull => HNull
    | JBool b => HBool b
    | JNum z => HNum z
    | JStr s => HStr s
    | JList xs =>
        HList xs ((fix go (l : list jv) : Forall P l :=
                     match l with
                     | [] => Forall_nil _
                     | x :: r => Forall_cons x (jv_ind' x) (go r)
                     end) xs)
    | JObj es =>
        HObj es ((fix go (l : list (key * jv)) : Forall (fun e => P (snd e)) l :=
                    match l with
                    | [] => Forall_nil _
                    | e :: r => Forall_cons e (jv_ind' (snd e)) (go r)
                    end) es)
    end.
End JvInd.

(* ------------------------------------------------------------------ *)
(** * Recursive redaction, for any key test                            *)
(* ------------------------------------------------------------------ *)

Section Redact.
  Variable sens : key -> bool.

  Definition re_entry (e : key * jv) : key * jv :=
    (fst e, if sens (fst e) then redacted else redact_value sens (snd e)).

  Lemma redact_value_obj : forall es, redact_value sens (JObj es) = JObj (map re_entry es).
  Proof. reflexivity. Qed.
  Lemma redact_value_list : forall xs, redact_value sens (JList xs) = JList (map (redact_value sens) xs).
  Proof. reflexivity. Qed.
  Lemma redact_entries_obj : forall c, JObj (redact_entries sens c) = redact_value sens (JObj c).
  Proof. reflexivity. Qed.

  Lemma entry_in_redacted : forall k v, ~ entry_in k v redacted.
  Proof. intros k v H. inversion H. Qed.

  (* every object entry with a sensitive key, at any depth of the output, holds the placeholder *)
  Lemma redact_value_no_sensitive : forall t k v,
    entry_in k v (redact_value sens t) -> sens k = true -> v = redacted.
  Proof.
    intros t. induction t as [| b | z | s | xs IH | es IH] using jv_ind'; intros k v H Hk;
      try (cbn [redact_value] in H; inversion H; fail).
    - rewrite redact_value_list in H. inversion H as [| | xs' x Hin Hx]; subst.
      apply in_map_iff in Hin. destruct Hin as (x0 & <- & Hin0).
      rewrite Forall_forall in IH. exact (IH x0 Hin0 k v Hx Hk).
    - rewrite redact_value_obj in H. inversion H as [es' Hin | es' k' x Hin Hx |]; subst.
      + apply in_map_iff in Hin. destruct Hin as (e & He & _). unfold re_entry in He.
        inversion He; subst. rewrite Hk. reflexivity.
      + apply in_map_iff in Hin. destruct Hin as (e & He & Hin0). unfold re_entry in He.
        inversion He; subst. destruct (sens (fst e)).
        * exfalso. exact (entry_in_redacted _ _ Hx).
        * rewrite Forall_forall in IH. exact (IH e Hin0 k v Hx Hk).
  Qed.

  Definition nonsens (ks : list key) : bool := forallb (fun k => negb (sens k)) ks.

  (* every node of the output sits at the same path, under the same keys, as a node of the input, and is
     either the redaction of that node (no sensitive key on the way) or the placeholder standing directly
     under the first sensitive key of the path *)
  Lemma walk_redact_inv : forall p t ks v',
    walk (redact_value sens t) p = Some (ks, v') ->
    exists v, walk t p = Some (ks, v) /\
      ((nonsens ks = true /\ v' = redact_value sens v) \/
       (exists ks0 k, ks = ks0 ++ [k] /\ nonsens ks0 = true /\ sens k = true /\ v' = redacted)).
  Proof.
    induction p as [| i p' IH]; intros t ks v' H.
    - cbn [walk] in H. inversion H; subst. exists t. split; [reflexivity |]. left. split; reflexivity.
    - destruct t as [| b | z | s | xs | es]; try (cbn in H; discriminate H).
      + rewrite redact_value_list in H. cbn [walk] in *. rewrite nth_error_map in H.
        destruct (nth_error xs i) as [x |]; cbn [option_map] in H; [| discriminate H].
        exact (IH x ks v' H).
      + rewrite redact_value_obj in H. cbn [walk] in *. rewrite nth_error_map in H.
        destruct (nth_error es i) as [[k0 x] |]; cbn [option_map] in H; [| discriminate H].
        unfold re_entry in H. cbn [fst snd] in H. destruct (sens k0) eqn:Ek.
        * destruct p' as [| j p'']; [| cbn in H; discriminate H].
          cbn [walk] in *. inversion H; subst. exists x. split; [reflexivity |].
          right. exists [], k0. split; [reflexivity |]. split; [reflexivity |]. split; [exact Ek | reflexivity].
        * destruct (walk (redact_value sens x) p') as [[ks1 v1] |] eqn:Ew; [| discriminate H].
          inversion H; subst. destruct (IH x ks1 v' Ew) as (v & Hv & Hcase).
          exists v. rewrite Hv. split; [reflexivity |].
          destruct Hcase as [[Hns ->] | (ks0 & k & -> & Hns & Hk & ->)].
          -- left. split; [| reflexivity]. unfold nonsens in *. cbn [forallb]. rewrite Ek, Hns. reflexivity.
          -- right. exists (k0 :: ks0), k. split; [reflexivity |].
             split; [unfold nonsens in *; cbn [forallb]; rewrite Ek, Hns; reflexivity |].
             split; [exact Hk | reflexivity].
  Qed.

  (* conversely: every node of the input reached through non-sensitive keys only is at the same place,
     under the same keys, in the output *)
  Lemma walk_redact_fwd : forall p t ks v,
    walk t p = Some (ks, v) -> nonsens ks = true ->
    walk (redact_value sens t) p = Some (ks, redact_value sens v).
  Proof.
    induction p as [| i p' IH]; intros t ks v H Hns.
    - cbn [walk] in *. inversion H; subst. reflexivity.
    - destruct t as [| b | z | s | xs | es]; try (cbn in H; discriminate H).
      + rewrite redact_value_list. cbn [walk] in *. rewrite nth_error_map.
        destruct (nth_error xs i) as [x |]; cbn [option_map]; [| discriminate H].
        exact (IH x ks v H Hns).
      + rewrite redact_value_obj. cbn [walk] in *. rewrite nth_error_map.
        destruct (nth_error es i) as [[k0 x] |]; cbn [option_map]; [| discriminate H].
        destruct (walk x p') as [[ks1 v1] |] eqn:Ew; [| discriminate H].
        inversion H; subst. unfold nonsens in Hns. cbn [forallb] in Hns.
        apply andb_true_iff in Hns. destruct Hns as [Hk0 Hns]. apply negb_true_iff in Hk0.
        unfold re_entry. cbn [fst snd]. rewrite Hk0. rewrite (IH x ks1 v Ew Hns). reflexivity.
  Qed.

  Lemma map_fst_re_entry : forall es, map fst (map re_entry es) = map fst es.
  Proof. intros es. rewrite map_map. apply map_ext. intros e. reflexivity. Qed.

  Lemma redact_value_clean : forall v, clean sens v = true -> redact_value sens v = v.
  Proof.
    intros v. induction v as [| b | z | s | xs IH | es IH] using jv_ind'; intros Hc; try reflexivity.
    - rewrite redact_value_list. f_equal. cbn [clean] in Hc. rewrite forallb_forall in Hc.
      rewrite Forall_forall in IH. rewrite <- (map_id xs) at 2. apply map_ext_in.
      intros x Hx. apply IH; [exact Hx | apply Hc; exact Hx].
    - rewrite redact_value_obj. f_equal. cbn [clean] in Hc. rewrite forallb_forall in Hc.
      rewrite Forall_forall in IH. rewrite <- (map_id es) at 2. apply map_ext_in.
      intros e He. specialize (Hc e He). apply andb_true_iff in Hc. destruct Hc as [Hk Hv].
      apply negb_true_iff in Hk. unfold re_entry. rewrite Hk. rewrite (IH e He Hv).
      destruct e; reflexivity.
  Qed.
End Redact.

(* ------------------------------------------------------------------ *)
(** * The access-log branch                                            *)
(* ------------------------------------------------------------------ *)

Lemma emit_with_claims_inv : forall r c c',
  emit_claims r c = RecordWithClaims c' -> r c = Returned c' /\ c <> [] /\ c' <> [].
Proof.
  intros r c c' H. unfold emit_claims, apply_claim_redaction, apply_claim_redaction_with, apply_handler in H.
  destruct c as [| e c0]; [discriminate H |].
  destruct (r (e :: c0)) as [c1 | |] eqn:Er; try discriminate H.
  destruct c1 as [| e1 c1']; [discriminate H |]. inversion H; subst.
  split; [reflexivity |]. split; discriminate.
Qed.

Lemma emit_raised_exception : forall r c, r c = RaisedException -> emit_claims r c = RecordWithoutClaims.
Proof.
  intros r c H. unfold emit_claims, apply_claim_redaction, apply_claim_redaction_with.
  destruct c as [| e c0]; [reflexivity |]. rewrite H. reflexivity.
Qed.

Lemma emit_raised_base : forall r c, r c = RaisedBase ->
  emit_claims r c = match c with [] => RecordWithoutClaims | _ => NoRecord end.
Proof.
  intros r c H. unfold emit_claims, apply_claim_redaction, apply_claim_redaction_with, apply_handler.
  destruct c as [| e c0]; [reflexivity |]. rewrite H. reflexivity.
Qed.

Lemma apply_raised_exception : forall r c, r c = RaisedException -> apply_claim_redaction r c = Some [].
Proof. intros r c H. unfold apply_claim_redaction, apply_claim_redaction_with. rewrite H. reflexivity. Qed.

Lemma emit_default : forall c,
  emit_claims default_redactor c = match c with [] => RecordWithoutClaims | _ => RecordWithClaims (redact_claims c) end.
Proof.
  intros c. unfold emit_claims, apply_claim_redaction, apply_claim_redaction_with, default_redactor.
  destruct c as [| e c0]; [reflexivity |].
  unfold redact_claims, redact_claims_with, redact_entries. cbn [map]. reflexivity.
Qed.

(* ------------------------------------------------------------------ *)
(** * The statements of prop/P_C35.v                                    *)
(* ------------------------------------------------------------------ *)

Lemma thm_no_sensitive_value_at_any_depth : forall c c' k v,
  emit_claims default_redactor c = RecordWithClaims c' ->
  entry_in k v (JObj c') -> sensitive k = true -> v = redacted.
Proof.
  intros c c' k v H Hin Hk. apply emit_with_claims_inv in H. destruct H as (H & _ & _).
  unfold default_redactor in H. inversion H; subst c'.
  unfold redact_claims, redact_claims_with in Hin. rewrite redact_entries_obj in Hin.
  exact (redact_value_no_sensitive sensitive (JObj c) k v Hin Hk).
Qed.

Lemma thm_output_provenance : forall c p ks v',
  walk (JObj (redact_claims c)) p = Some (ks, v') ->
  exists v, walk (JObj c) p = Some (ks, v) /\
    ((nonsens sensitive ks = true /\ v' = redact_value sensitive v) \/
     (exists ks0 k, ks = ks0 ++ [k] /\ nonsens sensitive ks0 = true /\ sensitive k = true /\ v' = redacted)).
Proof. intros c p ks v' H. exact (walk_redact_inv sensitive p (JObj c) ks v' H). Qed.

Lemma thm_keys_preserved_top : forall c, map fst (redact_claims c) = map fst c.
Proof. intros c. exact (map_fst_re_entry sensitive c). Qed.

Lemma thm_keys_preserved_at_any_depth : forall c p ks es,
  walk (JObj c) p = Some (ks, JObj es) -> nonsens sensitive ks = true ->
  exists es', walk (JObj (redact_claims c)) p = Some (ks, JObj es') /\ map fst es' = map fst es /\
              forall i k v, nth_error es i = Some (k, v) -> sensitive k = true -> nth_error es' i = Some (k, redacted).
Proof.
  intros c p ks es H Hns. exists (map (re_entry sensitive) es). split; [| split].
  - exact (walk_redact_fwd sensitive p (JObj c) ks (JObj es) H Hns).
  - apply map_fst_re_entry.
  - intros i k v Hi Hk. rewrite nth_error_map, Hi. cbn [option_map]. unfold re_entry. cbn [fst snd].
    rewrite Hk. reflexivity.
Qed.

Lemma thm_non_sensitive_unchanged : forall c p ks v,
  walk (JObj c) p = Some (ks, v) -> nonsens sensitive ks = true -> clean sensitive v = true ->
  walk (JObj (redact_claims c)) p = Some (ks, v).
Proof.
  intros c p ks v H Hns Hc.
  pose proof (walk_redact_fwd sensitive p (JObj c) ks v H Hns) as Hw.
  rewrite (redact_value_clean sensitive v Hc) in Hw. exact Hw.
Qed.

Lemma thm_clean_claims_verbatim : forall c, clean sensitive (JObj c) = true -> redact_claims c = c.
Proof.
  intros c Hc. pose proof (redact_value_clean sensitive (JObj c) Hc) as H.
  rewrite <- redact_entries_obj in H. inversion H as [H1]. unfold redact_claims, redact_claims_with. rewrite H1. exact H1.
Qed.

Lemma thm_failing_redactor_drops : forall (r : redactor) c,
  (r c = RaisedException -> apply_claim_redaction r c = Some [] /\ emit_claims r c = RecordWithoutClaims) /\
  (r c = RaisedBase -> emit_claims r c = match c with [] => RecordWithoutClaims | _ => NoRecord end) /\
  (forall c', emit_claims r c = RecordWithClaims c' -> r c = Returned c' /\ c <> [] /\ c' <> []).
Proof.
  intros r c. split; [| split].
  - intros H. split; [exact (apply_raised_exception r c H) | exact (emit_raised_exception r c H)].
  - exact (emit_raised_base r c).
  - intros c'. exact (emit_with_claims_inv r c c').
Qed.
