(* Lemmas about model/M_Negotiate.v: string primitives, parse_encoding_list = first occurrences of the known
   entry names, the pick loop = first producible entry of the client's order, announcing header, decoded body. *)
From Coq Require Import List NArith Bool Lia.
From VGI Require Import M_Negotiate.
Import ListNotations.
Open Scope N_scope.

(* ------------------------------------------------------------------ enc *)
Lemma enc_eqb_eq a b : enc_eqb a b = true <-> a = b.
Proof. destruct a, b; simpl; split; intro H; try reflexivity; try discriminate. Qed.
Lemma enc_eqb_refl a : enc_eqb a a = true.
Proof. destruct a; reflexivity. Qed.
Lemma enc_eqb_sym a b : enc_eqb a b = enc_eqb b a.
Proof. destruct a, b; reflexivity. Qed.
Lemma mem_In e l : mem e l = true <-> In e l.
Proof.
  unfold mem. rewrite existsb_exists. split.
  - intros [x [Hi He]]. apply enc_eqb_eq in He. subst. exact Hi.
  - intro Hi. exists e. split; [exact Hi | apply enc_eqb_refl].
Qed.
Lemma mem_false_In e l : mem e l = false <-> ~ In e l.
Proof.
  rewrite <- mem_In. destruct (mem e l); split; intro H.
  - discriminate.
  - exfalso; apply H; reflexivity.
  - intro H'; discriminate.
  - reflexivity.
Qed.
Lemma str_eqb_eq a b : str_eqb a b = true <-> a = b.
Proof.
  revert b; induction a as [|x r IH]; intros [|y q]; simpl; split; intro H; try reflexivity; try discriminate.
  - apply andb_true_iff in H as [H1 H2]. apply N.eqb_eq in H1. apply IH in H2. subst; reflexivity.
  - inversion H; subst. apply andb_true_iff; split; [apply N.eqb_refl | apply IH; reflexivity].
Qed.
Lemma str_eqb_refl a : str_eqb a a = true.
Proof. apply str_eqb_eq; reflexivity. Qed.
Lemma str_eqb_value a b : str_eqb (enc_value a) (enc_value b) = enc_eqb a b.
Proof. destruct a, b; reflexivity. Qed.
Lemma enc_value_inj a b : enc_value a = enc_value b -> a = b.
Proof. intro H. apply enc_eqb_eq. rewrite <- str_eqb_value. apply str_eqb_eq. exact H. Qed.
Lemma in_all_enc e : In e all_enc.
Proof. destruct e; simpl; auto. Qed.

(* ------------------------------------------------------------------ characters *)
Ltac nospace :=
  unfold is_space; repeat (apply orb_false_intro);
  first [ apply N.eqb_neq; lia
        | apply andb_false_iff; first [ left; apply N.leb_gt; lia | right; apply N.leb_gt; lia ] ].

Lemma is_space_letters d : 59 <= d <= 122 -> is_space d = false.
Proof. intro H. nospace. Qed.
(* the white-space table ends at U+3000 (used by the run-time comparison with str.isspace) *)
Lemma is_space_bound c : 12288 < c -> is_space c = false.
Proof. intro H. nospace. Qed.
Lemma is_space_semi : is_space semi = false.
Proof. reflexivity. Qed.
Lemma is_space_lower c : is_space (lower_c c) = is_space c.
Proof.
  unfold lower_c. destruct ((65 <=? c) && (c <=? 90)) eqn:E; [|reflexivity].
  apply andb_true_iff in E as [E1 E2]. apply N.leb_le in E1. apply N.leb_le in E2.
  rewrite !is_space_letters by lia. reflexivity.
Qed.
Lemma lower_c_semi c : (lower_c c =? semi) = (c =? semi).
Proof.
  unfold lower_c, semi. destruct ((65 <=? c) && (c <=? 90)) eqn:E; [|reflexivity].
  apply andb_true_iff in E as [E1 E2]. apply N.leb_le in E1. apply N.leb_le in E2.
  destruct (N.eqb_spec (c + 32) 59); destruct (N.eqb_spec c 59); try lia; reflexivity.
Qed.

(* ------------------------------------------------------------------ strip / lower / take_until *)
Lemma lstrip_lower s : lstrip (lower s) = lower (lstrip s).
Proof.
  induction s as [|c r IH]; [reflexivity|].
  cbn [lower map lstrip]. rewrite is_space_lower. destruct (is_space c); [exact IH | reflexivity].
Qed.
Lemma rstrip_lower s : rstrip (lower s) = lower (rstrip s).
Proof.
  induction s as [|c r IH]; [reflexivity|].
  cbn [lower map rstrip]. fold (lower r). rewrite IH. destruct (rstrip r) as [|x r'].
  - cbn [lower map]. rewrite is_space_lower. destruct (is_space c); reflexivity.
  - reflexivity.
Qed.
Lemma strip_lower s : strip (lower s) = lower (strip s).
Proof. unfold strip. rewrite lstrip_lower, rstrip_lower. reflexivity. Qed.
Lemma take_until_lower s : take_until semi (lower s) = lower (take_until semi s).
Proof.
  induction s as [|c r IH]; [reflexivity|].
  cbn [lower map take_until]. rewrite lower_c_semi. destruct (c =? semi); [reflexivity|].
  cbn [lower map]. fold (lower r). rewrite IH. reflexivity.
Qed.
Lemma take_until_nohas d s : has d s = false -> take_until d s = s.
Proof.
  induction s as [|c r IH]; [reflexivity|]. unfold has. cbn [existsb take_until]. intro H.
  apply orb_false_iff in H as [H1 H2]. rewrite N.eqb_sym, H1. f_equal. apply IH. exact H2.
Qed.
Lemma rstrip_idem s : rstrip (rstrip s) = rstrip s.
Proof.
  induction s as [|c r IH]; [reflexivity|]. cbn [rstrip].
  destruct (rstrip r) as [|x r'] eqn:E.
  - destruct (is_space c) eqn:S; [reflexivity|]. cbn [rstrip]. rewrite S. reflexivity.
  - cbn [rstrip]. cbn [rstrip] in IH. rewrite IH. reflexivity.
Qed.
Lemma lstrip_head s : lstrip s = [] \/ exists c r, lstrip s = c :: r /\ is_space c = false.
Proof.
  induction s as [|c r IH]; [left; reflexivity|]. cbn [lstrip].
  destruct (is_space c) eqn:S; [exact IH|]. right. exists c, r. split; [reflexivity | exact S].
Qed.
Lemma rstrip_cons_nonspace c r : is_space c = false -> exists r', rstrip (c :: r) = c :: r'.
Proof.
  intro S. cbn [rstrip]. destruct (rstrip r) as [|x r'].
  - rewrite S. exists []. reflexivity.
  - exists (x :: r'). reflexivity.
Qed.
Lemma lstrip_rstrip_lstrip s : lstrip (rstrip (lstrip s)) = rstrip (lstrip s).
Proof.
  destruct (lstrip_head s) as [H | (c & r & H & S)]; rewrite H; [reflexivity|].
  destruct (rstrip_cons_nonspace c r S) as [r' Hr]. rewrite Hr. cbn [lstrip]. rewrite S. reflexivity.
Qed.
Lemma strip_idem s : strip (strip s) = strip s.
Proof. unfold strip. rewrite lstrip_rstrip_lstrip, rstrip_idem. reflexivity. Qed.
Lemma lstrip_take_until s : lstrip (take_until semi s) = take_until semi (lstrip s).
Proof.
  induction s as [|c r IH]; [reflexivity|]. cbn [take_until lstrip].
  destruct (c =? semi) eqn:E.
  - apply N.eqb_eq in E. subst c. rewrite is_space_semi. cbn [take_until]. rewrite N.eqb_refl. reflexivity.
  - cbn [lstrip]. destruct (is_space c); [exact IH|]. cbn [take_until]. rewrite E. reflexivity.
Qed.
Lemma rstrip_take_until x : rstrip (take_until semi (rstrip x)) = rstrip (take_until semi x).
Proof.
  induction x as [|c r IH]; [reflexivity|].
  destruct (c =? semi) eqn:E.
  - assert (S : is_space c = false) by (apply N.eqb_eq in E; subst c; reflexivity).
    destruct (rstrip_cons_nonspace c r S) as [r' Hr]. rewrite Hr. cbn [take_until]. rewrite E. reflexivity.
  - cbn [rstrip take_until]. rewrite E. destruct (rstrip r) as [|y r'] eqn:Er.
    + cbn [take_until rstrip] in IH.
      destruct (is_space c) eqn:S.
      * cbn [take_until rstrip]. rewrite <- IH, S. reflexivity.
      * cbn [take_until]. rewrite E. cbn [take_until rstrip]. rewrite <- IH, S. reflexivity.
    + remember (y :: r') as z eqn:Hz. cbn [take_until]. rewrite E. cbn [rstrip]. rewrite IH. reflexivity.
Qed.
Lemma strip_take_strip s : strip (take_until semi (strip s)) = strip (take_until semi s).
Proof.
  unfold strip. rewrite lstrip_take_until, lstrip_rstrip_lstrip, rstrip_take_until, <- lstrip_take_until. reflexivity.
Qed.

(* ------------------------------------------------------------------ tokens *)
Lemma lower_nil s : lower s = [] -> s = [].
Proof. destruct s; [reflexivity | discriminate]. Qed.
Lemma norm_token_none raw : norm_token raw = None -> entry_name raw = [].
Proof.
  unfold norm_token, entry_name. destruct (lower (strip raw)) eqn:E; [|discriminate]. intros _.
  apply lower_nil in E. rewrite <- strip_take_strip, E. reflexivity.
Qed.
Lemma some_inj {A} (a b : A) : Some a = Some b -> a = b.
Proof. intro H. injection H. auto. Qed.
Lemma norm_token_cases raw :
  (norm_token raw = None /\ lower (strip raw) = []) \/
  norm_token raw = Some (if has semi (lower (strip raw)) then strip (take_until semi (lower (strip raw))) else lower (strip raw)).
Proof. unfold norm_token. destruct (lower (strip raw)); [left | right]; auto. Qed.
Lemma norm_token_some raw tok : norm_token raw = Some tok -> tok = entry_name raw.
Proof.
  intro H0. destruct (norm_token_cases raw) as [[Hn _]|Hs]; [congruence|]. rewrite Hs in H0. apply some_inj in H0.
  unfold entry_name.
  assert (Ht : tok = strip (take_until semi (lower (strip raw)))).
  { destruct (has semi (lower (strip raw))) eqn:Hh; [symmetry; exact H0|].
    rewrite (take_until_nohas _ _ Hh). rewrite <- strip_lower, strip_idem, strip_lower. symmetry; exact H0. }
  rewrite Ht, take_until_lower, strip_lower, strip_take_strip. reflexivity.
Qed.
Lemma enc_of_name_some n e : enc_of_name n = Some e -> n = enc_value e.
Proof. unfold enc_of_name. intro H. apply find_some in H as [_ H]. apply str_eqb_eq in H. symmetry; exact H. Qed.
Lemma enc_of_name_value e : enc_of_name (enc_value e) = Some e.
Proof. destruct e; reflexivity. Qed.
Lemma enc_of_name_none n : enc_of_name n = None -> forall e, str_eqb (enc_value e) n = false.
Proof. unfold enc_of_name. intros H e. exact (find_none _ _ H e (in_all_enc e)). Qed.
Lemma match_enc_spec tok out :
  match_enc tok out = match enc_of_name tok with Some e => if mem e out then None else Some e | None => None end.
Proof.
  destruct (enc_of_name tok) as [e|] eqn:E.
  - apply enc_of_name_some in E. subst tok. unfold match_enc, all_enc. cbn [find]. rewrite !str_eqb_value.
    destruct e; cbn [enc_eqb andb]; destruct (mem _ out); reflexivity.
  - pose proof (enc_of_name_none _ E) as H. unfold match_enc, all_enc. cbn [find].
    rewrite (H Zstd), (H Gzip), (H Identity). reflexivity.
Qed.

(* ------------------------------------------------------------------ parse_encoding_list *)
Lemma known_names_app a b : known_names (a ++ b) = known_names a ++ known_names b.
Proof. unfold known_names. apply flat_map_app. Qed.
Lemma parse_loop_spec raws : forall out, parse_loop raws out = add_new out (known_names (map entry_name raws)).
Proof.
  induction raws as [|raw r IH]; intro out; [reflexivity|].
  cbn [parse_loop map]. change (known_names (entry_name raw :: map entry_name r))
    with ((match enc_of_name (entry_name raw) with Some e => [e] | None => [] end) ++ known_names (map entry_name r)).
  destruct (norm_token raw) as [tok|] eqn:En.
  - apply norm_token_some in En. subst tok. rewrite match_enc_spec.
    destruct (enc_of_name (entry_name raw)) as [e|] eqn:Ee.
    + cbn [app add_new]. destruct (mem e out); apply IH.
    + cbn [app]. apply IH.
  - apply norm_token_none in En. rewrite En. cbn [app]. apply IH.
Qed.
Lemma parse_is_entries h : parse_encoding_list (hdr h) = add_new [] (known_names (entries h)).
Proof. unfold parse_encoding_list, entries. apply parse_loop_spec. Qed.

Lemma in_add_new x l : forall out, In x (add_new out l) <-> In x out \/ In x l.
Proof.
  induction l as [|a r IH]; intro out; cbn [add_new].
  - simpl. tauto.
  - destruct (mem a out) eqn:M.
    + rewrite IH. apply mem_In in M. simpl. split; [tauto|]. intros [H|[H|H]]; auto. subst; auto.
    + rewrite IH, in_app_iff. simpl. tauto.
Qed.
Lemma in_known_names e ns : In e (known_names ns) <-> In (enc_value e) ns.
Proof.
  induction ns as [|n r IH]; [simpl; tauto|].
  change (known_names (n :: r)) with ((match enc_of_name n with Some e => [e] | None => [] end) ++ known_names r).
  rewrite in_app_iff, IH. destruct (enc_of_name n) as [e0|] eqn:E.
  - apply enc_of_name_some in E. subst n. simpl. split.
    + intros [[H|[]]|H]; [left; subst; reflexivity | right; exact H].
    + intros [H|H]; [left; left; apply enc_value_inj; exact H | right; exact H].
  - simpl. split; [tauto|]. intros [H|H]; [|tauto]. subst n. rewrite enc_of_name_value in E. discriminate.
Qed.
Lemma in_parse e h : In e (parse_encoding_list (hdr h)) <-> In (enc_value e) (entries h).
Proof. rewrite parse_is_entries, in_add_new, in_known_names. simpl. tauto. Qed.
Lemma existsb_name_In e ns : existsb (str_eqb (enc_value e)) ns = true <-> In (enc_value e) ns.
Proof.
  rewrite existsb_exists. split.
  - intros [x [Hi Hx]]. apply str_eqb_eq in Hx. subst. exact Hi.
  - intro H. exists (enc_value e). split; [exact H | apply str_eqb_refl].
Qed.
Lemma mem_parse e h : mem e (parse_encoding_list (hdr h)) = existsb (str_eqb (enc_value e)) (entries h).
Proof.
  destruct (mem e (parse_encoding_list (hdr h))) eqn:M; symmetry.
  - apply existsb_name_In, in_parse, mem_In. exact M.
  - destruct (existsb (str_eqb (enc_value e)) (entries h)) eqn:X; [|reflexivity].
    apply existsb_name_In, in_parse, mem_In in X. congruence.
Qed.

(* ------------------------------------------------------------------ find *)
Lemma find_app {A} (p : A -> bool) a b :
  find p (a ++ b) = match find p a with Some x => Some x | None => find p b end.
Proof. induction a as [|x r IH]; simpl; [reflexivity|]. destruct (p x); [reflexivity | exact IH]. Qed.
Lemma find_add_new p l : forall out, find p (add_new out l) = find p (out ++ l).
Proof.
  induction l as [|a r IH]; intro out; cbn [add_new].
  - rewrite app_nil_r. reflexivity.
  - destruct (mem a out) eqn:M.
    + rewrite IH, !find_app. destruct (find p out) eqn:F; [reflexivity|].
      apply mem_In in M. simpl. rewrite (find_none _ _ F _ M). reflexivity.
    + rewrite IH, <- app_assoc. reflexivity.
Qed.
Lemma find_filter_notin p C S : find p (C ++ filter (fun e => negb (mem e C)) S) = find p (C ++ S).
Proof.
  rewrite !find_app. destruct (find p C) eqn:F; [reflexivity|].
  induction S as [|a r IH]; [reflexivity|]. cbn [filter find].
  destruct (mem a C) eqn:M; cbn [negb].
  - apply mem_In in M. rewrite (find_none _ _ F _ M). exact IH.
  - cbn [find]. destruct (p a); [reflexivity | exact IH].
Qed.
Lemma find_some_split {A} (p : A -> bool) l x :
  find p l = Some x <-> exists pre post, l = pre ++ x :: post /\ forallb (fun y => negb (p y)) pre = true /\ p x = true.
Proof.
  split.
  - induction l as [|a r IH]; [discriminate|]. simpl. destruct (p a) eqn:Pa.
    + intro H. injection H as <-. exists [], r. simpl. auto.
    + intro H. destruct (IH H) as (pre & post & -> & Hp & Hx). exists (a :: pre), post. simpl. rewrite Pa. auto.
  - intros (pre & post & -> & Hp & Hx). induction pre as [|a r IH]; simpl.
    + rewrite Hx. reflexivity.
    + simpl in Hp. apply andb_true_iff in Hp as [Ha Hr]. apply negb_true_iff in Ha. rewrite Ha. apply IH. exact Hr.
Qed.
Lemma find_none_iff {A} (p : A -> bool) l : find p l = None <-> forall y, In y l -> p y = false.
Proof.
  split; [apply find_none|]. induction l as [|a r IH]; [reflexivity|]. intro H. simpl.
  rewrite (H a (or_introl eq_refl)). apply IH. intros y Hy. apply H. right; exact Hy.
Qed.

(* ------------------------------------------------------------------ the pick loop *)
Definition q (L : list enc) (e : enc) : bool := enc_eqb e Identity || mem e L.
Definition sel (o : option enc) : option enc :=
  match o with Some e => if enc_eqb e Identity then None else Some e | None => None end.

Lemma pick_loop_fst L C S l : fst (pick_loop L C S l) = sel (find (q L) l).
Proof.
  induction l as [|a r IH]; [reflexivity|]. cbn [pick_loop find]. unfold q at 1.
  destruct (enc_eqb a Identity) eqn:E1; cbn [orb].
  - cbn [fst sel]. rewrite E1. reflexivity.
  - destruct (mem a L) eqn:E2; [cbn [fst sel]; rewrite E1; reflexivity | exact IH].
Qed.
Lemma levels_not_identity cfg : mem Identity (levels_of cfg) = false.
Proof.
  apply mem_false_In. unfold levels_of. intro H. apply filter_In in H as [_ H]. discriminate.
Qed.
Lemma levels_zstd_gzip cfg e : mem e (levels_of cfg) = true -> e = Zstd \/ e = Gzip.
Proof.
  intro H. destruct e; auto. rewrite levels_not_identity in H. discriminate.
Qed.
Lemma producible_value cfg e : producible cfg (enc_value e) = q (levels_of cfg) e.
Proof.
  unfold producible, q, identity_name. rewrite str_eqb_value, (enc_eqb_sym Identity e). f_equal.
  unfold mem. induction (levels_of cfg) as [|a r IH]; [reflexivity|]. simpl.
  rewrite str_eqb_value, (enc_eqb_sym a e), IH. reflexivity.
Qed.
Lemma producible_unknown cfg n : enc_of_name n = None -> producible cfg n = false.
Proof.
  intro E. pose proof (enc_of_name_none _ E) as H. unfold producible, identity_name. rewrite (H Identity). simpl.
  induction (levels_of cfg) as [|a r IH]; [reflexivity|]. simpl. rewrite (H a). exact IH.
Qed.
Lemma sel_find_names cfg ns :
  sel (find (q (levels_of cfg)) (known_names ns)) =
  match find (producible cfg) ns with Some n => coding_of_name n | None => None end.
Proof.
  induction ns as [|n r IH]; [reflexivity|].
  change (known_names (n :: r)) with ((match enc_of_name n with Some e => [e] | None => [] end) ++ known_names r).
  cbn [find]. destruct (enc_of_name n) as [e|] eqn:E.
  - apply enc_of_name_some in E. subst n. cbn [app find]. rewrite producible_value.
    destruct (q (levels_of cfg) e); [|exact IH]. destruct e; reflexivity.
  - rewrite (producible_unknown _ _ E). cbn [app]. exact IH.
Qed.

Lemma choice_is_find cfg std cus :
  fst (pick cfg std cus) =
  match find (producible cfg) (client_order std cus) with Some n => coding_of_name n | None => None end.
Proof.
  unfold pick, pick_lists, client_order. rewrite pick_loop_fst, find_filter_notin, !parse_is_entries.
  rewrite <- sel_find_names, known_names_app. f_equal.
  rewrite !find_app, !find_add_new. reflexivity.
Qed.

Lemma coding_of_name_some n e : coding_of_name n = Some e -> n = enc_value e /\ e <> Identity.
Proof.
  unfold coding_of_name. intro H. apply find_some in H as [Hi H]. apply str_eqb_eq in H. split; [symmetry; exact H|].
  simpl in Hi. intro; subst. destruct Hi as [Hi|[Hi|[]]]; discriminate.
Qed.
Lemma coding_of_name_value e : e <> Identity -> coding_of_name (enc_value e) = Some e.
Proof. destruct e; intro H; try reflexivity. congruence. Qed.
Lemma producible_identity cfg : producible cfg identity_name = true.
Proof. unfold producible. rewrite str_eqb_refl. reflexivity. Qed.

Lemma first_producible cfg std cus e :
  fst (pick cfg std cus) = Some e <->
  exists pre post, client_order std cus = pre ++ enc_value e :: post /\
                   forallb (fun n => negb (producible cfg n)) pre = true /\ mem e (levels_of cfg) = true.
Proof.
  rewrite choice_is_find. split.
  - destruct (find (producible cfg) (client_order std cus)) as [n|] eqn:F; [|discriminate]. intro H.
    apply coding_of_name_some in H as [-> Hid]. apply find_some_split in F as (pre & post & Ho & Hp & Hx).
    exists pre, post. split; [exact Ho|]. split; [exact Hp|].
    rewrite producible_value in Hx. unfold q in Hx. apply orb_true_iff in Hx as [Hx|Hx]; [|exact Hx].
    apply enc_eqb_eq in Hx. congruence.
  - intros (pre & post & Ho & Hp & Hm).
    assert (F : find (producible cfg) (client_order std cus) = Some (enc_value e)).
    { apply find_some_split. exists pre, post. split; [exact Ho|]. split; [exact Hp|].
      rewrite producible_value. unfold q. rewrite Hm. apply orb_true_r. }
    rewrite F. apply coding_of_name_value. intro; subst. rewrite levels_not_identity in Hm. discriminate.
Qed.

Lemma none_iff cfg std cus :
  fst (pick cfg std cus) = None <->
  (forall n, In n (client_order std cus) -> producible cfg n = false) \/
  (exists pre post, client_order std cus = pre ++ identity_name :: post /\
                    forallb (fun n => negb (producible cfg n)) pre = true).
Proof.
  rewrite choice_is_find. split.
  - destruct (find (producible cfg) (client_order std cus)) as [n|] eqn:F.
    + intro H. right. apply find_some_split in F as (pre & post & Ho & Hp & Hx).
      exists pre, post. split; [|exact Hp]. rewrite Ho. f_equal. f_equal.
      destruct (enc_of_name n) as [e|] eqn:E.
      * apply enc_of_name_some in E. subst n. destruct e; try reflexivity; discriminate.
      * rewrite (producible_unknown _ _ E) in Hx. discriminate.
    + intros _. left. apply find_none_iff. exact F.
  - intros [H|(pre & post & Ho & Hp)].
    + apply find_none_iff in H. rewrite H. reflexivity.
    + assert (F : find (producible cfg) (client_order std cus) = Some identity_name).
      { apply find_some_split. exists pre, post. split; [exact Ho|]. split; [exact Hp|]. apply producible_identity. }
      rewrite F. reflexivity.
Qed.

(* the VGI header alone decides whenever it holds a producible entry *)
Lemma vgi_precedence cfg std cus n :
  find (producible cfg) (entries cus) = Some n -> fst (pick cfg std cus) = coding_of_name n.
Proof. intro H. rewrite choice_is_find. unfold client_order. rewrite find_app, H. reflexivity. Qed.
Lemma vgi_precedence_indep cfg std std' cus n :
  find (producible cfg) (entries cus) = Some n -> fst (pick cfg std cus) = fst (pick cfg std' cus).
Proof. intro H. rewrite (vgi_precedence _ std _ _ H), (vgi_precedence _ std' _ _ H). reflexivity. Qed.

(* ------------------------------------------------------------------ announcing header *)
Lemma pick_loop_some L C S l e b :
  pick_loop L C S l = (Some e, b) -> b = mem e C && negb (mem e S) /\ In e l /\ mem e L = true.
Proof.
  induction l as [|a r IH]; cbn [pick_loop]; [discriminate|].
  destruct (enc_eqb a Identity); [discriminate|]. destruct (mem a L) eqn:M.
  - intro H. injection H as <- <-. split; [reflexivity|]. split; [left; reflexivity | exact M].
  - intro H. destruct (IH H) as (Hb & Hi & Hm). split; [exact Hb|]. split; [right; exact Hi | exact Hm].
Qed.
Lemma pick_some cfg std cus e b :
  pick cfg std cus = (Some e, b) ->
  b = negb (existsb (str_eqb (enc_value e)) (entries std)) /\
  (b = true -> In (enc_value e) (entries cus)) /\
  mem e (levels_of cfg) = true.
Proof.
  unfold pick, pick_lists. intro H. apply pick_loop_some in H as (Hb & Hi & Hm).
  rewrite !mem_parse in Hb. split; [|split; [|exact Hm]].
  - destruct (existsb (str_eqb (enc_value e)) (entries std)) eqn:Xs; cbn [negb] in *.
    + rewrite andb_false_r in Hb. exact Hb.
    + rewrite andb_true_r in Hb. rewrite Hb.
      apply in_app_iff in Hi as [Hi|Hi].
      * apply in_parse, existsb_name_In in Hi. exact Hi.
      * apply filter_In in Hi as [Hi _]. apply in_parse, existsb_name_In in Hi. congruence.
  - intro Hbt. rewrite Hbt in Hb. symmetry in Hb. apply andb_true_iff in Hb as [Hb _]. apply existsb_name_In. exact Hb.
Qed.
Lemma response_codec_levels cfg e : mem e (levels_of cfg) = true -> response_codec (Some e) = Some e.
Proof. intro H. destruct (levels_zstd_gzip _ _ H); subst; reflexivity. Qed.

Lemma respond_applied cfg std cus r :
  r_arrow r = true -> r_iobase r = true -> r_plain r <> [] ->
  respond cfg std cus r =
  match fst (pick cfg std cus) with
  | None => (NoHeader, Plain (r_plain r))
  | Some e => (if existsb (str_eqb (enc_value e)) (entries std) then ContentEncoding e else XVgiContentEncoding e,
               if r_owns r then ByProducer e (r_plain r) else ByMiddleware e (r_plain r))
  end.
Proof.
  intros Ha Hi Hp. unfold respond. destruct (pick cfg std cus) as [[e|] b] eqn:P; cbn [fst].
  - apply pick_some in P as (Hb & _ & Hm). rewrite (response_codec_levels _ _ Hm).
    unfold produce, process_response. rewrite Ha, Hi. cbn [negb].
    assert (Hn : is_nil (r_plain r) = false) by (destruct (r_plain r); [congruence | reflexivity]).
    unfold stamp. rewrite Hb.
    destruct (r_owns r); destruct (existsb (str_eqb (enc_value e)) (entries std)); cbn [negb]; try reflexivity;
      rewrite Hn; destruct (levels_zstd_gzip _ _ Hm); subst; reflexivity.
  - unfold response_codec, produce, process_response. destruct (r_owns r); reflexivity.
Qed.

Lemma header_matches cfg std cus r :
  match fst (respond cfg std cus r) with
  | NoHeader => True
  | ContentEncoding e => fst (pick cfg std cus) = Some e /\ In (enc_value e) (entries std)
  | XVgiContentEncoding e =>
      fst (pick cfg std cus) = Some e /\ In (enc_value e) (entries cus) /\ ~ In (enc_value e) (entries std)
  end.
Proof.
  unfold respond. destruct (pick cfg std cus) as [[e|] b] eqn:P; cbn [fst].
  - apply pick_some in P as (Hb & Hc & Hm).
    assert (St : match stamp b e with
                 | NoHeader => True
                 | ContentEncoding e' => Some e = Some e' /\ In (enc_value e') (entries std)
                 | XVgiContentEncoding e' => Some e = Some e' /\ In (enc_value e') (entries cus) /\ ~ In (enc_value e') (entries std)
                 end).
    { unfold stamp. destruct b.
      - split; [reflexivity|]. split; [apply Hc; reflexivity|]. intro Hin. apply existsb_name_In in Hin. rewrite Hin in Hb. discriminate.
      - split; [reflexivity|]. apply existsb_name_In. destruct (existsb (str_eqb (enc_value e)) (entries std)); [reflexivity | discriminate]. }
    unfold process_response. destruct (produce (response_codec (Some e)) r) as [bd pre].
    destruct (negb (r_arrow r)); [exact I|]. destruct pre; [exact St|].
    destruct (negb (r_iobase r)); [exact I|]. destruct (is_nil (r_plain r)); [exact I|].
    destruct e; try exact St. exact I.
  - unfold process_response. destruct (produce (response_codec None) r). exact I.
Qed.

(* ------------------------------------------------------------------ decoded body *)
Section Body.
  (* the codecs: the middleware's compressors, Arrow's stream codec, and the client's decoder *)
  Variable comp_mw comp_arrow decomp : enc -> list N -> list N.
  Hypothesis decomp_mw : forall e b, e <> Identity -> decomp e (comp_mw e b) = b.
  Hypothesis decomp_arrow : forall e b, e <> Identity -> decomp e (comp_arrow e b) = b.

  Definition wire (b : body) : list N :=
    match b with Plain x => x | ByMiddleware e x => comp_mw e x | ByProducer e x => comp_arrow e x end.
  (* what the client sees: it undoes the coding the header announces, nothing otherwise *)
  Definition client_sees (resp : announce * body) : list N :=
    match fst resp with
    | NoHeader => wire (snd resp)
    | ContentEncoding e | XVgiContentEncoding e => decomp e (wire (snd resp))
    end.

  Lemma decoded_body_same cfg std cus r :
    (r_owns r = true -> r_arrow r = true) ->
    client_sees (respond cfg std cus r) = r_plain r.
  Proof.
    intro Hown. unfold respond. destruct (pick cfg std cus) as [[e|] b] eqn:P.
    - apply pick_some in P as (_ & _ & Hm). rewrite (response_codec_levels _ _ Hm).
      assert (Hid : e <> Identity) by (intro; subst; rewrite levels_not_identity in Hm; discriminate).
      unfold produce, process_response, client_sees, stamp.
      destruct (r_owns r) eqn:Ho.
      + rewrite (Hown eq_refl). cbn [negb fst snd]. destruct b; cbn [fst snd wire]; apply decomp_arrow; exact Hid.
      + destruct (negb (r_arrow r)); [reflexivity|]. destruct (negb (r_iobase r)); [reflexivity|].
        destruct (is_nil (r_plain r)); [reflexivity|].
        destruct e; try congruence; destruct b; cbn [fst snd wire]; apply decomp_mw; exact Hid.
    - unfold response_codec, produce, process_response, client_sees. destruct (r_owns r); reflexivity.
  Qed.
End Body.
