(* Invariants of the serve-start model (model/M_ServeStart.v) for every schedule, and the theorems of C42 that
   do not need the phase argument (that one is in L_ServeStartPhase.v). *)
From Coq Require Import List NArith Bool Arith Lia.
From VGI Require Import M_ServeStart.
Import ListNotations.

(* ---- basic facts ------------------------------------------------------------------------------- *)
Lemma kind_eqb_eq : forall a b, kind_eqb a b = true <-> a = b.
Proof. intros [] []; simpl; split; intro H; try reflexivity; try discriminate. Qed.
Lemma okind_eqb_eq : forall a b, okind_eqb a b = true <-> a = b.
Proof.
  intros [a|] [b|]; simpl; split; intro H; try reflexivity; try discriminate.
  - apply kind_eqb_eq in H. subst. reflexivity.
  - inversion H. apply kind_eqb_eq. reflexivity.
Qed.
Lemma bool_eqb_eq : forall a b, Bool.eqb a b = true <-> a = b.
Proof. intros [] []; simpl; split; intro H; try reflexivity; try discriminate. Qed.
Lemma recorded_eqb_true : forall s b, recorded_eqb s b = true <-> (skind s = Some (fst b) /\ scaps s = snd b).
Proof.
  intros s b. unfold recorded_eqb. rewrite andb_true_iff, okind_eqb_eq, bool_eqb_eq. tauto.
Qed.
Lemma recorded_spec : forall s b, recorded s = Some b <-> (skind s = Some (fst b) /\ scaps s = snd b).
Proof.
  intros s [k c]. unfold recorded. simpl. destruct (skind s) as [k'|]; split.
  - intro H. inversion H. subst. auto.
  - intros [H1 H2]. inversion H1. subst. reflexivity.
  - discriminate.
  - intros [H1 _]. discriminate.
Qed.
Lemma upd_same : forall f t x, upd f t x t = x.
Proof. intros. unfold upd. rewrite Nat.eqb_refl. reflexivity. Qed.
Lemma upd_other : forall f t x i, i <> t -> upd f t x i = f i.
Proof. intros. unfold upd. destruct (Nat.eqb_spec i t); [contradiction | reflexivity]. Qed.

Lemma via_binding_http_caps : forall v, fst (via_binding v) = KHttp -> via_binding v = http_binding.
Proof. intros [|[]]; simpl; intro H; try discriminate; reflexivity. Qed.

Definition pc_of (th : thr) : option pc := match tjobs th with [] => None | _ :: _ => Some (tpc th) end.
Definition bind_of (th : thr) : option binding := match tjobs th with [] => None | j :: _ => Some (job_binding j) end.
Definition crit (p : pc) : bool :=
  match p with PCmp | PHook | PCommitK | PCommitC | PRel _ => true | _ => false end.
(* the thread found the binding different / its hook raised: the binding is not the recorded one *)
Definition unbound_pc (p : pc) : bool := match p with PHook | PRel false => true | _ => false end.
Lemma unbound_crit : forall p, unbound_pc p = true -> crit p = true.
Proof. intros [ | | | | | |[]| ]; simpl; intro H; try discriminate; reflexivity. Qed.
Definition in_crit (th : thr) : bool := match pc_of th with Some p => crit p | None => false end.

Definition pending (s : st) : option (nat * binding) :=
  match slock s with
  | Some t => match pc_of (sthreads s t), bind_of (sthreads s t) with
              | Some PCommitK, Some b => Some (t, b)
              | _, _ => None
              end
  | None => None
  end.
Definition caps_of (o : option binding) : bool := match o with Some b => snd b | None => false end.

Record Inv (s : st) : Prop := {
  I_L : forall i, in_crit (sthreads s i) = true <-> slock s = Some i;
  I_W : forall i j rest, tjobs (sthreads s i) = j :: rest -> tpc (sthreads s i) = PPre -> jvia j = VHttp;
  I_H : hclog (filter is_hc (strace s)) (last_commit (strace s)) (pending s);
  I_K : skind s = option_map fst (last_commit (strace s));
  I_C1 : (forall i, pc_of (sthreads s i) <> Some PCommitC) -> scaps s = caps_of (last_commit (strace s));
  I_C2 : forall i, pc_of (sthreads s i) = Some PCommitC -> last_commit (strace s) = bind_of (sthreads s i);
  I_Hk : forall i p, pc_of (sthreads s i) = Some p -> unbound_pc p = true -> last_commit (strace s) <> bind_of (sthreads s i);
  I_B : forall b, last_commit (strace s) = Some b -> exists v, b = via_binding v
}.

Lemma pc_of_next_thr : forall rest, in_crit (next_thr rest) = false.
Proof.
  intros [|j rest]; unfold in_crit, pc_of, next_thr; simpl; [reflexivity|].
  unfold start_pc. destruct (jvia j); reflexivity.
Qed.
Lemma in_crit_after_entry : forall j rest, in_crit (after_entry j rest) = false.
Proof.
  intros j rest. unfold after_entry. destruct (jn j); [apply pc_of_next_thr | reflexivity].
Qed.
Lemma pc_of_next_thr_cases : forall rest p, pc_of (next_thr rest) = Some p -> p = PPre \/ p = PAcq.
Proof.
  intros [|j rest] p; unfold pc_of, next_thr; simpl; [discriminate|].
  unfold start_pc. destruct (jvia j); intro H; inversion H; auto.
Qed.
Lemma pc_of_after_entry_cases : forall j rest p, pc_of (after_entry j rest) = Some p -> p = PPre \/ p = PAcq \/ exists m, p = PDisp m.
Proof.
  intros j rest p. unfold after_entry. destruct (jn j) as [|m].
  - intro H. apply pc_of_next_thr_cases in H. tauto.
  - unfold pc_of; simpl. intro H. inversion H. right. right. eauto.
Qed.
Lemma next_thr_W : forall rest j r, tjobs (next_thr rest) = j :: r -> tpc (next_thr rest) = PPre -> jvia j = VHttp.
Proof.
  intros [|j0 rest] j r; unfold next_thr; simpl; [discriminate|].
  intros H. inversion H; subst. unfold start_pc. destruct (jvia j); [reflexivity | discriminate].
Qed.
Lemma after_entry_W : forall j0 rest j r, tjobs (after_entry j0 rest) = j :: r -> tpc (after_entry j0 rest) = PPre -> jvia j = VHttp.
Proof.
  intros j0 rest j r. unfold after_entry. destruct (jn j0).
  - apply next_thr_W.
  - simpl. intros _ H. discriminate.
Qed.

Lemma init_Inv : forall cfg, Inv (init cfg).
Proof.
  intro cfg. constructor; unfold init; cbn [skind scaps slock snhook sthreads strace].
  - intro i. rewrite (match nth_error cfg i as o return in_crit (match o with Some jobs => next_thr jobs | None => next_thr [] end) = false with Some _ => pc_of_next_thr _ | None => pc_of_next_thr _ end).
    split; discriminate.
  - intros i j rest. destruct (nth_error cfg i); apply next_thr_W.
  - unfold pending; simpl. constructor.
  - reflexivity.
  - reflexivity.
  - intros i H. exfalso. destruct (nth_error cfg i); apply pc_of_next_thr_cases in H; destruct H; discriminate.
  - intros i p H Hu. exfalso. destruct (nth_error cfg i); apply pc_of_next_thr_cases in H; destruct H; subst; discriminate.
  - simpl. discriminate.
Qed.

Section Proofs.
  Variable guard : option kind -> bool.
  Variable hookf : nat -> kind -> bool.
  Notation step := (M_ServeStart.step guard hookf).
  Notation run_from := (M_ServeStart.run_from guard hookf).

  (* uniqueness of the thread inside the critical section *)
  Lemma crit_unique : forall s i k, Inv s -> in_crit (sthreads s i) = true -> in_crit (sthreads s k) = true -> i = k.
  Proof.
    intros s i k HI Hi Hk. apply (I_L s HI) in Hi. apply (I_L s HI) in Hk. congruence.
  Qed.

  Lemma in_crit_of : forall th p, pc_of th = Some p -> crit p = true -> in_crit th = true.
  Proof. intros th p H Hc. unfold in_crit. rewrite H. exact Hc. Qed.

  Lemma pc_of_head : forall th j rest p, tjobs th = j :: rest -> tpc th = p -> pc_of th = Some p.
  Proof. intros th j rest p H1 H2. unfold pc_of. rewrite H1, H2. reflexivity. Qed.
  Lemma bind_of_head : forall th j rest, tjobs th = j :: rest -> bind_of th = Some (job_binding j).
  Proof. intros th j rest H1. unfold bind_of. rewrite H1. reflexivity. Qed.
  Lemma pc_of_goto : forall th j rest p, tjobs th = j :: rest -> pc_of (goto th p) = Some p.
  Proof. intros th j rest p H. unfold pc_of, goto; simpl. rewrite H. reflexivity. Qed.
  Lemma bind_of_goto : forall th p, bind_of (goto th p) = bind_of th.
  Proof. reflexivity. Qed.

  (* a step of thread t when everything but t's thread record, and possibly globals, stays *)
  Ltac thr i t := unfold upd in *; destruct (Nat.eqb_spec i t) as [Heqit|Hit]; [subst i|].

  Lemma step_Inv : forall s t, Inv s -> Inv (step s t).
  Proof.
    intros s t HI. unfold M_ServeStart.step.
    destruct (tjobs (sthreads s t)) as [|j rest] eqn:Ej; [exact HI|].
    pose proof (pc_of_head _ _ _ _ Ej eq_refl) as Hpc.
    pose proof (bind_of_head _ _ _ Ej) as Hb.
    destruct (tpc (sthreads s t)) as [ | | | | | | ok | m] eqn:Ep.
    - (* PPre *)
      assert (Hnc : in_crit (sthreads s t) = false) by (unfold in_crit; rewrite Hpc; reflexivity).
      assert (Hnew : in_crit (if guard (skind s) then goto (sthreads s t) PAcq else after_entry j rest) = false).
      { destruct (guard (skind s)); [unfold in_crit; rewrite (pc_of_goto _ _ _ _ Ej); reflexivity | apply in_crit_after_entry]. }
      assert (Hnp : forall p, pc_of (if guard (skind s) then goto (sthreads s t) PAcq else after_entry j rest) = Some p -> crit p = false).
      { intros p Hp. unfold in_crit in Hnew. rewrite Hp in Hnew. exact Hnew. }
      constructor; cbn [skind scaps slock snhook sthreads strace].
      + intro i. thr i t; [rewrite Hnew, <- (I_L s HI t), Hnc; tauto | apply (I_L s HI)].
      + intros i j' r'. thr i t; [|apply (I_W s HI)].
        destruct (guard (skind s)); [simpl; intros _ H; discriminate | apply after_entry_W].
      + replace (pending _) with (pending s); [apply (I_H s HI)|].
        unfold pending; cbn [slock sthreads]. destruct (slock s) as [h|] eqn:El; [|reflexivity].
        thr h t; [|reflexivity].
        apply (I_L s HI) in El. congruence.
      + apply (I_K s HI).
      + intros Hno. apply (I_C1 s HI). intros i. specialize (Hno i). thr i t; [rewrite Hpc; discriminate | exact Hno].
      + intros i. thr i t; [intro H; apply Hnp in H; discriminate | apply (I_C2 s HI)].
      + intros i p. thr i t; [intros H Hu; apply Hnp in H; apply unbound_crit in Hu; congruence | apply (I_Hk s HI)].
      + apply (I_B s HI).
    - (* PAcq *)
      destruct (slock s) as [h|] eqn:El; [exact HI|].
      assert (Hnone : forall i, in_crit (sthreads s i) = false).
      { intro i. destruct (in_crit (sthreads s i)) eqn:E; [|reflexivity]. apply (I_L s HI) in E. congruence. }
      constructor; cbn [skind scaps slock snhook sthreads strace].
      + intro i. thr i t.
        * unfold in_crit. rewrite (pc_of_goto _ _ _ _ Ej). simpl. tauto.
        * rewrite Hnone. split; [discriminate | intro H; inversion H; congruence].
      + intros i j' r'. thr i t; [simpl; intros _ H; discriminate | apply (I_W s HI)].
      + replace (pending _) with (pending s); [apply (I_H s HI)|].
        unfold pending; cbn [slock sthreads]. rewrite El. unfold upd. rewrite Nat.eqb_refl.
        rewrite (pc_of_goto _ _ _ _ Ej). reflexivity.
      + apply (I_K s HI).
      + intros Hno. apply (I_C1 s HI). intros i. specialize (Hno i). thr i t; [rewrite Hpc; discriminate | exact Hno].
      + intros i. thr i t; [rewrite (pc_of_goto _ _ _ _ Ej); discriminate | apply (I_C2 s HI)].
      + intros i p. thr i t; [rewrite (pc_of_goto _ _ _ _ Ej); intros H Hu; inversion H; subst p; discriminate | apply (I_Hk s HI)].
      + apply (I_B s HI).
    - (* PCmp *)
      assert (Hc : in_crit (sthreads s t) = true) by (eapply in_crit_of; [exact Hpc | reflexivity]).
      pose proof (proj1 (I_L s HI t) Hc) as El.
      assert (Hothers : forall i, i <> t -> in_crit (sthreads s i) = false).
      { intros i Hne. destruct (in_crit (sthreads s i)) eqn:E; [|reflexivity]. apply (I_L s HI) in E. congruence. }
      set (p' := if recorded_eqb s (job_binding j) then PRel true else PHook).
      assert (Hp' : crit p' = true) by (unfold p'; destruct (recorded_eqb s (job_binding j)); reflexivity).
      constructor; cbn [skind scaps slock snhook sthreads strace].
      + intro i. thr i t; [|apply (I_L s HI)].
        unfold in_crit. rewrite (pc_of_goto _ _ _ _ Ej), Hp'. rewrite El. tauto.
      + intros i j' r'. thr i t; [|apply (I_W s HI)].
        simpl. intros _ H. unfold p' in H. destruct (recorded_eqb s (job_binding j)); discriminate.
      + replace (pending _) with (pending s); [apply (I_H s HI)|].
        unfold pending; cbn [slock sthreads]. rewrite El. unfold upd. rewrite Nat.eqb_refl.
        rewrite (pc_of_goto _ _ _ _ Ej), Hpc. unfold p'. destruct (recorded_eqb s (job_binding j)); reflexivity.
      + apply (I_K s HI).
      + intros Hno. apply (I_C1 s HI). intros i. specialize (Hno i). thr i t; [rewrite Hpc; discriminate | exact Hno].
      + intros i. thr i t; [|apply (I_C2 s HI)].
        rewrite (pc_of_goto _ _ _ _ Ej). unfold p'. destruct (recorded_eqb s (job_binding j)); discriminate.
      + intros i p. thr i t; [|apply (I_Hk s HI)].
        rewrite (pc_of_goto _ _ _ _ Ej). unfold p'. destruct (recorded_eqb s (job_binding j)) eqn:Er; [intros H Hu; inversion H; subst p; discriminate|].
        intros _ _. rewrite bind_of_goto, Hb. intro Hlc.
        (* the comparison said "different", so b is not the committed binding *)
        assert (Hnoc : forall i, pc_of (sthreads s i) <> Some PCommitC).
        { intros i Hi. destruct (Nat.eq_dec i t) as [->|Hne]; [rewrite Hpc in Hi; discriminate|].
          pose proof (Hothers i Hne) as Hf. unfold in_crit in Hf. rewrite Hi in Hf. discriminate. }
        pose proof (I_C1 s HI Hnoc) as Hcaps. pose proof (I_K s HI) as Hk. rewrite Hlc in Hcaps, Hk. simpl in Hcaps, Hk.
        assert (recorded_eqb s (job_binding j) = true) by (apply recorded_eqb_true; split; assumption).
        congruence.
      + apply (I_B s HI).
    - (* PHook *)
      assert (Hc : in_crit (sthreads s t) = true) by (eapply in_crit_of; [exact Hpc | reflexivity]).
      pose proof (proj1 (I_L s HI t) Hc) as El.
      set (ok := hookf (snhook s) (fst (job_binding j))).
      set (p' := if ok then PCommitK else PRel false).
      assert (Hp' : crit p' = true) by (unfold p'; destruct ok; reflexivity).
      pose proof (I_Hk s HI t _ Hpc eq_refl) as Hne. rewrite Hb in Hne.
      pose proof (I_H s HI) as HH.
      assert (Hpend : pending s = None).
      { unfold pending. rewrite El, Hpc. reflexivity. }
      rewrite Hpend in HH.
      constructor; cbn [skind scaps slock snhook sthreads strace].
      + intro i. thr i t; [|apply (I_L s HI)].
        unfold in_crit. rewrite (pc_of_goto _ _ _ _ Ej), Hp'. rewrite El. tauto.
      + intros i j' r'. thr i t; [|apply (I_W s HI)].
        simpl. intros _ H. unfold p' in H. destruct ok; discriminate.
      + cbn [filter is_hc last_commit].
        unfold pending; cbn [slock sthreads]. rewrite El. unfold upd. rewrite Nat.eqb_refl.
        rewrite (pc_of_goto _ _ _ _ Ej), bind_of_goto, Hb. unfold p'. fold ok. destruct ok.
        * apply hl_ok; [exact HH | intro H; apply Hne; symmetry; exact H].
        * apply hl_fail; [exact HH | intro H; apply Hne; symmetry; exact H].
      + apply (I_K s HI).
      + cbn [last_commit]. intros Hno. apply (I_C1 s HI). intros i. specialize (Hno i). thr i t; [rewrite Hpc; discriminate | exact Hno].
      + cbn [last_commit]. intros i. thr i t; [|apply (I_C2 s HI)].
        rewrite (pc_of_goto _ _ _ _ Ej). unfold p'. destruct ok; discriminate.
      + cbn [last_commit]. intros i p. thr i t; [|apply (I_Hk s HI)].
        rewrite (pc_of_goto _ _ _ _ Ej). unfold p'. destruct ok; intros H Hu; inversion H; subst p; [discriminate|].
        rewrite bind_of_goto, Hb. exact Hne.
      + cbn [last_commit]. apply (I_B s HI).
    - (* PCommitK *)
      assert (Hc : in_crit (sthreads s t) = true) by (eapply in_crit_of; [exact Hpc | reflexivity]).
      pose proof (proj1 (I_L s HI t) Hc) as El.
      assert (Hothers : forall i, i <> t -> in_crit (sthreads s i) = false).
      { intros i Hne. destruct (in_crit (sthreads s i)) eqn:E; [|reflexivity]. apply (I_L s HI) in E. congruence. }
      pose proof (I_H s HI) as HH.
      assert (Hpend : pending s = Some (t, job_binding j)).
      { unfold pending. rewrite El, Hpc, Hb. reflexivity. }
      rewrite Hpend in HH.
      constructor; cbn [skind scaps slock snhook sthreads strace].
      + intro i. thr i t; [|apply (I_L s HI)].
        unfold in_crit. rewrite (pc_of_goto _ _ _ _ Ej). simpl. rewrite El. tauto.
      + intros i j' r'. thr i t; [simpl; intros _ H; discriminate | apply (I_W s HI)].
      + cbn [filter is_hc last_commit].
        unfold pending; cbn [slock sthreads]. rewrite El. unfold upd. rewrite Nat.eqb_refl.
        rewrite (pc_of_goto _ _ _ _ Ej). eapply hl_commit. exact HH.
      + reflexivity.
      + intros Hno. exfalso. apply (Hno t). unfold upd. rewrite Nat.eqb_refl. apply (pc_of_goto _ _ _ _ Ej).
      + cbn [last_commit]. intros i. thr i t.
        * intros _. rewrite bind_of_goto, Hb. reflexivity.
        * intro Hi. exfalso. pose proof (Hothers i Hit) as Hf. unfold in_crit in Hf. rewrite Hi in Hf. discriminate.
      + cbn [last_commit]. intros i p. thr i t.
        * rewrite (pc_of_goto _ _ _ _ Ej). intros H Hu; inversion H; subst p; discriminate.
        * intros Hi Hu. exfalso. apply unbound_crit in Hu. pose proof (Hothers i Hit) as Hf. unfold in_crit in Hf. rewrite Hi in Hf. congruence.
      + cbn [last_commit]. intros b H. inversion H. exists (jvia j). reflexivity.
    - (* PCommitC *)
      assert (Hc : in_crit (sthreads s t) = true) by (eapply in_crit_of; [exact Hpc | reflexivity]).
      pose proof (proj1 (I_L s HI t) Hc) as El.
      assert (Hothers : forall i, i <> t -> in_crit (sthreads s i) = false).
      { intros i Hne. destruct (in_crit (sthreads s i)) eqn:E; [|reflexivity]. apply (I_L s HI) in E. congruence. }
      pose proof (I_C2 s HI t Hpc) as Hlc. rewrite Hb in Hlc.
      constructor; cbn [skind scaps slock snhook sthreads strace].
      + intro i. thr i t; [|apply (I_L s HI)].
        unfold in_crit. rewrite (pc_of_goto _ _ _ _ Ej). simpl. rewrite El. tauto.
      + intros i j' r'. thr i t; [simpl; intros _ H; discriminate | apply (I_W s HI)].
      + replace (pending _) with (pending s); [apply (I_H s HI)|].
        unfold pending; cbn [slock sthreads]. rewrite El. unfold upd. rewrite Nat.eqb_refl.
        rewrite (pc_of_goto _ _ _ _ Ej), Hpc. reflexivity.
      + apply (I_K s HI).
      + intros _. rewrite Hlc. reflexivity.
      + intros i. thr i t; [rewrite (pc_of_goto _ _ _ _ Ej); discriminate|].
        intro Hi. exfalso. pose proof (Hothers i Hit) as Hf. unfold in_crit in Hf. rewrite Hi in Hf. discriminate.
      + intros i p. thr i t; [rewrite (pc_of_goto _ _ _ _ Ej); intros H Hu; inversion H; subst p; discriminate | apply (I_Hk s HI)].
      + apply (I_B s HI).
    - (* PRel *)
      assert (Hc : in_crit (sthreads s t) = true) by (eapply in_crit_of; [exact Hpc | reflexivity]).
      pose proof (proj1 (I_L s HI t) Hc) as El.
      assert (Hothers : forall i, i <> t -> in_crit (sthreads s i) = false).
      { intros i Hne. destruct (in_crit (sthreads s i)) eqn:E; [|reflexivity]. apply (I_L s HI) in E. congruence. }
      assert (Hnoc : forall i, pc_of (sthreads s i) <> Some PCommitC).
      { intros i Hi. destruct (Nat.eq_dec i t) as [->|Hne]; [rewrite Hpc in Hi; discriminate|].
        pose proof (Hothers i Hne) as Hf. unfold in_crit in Hf. rewrite Hi in Hf. discriminate. }
      assert (Hpend : pending s = None) by (unfold pending; rewrite El, Hpc; reflexivity).
      destruct ok.
      + assert (Hnew : in_crit (after_entry j rest) = false) by apply in_crit_after_entry.
        assert (Hnp : forall p, pc_of (after_entry j rest) = Some p -> crit p = false).
        { intros p Hp. unfold in_crit in Hnew. rewrite Hp in Hnew. exact Hnew. }
        constructor; cbn [skind scaps slock snhook sthreads strace].
        * intro i. thr i t; [rewrite Hnew; split; discriminate|].
          rewrite (Hothers i Hit). split; discriminate.
        * intros i j' r'. thr i t; [apply after_entry_W | apply (I_W s HI)].
        * replace (pending _) with (pending s) by (rewrite Hpend; reflexivity). apply (I_H s HI).
        * apply (I_K s HI).
        * intros _. apply (I_C1 s HI Hnoc).
        * intros i. thr i t; [intro H; apply Hnp in H; discriminate | apply (I_C2 s HI)].
        * intros i p. thr i t; [intros H Hu; apply Hnp in H; apply unbound_crit in Hu; congruence | apply (I_Hk s HI)].
        * apply (I_B s HI).
      + assert (Hnew : in_crit (next_thr rest) = false) by apply pc_of_next_thr.
        assert (Hnp : forall p, pc_of (next_thr rest) = Some p -> crit p = false).
        { intros p Hp. unfold in_crit in Hnew. rewrite Hp in Hnew. exact Hnew. }
        constructor; cbn [skind scaps slock snhook sthreads strace].
        * intro i. thr i t; [rewrite Hnew; split; discriminate|].
          rewrite (Hothers i Hit). split; discriminate.
        * intros i j' r'. thr i t; [apply next_thr_W | apply (I_W s HI)].
        * cbn [filter is_hc last_commit]. replace (pending _) with (pending s) by (rewrite Hpend; reflexivity). apply (I_H s HI).
        * apply (I_K s HI).
        * cbn [last_commit]. intros _. apply (I_C1 s HI Hnoc).
        * cbn [last_commit]. intros i. thr i t; [intro H; apply Hnp in H; discriminate | apply (I_C2 s HI)].
        * cbn [last_commit]. intros i p. thr i t; [intros H Hu; apply Hnp in H; apply unbound_crit in Hu; congruence | apply (I_Hk s HI)].
        * cbn [last_commit]. apply (I_B s HI).
    - (* PDisp *)
      assert (Hnc : in_crit (sthreads s t) = false) by (unfold in_crit; rewrite Hpc; reflexivity).
      set (x := match m with 0 => next_thr rest | S m' => goto (sthreads s t) (PDisp m') end).
      assert (Hnew : in_crit x = false).
      { unfold x. destruct m; [apply pc_of_next_thr | unfold in_crit; rewrite (pc_of_goto _ _ _ _ Ej); reflexivity]. }
      assert (Hnp : forall p, pc_of x = Some p -> crit p = false).
      { intros p Hp. unfold in_crit in Hnew. rewrite Hp in Hnew. exact Hnew. }
      constructor; cbn [skind scaps slock snhook sthreads strace].
      + intro i. thr i t; [rewrite Hnew, <- (I_L s HI t), Hnc; tauto | apply (I_L s HI)].
      + intros i j' r'. thr i t; [|apply (I_W s HI)].
        unfold x. destruct m; [apply next_thr_W | simpl; intros _ H; discriminate].
      + cbn [filter is_hc last_commit]. replace (pending _) with (pending s); [apply (I_H s HI)|].
        unfold pending; cbn [slock sthreads]. destruct (slock s) as [h|] eqn:El; [|reflexivity].
        thr h t; [|reflexivity].
        apply (I_L s HI) in El. congruence.
      + apply (I_K s HI).
      + cbn [last_commit]. intros Hno. apply (I_C1 s HI). intros i. specialize (Hno i). thr i t; [rewrite Hpc; discriminate | exact Hno].
      + cbn [last_commit]. intros i. thr i t; [intro H; apply Hnp in H; discriminate | apply (I_C2 s HI)].
      + cbn [last_commit]. intros i p. thr i t; [intros H Hu; apply Hnp in H; apply unbound_crit in Hu; congruence | apply (I_Hk s HI)].
      + cbn [last_commit]. apply (I_B s HI).
  Qed.

  Lemma run_from_Inv : forall sched s, Inv s -> Inv (run_from s sched).
  Proof.
    induction sched as [|t r IH]; intros s HI; simpl; [exact HI | apply IH, step_Inv, HI].
  Qed.

  Lemma run_Inv : forall cfg sched, Inv (run guard hookf cfg sched).
  Proof. intros. apply run_from_Inv, init_Inv. Qed.

  (* ---- consequences of the grammar ------------------------------------------------------------ *)
End Proofs.

Lemma hclog_pending_inv : forall l c t b, hclog l c (Some (t, b)) -> exists l', l = EHook t b true :: l'.
Proof. intros l c t b H. inversion H; subst. eauto. Qed.
Lemma hclog_ok_head_inv : forall t b l c p, hclog (EHook t b true :: l) c p -> p = Some (t, b).
Proof. intros t b l c p H. inversion H; subst. reflexivity. Qed.
Lemma hclog_last_commit : forall l c p, hclog l c p -> last_commit l = c.
Proof. intros l c p H. induction H; simpl; auto. Qed.
Lemma hclog_suffix : forall post l c p, hclog (post ++ l) c p -> exists c' p', hclog l c' p'.
Proof.
  induction post as [|e post IH]; intros l c p H; simpl in H; [eauto|].
  inversion H; subst; eapply IH; eassumption.
Qed.

(* the event logged just before a commit is the returning hook call of the same thread for the same binding *)
Lemma hclog_commit_prev : forall l c p, hclog l c p ->
  forall post t b pre, l = post ++ ECommit t b :: pre -> exists pre', pre = EHook t b true :: pre'.
Proof.
  intros l c p H. induction H as [|t0 b0 l c H IH Hn|t0 b0 l c H IH Hn|t0 b0 l c H IH]; intros post t b pre E.
  - destruct post; discriminate.
  - destruct post as [|e post]; simpl in E; [discriminate|]. inversion E; subst. eapply IH; reflexivity.
  - destruct post as [|e post]; simpl in E; [discriminate|]. inversion E; subst. eapply IH; reflexivity.
  - destruct post as [|e post]; simpl in E; inversion E; subst.
    + apply hclog_pending_inv in H. exact H.
    + eapply IH; reflexivity.
Qed.

(* a hook call for b is never made while b is the recorded binding *)
Lemma hclog_hook_unbound : forall l c p, hclog l c p ->
  forall post t b ok pre, l = post ++ EHook t b ok :: pre -> last_commit pre <> Some b.
Proof.
  intros l c p H. induction H as [|t0 b0 l c H IH Hn|t0 b0 l c H IH Hn|t0 b0 l c H IH]; intros post t b ok pre E.
  - destruct post; discriminate.
  - destruct post as [|e post]; simpl in E; inversion E; subst.
    + rewrite (hclog_last_commit _ _ _ H). intro X. apply Hn. symmetry. exact X.
    + eapply IH; reflexivity.
  - destruct post as [|e post]; simpl in E; inversion E; subst.
    + rewrite (hclog_last_commit _ _ _ H). intro X. apply Hn. symmetry. exact X.
    + eapply IH; reflexivity.
  - destruct post as [|e post]; simpl in E; inversion E; subst. eapply IH; reflexivity.
Qed.

(* the event logged right after a returning hook call (if any) is its commit *)
Lemma hclog_after_ok : forall l c p, hclog l c p ->
  forall post t b pre, l = post ++ EHook t b true :: pre -> post = [] \/ exists post', post = post' ++ [ECommit t b].
Proof.
  intros l c p H. induction H as [|t0 b0 l c H IH Hn|t0 b0 l c H IH Hn|t0 b0 l c H IH]; intros post t b pre E.
  - destruct post; discriminate.
  - destruct post as [|e post]; simpl in E; inversion E; subst. right.
    destruct (IH _ _ _ _ eq_refl) as [->|[post' ->]].
    + simpl in H. apply hclog_ok_head_inv in H. discriminate.
    + exists (EHook t0 b0 false :: post'). reflexivity.
  - destruct post as [|e post]; simpl in E; inversion E; subst; [left; reflexivity|]. right.
    destruct (IH _ _ _ _ eq_refl) as [->|[post' ->]].
    + simpl in H. apply hclog_ok_head_inv in H. discriminate.
    + exists (EHook t0 b0 true :: post'). reflexivity.
  - destruct post as [|e post]; simpl in E; inversion E; subst. right.
    destruct (IH _ _ _ _ eq_refl) as [->|[post' ->]].
    + simpl in H. apply hclog_ok_head_inv in H. inversion H; subst. exists []. reflexivity.
    + exists (ECommit t0 b0 :: post'). reflexivity.
Qed.

(* the recorded binding's hook call returned earlier *)
Lemma hclog_cur_hooked : forall l c p, hclog l c p -> forall b, c = Some b -> exists t, In (EHook t b true) l.
Proof.
  intros l c p H. induction H as [|t0 b0 l c H IH Hn|t0 b0 l c H IH Hn|t0 b0 l c H IH]; intros b E.
  - discriminate.
  - destruct (IH b E) as [t Ht]. exists t. right. exact Ht.
  - destruct (IH b E) as [t Ht]. exists t. right. exact Ht.
  - inversion E; subst. apply hclog_pending_inv in H. destruct H as [l' ->]. exists t0. right. left. reflexivity.
Qed.

Lemma last_commit_filter_hc : forall tr, last_commit (filter is_hc tr) = last_commit tr.
Proof.
  induction tr as [|e tr IH]; [reflexivity|]. destruct e; simpl; auto.
Qed.

Lemma disp_ok_split : forall post e pre, disp_ok (post ++ e :: pre) -> disp_ok (e :: pre).
Proof.
  induction post as [|x post IH]; intros e pre H; [exact H|]. simpl in H. destruct H as [_ H]. apply IH. exact H.
Qed.

Section Proofs2.
  Variable guard : option kind -> bool.
  Variable hookf : nat -> kind -> bool.
  Notation step := (M_ServeStart.step guard hookf).
  Notation run_from := (M_ServeStart.run_from guard hookf).
  Ltac thr i t := unfold upd in *; destruct (Nat.eqb_spec i t) as [Heqit|Hit]; [subst i|].

  (* ---- dispatches ------------------------------------------------------------------------------ *)
  Hypothesis guard_none : guard None = true.

  Definition entered (p : pc) : bool := match p with PDisp _ | PRel true | PCommitC => true | _ => false end.
  Definition DInv (s : st) : Prop :=
    disp_ok (strace s) /\ forall i p, pc_of (sthreads s i) = Some p -> entered p = true -> skind s <> None.

  Lemma entered_next_thr : forall rest p, pc_of (next_thr rest) = Some p -> entered p = false.
  Proof. intros rest p H. apply pc_of_next_thr_cases in H. destruct H; subst; reflexivity. Qed.

  Lemma step_DInv : forall s t, Inv s -> DInv s -> DInv (step s t).
  Proof.
    intros s t HI [HD HE]. unfold M_ServeStart.step.
    destruct (tjobs (sthreads s t)) as [|j rest] eqn:Ej; [split; assumption|].
    pose proof (pc_of_head _ _ _ _ Ej eq_refl) as Hpc.
    destruct (tpc (sthreads s t)) as [ | | | | | | ok | m] eqn:Ep.
    - split; cbn [skind scaps slock snhook sthreads strace]; [exact HD|].
      intros i p. thr i t; [|apply HE].
      destruct (guard (skind s)) eqn:Eg.
      + rewrite (pc_of_goto _ _ _ _ Ej). intros H Hen; inversion H; subst p; discriminate.
      + intros _ _ Hk. rewrite Hk in Eg. congruence.
    - destruct (slock s); [split; assumption|].
      split; cbn [skind scaps slock snhook sthreads strace]; [exact HD|].
      intros i p. thr i t; [|apply HE]. rewrite (pc_of_goto _ _ _ _ Ej). intros H Hen; inversion H; subst p; discriminate.
    - split; cbn [skind scaps slock snhook sthreads strace]; [exact HD|].
      intros i p. thr i t; [|apply HE]. rewrite (pc_of_goto _ _ _ _ Ej).
      destruct (recorded_eqb s (job_binding j)) eqn:Er; intros H Hen; inversion H; subst p; [|discriminate].
      apply recorded_eqb_true in Er. destruct Er as [Er _]. rewrite Er. discriminate.
    - split; cbn [skind scaps slock snhook sthreads strace]; [simpl; split; [exact I | exact HD]|].
      intros i p. thr i t; [|apply HE]. rewrite (pc_of_goto _ _ _ _ Ej).
      destruct (hookf (snhook s) (fst (job_binding j))); intros H Hen; inversion H; subst p; discriminate.
    - split; cbn [skind scaps slock snhook sthreads strace]; [simpl; split; [exact I | exact HD]|].
      intros i p _ _. discriminate.
    - split; cbn [skind scaps slock snhook sthreads strace]; [exact HD|].
      intros i p. thr i t; [|apply HE]. intros _ _. apply (HE t _ Hpc eq_refl).
    - destruct ok.
      + split; cbn [skind scaps slock snhook sthreads strace]; [exact HD|].
        intros i p. thr i t; [|apply HE]. intros _ _. apply (HE t _ Hpc eq_refl).
      + split; cbn [skind scaps slock snhook sthreads strace]; [simpl; split; [exact I | exact HD]|].
        intros i p. thr i t; [|apply HE]. intros H Hen. apply entered_next_thr in H. congruence.
    - pose proof (HE t _ Hpc eq_refl) as Hk.
      split; cbn [skind scaps slock snhook sthreads strace].
      + simpl. split; [split; [exact Hk | apply (I_K s HI)] | exact HD].
      + intros i p. thr i t; [|apply HE]. intros _ _. exact Hk.
  Qed.

  Lemma run_from_DInv : forall sched s, Inv s -> DInv s -> DInv (run_from s sched).
  Proof.
    induction sched as [|t r IH]; intros s HI HD; simpl; [exact HD|].
    apply IH; [apply step_Inv, HI | apply step_DInv; assumption].
  Qed.

  Lemma init_DInv : forall cfg, DInv (init cfg).
  Proof.
    intro cfg. split; [exact I|]. unfold init; cbn [sthreads skind].
    intros i p H Hen. exfalso. destruct (nth_error cfg i); apply entered_next_thr in H; congruence.
  Qed.

  Theorem dispatch_after_hook : forall cfg sched post t v seen pre,
    strace (run guard hookf cfg sched) = post ++ EDisp t v seen :: pre ->
    exists k c t', seen = Some k /\ last_commit pre = Some (k, c) /\ In (EHook t' (k, c) true) pre.
  Proof.
    intros cfg sched post t v seen pre E.
    pose proof (run_Inv guard hookf cfg sched) as HI.
    pose proof (run_from_DInv sched _ (init_Inv cfg) (init_DInv cfg)) as [HD _].
    fold (run guard hookf cfg sched) in HD. rewrite E in HD.
    apply disp_ok_split in HD. simpl in HD. destruct HD as [[Hn Hs] _].
    destruct (last_commit pre) as [[k c]|] eqn:Elc; simpl in Hs; [|congruence].
    pose proof (I_H _ HI) as HH. rewrite E in HH. rewrite filter_app in HH.
    apply hclog_suffix in HH. simpl in HH. destruct HH as [c' [p' HH]].
    pose proof (hclog_last_commit _ _ _ HH) as Hl. rewrite last_commit_filter_hc, Elc in Hl.
    destruct (hclog_cur_hooked _ _ _ HH (k, c) (eq_sym Hl)) as [t' Hin].
    exists k, c, t'. split; [exact Hs|]. split; [reflexivity|].
    apply filter_In in Hin. tauto.
  Qed.
End Proofs2.

Section Proofs3.
  Variable guard : option kind -> bool.
  Variable hookf : nat -> kind -> bool.
  Notation step := (M_ServeStart.step guard hookf).
  Notation run_from := (M_ServeStart.run_from guard hookf).
  Hypothesis guard_ok : guard_sound guard.

  (* a lock-free reachable state: HTTP recorded implies no capabilities recorded *)
  Lemma free_http_caps : forall s, Inv s -> slock s = None -> skind s = Some KHttp -> scaps s = false.
  Proof.
    intros s HI Hl Hk.
    assert (Hnoc : forall i, pc_of (sthreads s i) <> Some PCommitC).
    { intros i Hi. assert (in_crit (sthreads s i) = true) by (unfold in_crit; rewrite Hi; reflexivity).
      apply (I_L s HI) in H. congruence. }
    rewrite (I_C1 s HI Hnoc). pose proof (I_K s HI) as HK. rewrite Hk in HK.
    destruct (last_commit (strace s)) as [[k c]|] eqn:E; simpl in HK; [|discriminate].
    inversion HK; subst. destruct (I_B s HI _ E) as [v Hv]. simpl.
    assert (fst (via_binding v) = KHttp) by (rewrite <- Hv; reflexivity).
    apply via_binding_http_caps in H. rewrite H in Hv. inversion Hv. reflexivity.
  Qed.

  (* a request that is about to notify (HTTP: about to pre-check) while its binding is not the recorded one and the
     lock is free calls the hook after its next 3 (HTTP from the pre-check: 4) own steps *)
  Theorem entry_fires : forall s t j rest,
    Inv s -> slock s = None ->
    tjobs (sthreads s t) = j :: rest -> (tpc (sthreads s t) = PPre \/ tpc (sthreads s t) = PAcq) ->
    recorded s <> Some (job_binding j) ->
    strace (run_from s (repeat t (match tpc (sthreads s t) with PPre => 4 | _ => 3 end)))
    = EHook t (job_binding j) (hookf (snhook s) (fst (job_binding j))) :: strace s.
  Proof.
    intros s t j rest HI Hl Ej Hp Hr.
    assert (Hcmp : recorded_eqb s (job_binding j) = false).
    { destruct (recorded_eqb s (job_binding j)) eqn:E; [|reflexivity].
      apply recorded_eqb_true in E. apply recorded_spec in E. contradiction. }
    assert (Hfrom_acq : forall s1, skind s1 = skind s -> scaps s1 = scaps s -> slock s1 = None -> snhook s1 = snhook s -> strace s1 = strace s ->
              tjobs (sthreads s1 t) = j :: rest -> tpc (sthreads s1 t) = PAcq ->
              strace (run_from s1 [t; t; t]) = EHook t (job_binding j) (hookf (snhook s) (fst (job_binding j))) :: strace s).
    { intros s1 Hk1 Hc1 Hl1 Hn1 Ht1 Ej1 Ep1.
      assert (Hcmp1 : forall l n f tr, recorded_eqb (Build_st (skind s1) (scaps s1) l n f tr) (job_binding j) = false).
      { intros. unfold recorded_eqb in *. cbn [skind scaps]. rewrite Hk1, Hc1. exact Hcmp. }
      cbn [M_ServeStart.run_from].
      unfold M_ServeStart.step at 3. rewrite Ej1, Ep1, Hl1.
      unfold M_ServeStart.step at 2. cbn [sthreads skind scaps slock snhook strace]. rewrite upd_same. cbn [goto tjobs tpc]. rewrite Ej1.
      rewrite Hcmp1.
      unfold M_ServeStart.step at 1. cbn [sthreads skind scaps slock snhook strace]. rewrite upd_same. cbn [goto tjobs tpc]. rewrite Ej1.
      cbn [strace]. rewrite Hn1, Ht1. reflexivity. }
    destruct Hp as [Ep|Ep]; rewrite Ep.
    - (* HTTP: the pre-check must say "notify" *)
      assert (Hg : guard (skind s) = true).
      { destruct (guard (skind s)) eqn:Eg; [reflexivity|]. exfalso.
        apply guard_ok in Eg. pose proof (free_http_caps s HI Hl Eg) as Hc.
        pose proof (I_W s HI t j rest Ej Ep) as Hv.
        apply Hr. apply recorded_spec. unfold job_binding. rewrite Hv. simpl. split; assumption. }
      change (repeat t 4) with (t :: [t; t; t]). cbn [M_ServeStart.run_from].
      apply Hfrom_acq; unfold M_ServeStart.step; rewrite Ej, Ep, Hg; cbn [skind scaps slock snhook strace sthreads]; try reflexivity; try assumption.
      + rewrite upd_same. exact Ej.
      + rewrite upd_same. reflexivity.
    - change (repeat t 3) with [t; t; t]. apply Hfrom_acq; try reflexivity; assumption.
  Qed.

  (* the hook raised: leaving _notify_transport records nothing, and a request of that binding that is about to
     notify calls the hook again *)
  Theorem raise_not_recorded_and_retried : forall cfg sched t j rest,
    let s := run guard hookf cfg sched in
    tjobs (sthreads s t) = j :: rest -> tpc (sthreads s t) = PRel false ->
    let s' := step s t in
    strace s' = EFail t (job_binding j) :: strace s /\ slock s' = None /\
    recorded s' = recorded s /\ recorded s' <> Some (job_binding j) /\
    forall t' j' rest', tjobs (sthreads s' t') = j' :: rest' -> (tpc (sthreads s' t') = PPre \/ tpc (sthreads s' t') = PAcq) ->
      job_binding j' = job_binding j ->
      strace (run_from s' (repeat t' (match tpc (sthreads s' t') with PPre => 4 | _ => 3 end)))
      = EHook t' (job_binding j) (hookf (snhook s') (fst (job_binding j))) :: strace s'.
  Proof.
    intros cfg sched t j rest s Ej Ep s'.
    pose proof (run_Inv guard hookf cfg sched) as HI. fold s in HI.
    assert (HI' : Inv s') by (apply step_Inv, HI).
    assert (Es' : s' = Build_st (skind s) (scaps s) None (snhook s) (upd (sthreads s) t (next_thr rest)) (EFail t (job_binding j) :: strace s)).
    { unfold s', M_ServeStart.step. rewrite Ej, Ep. reflexivity. }
    assert (Hpc : pc_of (sthreads s t) = Some (PRel false)) by (unfold pc_of; rewrite Ej, Ep; reflexivity).
    assert (Hrec : recorded s' = recorded s) by (rewrite Es'; reflexivity).
    assert (Hne : recorded s <> Some (job_binding j)).
    { intro Hr. apply recorded_spec in Hr. destruct Hr as [Hk Hc].
      pose proof (I_Hk s HI t _ Hpc eq_refl) as Hn. unfold bind_of in Hn. rewrite Ej in Hn.
      assert (Hcr : in_crit (sthreads s t) = true) by (unfold in_crit; rewrite Hpc; reflexivity).
      assert (Hnoc : forall i, pc_of (sthreads s i) <> Some PCommitC).
      { intros i Hi. assert (Hci : in_crit (sthreads s i) = true) by (unfold in_crit; rewrite Hi; reflexivity).
        pose proof (crit_unique s i t HI Hci Hcr) as Heq. subst i. rewrite Hpc in Hi. discriminate. }
      pose proof (I_C1 s HI Hnoc) as Hc1. pose proof (I_K s HI) as Hk1.
      destruct (last_commit (strace s)) as [[k c]|]; simpl in Hc1, Hk1; [|congruence].
      apply Hn. destruct (job_binding j) as [k' c']; simpl in *. congruence. }
    split; [rewrite Es'; reflexivity|]. split; [rewrite Es'; reflexivity|].
    split; [exact Hrec|]. split; [rewrite Hrec; exact Hne|].
    intros t' j' rest' Ej' Ep' Hb. rewrite <- Hb.
    apply (entry_fires s' t' j' rest' HI'); try assumption.
    - rewrite Es'. reflexivity.
    - rewrite Hrec, Hb. exact Hne.
  Qed.
End Proofs3.
