(* Proofs about the request-reading exception flow (model/M_ReadReq.v).
   Everything is stated for an arbitrary handler table T with [covers T = true]; tie/T_ReadReq.v discharges that
   hypothesis for the table regenerated from the source. *)
From Coq Require Import List String NArith Bool.
From VGI Require Import Utf8 Corr M_ReadReq.
Import ListNotations.
Open Scope N_scope.

(* ------------------------------------------------------------------ hypotheses on a request *)
Definition well_framed (r : req) : Prop := q_open r = None /\ q_read r = None /\ q_drain r = None.

Definition exc_ok (o : option exc) : bool := match o with Some e => subclass e XException | None => true end.
Definition res_ok (x : resolved) : bool :=
  match x with RRaises e => subclass e XException | RBatch cols _ => forallb exc_ok cols end.
(* library sites raise classes below Exception (no KeyboardInterrupt & co.); the version check raises its own error *)
Definition lib_okb (r : req) : bool :=
  forallb exc_ok (q_cols r) && res_ok (q_ext r) && exc_ok (q_attach r) && res_ok (q_shmres r) && exc_ok (q_release r)
  && exc_ok (q_validate r)
  && match q_vercheck r with Some e => subclass e XProtocolVersionError | None => true end.
Definition lib_ok (r : req) : Prop := lib_okb r = true.

Definition pre_fail (r : req) (s : site) (e : exc) : Prop :=
  (s = SOpen /\ q_open r = Some e) \/ (s = SRead /\ q_read r = Some e) \/ (s = SDrain /\ q_drain r = Some e).

(* ------------------------------------------------------------------ finite enumerations *)
Lemma all_exc_complete : forall e, In e all_exc.
Proof. intro e; destruct e; unfold all_exc; repeat (first [left; reflexivity | right]). Qed.

Lemma covers_post : forall T, covers T = true ->
  forall loop s e, In s post_sites -> allowed s e = true -> post_good T loop s e = true.
Proof.
  intros T H loop s e Hs Ha. unfold covers in H.
  apply andb_true_iff in H as [H _]. apply andb_true_iff in H as [_ H].
  rewrite forallb_forall in H.
  assert (Hl : In loop [true; false]) by (destruct loop; simpl; tauto).
  specialize (H loop Hl). rewrite forallb_forall in H. specialize (H s Hs).
  rewrite forallb_forall in H. specialize (H e (all_exc_complete e)).
  rewrite Ha in H. exact H.
Qed.

Lemma covers_pre : forall T, covers T = true ->
  forall loop s e, In s pre_sites -> pre_good T loop s e = true.
Proof.
  intros T H loop s e Hs. unfold covers in H.
  apply andb_true_iff in H as [_ H].
  rewrite forallb_forall in H.
  assert (Hl : In loop [true; false]) by (destruct loop; simpl; tauto).
  specialize (H loop Hl). rewrite forallb_forall in H. specialize (H s Hs).
  rewrite forallb_forall in H. exact (H e (all_exc_complete e)).
Qed.

(* ------------------------------------------------------------------ where the flow can raise *)
Definition post_raise (T : tables) (cfg : config) (s : site) (e : exc) : Prop :=
  In s post_sites /\ allowed s e = true /\ (is_attach_site s && attach_caught (disp_at T cfg s e)) = false.

Ltac post_site := unfold post_raise; split; [cbv; tauto | split; [vm_compute; reflexivity | reflexivity]].

Lemma step_meta_raise : forall T K cfg r s e, step_meta K r = Raise s e -> post_raise T cfg s e.
Proof.
  intros T K cfg r s e H. unfold step_meta in H.
  repeat match type of H with
  | context [match ?x with _ => _ end] => destruct x eqn:?
  | context [if ?x then _ else _] => destruct x eqn:?
  end; try discriminate; inversion H; subst; post_site.
Qed.

Lemma first_some_in : forall l e, first_some l = Some e -> In (Some e) l.
Proof.
  induction l as [|o l IH]; intros e H; simpl in H; [discriminate|].
  destruct o as [x|]; [inversion H; subst; left; reflexivity | right; apply IH; exact H].
Qed.

Lemma cols_ok_in : forall cols e, forallb exc_ok cols = true -> In (Some e) cols -> subclass e XException = true.
Proof. intros cols e H Hin. rewrite forallb_forall in H. exact (H _ Hin). Qed.

Lemma lib_ok_parts : forall r, lib_ok r ->
  forallb exc_ok (q_cols r) = true /\ res_ok (q_ext r) = true /\ exc_ok (q_attach r) = true /\
  res_ok (q_shmres r) = true /\ exc_ok (q_release r) = true /\ exc_ok (q_validate r) = true /\
  match q_vercheck r with Some e => subclass e XProtocolVersionError | None => true end = true.
Proof.
  intros r H. unfold lib_ok, lib_okb in H.
  repeat (apply andb_true_iff in H as [H ?]). tauto.
Qed.

Lemma any_exception_allowed : forall s e, subclass e XException = true ->
  match s with SExt | SRrAttach | SResolveShm | SAsPy | SRelease | SDeserialize | SRefreshAttach | SDynAttach => True | _ => False end ->
  allowed s e = true.
Proof. intros s e H Hs. destruct s; try contradiction; exact H. Qed.

Lemma step_ext_spec : forall T K cfg r, lib_ok r ->
  match step_ext K cfg r with
  | Raise s e => post_raise T cfg s e
  | Go (cols, _) => forallb exc_ok cols = true
  end.
Proof.
  intros T K cfg r L. apply lib_ok_parts in L as (Hc & He & _).
  unfold step_ext. match goal with |- context [if ?c then _ else _] => destruct c end.
  - destruct (q_ext r) as [e|cols rows]; simpl in He.
    + split; [cbv; tauto | split; [apply any_exception_allowed; [exact He | exact I] | reflexivity]].
    + exact He.
  - exact Hc.
Qed.

Lemma maybe_attach_raise : forall T K cfg sm sa r s e, lib_ok r ->
  (sm = SRrShmMeta /\ sa = SRrAttach) \/ (sm = SRefreshShmMeta /\ sa = SRefreshAttach) \/ (sm = SDynShmMeta /\ sa = SDynAttach) ->
  maybe_attach T K cfg sm sa r = Raise s e -> post_raise T cfg s e.
Proof.
  intros T K cfg sm sa r s e L Hs H. apply lib_ok_parts in L as (_ & _ & Ha & _).
  unfold maybe_attach in H.
  destruct (md_get (K_SEG_NAME K) (q_md r)); [|discriminate].
  destruct (md_get (K_SEG_SIZE K) (q_md r)); [|discriminate].
  destruct (negb (q_shm_meta_ok r)).
  - destruct (attach_caught (disp_at T cfg sm XValueError)) eqn:C; [discriminate|].
    inversion H; subst s e. unfold post_raise.
    destruct Hs as [[-> _]|[[-> _]|[-> _]]]; (split; [cbv; tauto | split; [vm_compute; reflexivity | rewrite C; reflexivity]]).
  - destruct (q_attach r) as [x|] eqn:Q; [|discriminate].
    destruct (attach_caught (disp_at T cfg sa x)) eqn:C; [discriminate|].
    inversion H; subst s e. simpl in Ha. unfold post_raise.
    destruct Hs as [[_ ->]|[[_ ->]|[_ ->]]]; (split; [cbv; tauto | split; [exact Ha | rewrite C; reflexivity]]).
Qed.

Lemma step_after_raise : forall T cfg r cols rows rel s e, lib_ok r -> forallb exc_ok cols = true ->
  step_after r cols rows rel = Raise s e -> post_raise T cfg s e.
Proof.
  intros T cfg r cols rows rel s e L Hc H.
  pose proof (lib_ok_parts r L) as (_ & _ & _ & _ & Hrel & _).
  unfold step_after in H. cbv zeta in H.
  assert (Hrelease : forall x : flow unit,
            (if rel then match q_release r with Some e => Raise SRelease e | None => x end else x) = Raise s e ->
            (x = Raise s e) \/ (s = SRelease /\ q_release r = Some e)).
  { intros x Hx. destruct rel; [|left; exact Hx]. destruct (q_release r) as [y|]; [|left; exact Hx].
    inversion Hx; subst. right; split; reflexivity. }
  destruct (nonempty cols && negb (rows =? 1)).
  - apply Hrelease in H as [H|[-> Q]].
    + inversion H; subst. post_site.
    + rewrite Q in Hrel. simpl in Hrel. split; [cbv; tauto | split; [exact Hrel | reflexivity]].
  - destruct (first_some cols) as [x|] eqn:F.
    + apply Hrelease in H as [H|[-> Q]].
      * inversion H; subst. apply first_some_in in F.
        split; [cbv; tauto | split; [exact (cols_ok_in _ _ Hc F) | reflexivity]].
      * rewrite Q in Hrel. simpl in Hrel. split; [cbv; tauto | split; [exact Hrel | reflexivity]].
    + apply Hrelease in H as [H|[-> Q]]; [discriminate|].
      rewrite Q in Hrel. simpl in Hrel. split; [cbv; tauto | split; [exact Hrel | reflexivity]].
Qed.

Lemma step_shm_raise : forall T K cfg st r cols rows s e, lib_ok r -> forallb exc_ok cols = true ->
  step_shm T K cfg st r cols rows = Raise s e -> post_raise T cfg s e.
Proof.
  intros T K cfg st r cols rows s e L Hc H.
  pose proof (lib_ok_parts r L) as (_ & _ & _ & Hr & _).
  unfold step_shm in H. cbv zeta in H.
  assert (Hrest : forall att : bool,
     (if (c_static_shm cfg || match st with Some _ => c_in_loop cfg | None => false end || att) && is_shm_pointer K rows r
      then match q_shmres r with RRaises e => Raise SResolveShm e | RBatch cols' rows' => step_after r cols' rows' true end
      else step_after r cols rows false) = Raise s e -> post_raise T cfg s e).
  { intros att HH.
    match type of HH with (if ?c then _ else _) = _ => destruct c end.
    - destruct (q_shmres r) as [x|cols' rows']; simpl in Hr.
      + inversion HH; subst. split; [cbv; tauto | split; [exact Hr | reflexivity]].
      + eapply step_after_raise; [exact L | exact Hr | exact HH].
    - eapply step_after_raise; [exact L | exact Hc | exact HH]. }
  match type of H with context [if ?c then maybe_attach _ _ _ _ _ _ else _] => destruct c end.
  - destruct (maybe_attach T K cfg SRrShmMeta SRrAttach r) as [s0 e0|att] eqn:M.
    + inversion H; subst. eapply maybe_attach_raise; [exact L | left; split; reflexivity | exact M].
    + exact (Hrest att H).
  - exact (Hrest false H).
Qed.

Lemma read_request_raise : forall T K cfg st r s e, lib_ok r ->
  read_request T K cfg st r = Raise s e -> pre_fail r s e \/ post_raise T cfg s e.
Proof.
  intros T K cfg st r s e L H. unfold read_request in H.
  destruct (q_open r) as [x|] eqn:Q1; [inversion H; subst; left; left; split; [reflexivity | assumption]|].
  destruct (q_read r) as [x|] eqn:Q2; [inversion H; subst; left; right; left; split; [reflexivity | assumption]|].
  destruct (q_drain r) as [x|] eqn:Q3; [inversion H; subst; left; right; right; split; [reflexivity | assumption]|].
  right.
  destruct (step_meta K r) as [s0 e0|name] eqn:M.
  - inversion H; subst. eapply step_meta_raise; exact M.
  - pose proof (step_ext_spec T K cfg r L) as E.
    destruct (step_ext K cfg r) as [s0 e0|[cols rows]].
    + inversion H; subst. exact E.
    + destruct (step_shm T K cfg st r cols rows) as [s0 e0|u] eqn:S; [|discriminate].
      inversion H; subst. eapply step_shm_raise; [exact L | exact E | exact S].
Qed.

Lemma after_read_raise : forall T K cfg st r name s e, lib_ok r ->
  after_read T K cfg st r name = Raise s e -> post_raise T cfg s e.
Proof.
  intros T K cfg st r name s e L H.
  pose proof (lib_ok_parts r L) as (_ & _ & _ & _ & _ & Hval & Hver).
  unfold after_read in H.
  destruct (is_name name (N_TRANSPORT_OPTIONS K)); [discriminate|].
  destruct (negb (existsb (is_name name) (c_methods cfg))); [discriminate|].
  match type of H with context [match (if ?c then q_vercheck r else None) with _ => _ end] => destruct c end.
  - destruct (q_vercheck r) as [x|].
    + inversion H; subst. split; [cbv; tauto | split; [exact Hver | reflexivity]].
    + destruct (q_validate r) as [x|]; simpl in Hval.
      * inversion H; subst. split; [cbv; tauto | split; [exact Hval | reflexivity]].
      * destruct (c_static_shm cfg); [discriminate|]. destruct (c_in_loop cfg).
        -- destruct (md_get (K_SEG_NAME K) (q_md r)) as [nm|]; [|discriminate].
           destruct (option_eqb bytes_eqb (Some nm) st); [discriminate|].
           destruct (maybe_attach T K cfg SRefreshShmMeta SRefreshAttach r) as [s0 e0|[|]] eqn:M; try discriminate.
           inversion H; subst. eapply maybe_attach_raise; [exact L | right; left; split; reflexivity | exact M].
        -- destruct (maybe_attach T K cfg SDynShmMeta SDynAttach r) as [s0 e0|b] eqn:M; [|discriminate].
           inversion H; subst. eapply maybe_attach_raise; [exact L | right; right; split; reflexivity | exact M].
  - destruct (q_validate r) as [x|]; simpl in Hval.
    + inversion H; subst. split; [cbv; tauto | split; [exact Hval | reflexivity]].
    + destruct (c_static_shm cfg); [discriminate|]. destruct (c_in_loop cfg).
      * destruct (md_get (K_SEG_NAME K) (q_md r)) as [nm|]; [|discriminate].
        destruct (option_eqb bytes_eqb (Some nm) st); [discriminate|].
        destruct (maybe_attach T K cfg SRefreshShmMeta SRefreshAttach r) as [s0 e0|[|]] eqn:M; try discriminate.
        inversion H; subst. eapply maybe_attach_raise; [exact L | right; left; split; reflexivity | exact M].
      * destruct (maybe_attach T K cfg SDynShmMeta SDynAttach r) as [s0 e0|b] eqn:M; [|discriminate].
        inversion H; subst. eapply maybe_attach_raise; [exact L | right; right; split; reflexivity | exact M].
Qed.

Lemma flow_raise : forall T K cfg st r s e, lib_ok r ->
  serve_one_flow T K cfg st r = Raise s e -> pre_fail r s e \/ post_raise T cfg s e.
Proof.
  intros T K cfg st r s e L H. unfold serve_one_flow in H.
  destruct (read_request T K cfg st r) as [s0 e0|name] eqn:R.
  - inversion H; subst. eapply read_request_raise; [exact L | exact R].
  - right. eapply after_read_raise; [exact L | exact H].
Qed.

(* a post-drain raise is always answered when the table covers *)
Lemma post_raise_answered : forall T cfg s e, covers T = true -> post_raise T cfg s e ->
  exists rep, outcome_of (disp_at T cfg s e) = Answered rep.
Proof.
  intros T cfg s e C (Hs & Ha & Hc).
  pose proof (covers_post T C (c_in_loop cfg) s e Hs Ha) as G.
  unfold post_good in G. fold (disp_at T cfg s e) in G. rewrite Hc in G. simpl in G.
  destruct (outcome_of (disp_at T cfg s e)) as [rep| | |]; try discriminate. exists rep; reflexivity.
Qed.

Lemma pre_fail_not_framed : forall r s e, pre_fail r s e -> ~ well_framed r.
Proof.
  intros r s e [[_ H]|[[_ H]|[_ H]]] (W1 & W2 & W3); congruence.
Qed.

Lemma pre_fail_site : forall r s e, pre_fail r s e -> In s pre_sites.
Proof. intros r s e [[-> _]|[[-> _]|[-> _]]]; cbv; tauto. Qed.

(* ------------------------------------------------------------------ the theorems *)
Theorem always_answers : forall T K cfg st r, covers T = true -> well_framed r -> lib_ok r ->
  exists rep st', serve_one_model T K cfg st r = (Answered rep, st').
Proof.
  intros T K cfg st r C W L. unfold serve_one_model.
  destruct (serve_one_flow T K cfg st r) as [s e|[rep st']] eqn:F.
  - destruct (flow_raise T K cfg st r s e L F) as [P|P].
    + exfalso. exact (pre_fail_not_framed r s e P W).
    + destruct (post_raise_answered T cfg s e C P) as [rep Hrep]. rewrite Hrep. exists rep, st; reflexivity.
  - exists rep, st'; reflexivity.
Qed.

Theorem keeps_serving : forall T K cfg rs st, covers T = true ->
  Forall (fun r => well_framed r /\ lib_ok r) rs ->
  exists reps, serve_model T K cfg st rs = map Answered reps /\ List.length reps = List.length rs.
Proof.
  intros T K cfg rs. induction rs as [|r rest IH]; intros st C H.
  - exists []; split; reflexivity.
  - inversion H as [|? ? [W L] Hrest]; subst.
    destruct (always_answers T K cfg st r C W L) as (rep & st' & E).
    destruct (IH st' C Hrest) as (reps & E2 & Hl).
    exists (rep :: reps). simpl. rewrite E. rewrite E2. split; [reflexivity | simpl; rewrite Hl; reflexivity].
Qed.

Theorem only_bad_ipc_ends : forall T K cfg st r w esc st', covers T = true -> lib_ok r ->
  serve_one_model T K cfg st r = (Ended w esc, st') ->
  ~ well_framed r /\ exists s e, pre_fail r s e /\ (subclass e XArrowInvalid = true -> w <> None).
Proof.
  intros T K cfg st r w esc st' C L H. unfold serve_one_model in H.
  destruct (serve_one_flow T K cfg st r) as [s e|[rep st2]] eqn:F; [|discriminate].
  destruct (flow_raise T K cfg st r s e L F) as [P|P].
  - split; [exact (pre_fail_not_framed r s e P)|]. exists s, e. split; [exact P|].
    intros HA. pose proof (covers_pre T C (c_in_loop cfg) s e (pre_fail_site r s e P)) as G.
    unfold pre_good in G. fold (disp_at T cfg s e) in G.
    inversion H as [[Ho Hst]]. rewrite Ho in G. rewrite HA in G. destruct w; [discriminate | discriminate G].
  - destruct (post_raise_answered T cfg s e C P) as [rep Hrep]. rewrite Hrep in H. discriminate.
Qed.

Theorem never_silent : forall T K cfg st r, covers T = true -> lib_ok r ->
  match fst (serve_one_model T K cfg st r) with
  | Answered _ | Ended _ _ => True
  | Silent | Weird => False
  end.
Proof.
  intros T K cfg st r C L. unfold serve_one_model.
  destruct (serve_one_flow T K cfg st r) as [s e|[rep st2]] eqn:F; [|exact I].
  destruct (flow_raise T K cfg st r s e L F) as [P|P].
  - pose proof (covers_pre T C (c_in_loop cfg) s e (pre_fail_site r s e P)) as G.
    unfold pre_good in G. fold (disp_at T cfg s e) in G. simpl.
    destruct (outcome_of (disp_at T cfg s e)); try discriminate; exact I.
  - destruct (post_raise_answered T cfg s e C P) as [rep Hrep]. simpl. rewrite Hrep. exact I.
Qed.
