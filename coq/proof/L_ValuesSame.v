(* C02, second sentence: what pyarrow accepts outside the lossy cells denotes the value that was passed. *)
From Coq Require Import List NArith ZArith Bool Lia.
From VGI Require Import M_Values L_Values.
Import ListNotations.
Open Scope Z_scope.

Arguments f32_round : simpl never.
Arguments f64_trunc : simpl never.
Arguments f64_of_Z : simpl never.
Arguments f64_frac_zero : simpl never.
Arguments int_in_range : simpl never.
Arguments pow2 : simpl never.
Arguments unit_store : simpl never.
Arguments delta_store : simpl never.
Arguments unit_us : simpl never.
Arguments str_ok : simpl never.
Arguments Z.mul : simpl never.
Arguments Z.div : simpl never.
Arguments Z.pow : simpl never.
Arguments N.eqb : simpl never.
Arguments Z.eqb : simpl never.
Arguments Z.leb : simpl never.
Arguments Z.abs : simpl never.

(* v' denotes the value v: identical, or only the Python representation type differs and nothing is lost *)
Inductive same_val : value -> value -> Prop :=
| SV_refl : forall v, same_val v v
| SV_int_float : forall z, Z.abs z <= pow2 53 -> same_val (VInt z) (VFloat (f64_of_Z z))      (* 3 -> 3.0, exact *)
| SV_bool_float : forall b, same_val (VBool b) (VFloat (f64_of_Z (if b then 1 else 0)))
| SV_float_int : forall b z, f64_trunc b = Some z -> f64_frac_zero b = true -> same_val (VFloat b) (VInt z)   (* 2.0 -> 2 *)
| SV_list : forall l l', Forall2 same_val l l' -> same_val (VList l) (VList l')
| SV_tuple : forall l l', Forall2 same_val l l' -> same_val (VTuple l) (VList l')              (* (1, 2) -> [1, 2] *)
| SV_pair : forall a b a' b', same_val a a' -> same_val b b' -> same_val (VTuple [a; b]) (VTuple [a'; b'])
| SV_dict : forall d l', Forall2 same_val (dict_items d) l' -> same_val (VDict d) (VList l').  (* {k: v} -> [(k, v)] *)

Lemma map_outcome_Forall2 : forall (f : value -> outcome) l l',
  map_outcome f l = Some (Some l') -> Forall2 (fun x y => f x = Accept y) l l'.
Proof.
  intros f. induction l as [|x r IH]; intros l' H; simpl in H.
  - inversion H. constructor.
  - destruct (f x) as [y| |] eqn:E; try discriminate.
    + destruct (map_outcome f r) as [[r'|]|] eqn:Er; try discriminate. inversion H. subst. constructor; auto.
    + destruct (map_outcome f r) as [[r'|]|]; discriminate.
Qed.

Lemma list_outcome_Forall2 : forall (f : value -> outcome) l v',
  list_outcome f l = Accept v' -> exists l', v' = VList l' /\ Forall2 (fun x y => f x = Accept y) l l'.
Proof.
  intros f l v' H. unfold list_outcome in H.
  destruct (map_outcome f l) as [[l'|]|] eqn:E; try discriminate. inversion H. subst.
  exists l'. split; auto. apply map_outcome_Forall2. exact E.
Qed.

Lemma Forall2_same : forall (f : value -> outcome) (g : value -> bool) l l',
  (forall x y, In x l -> f x = Accept y -> g x = false -> same_val x y) ->
  Forall2 (fun x y => f x = Accept y) l l' -> existsb g l = false -> Forall2 same_val l l'.
Proof.
  intros f g l l' Hall HF. induction HF as [|x y r r' Hxy HF IH]; intros He; constructor.
  - simpl in He. apply orb_false_iff in He as [Hg _]. apply Hall; auto. left. reflexivity.
  - simpl in He. apply orb_false_iff in He as [_ Hr]. apply IH; auto. intros a b Ha. apply Hall. right. exact Ha.
Qed.

Lemma Accept_inj : forall a b, Accept a = Accept b -> a = b.
Proof. intros a b H. injection H. trivial. Qed.
Ltac refl_sv := match goal with |- same_val ?x ?x => apply SV_refl end.
Ltac inj_acc := match goal with H : Accept ?x = Accept ?y |- _ => apply Accept_inj in H; subst y end.

Lemma scalar_same : forall a v v',
  scalar_rt a v = Accept v' -> lossy_scalar a v = false -> same_val v v'.
Proof.
  intros a v v' H HL.
  destruct a as [sg bits|w| | | | | | |u tz|u|u|p sc|e|k w]; destruct v; cbn [scalar_rt] in H; try discriminate;
    try (inj_acc; refl_sv; fail).
  all: try (destruct w; try discriminate; try (inj_acc; refl_sv; fail)).
  all: cbn [lossy_scalar] in HL.
  - (* AInt, VInt *) destruct (int_in_range sg bits z); try discriminate. inj_acc. refl_sv.
  - (* AInt, VFloat *) apply negb_false_iff in HL.
    destruct (f64_trunc bits0) as [z|] eqn:E; try discriminate.
    destruct (int_in_range sg bits z); try discriminate. inj_acc. apply SV_float_int; auto.
  - (* AFloat F32, VBool *) inj_acc. apply SV_bool_float.
  - (* AFloat F64, VBool *) inj_acc. apply SV_bool_float.
  - (* AFloat F32, VInt *) destruct (Z.abs z <=? pow2 24) eqn:E; try discriminate. inj_acc. apply SV_int_float.
    apply Z.leb_le in E. assert (pow2 24 <= pow2 53) by (unfold pow2; apply Z.pow_le_mono_r; lia). lia.
  - (* AFloat F64, VInt *) destruct (Z.abs z <=? pow2 53) eqn:E; try discriminate. inj_acc. apply SV_int_float.
    apply Z.leb_le in E. exact E.
  - (* AFloat F32, VFloat *) inj_acc. apply negb_false_iff in HL. apply N.eqb_eq in HL. rewrite HL. refl_sv.
  - (* AStr, VStr *) destruct (str_ok s); try discriminate. inj_acc. refl_sv.
  - (* ADictStr, VStr *) destruct (str_ok s); try discriminate. inj_acc. refl_sv.
  - (* AStruct, VBytes *) destruct b; discriminate.
  - (* ATimestamp *) apply orb_false_iff in HL as [Ha Hs]. apply negb_false_iff in Ha. apply eqb_prop in Ha. subst.
    destruct (unit_store u us) as [us'|]; try discriminate. apply negb_false_iff in Hs. apply Z.eqb_eq in Hs. subst.
    inj_acc. refl_sv.
  - (* ATime *) destruct u; inj_acc; try refl_sv;
      apply negb_false_iff in HL; apply Z.eqb_eq in HL; rewrite HL; refl_sv.
  - (* ADuration *) destruct (delta_store u us) as [us'|]; try discriminate.
    apply negb_false_iff in HL. apply Z.eqb_eq in HL. subst. inj_acc. refl_sv.
Qed.

Lemma pair_same : forall (fk fv : value -> outcome) (gk gv : value -> bool) it y,
  (forall x z, fk x = Accept z -> gk x = false -> same_val x z) ->
  (forall x z, fv x = Accept z -> gv x = false -> same_val x z) ->
  pair_outcome fk fv it = Accept y ->
  (match it with VTuple [x; z] => gk x || gv z | _ => false end) = false ->
  same_val it y.
Proof.
  intros fk fv gk gv it y Hk Hv H HL.
  destruct it; simpl in H; try discriminate.
  destruct l as [|a [|b [|c r]]]; try discriminate.
  apply orb_false_iff in HL as [La Lb].
  destruct (fk a) as [a'| |] eqn:Ea.
  - destruct (fv b) as [b'| |] eqn:Eb.
    + destruct a'; try discriminate; inj_acc; apply SV_pair; eauto.
    + destruct a'; discriminate.
    + destruct a'; discriminate.
  - destruct (fv b); discriminate.
  - discriminate.
Qed.

(* every accepted value outside the lossy cells denotes the value passed: all Arrow types, all values *)
Lemma arrow_rt_same : forall a v v',
  arrow_rt a v = Accept v' -> lossy a v = false -> same_val v v'.
Proof.
  induction a as [sg bits|w| | | | | | |u tz|u|u|p sc|e IHe|k IHk w IHw]; intros v v' H HL;
    try (apply (scalar_same _ _ _ H HL); fail).
  - (* AList *) simpl in H, HL. destruct v; try discriminate; try (inj_acc; refl_sv).
    + apply list_outcome_Forall2 in H as [l' [-> HF]]. apply SV_list.
      eapply (Forall2_same (arrow_rt e) (lossy e)); [ | exact HF | exact HL ]; intros x y _ Hx Hg; eapply IHe; eauto.
    + apply list_outcome_Forall2 in H as [l' [-> HF]]. apply SV_tuple.
      eapply (Forall2_same (arrow_rt e) (lossy e)); [ | exact HF | exact HL ]; intros x y _ Hx Hg; eapply IHe; eauto.
  - (* AMap *) simpl in H, HL. destruct v; try discriminate; try (inj_acc; refl_sv).
    + apply list_outcome_Forall2 in H as [l' [-> HF]]. apply SV_list.
      eapply (Forall2_same (pair_outcome (arrow_rt k) (arrow_rt w)) (fun it => match it with VTuple [x; y] => lossy k x || lossy w y | _ => false end)); [ | exact HF | exact HL ];
      intros x y _ Hx Hg; eapply (pair_same (arrow_rt k) (arrow_rt w) (lossy k) (lossy w)); eauto.
    + apply list_outcome_Forall2 in H as [l' [-> HF]]. apply SV_tuple.
      eapply (Forall2_same (pair_outcome (arrow_rt k) (arrow_rt w)) (fun it => match it with VTuple [x; y] => lossy k x || lossy w y | _ => false end)); [ | exact HF | exact HL ];
      intros x y _ Hx Hg; eapply (pair_same (arrow_rt k) (arrow_rt w) (lossy k) (lossy w)); eauto.
    + apply list_outcome_Forall2 in H as [l' [-> HF]]. apply SV_dict.
      eapply (Forall2_same (pair_outcome (arrow_rt k) (arrow_rt w)) (fun it => match it with VTuple [x; y] => lossy k x || lossy w y | _ => false end)); [ | exact HF | exact HL ];
      intros x y _ Hx Hg; eapply (pair_same (arrow_rt k) (arrow_rt w) (lossy k) (lossy w)); eauto.
Qed.

(* lifted to the parameter / result path of plain annotations (no framework conversion on the way back) *)
Section PathSame.
  Variable ser : list N -> list N.
  Variable deser : list N -> option (list N).

  Lemma one_way_same : forall t v v' nullable,
    wire_plain t = true ->
    one_way ser deser (infer t, nullable) t v = Accept v' ->
    lossy (infer t) (convert_for_arrow ser v) = false ->
    same_val (convert_for_arrow ser v) v'.
  Proof.
    intros t v v' nullable Hp H HL. unfold one_way in H.
    destruct (is_none v && negb nullable); try discriminate.
    destruct (arrow_rt (infer t) (convert_for_arrow ser v)) as [x| |] eqn:E; simpl in H; try discriminate.
    destruct (is_none x) eqn:Ex.
    - destruct x; try discriminate. destruct nullable; inversion H. subst. eapply arrow_rt_same; eauto.
    - rewrite deserialize_plain in H by exact Hp. inversion H. subst. eapply arrow_rt_same; eauto.
  Qed.

  Lemma plain_param_field : forall t, wire_plain t = true -> param_field t = (infer t, snd (is_opt t)).
  Proof.
    intros t Hp. unfold param_field.
    pose proof (unwrap_plain _ (is_opt_plain t Hp)) as Hb. pose proof (is_opt_infer t) as Hi.
    destruct (is_opt t) as [inner nullable]. simpl in *.
    rewrite plain_not_data by exact Hb. rewrite Hi. reflexivity.
  Qed.

  Lemma param_path_same : forall t v v',
    wire_plain t = true ->
    param_path ser deser t v = Accept v' ->
    lossy (infer t) (convert_for_arrow ser v) = false ->
    same_val (convert_for_arrow ser v) v'.
  Proof.
    intros t v v' Hp H HL. unfold param_path in H. rewrite plain_param_field in H by exact Hp.
    eapply one_way_same; eauto.
  Qed.

  Lemma result_path_same : forall t v v',
    wire_plain t = true ->
    result_path ser deser true t v = Accept v' ->
    lossy (infer t) (convert_for_arrow ser v) = false ->
    same_val (convert_for_arrow ser v) v'.
  Proof.
    intros t v v' Hp H HL. unfold result_path in H. rewrite result_field_fixed in H.
    rewrite plain_param_field in H by exact Hp. eapply one_way_same; eauto.
  Qed.
End PathSame.
