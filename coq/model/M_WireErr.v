(* M_WireErr: executable model of the ERROR PATH of the vgi-rpc wire protocol (definitions only, no proofs) -- C07.

   Builds on M_Wire (programs, scripts, frames, run_pipe / run_http).  M_Wire abstracts an error batch as the frame
   [FErr e] and the client's view of it as [err_event e]; this file opens that abstraction:

   Layer A  (metadata codec)   vgi_rpc/log.py  Message.from_exception, Message.add_to_metadata (error_kind hoist)
                               vgi_rpc/rpc/_wire.py  _write_message_batch / _write_error_batch, _dispatch_log_or_error
                               vgi_rpc/rpc/_common.py  RpcError
   Layer H  (HTTP responses)   vgi_rpc/http/server/_responses.py  _set_http_status / _set_error_response
                               _app_unary._run_unary_sync, _app_stream._run_stream_init_sync / _run_http_producer_turn /
                               _run_http_exchange_turn, _resources.*Resource.on_post (which status reaches _set_http_status)
   Layer S  (sites)            [first_failure]: the exception the service implementation raises first on the path the
                               client script walks (unary / init / k-th process step), for theorems over M_Wire's runs.

   Abstraction: metadata keys and values are code-point strings (Arrow key/value transport and UTF-8 are the identity
   on well-formed text); json.dumps / json.loads are Section variables of the theorems (round-trip hypothesis);
   a traceback is an arbitrary string handed in from outside.  MODELS THE REPAIRED CLIENT: RpcError carries
   [error_kind] read from the top-level vgi_rpc.error_kind key (fixes/C07-rpcerror-exposes-error-kind.diff);
   [dispatch_gen false] is the client of the unrepaired tree (refuted/R_C07.v). *)
From Coq Require Import List NArith ZArith Bool String Ascii.
From VGI Require Import Corr M_Wire.
Import ListNotations.
Open Scope N_scope.

(* ================================================================== Layer A: the metadata codec *)
(* a JSON value inside log_extra: a string, or anything else (frames list, numbers) carrying Python's str() of it *)
Inductive jval := JStr (v : str) | JRaw (rendered : str).
Definition jobj := list (str * jval).
Definition jstr_of (v : jval) : str := match v with JStr x => x | JRaw r => r end.        (* str(v) *)
Fixpoint jget (k : str) (o : jobj) : option jval :=
  match o with [] => None | (k', v) :: r => if str_eqb k k' then Some v else jget k r end.

Definition metadata := list (str * str).
Definition mget : str -> metadata -> option str := assoc.                                   (* KeyValueMetadata.get *)

Definition K_LEVEL := s "vgi_rpc.log_level".
Definition K_MESSAGE := s "vgi_rpc.log_message".
Definition K_EXTRA := s "vgi_rpc.log_extra".
Definition K_KIND := s "vgi_rpc.error_kind".
Definition K_SERVER_ID := s "vgi_rpc.server_id".
Definition K_REQUEST_ID := s "vgi_rpc.request_id".
Definition L_EXCEPTION := s "EXCEPTION".

Definition X_TYPE := s "exception_type".
Definition X_MESSAGE := s "exception_message".
Definition X_TRACEBACK := s "traceback".
Definition X_CAUSE := s "cause".
Definition X_CONTEXT := s "context".
Definition X_FRAMES := s "frames".
Definition X_KIND := s "error_kind".

(* what Message.from_exception reads off the exception object besides M_Wire's exn (class name, str(exc), and the
   error_kind attribute when it is a str): the formatted (already truncated) traceback, the optional cause / context
   chains, the frame list (opaque) *)
Record exc_view := { xe : exn; xtb : str; xcause : option str; xcontext : option str; xframes : str }.

Definition opt_entry (k : str) (o : option str) : jobj := match o with Some v => [(k, JStr v)] | None => [] end.

(* Message.from_exception: (message, extra) of an EXCEPTION-level Message *)
Definition summary (e : exn) : str := cls e ++ s ": " ++ emsg e.
Definition from_exception (v : exc_view) : str * jobj :=
  (summary (xe v),
   [(X_TYPE, JStr (cls (xe v))); (X_MESSAGE, JStr (emsg (xe v))); (X_TRACEBACK, JStr (xtb v))]
   ++ opt_entry X_CAUSE (xcause v) ++ opt_entry X_CONTEXT (xcontext v)
   ++ [(X_FRAMES, JRaw (xframes v))]
   ++ opt_entry X_KIND (kind (xe v))).

(* RpcError as the client raises it; r_kind = the exposed error_kind attribute *)
Record rpc_error := { r_type : str; r_message : str; r_traceback : str; r_request_id : str; r_kind : option str }.
Definition rpc_error_str (r : rpc_error) : str := r_type r ++ s ": " ++ r_message r.       (* str(RpcError) *)

Inductive dispatched := DData | DRaise (r : rpc_error) | DLog (level msg : str) (extra : list (str * str)).

Section Codec.
  Variable dumps : jobj -> str.
  Variable loads : str -> option jobj.

  (* Message.add_to_metadata (no base metadata): level, message, log_extra when the extras are non-empty, and the
     error_kind hoisted to a top-level key when extras["error_kind"] is a str *)
  Definition add_to_metadata (level msg : str) (extra : jobj) : metadata :=
    [(K_LEVEL, level); (K_MESSAGE, msg)]
    ++ match extra with
       | [] => []
       | _ => (K_EXTRA, dumps extra) :: match jget X_KIND extra with Some (JStr k) => [(K_KIND, k)] | _ => [] end
       end.

  (* _write_message_batch: + server_id when configured, + request_id when non-empty *)
  Definition stamp (md : metadata) (server_id : option str) (request_id : str) : metadata :=
    md ++ match server_id with Some i => [(K_SERVER_ID, i)] | None => [] end
       ++ match request_id with [] => [] | _ => [(K_REQUEST_ID, request_id)] end.

  (* _write_error_batch *)
  Definition error_metadata (v : exc_view) (server_id : option str) (request_id : str) : metadata :=
    let '(msg, extra) := from_exception v in stamp (add_to_metadata L_EXCEPTION msg extra) server_id request_id.

  (* _dispatch_log_or_error on a batch with [rows] rows and custom metadata [md].
     expose = the client copies vgi_rpc.error_kind into RpcError.error_kind *)
  Definition dispatch_gen (expose : bool) (rows : N) (md : option metadata) : dispatched :=
    match md with
    | None => DData
    | Some md =>
        if negb (rows =? 0) then DData else
        match mget K_LEVEL md, mget K_MESSAGE md with
        | Some level, Some msg =>
            let ex := match mget K_EXTRA md with
                      | Some raw => match loads raw with Some o => o | None => [] end       (* suppress(JSONDecodeError) *)
                      | None => []
                      end in
            let rid := match mget K_REQUEST_ID md with Some r => r | None => [] end in
            if str_eqb level L_EXCEPTION then
              DRaise {| r_type := match jget X_TYPE ex with Some v => jstr_of v | None => level end;
                        r_message := msg;
                        r_traceback := match jget X_TRACEBACK ex with Some v => jstr_of v | None => [] end;
                        r_request_id := rid;
                        r_kind := if expose then mget K_KIND md else None |}
            else
              DLog level msg (map (fun kv => (fst kv, jstr_of (snd kv))) ex
                              ++ match mget K_SERVER_ID md with Some i => [(s "server_id", i)] | None => [] end
                              ++ match rid with [] => [] | _ => [(s "request_id", rid)] end)
        | _, _ => DData
        end
    end.
  Definition dispatch := dispatch_gen true.

  (* the client's view of an error batch, end to end *)
  Definition client_error (v : exc_view) (server_id : option str) (request_id : str) : dispatched :=
    dispatch 0 (Some (error_metadata v server_id request_id)).
End Codec.

(* the error a faithful client must raise for exception e (what C07 demands) *)
Definition expected_error (v : exc_view) (request_id : str) : rpc_error :=
  {| r_type := cls (xe v); r_message := summary (xe v); r_traceback := xtb v; r_request_id := request_id; r_kind := kind (xe v) |}.
(* M_Wire's abstraction of it *)
Definition event_of_error (r : rpc_error) : event := EError (r_type r) (r_message r).

(* ================================================================== Layer H: HTTP responses *)
Record hresp := { h_status : N; h_marker : bool; h_body : list frame }.

(* _set_http_status: 500 becomes 200 + X-VGI-RPC-Error: true, every other code is sent as is without the marker *)
Definition set_http_status (code : N) : N * bool := if code =? 500 then (200, true) else (code, false).
Definition mk_resp (code : N) (body : list frame) : hresp :=
  let '(st, mk) := set_http_status code in {| h_status := st; h_marker := mk; h_body := body |}.
Definition code_of (failed : bool) : N := if failed then 500 else 200.

Definition is_ferr (f : frame) : bool := match f with FErr _ => true | _ => false end.
Definition has_ferr (fs : list frame) : bool := existsb is_ferr fs.
Definition is_exc_frame (f : frame) : bool := match f with FLog m => is_exc m | _ => false end.
(* the client raises on this response (an error batch, or an EXCEPTION-level log of the implementation) and stops *)
Definition client_stops (fs : list frame) : bool := existsb (fun f => is_ferr f || is_exc_frame f) fs.

(* every response is paired with [failed] = the dispatch of THIS request raised (implementation exception,
   out.validate(), or a hard-cap overshoot) -- set exactly where the code enters its except branch *)

(* _run_unary_sync + _RpcResource.on_post *)
Definition unary_frame (u : unary_prog) : frame :=
  match ures_of u with UOk v => FData {| rows := 1; tag := Z.to_N v; meta := [] |} | URaise e => FErr e end.
Definition http_unary_resp (cfg : httpcfg) (u : unary_prog) : hresp * bool :=
  let fs := map FLog (ulogs u) ++ [unary_frame u] in
  match ures_of u with
  | URaise _ => (mk_resp 500 (fs ++ [FEos]), true)
  | UOk _ => if over_cap cfg (add_sizes cfg (base cfg) fs) then (mk_resp 500 [FErr cap_exn; FEos], true)
             else (mk_resp 200 (fs ++ [FEos]), false)
  end.

(* one _run_http_producer_turn from a cursor: frames, failed, continuation (remaining steps, cursor) *)
Fixpoint http_turn (cfg : httpcfg) (sts : list step) (i : nat) (z : N) : list frame * bool * option (list step * nat) :=
  match sts with
  | [] => ([], false, None)
  | x :: r =>
      match exec_step true (Some x) with
      | SErr e => ([FErr e], true, None)
      | SFrames fs true => (fs, false, None)
      | SFrames fs false =>
          let z' := add_sizes cfg z fs in
          if keep_going cfg z' then let '(fs', f, nx) := http_turn cfg r (S i) z' in (fs ++ fs', f, nx)
          else (fs ++ [FToken (S i)], false, Some (r, S i))
      end
  end.

(* the responses a client iterating to exhaustion receives; pre = what precedes the first turn in the /init body *)
Fixpoint prod_turns (cfg : httpcfg) (fuel : nat) (sts : list step) (i : nat) (z : N) (pre : list frame) : list (hresp * bool) :=
  match fuel with
  | O => []
  | S f =>
      let '(fs, failed, nx) := http_turn cfg sts i z in
      (mk_resp (code_of failed) (pre ++ fs ++ [FEos]), failed)
      :: (if client_stops (pre ++ fs) then [] else
          match nx with Some (r, j) => prod_turns cfg f r j (base cfg) [] | None => [] end)
  end.

(* _run_http_exchange_turn: _RpcHttpError(500) on a raise, in-band error + contextvar on a cap overshoot *)
Definition http_exch_resp (cfg : httpcfg) (st : option step) : hresp * bool :=
  match exec_step false st with
  | SErr e => (mk_resp 500 [FErr e; FEos], true)
  | SFrames fs _ => if over_cap cfg (add_sizes cfg (base cfg) fs) then (mk_resp 500 [FErr cap_exn; FEos], true)
                    else (mk_resp 200 (fs ++ [FEos]), false)
  end.
Fixpoint exch_turns (cfg : httpcfg) (sts : list step) (n : nat) : list (hresp * bool) :=
  match n with
  | O => []
  | S n' => let r := http_exch_resp cfg (hd_error sts) in
            r :: (if client_stops (h_body (fst r)) then [] else exch_turns cfg (tl sts) n')
  end.

Definition header_frames (sp : stream_prog) (h : bool) : list frame :=
  if h then map FLog (ilogs sp) ++ [match hdr sp with Some v => FHdr v | None => FEos end; FEos] else map FLog (ilogs sp).

(* all HTTP responses of one scripted call, in request order (cancel requests are not part of it) *)
Definition http_session (cfg : httpcfg) (p : prog) (sc : script) : list (hresp * bool) :=
  match p, sc with
  | PUnary u, SUnary _ => [http_unary_resp cfg u]
  | PStream sp, SIter h _ _ _ =>
      match ires sp with
      | InitRaise e => [(mk_resp 500 [FErr e; FEos], true)]                 (* _RpcHttpError -> _set_error_response *)
      | InitBadReturn => []
      | InitOk =>
          prod_turns cfg (S (List.length (steps sp))) (steps sp) 0
                     (add_sizes cfg (base cfg) (if h then [] else map FLog (ilogs sp))) (header_frames sp h)
      end
  | PStream sp, SExch h n _ _ =>
      match ires sp with
      | InitRaise e => [(mk_resp 500 [FErr e; FEos], true)]
      | InitBadReturn => []
      | InitOk =>
          (mk_resp 200 (header_frames sp h ++ [FToken 0; FEos]), false)
          :: (if client_stops (header_frames sp h) then [] else exch_turns cfg (steps sp) n)
      end
  | _, _ => []
  end.

(* ================================================================== Layer S: the dispatch site that fails first *)
Fixpoint ff_prod (sts : list step) : option exn :=
  match sts with
  | [] => None
  | x :: r => match exec_step true (Some x) with SErr e => Some e | SFrames _ true => None | SFrames _ false => ff_prod r end
  end.
Fixpoint ff_exch (sts : list step) (n : nat) : option exn :=
  match n with
  | O => None
  | S n' => match exec_step false (hd_error sts) with SErr e => Some e | SFrames _ _ => ff_exch (tl sts) n' end
  end.
(* the exception raised at the first failing dispatch site on the path of a script that consumes the whole call:
   unary method / stream init / the k-th process() call (a failing out.validate() counts: it is raised inside dispatch) *)
Definition first_failure (p : prog) (sc : script) : option exn :=
  match p, sc with
  | PUnary u, SUnary _ => match ures_of u with URaise e => Some e | UOk _ => None end
  | PStream sp, SIter _ _ AStop _ => match ires sp with InitRaise e => Some e | _ => ff_prod (steps sp) end
  | PStream sp, SExch _ n _ _ => match ires sp with InitRaise e => Some e | _ => ff_exch (steps sp) n end
  | _, _ => None
  end.

Definition is_error (e : event) : bool := match e with EError _ _ => true | _ => false end.
Definition last_event (t : list event) : option event := last (map Some t) None.

(* ================================================================== Layer S over HTTP: a hard-cap overshoot of a
   successful unary / exchange response is a failure of that dispatch too (RuntimeError cap_exn) *)
Fixpoint ff_exch_http (cfg : httpcfg) (sts : list step) (n : nat) : option exn :=
  match n with
  | O => None
  | S n' => match exec_step false (hd_error sts) with
            | SErr e => Some e
            | SFrames fs _ => if over_cap cfg (add_sizes cfg (base cfg) fs) then Some cap_exn else ff_exch_http cfg (tl sts) n'
            end
  end.
Definition first_failure_http (cfg : httpcfg) (p : prog) (sc : script) : option exn :=
  match p, sc with
  | PUnary u, SUnary _ =>
      match ures_of u with
      | URaise e => Some e
      | UOk _ => if over_cap cfg (add_sizes cfg (base cfg) (map FLog (ulogs u) ++ [unary_frame u])) then Some cap_exn else None
      end
  | PStream sp, SIter _ _ AStop _ => match ires sp with InitRaise e => Some e | _ => ff_prod (steps sp) end
  | PStream sp, SExch _ n _ _ => match ires sp with InitRaise e => Some e | _ => ff_exch_http cfg (steps sp) n end
  | _, _ => None
  end.

Fixpoint first_ferr (fs : list frame) : option exn :=
  match fs with [] => None | FErr e :: _ => Some e | _ :: r => first_ferr r end.
Definition frames_quiet (fs : list frame) : bool := forallb (fun f => negb (is_exc_frame f)) fs.

(* ================================================================== correspondence entry points *)
Definition hobs (r : hresp * bool) : N * bool * bool := (h_status (fst r), h_marker (fst r), has_ferr (h_body (fst r))).
Definition ferr_triple (o : option exn) : option (str * str * option str) :=
  option_map (fun e => (cls e, summary e, kind e)) o.

(* pipe / unix / tcp: (client trace, error triple the client must end with) *)
Definition run_case_pipe (x : prog * script) : list event * option (str * str * option str) :=
  (run_pipe (fst x) (snd x), ferr_triple (first_failure (fst x) (snd x))).
(* http: (client trace, error triple, (status, marker, body-has-error-batch) of every response) *)
Definition run_case_http (x : option N * (prog * script)) : list event * option (str * str * option str) * list (N * bool * bool) :=
  let cfg := {| cap := fst x; fsize := fun _ => 100; base := 100 |} in
  (run_http cfg (fst (snd x)) (snd (snd x)), ferr_triple (first_failure_http cfg (fst (snd x)) (snd (snd x))),
   map hobs (http_session cfg (fst (snd x)) (snd (snd x)))).

(* Layer A on concrete metadata: json enters as an association list already parsed by the harness (the harness
   checks json.loads(json.dumps(extra)) == extra on every case) *)
Definition run_case_codec (x : exc_view * option str * str) : metadata * option (str * str * str * str * option str) :=
  let '(v, sid, rid) := x in
  let extra := snd (from_exception v) in
  let dumps := fun _ : jobj => s "<json>" in
  let loads := fun _ : str => Some extra in
  let md := error_metadata dumps v sid rid in
  (md, match dispatch loads 0 (Some md) with
       | DRaise r => Some (r_type r, r_message r, r_traceback r, r_request_id r, r_kind r)
       | _ => None
       end).

