(* Model of the HTTP client retry machinery:
     vgi_rpc/http/_retry.py    HttpRetryConfig.__post_init__, _parse_retry_after, _get_retry_after,
                               _compute_delay, _request_with_retry, _post_with_retry / _options_with_retry
     vgi_rpc/http/_client.py   HttpStreamSession.exchange / cancel / _send_continuation,
                               _HttpProxy unary caller / stream-init caller (413 fallback)
   Executable definitions only; proofs are in proof/L_Retry.v.

   Floats.  Every Python float is NaN, -inf, +inf or an exact dyadic rational, so `fl` below holds
   every float value exactly (FFin q with q : Q; the sign of zero is dropped, it never influences a
   comparison).  The only float arithmetic of the code is  backoff_base * 2**attempt  (exact in
   binary floating point as long as it neither overflows nor goes subnormal) and what random.uniform
   does; the value random.uniform returned is an INPUT of the model (`jit`), the theorems quantify
   over it.  Comparisons, min and max follow CPython: every comparison with NaN is False,
   min(a, b) = b if b < a else a,  max(a, b) = b if b > a else a  (argument order matters). *)
From Coq Require Import List NArith ZArith QArith Bool.
Import ListNotations.

Inductive fl := FNaN | FNInf | FFin (q : Q) | FPInf.

(* Python  a < b *)
Definition flt (a b : fl) : bool :=
  match a, b with
  | FNaN, _ => false
  | _, FNaN => false
  | FNInf, FNInf => false
  | FNInf, _ => true
  | _, FNInf => false
  | FFin p, FFin q => negb (Qle_bool q p)
  | FFin _, FPInf => true
  | FPInf, _ => false
  end.

(* Python  a <= b *)
Definition fle (a b : fl) : bool :=
  match a, b with
  | FNaN, _ => false
  | _, FNaN => false
  | FNInf, _ => true
  | _, FNInf => false
  | FFin p, FFin q => Qle_bool p q
  | _, FPInf => true
  | FPInf, FFin _ => false
  end.

Definition pymin (a b : fl) : fl := if flt b a then b else a.     (* min(a, b) *)
Definition pymax (a b : fl) : fl := if flt a b then b else a.     (* max(a, b): b if b > a else a *)

Definition fzero : fl := FFin 0.

(* x * 2**n  for an int n >= 0 *)
Definition fscale (x : fl) (n : nat) : fl :=
  match x with
  | FFin q => FFin (q * inject_Z (Z.pow 2 (Z.of_nat n)))
  | o => o
  end.

Definition fl_eqb (a b : fl) : bool :=
  match a, b with
  | FNaN, FNaN => true
  | FNInf, FNInf => true
  | FPInf, FPInf => true
  | FFin p, FFin q => Qeq_bool p q
  | _, _ => false
  end.

(* ---- HttpRetryConfig ---------------------------------------------------------------------- *)
Record config := {
  max_retries : nat;
  bbase : fl;                  (* backoff_base *)
  bmax : fl;                   (* backoff_max *)
  retryable : list N;          (* retryable_status_codes *)
  roce : bool;                 (* retry_on_connection_error *)
  respect_ra : bool            (* respect_retry_after *)
}.

(* __post_init__ raises iff  backoff_base < 0  or  backoff_max < 0   (max_retries < 0 cannot be
   expressed: max_retries is a nat here) *)
Definition cfg_valid (c : config) : bool := negb (flt (bbase c) fzero) && negb (flt (bmax c) fzero).

Definition status_in (s : N) (l : list N) : bool := existsb (N.eqb s) l.

(* ---- Retry-After -------------------------------------------------------------------------- *)
(* what the header looks like to _get_retry_after / _parse_retry_after *)
Inductive ra_hdr :=
| RAabsent                 (* no Retry-After header *)
| RAfloat (x : fl)         (* float(value) succeeds with x  (incl. nan, +-inf, negatives) *)
| RAdate (d : fl)          (* not a float; parsedate_to_datetime gives an aware datetime, d = (dt - now).total_seconds() *)
| RAgarbage.               (* neither: float() -> ValueError, parsedate_to_datetime / subtraction -> ValueError | TypeError *)

Definition parse_ra (h : ra_hdr) : option fl :=
  match h with
  | RAabsent => None
  | RAfloat x => Some x
  | RAdate d => Some (pymax fzero d)          (* max(0.0, delay) *)
  | RAgarbage => None
  end.

(* ---- _compute_delay ------------------------------------------------------------------------ *)
Definition exp_delay (c : config) (attempt : nat) : fl := fscale (bbase c) attempt.

(* jit = the value random.uniform(0, exp_delay) returned *)
Definition compute_delay (c : config) (attempt : nat) (ra : option fl) (jit : fl) : fl :=
  let delay := pymin jit (bmax c) in
  if respect_ra c then
    match ra with
    | Some r => pymax delay (pymin r (bmax c))
    | None => delay
    end
  else delay.

(* ---- one call of make_request() ------------------------------------------------------------- *)
Inductive outcome :=
| OConnErr                         (* httpx2.ConnectError *)
| OTimeout                         (* httpx2.TimeoutException (Connect/Read/Write/Pool timeout) *)
| ODisconnect                      (* RemoteProtocolError "Server disconnected without sending a response." *)
| OProtoOther                      (* any other RemoteProtocolError (bytes were already flowing) *)
| OOtherErr                        (* any other exception (ReadError, WriteError, LocalProtocolError, ...) *)
| OResp (status : N) (h : ra_hdr). (* a response *)

(* when the script of outcomes is exhausted the request succeeds *)
Definition dflt_outcome : outcome := OResp 200 RAabsent.

Inductive final :=
| FReturn (status : N)                        (* the response is handed to the caller *)
| FTransient (status : N) (ra : option fl)    (* HttpTransientError(status, ..., retry_after) *)
| FRaise (o : outcome).                       (* the exception of that outcome propagates *)

Record trace := {
  sends : nat;             (* number of make_request() calls *)
  sleeps : list fl;        (* arguments of _sleep, in order *)
  ubounds : list fl;       (* second arguments of random.uniform(0, .), in order *)
  fin : final
}.

Definition tr_one (f : final) : trace := {| sends := 1; sleeps := []; ubounds := []; fin := f |}.
Definition tr_cons (d u : fl) (t : trace) : trace :=
  {| sends := S (sends t); sleeps := d :: sleeps t; ubounds := u :: ubounds t; fin := fin t |}.

(* the range of the for loop and the guards of its body, as written in _request_with_retry:
   range(config.max_retries + 1);  not config.retry_on_connection_error or attempt >= config.max_retries;
   attempt >= config.max_retries *)
Definition loop_fuel (c : config) : nat := max_retries c + 1.
Definition guard_conn (c : config) (attempt : nat) : bool := negb (roce c) || (max_retries c <=? attempt)%nat.
Definition guard_status (c : config) (attempt : nat) : bool := (max_retries c <=? attempt)%nat.

(* for attempt in range(max_retries + 1): ...   `fuel` is what is left of the range, `last` is
   (last_resp.status_code, last_retry_after) *)
Fixpoint loop (c : config) (jit : nat -> fl) (fuel attempt : nat) (fs : list outcome)
         (last : option (N * option fl)) : trace :=
  match fuel with
  | O =>
      (* the for loop ran out without break/return/raise *)
      {| sends := 0; sleeps := []; ubounds := [];
         fin := match last with Some (s, ra) => FTransient s ra | None => FTransient 0 None end |}
  | S fuel' =>
      let o := hd dflt_outcome fs in
      let again (ra : option fl) (last' : option (N * option fl)) :=
        tr_cons (compute_delay c attempt ra (jit attempt)) (exp_delay c attempt)
                (loop c jit fuel' (S attempt) (tl fs) last') in
      match o with
      | ODisconnect =>
          if guard_conn c attempt then tr_one (FRaise o) else again None last
      | OConnErr | OTimeout =>
          if guard_conn c attempt then tr_one (FRaise o) else again None last
      | OProtoOther | OOtherErr => tr_one (FRaise o)
      | OResp s h =>
          if negb (status_in s (retryable c)) then tr_one (FReturn s)
          else
            let ra := parse_ra h in
            if guard_status c attempt then tr_one (FTransient s ra)      (* break *)
            else again ra (Some (s, ra))
      end
  end.

Definition request_with_retry (c : config) (jit : nat -> fl) (fs : list outcome) : trace :=
  loop c jit (loop_fuel c) 0 fs None.

(* a bare client.post(): one send, whatever happens *)
Definition single (fs : list outcome) : trace :=
  match hd dflt_outcome fs with
  | OResp s _ => tr_one (FReturn s)
  | o => tr_one (FRaise o)
  end.

(* _post_with_retry / _options_with_retry: config None disables the loop *)
Definition post_with_retry (co : option config) (jit : nat -> fl) (fs : list outcome) : trace :=
  match co with
  | None => single fs
  | Some c => request_with_retry c jit fs
  end.

(* ---- the statement's notion of "retryable" ------------------------------------------------- *)
Definition retryable_outcome (c : config) (o : outcome) : bool :=
  match o with
  | OConnErr | OTimeout | ODisconnect => true
  | OResp s _ => status_in s (retryable c)
  | OProtoOther | OOtherErr => false
  end.

(* ---- HttpStreamSession.exchange / cancel, callers of _post_with_retry ---------------------- *)
(* requests to the operation's own URL only; the auxiliary requests of the 413 fallback (OPTIONS
   capabilities, __upload_url__/init, PUT to the vended URL) go elsewhere and are summarised by
   `ext_ok` = they succeeded and a pointer body was built *)
Inductive xfinal :=
| XReturn (status : N)       (* a response reached the response parser *)
| XRaise (o : outcome)       (* transport exception propagated *)
| XTransient (status : N)    (* HttpTransientError *)
| XNoState                   (* RpcError: stream has finished (no state token), nothing sent *)
| XCancelled                 (* RpcError: stream has been closed or cancelled (_check_not_cancelled), nothing sent *)
| XExtFail                   (* externalisation raised *)
| XSwallowed.                (* cancel(): every failure is swallowed *)

Record xtrace := { xsends : nat; xext : bool (* externalisation attempted *); xfin : xfinal }.

Definition xfinal_of (f : final) : xfinal :=
  match f with FReturn s => XReturn s | FTransient s _ => XTransient s | FRaise o => XRaise o end.

(* the session as exchange() / cancel() see it: _cancelled set | no state token | usable *)
Inductive sess := SCancelled | SFinished | SLive.

Definition exchange (st : sess) (fs : list outcome) (ext_ok : bool) : xtrace :=
  match st with
  | SCancelled => {| xsends := 0; xext := false; xfin := XCancelled |}      (* self._check_not_cancelled() comes first *)
  | SFinished => {| xsends := 0; xext := false; xfin := XNoState |}
  | SLive =>
    match hd dflt_outcome fs with
    | OResp s _ =>
        if (s =? 413)%N then
          if ext_ok then
            match hd dflt_outcome (tl fs) with
            | OResp s2 _ => {| xsends := 2; xext := true; xfin := XReturn s2 |}
            | o2 => {| xsends := 2; xext := true; xfin := XRaise o2 |}
            end
          else {| xsends := 1; xext := true; xfin := XExtFail |}
        else {| xsends := 1; xext := false; xfin := XReturn s |}
    | o => {| xsends := 1; xext := false; xfin := XRaise o |}
    end
  end.

(* cancel(): (requests, session still has a state token afterwards = false) *)
Definition cancel (st : sess) (fs : list outcome) : xtrace :=
  match st with
  | SLive => {| xsends := 1; xext := false; xfin := XSwallowed |}
  | SCancelled | SFinished => {| xsends := 0; xext := false; xfin := XSwallowed |}   (* finished or no token: nothing to send *)
  end.
(* cancel() sets _cancelled (and drops the state token) whatever the session was *)
Definition cancel_state_after (st : sess) : sess := SCancelled.

(* unary call / stream init: _post_with_retry, then the 413 fallback: externalise and
   _post_with_retry once more (the 415 fallback needs a VGI-Supported-Encodings header on the 415
   response and is not modelled: the scripted responses never carry it) *)
Definition unary_like (co : option config) (jit : nat -> fl) (fs : list outcome) (ext_ok : bool) : xtrace :=
  let t1 := post_with_retry co jit fs in
  match fin t1 with
  | FReturn 413%N =>
      if ext_ok then
        let t2 := post_with_retry co jit (skipn (sends t1) fs) in
        {| xsends := sends t1 + sends t2; xext := true; xfin := xfinal_of (fin t2) |}
      else {| xsends := sends t1; xext := true; xfin := XExtFail |}
  | f => {| xsends := sends t1; xext := false; xfin := xfinal_of f |}
  end.

Definition continuation (co : option config) (jit : nat -> fl) (fs : list outcome) : xtrace :=
  let t := post_with_retry co jit fs in
  {| xsends := sends t; xext := false; xfin := xfinal_of (fin t) |}.

Inductive op := OpUnary | OpInit | OpCont | OpExchange | OpCancel
  | OpExchangeCancelled (* exchange() on a cancelled session *) | OpCancelCancelled (* second cancel() *).

Definition op_run (o : op) (co : option config) (jit : nat -> fl) (fs : list outcome) (ext_ok : bool) : xtrace :=
  match o with
  | OpUnary | OpInit => unary_like co jit fs ext_ok
  | OpCont => continuation co jit fs
  | OpExchange => exchange SLive fs ext_ok
  | OpCancel => cancel SLive fs
  | OpExchangeCancelled => exchange (cancel_state_after SLive) fs ext_ok
  | OpCancelCancelled => cancel (cancel_state_after SLive) fs
  end.

(* ---- entry points for the correspondence runs ---------------------------------------------- *)
Definition final_code (f : final) : N * N * option fl :=
  match f with
  | FReturn s => (0, s, None)
  | FTransient s ra => (1, s, ra)
  | FRaise OConnErr => (2, 0, None)
  | FRaise OTimeout => (3, 0, None)
  | FRaise ODisconnect => (4, 0, None)
  | FRaise OProtoOther => (5, 0, None)
  | FRaise OOtherErr => (6, 0, None)
  | FRaise (OResp s _) => (7, s, None)
  end%N.

Definition jit_of (js : list fl) : nat -> fl := fun a => nth a js fzero.

(* level A: the retry loop.  (config, jitter draws by attempt, outcomes) -> (sends, sleeps, uniform bounds, final) *)
Definition run_case (i : config * list fl * list outcome) : N * list fl * list fl * (N * N * option fl) :=
  let '(c, js, fs) := i in
  let t := request_with_retry c (jit_of js) fs in
  (N.of_nat (sends t), sleeps t, ubounds t, final_code (fin t)).

Definition xfinal_code (f : xfinal) : N * N :=
  match f with
  | XReturn s => (0, s)
  | XTransient s => (1, s)
  | XRaise OConnErr => (2, 0)
  | XRaise OTimeout => (3, 0)
  | XRaise ODisconnect => (4, 0)
  | XRaise OProtoOther => (5, 0)
  | XRaise OOtherErr => (6, 0)
  | XRaise (OResp s _) => (7, s)
  | XNoState => (8, 0)
  | XCancelled => (11, 0)
  | XExtFail => (9, 0)
  | XSwallowed => (10, 0)
  end%N.

(* level B: client operations.  (op, config option, outcomes on the op's URL, externalisation ok) ->
   (requests to the op's URL, externalisation attempted, final) *)
Definition run_op (i : op * option config * list outcome * bool) : N * bool * (N * N) :=
  let '(o, co, fs, ext_ok) := i in
  let t := op_run o co (fun _ => fzero) fs ext_ok in
  (N.of_nat (xsends t), xext t, xfinal_code (xfin t)).

(* comparison of results (Q is a setoid: compare with Qeq_bool) *)
Fixpoint fl_list_eqb (l1 l2 : list fl) : bool :=
  match l1, l2 with
  | [], [] => true
  | x :: r1, y :: r2 => fl_eqb x y && fl_list_eqb r1 r2
  | _, _ => false
  end.
Definition ofl_eqb (a b : option fl) : bool :=
  match a, b with None, None => true | Some x, Some y => fl_eqb x y | _, _ => false end.
Definition case_eqb (a b : N * list fl * list fl * (N * N * option fl)) : bool :=
  let '(n1, s1, u1, (k1, c1, r1)) := a in
  let '(n2, s2, u2, (k2, c2, r2)) := b in
  N.eqb n1 n2 && fl_list_eqb s1 s2 && fl_list_eqb u1 u2 && N.eqb k1 k2 && N.eqb c1 c2 && ofl_eqb r1 r2.
Definition op_eqb (a b : N * bool * (N * N)) : bool :=
  let '(n1, e1, (k1, c1)) := a in
  let '(n2, e2, (k2, c2)) := b in
  N.eqb n1 n2 && Bool.eqb e1 e2 && N.eqb k1 k2 && N.eqb c1 c2.

(* ---- histories of operations on ONE stream session ------------------------------------------- *)
(* exchange() / cancel() / close() in any order on the same HttpStreamSession; all requests go to the
   session's exchange URL and consume the same script of outcomes.  cancel() sets _cancelled and drops
   the state token BEFORE it posts, whatever the POST then does; exchange() keeps the token (a failed
   exchange may be repeated by the caller: that is a new exchange request); close() is a no-op. *)
Inductive hop := HExchange | HCancel | HClose.

Definition hop_run (o : hop) (st : sess) (fs : list outcome) (ext_ok : bool) : xtrace :=
  match o with
  | HExchange => exchange st fs ext_ok
  | HCancel => cancel st fs
  | HClose => {| xsends := 0; xext := false; xfin := XSwallowed |}
  end.

Definition sess_after (o : hop) (st : sess) : sess :=
  match o with
  | HCancel => cancel_state_after st
  | HExchange | HClose => st
  end.

Fixpoint hist_run (st : sess) (ops : list hop) (fs : list outcome) (ext_ok : bool) : list (hop * xtrace) :=
  match ops with
  | [] => []
  | o :: r =>
      let t := hop_run o st fs ext_ok in
      (o, t) :: hist_run (sess_after o st) r (skipn (xsends t) fs) ext_ok
  end.

(* requests issued by the cancel() calls / by all calls of a history *)
Fixpoint cancel_sends (l : list (hop * xtrace)) : nat :=
  match l with
  | [] => 0
  | (HCancel, t) :: r => xsends t + cancel_sends r
  | _ :: r => cancel_sends r
  end.
Fixpoint total_sends (l : list (hop * xtrace)) : nat :=
  match l with
  | [] => 0
  | (_, t) :: r => xsends t + total_sends r
  end.

(* correspondence entry: (start state, operations, outcomes, externalisation ok) -> per operation (requests, final) *)
Definition run_hist (i : sess * list hop * list outcome * bool) : list (N * (N * N)) :=
  let '(st, ops, fs, ext_ok) := i in
  map (fun e => (N.of_nat (xsends (snd e)), xfinal_code (xfin (snd e)))) (hist_run st ops fs ext_ok).
Fixpoint hist_eqb (a b : list (N * (N * N))) : bool :=
  match a, b with
  | [], [] => true
  | (n1, (k1, c1)) :: r1, (n2, (k2, c2)) :: r2 => N.eqb n1 n2 && N.eqb k1 k2 && N.eqb c1 c2 && hist_eqb r1 r2
  | _, _ => false
  end.

(* _compute_delay alone: (config, attempt, parsed retry_after, jitter draw) -> (uniform bound, delay) *)
Definition run_delay (i : config * nat * ra_hdr * fl) : fl * fl * option fl :=
  let '(c, a, h, j) := i in
  (exp_delay c a, compute_delay c a (parse_ra h) j, parse_ra h).
Definition delay_eqb (a b : fl * fl * option fl) : bool :=
  let '(u1, d1, r1) := a in let '(u2, d2, r2) := b in fl_eqb u1 u2 && fl_eqb d1 d2 && ofl_eqb r1 r2.

(* ---- request sites of the client functions (regenerated from _client.py, see tie/T_Retry.v) -- *)
Inductive site_kind := SitePlain (* self._client.post(...) *) | SiteRetried (* _post_with_retry(...) *).
Inductive site_guard :=
| GAlways   (* top level of the function (or of its try: / with:) *)
| G413      (* inside `if resp.status_code == HTTPStatus.REQUEST_ENTITY_TOO_LARGE` *)
| G415.     (* inside `if resp.status_code == HTTPStatus.UNSUPPORTED_MEDIA_TYPE and ...` *)
Definition exchange_sites : list (site_kind * site_guard) := [(SitePlain, GAlways); (SitePlain, G413)].
Definition cancel_sites : list (site_kind * site_guard) := [(SitePlain, GAlways)].
Definition continuation_sites : list (site_kind * site_guard) := [(SiteRetried, GAlways)].
Definition unary_sites : list (site_kind * site_guard) := [(SiteRetried, GAlways); (SiteRetried, G415); (SiteRetried, G413)].
(* "without sending a response": the substring of str(exc) that marks a disconnect before any response byte *)
Definition disconnect_marker : list N :=
  [119; 105; 116; 104; 111; 117; 116; 32; 115; 101; 110; 100; 105; 110; 103; 32; 97; 32; 114; 101; 115; 112; 111; 110; 115; 101]%N.

Definition default_retryable : list N := [429; 502; 503; 504]%N.
Definition default_config : config :=
  {| max_retries := 3; bbase := FFin (1 # 2); bmax := FFin (30 # 1); retryable := default_retryable;
     roce := true; respect_ra := true |}.
