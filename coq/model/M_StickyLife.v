(* C27  Sticky lifecycle: opt-in, drain, client token tracking.   Executable model only (no proofs).

   What is modelled (vgi_rpc/rpc/_common.py CallContext.open_session / close_session,
   vgi_rpc/http/server/_sticky.py _SessionRegistry.open/get/close, _StickySink, _StickyMiddleware
   .process_request / _open_session / _close_session / process_response, vgi_rpc/http/_client.py
   _SessionTrackingClient._merge_headers / _capture):

   * the worker's registry is the list of live session ids in insertion order (a Python dict), ids are
     fresh: the k-th successful open of the worker's life mints id k (the real ids are 12 random bytes;
     the correspondence numbers them by order of minting).  A token IS its session id (the real token is
     an AEAD envelope of the id; sealing/opening is C25's subject, not this one).  TTL expiry does not
     occur (no time passes; the harness uses a TTL of 100000 s).
   * one request = (presented token, opt-in flag, list of actions the method performs in order).  A
     presented token that is not live ends the request before dispatch with session_lost and WITHOUT
     a sink (no session headers on that response).  Otherwise the method runs its actions until the first
     one that raises.
   * the pieces of code whose exact shape decides the property are data (record [cfg]) interpreted by
     the model, and are regenerated from the source on every run (translate/t_c27_sticky.py ->
     gen/G_StickyLife.v, tie/T_StickyLife.v):
       c_open_guards : the refusal tests of open_session in source order, followed by the first test
                       of _SessionRegistry.open
       c_sink_open / c_sink_close : the field assignments _StickySink.open / .close perform after
                       their callback returned
       c_emit        : which response headers process_response sets from the sink
       c_capture     : the order in which _capture applies the response headers to the view
   * close_session: _close_session removes the session bound to the request (if any) from the registry
     and resets the session contextvar.  The reset restores the value before the `set`, which is always
     None: open_session refuses while a session is bound, and the middleware binds a resumed session at
     the start of the request only.  (The correspondence run would see a leak of the contextvar between
     requests as a difference in the `ARes` observations.)
*)
From Coq Require Import List Arith Bool.
Import ListNotations.

Inductive action := AOpen | AClose | ARes | ANoop.

Inductive sink_upd := UMintTok | UMintNone | UClosed (b : bool).
Inductive guard := GNoSink | GNotAccept | GBound | GDraining.
Inductive emit_rule := EmSessionIfMint | EmCloseIfClosed.
Inductive cap_rule := CapTokenIfPresent | CapClearIfClose.

Record cfg := mkCfg {
  c_open_guards : list guard;
  c_sink_open : list sink_upd;
  c_sink_close : list sink_upd;
  c_emit : list emit_rule;
  c_capture : list cap_rule
}.

(* the code as repaired by fixes/C27-close-then-open-orphan.diff: a session opened after a close in the
   same request withdraws the close flag; closing withdraws the token minted earlier in the request *)
Definition cfg_model : cfg :=
  mkCfg [GNoSink; GNotAccept; GBound; GDraining]
        [UMintTok; UClosed false]
        [UClosed true; UMintNone]
        [EmSessionIfMint; EmCloseIfClosed]
        [CapTokenIfPresent; CapClearIfClose].

(* the code before the repair (kept for refuted/R_C27.v) *)
Definition cfg_old : cfg :=
  mkCfg [GNoSink; GNotAccept; GBound; GDraining]
        [UMintTok]
        [UClosed true]
        [EmSessionIfMint; EmCloseIfClosed]
        [CapTokenIfPresent; CapClearIfClose].

Record server := mkServer { reg : list nat; next : nat; draining : bool }.
Record sink := mkSink { mint : option nat; closed : bool }.
Record rst := mkRst { r_srv : server; r_ctx : option nat; r_sink : sink; r_log : list (option nat) }.
Inductive err := ENone | ELost | EDraining | ERuntime.

Definition apply_upd (tok : option nat) (k : sink) (u : sink_upd) : sink :=
  match u with
  | UMintTok => mkSink tok (closed k)
  | UMintNone => mkSink None (closed k)
  | UClosed b => mkSink (mint k) b
  end.

Definition apply_upds (tok : option nat) (k : sink) (us : list sink_upd) : sink :=
  fold_left (apply_upd tok) us k.

Definition guard_fires (g : guard) (accept : bool) (st : rst) : option err :=
  match g with
  | GNoSink => None                       (* the sticky middleware installed a sink for every dispatched request *)
  | GNotAccept => if accept then None else Some ERuntime
  | GBound => match r_ctx st with Some _ => Some ERuntime | None => None end
  | GDraining => if draining (r_srv st) then Some EDraining else None
  end.

Fixpoint first_err (gs : list guard) (accept : bool) (st : rst) : option err :=
  match gs with
  | [] => None
  | g :: r => match guard_fires g accept st with Some e => Some e | None => first_err r accept st end
  end.

Definition remove_sid (s : nat) (l : list nat) : list nat := filter (fun x => negb (x =? s)) l.

Definition do_open (c : cfg) (accept : bool) (st : rst) : rst * err :=
  match first_err (c_open_guards c) accept st with
  | Some e => (st, e)
  | None =>
      let s := r_srv st in
      let n := next s in
      (mkRst (mkServer (reg s ++ [n]) (S n) (draining s)) (Some n)
             (apply_upds (Some n) (r_sink st) (c_sink_open c)) (r_log st), ENone)
  end.

Definition do_close (c : cfg) (st : rst) : rst * err :=
  let s := r_srv st in
  let s' := match r_ctx st with
            | Some x => mkServer (remove_sid x (reg s)) (next s) (draining s)
            | None => s
            end in
  (mkRst s' None (apply_upds None (r_sink st) (c_sink_close c)) (r_log st), ENone).

Definition do_action (c : cfg) (accept : bool) (st : rst) (a : action) : rst * err :=
  match a with
  | AOpen => do_open c accept st
  | AClose => do_close c st
  | ARes => (mkRst (r_srv st) (r_ctx st) (r_sink st) (r_log st ++ [r_ctx st]), ENone)
  | ANoop => (st, ENone)
  end.

Fixpoint run_acts (c : cfg) (accept : bool) (st : rst) (acts : list action) : rst * err :=
  match acts with
  | [] => (st, ENone)
  | a :: r =>
      match do_action c accept st a with
      | (st', ENone) => run_acts c accept st' r
      | (st', e) => (st', e)
      end
  end.

Record request := mkReq { rq_tok : option nat; rq_accept : bool; rq_acts : list action }.
Record response := mkResp { h_tok : option nat; h_close : bool; rs_err : err; rs_log : list (option nat) }.

Definition emit1 (k : sink) (h : option nat * bool) (e : emit_rule) : option nat * bool :=
  match e with
  | EmSessionIfMint => (match mint k with Some t => Some t | None => fst h end, snd h)
  | EmCloseIfClosed => (fst h, if closed k then true else snd h)
  end.

Definition emit (c : cfg) (k : sink) : option nat * bool := fold_left (emit1 k) (c_emit c) (None, false).

Definition mem (x : nat) (l : list nat) : bool := existsb (Nat.eqb x) l.

Definition dispatch (c : cfg) (s : server) (ctx : option nat) (r : request) : server * response :=
  let '(st, e) := run_acts c (rq_accept r) (mkRst s ctx (mkSink None false) []) (rq_acts r) in
  let h := emit c (r_sink st) in
  (r_srv st, mkResp (fst h) (snd h) e (r_log st)).

Definition serve (c : cfg) (s : server) (r : request) : server * response :=
  match rq_tok r with
  | Some t => if mem t (reg s) then dispatch c s (Some t) r
              else (s, mkResp None false ELost [])
  | None => dispatch c s None r
  end.

(* ---- the client's session view ---- *)
Definition cap1 (h : option nat * bool) (view : option nat) (r : cap_rule) : option nat :=
  match r with
  | CapTokenIfPresent => match fst h with Some t => Some t | None => view end
  | CapClearIfClose => if snd h then None else view
  end.

Definition capture (c : cfg) (view : option nat) (h : option nat * bool) : option nat :=
  fold_left (cap1 h) (c_capture c) view.

(* ---- histories ---- *)
Inductive event :=
| EvView (v : nat) (acts : list action)                        (* a call through session view v: opt-in header + the view's token *)
| EvPlain (acts : list action)                                 (* a call outside any with_session_token() block: neither header *)
| EvRaw (tok : option nat) (accept : bool) (acts : list action) (* hand-made headers (not produced by the Python client) *)
| EvDrain (b : bool).

(* w_own is ghost state: w_own[s] = the view whose request minted session s (None: not a view) *)
Record world := mkWorld { w_srv : server; w_view : nat -> option nat; w_own : list (option nat) }.

Definition upd (f : nat -> option nat) (v : nat) (x : option nat) : nat -> option nat :=
  fun u => if u =? v then x else f u.

Definition world0 : world := mkWorld (mkServer [] 0 false) (fun _ => None) [].

Definition step (c : cfg) (w : world) (ev : event) : world * response :=
  match ev with
  | EvView v acts =>
      let '(s', rsp) := serve c (w_srv w) (mkReq (w_view w v) true acts) in
      (mkWorld s' (upd (w_view w) v (capture c (w_view w v) (h_tok rsp, h_close rsp)))
               (w_own w ++ repeat (Some v) (next s' - next (w_srv w))), rsp)
  | EvPlain acts =>
      let '(s', rsp) := serve c (w_srv w) (mkReq None false acts) in
      (mkWorld s' (w_view w) (w_own w ++ repeat None (next s' - next (w_srv w))), rsp)
  | EvRaw tok accept acts =>
      let '(s', rsp) := serve c (w_srv w) (mkReq tok accept acts) in
      (mkWorld s' (w_view w) (w_own w ++ repeat None (next s' - next (w_srv w))), rsp)
  | EvDrain b =>
      (mkWorld (mkServer (reg (w_srv w)) (next (w_srv w)) b) (w_view w) (w_own w), mkResp None false ENone [])
  end.

Definition run (c : cfg) (h : list event) : world := fold_left (fun w ev => fst (step c w ev)) h world0.

Definition client_event (ev : event) : Prop := match ev with EvRaw _ _ _ => False | _ => True end.

Definition owner_is (own : list (option nat)) (v s : nat) : bool :=
  match nth_error own s with Some (Some u) => u =? v | _ => false end.

(* the sessions the server keeps live for view v *)
Definition live_of (w : world) (v : nat) : list nat := filter (owner_is (w_own w) v) (reg (w_srv w)).

Definition opt_list (o : option nat) : list nat := match o with Some x => [x] | None => [] end.

(* ---- correspondence entry point ----
   input : number of views K, history;
   output: after every event (registry, tokens of views 0..K-1, error code, ARes observations, VGI-Session header, VGI-Session-Close header) *)
Definition err_code (e : err) : nat := match e with ENone => 0 | ELost => 1 | EDraining => 2 | ERuntime => 3 end.

Definition obs := (list nat * list (option nat) * nat * list (option nat) * option nat * bool)%type.

Fixpoint run_obs (c : cfg) (k : nat) (w : world) (h : list event) : list obs :=
  match h with
  | [] => []
  | ev :: r =>
      let '(w', rsp) := step c w ev in
      (reg (w_srv w'), map (w_view w') (seq 0 k), err_code (rs_err rsp), rs_log rsp, h_tok rsp, h_close rsp)
        :: run_obs c k w' r
  end.

Definition run_case (x : nat * list event) : list obs := run_obs cfg_model (fst x) world0 (snd x).
Definition run_case_old (x : nat * list event) : list obs := run_obs cfg_old (fst x) world0 (snd x).

Definition onat_eqb (a b : option nat) : bool :=
  match a, b with Some x, Some y => x =? y | None, None => true | _, _ => false end.
Fixpoint leqb {A} (e : A -> A -> bool) (l1 l2 : list A) : bool :=
  match l1, l2 with [], [] => true | x :: r1, y :: r2 => e x y && leqb e r1 r2 | _, _ => false end.
Definition obs_eqb (a b : obs) : bool :=
  let '(r1, v1, e1, l1, t1, c1) := a in
  let '(r2, v2, e2, l2, t2, c2) := b in
  leqb Nat.eqb r1 r2 && leqb onat_eqb v1 v2 && (e1 =? e2) && leqb onat_eqb l1 l2 && onat_eqb t1 t2 && Bool.eqb c1 c2.
Definition obss_eqb : list obs -> list obs -> bool := leqb obs_eqb.
