(* Model of vgi_rpc/_codec.py : compress / decompress, _zstd_content_size,
   _decompress_body_zstd (declared-size fast path + bounded streaming loop),
   _decompress_body_gzip (bounded zlib loop + flush).

   The compressors themselves (zstd, zlib) are NOT modelled: they enter through a record
   [env] of functions (what the library answers for a given input).  The model is the
   cap / dispatch logic of _codec.py around those answers.  The source expressions that
   decide anything (constants, sentinel tuple, guards, read sizes) are collected in a
   record [params]; [std_params] is what the source says today, gen/G_Codec.v regenerates
   it from the source on every run and tie/T_Codec.v proves the two equal.

   Executable definitions only; proofs are in proof/L_Codec.v. *)
From Coq Require Import List NArith ZArith Bool.
Import ListNotations.
Open Scope Z_scope.

Definition bytes := list N.
Definition len (b : bytes) : Z := Z.of_nat (length b).

Inductive encoding := Identity | Zstd | Gzip.

(* what a call of decompress() does: returns bytes, raises DecompressionLimitExceeded,
   lets an error of the codec library escape, or never returns *)
Inductive result := Ok (b : bytes) | LimitErr | CodecErr | Diverge.

(* ---------- the deciding source expressions ---------- *)
Record params := {
  p_zstd_level : Z;                        (* _DEFAULT_ZSTD_LEVEL *)
  p_gzip_level : Z;                        (* _DEFAULT_GZIP_LEVEL *)
  p_gzip_wbits : Z;                        (* _GZIP_WBITS *)
  p_sentinels : list Z;                    (* `size in (-1, _ZSTD_CONTENTSIZE_UNKNOWN)` *)
  p_refuse : option Z -> Z -> bool;        (* `declared is not None and declared > max_output_size` : declared cap *)
  p_zreq : Z -> Z -> Z;                    (* zstd loop read size : cap total *)
  p_zover : Z -> Z -> bool;                (* zstd loop `total > max_output_size` : cap total *)
  p_greq : Z -> Z -> Z;                    (* gzip loop max_length : cap total *)
  p_gover : Z -> Z -> bool;                (* gzip loop `total > max_output_size` : cap total *)
  p_gover_tail : Z -> Z -> bool            (* gzip flush tail `total > max_output_size` : cap total *)
}.

Definition DECOMPRESS_CHUNK_BYTES : Z := 65536.
Definition ZSTD_CONTENTSIZE_UNKNOWN : Z := 18446744073709551615.

Definition std_params : params := {|
  p_zstd_level := 3;
  p_gzip_level := 6;
  p_gzip_wbits := 31;
  p_sentinels := [-1; ZSTD_CONTENTSIZE_UNKNOWN];
  p_refuse := fun declared cap => match declared with None => false | Some d => d >? cap end;
  p_zreq := fun cap total => Z.min DECOMPRESS_CHUNK_BYTES (cap - total + 1);
  p_zover := fun cap total => total >? cap;
  p_greq := fun cap total => Z.min DECOMPRESS_CHUNK_BYTES (cap - total + 1);
  p_gover := fun cap total => total >? cap;
  p_gover_tail := fun cap total => total >? cap
|}.

(* ---------- the codec libraries, as seen from _codec.py ---------- *)
Record env := {
  (* zstandard.ZstdCompressor(level=l).compress(d) *)
  zstd_comp : Z -> bytes -> bytes;
  (* zstandard.get_frame_parameters(f).content_size, raw (may be a sentinel) *)
  zstd_declared : bytes -> Z;
  (* zstandard.ZstdDecompressor().decompress(f) *)
  zstd_oneshot : bytes -> result;
  (* all the bytes a ZstdDecompressor().stream_reader(f) delivers before it returns b"" *)
  zstd_stream : bytes -> bytes;
  (* length of what the i-th reader.read(n) returns when [rest] is still undelivered (n >= 1) *)
  zstd_read : bytes -> nat -> Z -> bytes -> Z;
  (* zlib.compressobj(l, DEFLATED, wbits): compress(d) + flush(Z_FINISH) *)
  gz_comp : Z -> Z -> bytes -> bytes;
  (* all the bytes a zlib.decompressobj(wbits) delivers for input f *)
  gz_stream : Z -> bytes -> bytes;
  (* i-th do.decompress(inbuf, n) with [rest] still undelivered:
     (length returned, unconsumed_tail non-empty afterwards) *)
  gz_dec : bytes -> nat -> Z -> bytes -> Z * bool
}.

(* ---------- _zstd_content_size ---------- *)
Definition zstd_content_size (P : params) (raw : Z) : option Z :=
  if existsb (Z.eqb raw) (p_sentinels P) then None else Some raw.

(* ---------- reader.read(n) of python-zstandard ---------- *)
(* n = 0 -> b"" ; n < 0 -> everything ; n >= 1 -> what the library chooses to return *)
Definition reader_take (rd : nat -> Z -> bytes -> Z) (i : nat) (n : Z) (rest : bytes) : nat :=
  if n =? 0 then O else if n <? 0 then length rest else Z.to_nat (rd i n rest).

(* ---------- the bounded streaming loop of _decompress_body_zstd ----------
   acc = chunks (latest first), reqs = sizes asked of reader.read (latest first) *)
Fixpoint zstd_loop (P : params) (rd : nat -> Z -> bytes -> Z) (cap : Z)
         (fuel : nat) (i : nat) (total : Z) (acc : list bytes) (rest : bytes) (reqs : list Z)
  : result * list Z :=
  match fuel with
  | O => (Diverge, rev reqs)
  | S fuel' =>
      let n := p_zreq P cap total in
      let m := reader_take rd i n rest in
      let chunk := firstn m rest in
      match chunk with
      | [] => (Ok (concat (rev acc)), rev (n :: reqs))                    (* if not chunk: break *)
      | _ :: _ =>
          let total' := total + len chunk in
          if p_zover P cap total' then (LimitErr, rev (n :: reqs))
          else zstd_loop P rd cap fuel' (S i) total' (chunk :: acc) (skipn m rest) (n :: reqs)
      end
  end.

Definition decompress_zstd (P : params) (E : env) (f : bytes) (cap : option Z) : result * list Z :=
  let declared := zstd_content_size P (zstd_declared E f) in
  match cap with
  | None =>
      match declared with
      | None => (Ok (zstd_stream E f), [-1])                               (* reader.read() *)
      | Some _ => (zstd_oneshot E f, [])
      end
  | Some c =>
      if p_refuse P declared c then (LimitErr, [])
      else match declared with
           | Some _ => (zstd_oneshot E f, [])
           | None =>
               let d := zstd_stream E f in
               zstd_loop P (zstd_read E f) c (S (length d)) O 0 [] d []
           end
  end.

(* ---------- the bounded loop of _decompress_body_gzip ---------- *)
Definition gz_finish (P : params) (cap : Z) (total : Z) (acc : list bytes) (rest : bytes) (reqs : list Z)
  : result * list Z :=
  (* tail = do.flush() : whatever the object still holds *)
  match rest with
  | [] => (Ok (concat (rev acc)), rev reqs)
  | _ :: _ =>
      let total' := total + len rest in
      if p_gover_tail P cap total' then (LimitErr, rev reqs)
      else (Ok (concat (rev (rest :: acc))), rev reqs)
  end.

Fixpoint gz_loop (P : params) (dec : nat -> Z -> bytes -> Z * bool) (cap : Z)
         (fuel : nat) (i : nat) (total : Z) (acc : list bytes) (rest : bytes)
         (rem_ne tail_ne : bool) (reqs : list Z) : result * list Z :=
  match fuel with
  | O => (Diverge, rev reqs)
  | S fuel' =>
      if negb (rem_ne || tail_ne) then gz_finish P cap total acc rest reqs    (* while remaining or do.unconsumed_tail *)
      else
        let n := p_greq P cap total in
        let '(k, tail') := dec i n rest in
        let m := Z.to_nat k in
        let chunk := firstn m rest in
        match chunk with
        | [] =>
            if negb tail' then gz_finish P cap total acc (skipn m rest) (n :: reqs)   (* not chunk and not tail: break *)
            else gz_loop P dec cap fuel' (S i) total acc (skipn m rest) false tail' (n :: reqs)
        | _ :: _ =>
            let total' := total + len chunk in
            if p_gover P cap total' then (LimitErr, rev (n :: reqs))
            else gz_loop P dec cap fuel' (S i) total' (chunk :: acc) (skipn m rest) false tail' (n :: reqs)
        end
  end.

Definition decompress_gzip (P : params) (E : env) (f : bytes) (cap : option Z) : result * list Z :=
  let d := gz_stream E (p_gzip_wbits P) f in
  match cap with
  | None => (Ok d, [])                                    (* do.decompress(data) + do.flush() *)
  | Some c =>
      gz_loop P (gz_dec E f) c (S (S (length d))) O 0 [] d
              (match f with [] => false | _ => true end) false []
  end.

(* ---------- compress / decompress ---------- *)
Definition compress (P : params) (E : env) (e : encoding) (data : bytes) (level : option Z) : bytes :=
  match e with
  | Identity => data
  | Zstd => zstd_comp E (match level with None => p_zstd_level P | Some l => l end) data
  | Gzip => gz_comp E (match level with None => p_gzip_level P | Some l => l end) (p_gzip_wbits P) data
  end.

Definition decompress_tr (P : params) (E : env) (e : encoding) (data : bytes) (cap : option Z) : result * list Z :=
  match e with
  | Identity => (Ok data, [])
  | Zstd => decompress_zstd P E data cap
  | Gzip => decompress_gzip P E data cap
  end.

Definition decompress (P : params) (E : env) (e : encoding) (data : bytes) (cap : option Z) : result :=
  fst (decompress_tr P E e data cap).

(* ====================================================================== *)
(* correspondence entry point: the library answers recorded from a real run
   are the environment; the model predicts what vgi_rpc._codec.decompress
   returned and which sizes it asked for. *)

(* compact payload descriptions (expanded identically by props/C18.py) *)
Inductive seg := Lit (b : bytes) | Rep (b : bytes) (k : N) | Lcg (seed : N) (k : N).

Fixpoint lcg_bytes (fuel : nat) (x : N) : bytes :=
  match fuel with
  | O => []
  | S f => let x' := ((x * 1103515245 + 12345) mod 2147483648)%N in
           ((x' / 65536) mod 256)%N :: lcg_bytes f x'
  end.

Fixpoint rep_bytes (fuel : nat) (b : bytes) : bytes :=
  match fuel with O => [] | S f => b ++ rep_bytes f b end.

Definition expand_seg (s : seg) : bytes :=
  match s with
  | Lit b => b
  | Rep b k => rep_bytes (N.to_nat k) b
  | Lcg seed k => lcg_bytes (N.to_nat k) seed
  end.

Definition expand (l : list seg) : bytes := concat (map expand_seg l).

Definition enc_of (c : N) : encoding :=
  match c with 0%N => Identity | 1%N => Zstd | _ => Gzip end.

(* oneshot: None = the library raised, Some p = returned expand p *)
Definition oneshot_of (o : option (list seg)) : result :=
  match o with None => CodecErr | Some p => Ok (expand p) end.

Definition nth_read (l : list Z) (i : nat) : Z := nth i l 0.
Definition nth_dec (l : list (Z * bool)) (i : nat) : Z * bool := nth i l (0, false).

(* input: ((((code, cap), payload), (declared_raw, oneshot, reads)), (data_nonempty, decs))
   payload = what the library's streaming decoder yields for the frame (for identity: the data) *)
Definition case_in : Type :=
  N * option Z * list seg * (Z * option (list seg) * list Z) * (bool * list (Z * bool)).

Definition run_case (c : case_in) : result * list Z :=
  let '(code, cap, payload, (decl, one, reads), (data_ne, decs)) := c in
  let d := expand payload in
  let frame : bytes := if data_ne then [0%N] else [] in
  let E := {|
    zstd_comp := fun _ _ => frame;
    zstd_declared := fun _ => decl;
    zstd_oneshot := fun _ => oneshot_of one;
    zstd_stream := fun _ => d;
    zstd_read := fun _ i _ _ => nth_read reads i;
    gz_comp := fun _ _ _ => frame;
    gz_stream := fun _ _ => d;
    gz_dec := fun _ i _ _ => nth_dec decs i
  |} in
  match enc_of code with
  | Identity => decompress_tr std_params E Identity d cap
  | e => decompress_tr std_params E e frame cap
  end.

Definition bytes_eqb' (a b : bytes) : bool :=
  (fix go (a b : bytes) : bool :=
     match a, b with
     | [], [] => true
     | x :: a', y :: b' => N.eqb x y && go a' b'
     | _, _ => false
     end) a b.

Definition result_eqb (a b : result) : bool :=
  match a, b with
  | Ok x, Ok y => bytes_eqb' x y
  | LimitErr, LimitErr => true
  | CodecErr, CodecErr => true
  | Diverge, Diverge => true
  | _, _ => false
  end.

Fixpoint zlist_eqb (a b : list Z) : bool :=
  match a, b with
  | [], [] => true
  | x :: a', y :: b' => Z.eqb x y && zlist_eqb a' b'
  | _, _ => false
  end.

Definition out_eqb (a b : result * list Z) : bool :=
  result_eqb (fst a) (fst b) && zlist_eqb (snd a) (snd b).
