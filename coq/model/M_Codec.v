(* Model of vgi_rpc/_codec.py : compress / decompress, _zstd_content_size,
   _decompress_body_zstd (declared-size fast path + bounded streaming loop),
   _decompress_body_gzip (bounded zlib loop + flush).

   The compressors themselves (zstd, zlib) are NOT modelled: they enter through a record
   [env] of functions (what the library answers for a given input).  The model is the
   cap / dispatch logic of _codec.py around those answers.  The source expressions that
   decide anything (constants, sentinel tuple, guards, read sizes) are collected in a
   record [params]; [std_params] is what the source says today, gen/G_Codec.v regenerates
   it from the source on every run and tie/T_Codec.v proves the two equal.

   Executable definitions only; proofs are in proof/L_Codec.v. *)
From Coq Require Import List NArith ZArith Bool.
Import ListNotations.
Open Scope Z_scope.

Definition bytes := list N.
Definition len (b : bytes) : Z := Z.of_nat (length b).

Inductive encoding := Identity | Zstd | Gzip.

(* what a call of decompress() does: returns bytes, raises DecompressionLimitExceeded,
   lets an error of the codec library escape, or never returns *)
Inductive result := Ok (b : bytes) | LimitErr | CodecErr | Diverge.

(* ---------- the deciding source expressions ---------- *)
Record params := {
  p_zstd_level : Z;                        (* _DEFAULT_ZSTD_LEVEL *)
  p_gzip_level : Z;                        (* _DEFAULT_GZIP_LEVEL *)
  p_gzip_wbits : Z;                        (* _GZIP_WBITS *)
  p_sentinels : list Z;                    (* `size in (-1, _ZSTD_CONTENTSIZE_UNKNOWN)` *)
  p_refuse : option Z -> Z -> bool;        (* `declared is not None and declared > max_output_size` : declared cap *)
  p_zreq : Z -> Z -> Z;                    (* zstd loop read size : cap total *)
  p_zover : Z -> Z -> bool;                (* zstd loop `total > max_output_size` : cap total *)
  p_greq : Z -> Z -> Z;                    (* gzip loop max_length : cap total *)
  p_gover : Z -> Z -> bool;                (* gzip loop `total > max_output_size` : cap total *)
  p_gover_tail : Z -> Z -> bool;           (* gzip flush tail `total > max_output_size` : cap total *)
  p_gz_eof_check : bool;                   (* `if not do.eof: raise DecompressionError` present after the flush (both branches) *)
  p_gz_eof_break : bool                    (* the loop's break test is `do.eof or (not chunk and not do.unconsumed_tail)` *)
}.

Definition ZSTD_CONTENTSIZE_UNKNOWN : Z := 18446744073709551615.

(* the values no theorem depends on (beyond 1 <= chunk): they may change in the source without
   touching the proofs; today: eof guard and eof break present, 65536, 3, 6, 31 *)
Record knobs := {
  k_eof : bool;       (* `if not do.eof: raise DecompressionError` present in _decompress_body_gzip *)
  k_eof_break : bool; (* `do.eof or` present in the break test of its loop *)
  k_chunk : Z;        (* _DECOMPRESS_CHUNK_BYTES *)
  k_zstd_level : Z;   (* _DEFAULT_ZSTD_LEVEL *)
  k_gzip_level : Z;   (* _DEFAULT_GZIP_LEVEL *)
  k_wbits : Z         (* _GZIP_WBITS *)
}.

Definition today : knobs := {| k_eof := true; k_eof_break := true; k_chunk := 65536; k_zstd_level := 3; k_gzip_level := 6; k_wbits := 31 |}.

Definition std_params (K : knobs) : params := {|
  p_zstd_level := k_zstd_level K;
  p_gzip_level := k_gzip_level K;
  p_gzip_wbits := k_wbits K;
  p_sentinels := [-1; ZSTD_CONTENTSIZE_UNKNOWN];
  p_refuse := fun declared cap => match declared with None => false | Some d => d >? cap end;
  p_zreq := fun cap total => Z.min (k_chunk K) (cap - total + 1);
  p_zover := fun cap total => total >? cap;
  p_greq := fun cap total => Z.min (k_chunk K) (cap - total + 1);
  p_gover := fun cap total => total >? cap;
  p_gover_tail := fun cap total => total >? cap;
  p_gz_eof_check := k_eof K;
  p_gz_eof_break := k_eof_break K
|}.

(* ---------- the codec libraries, as seen from _codec.py ---------- *)
Record env := {
  (* zstandard.ZstdCompressor(level=l).compress(d) *)
  zstd_comp : Z -> bytes -> bytes;
  (* zstandard.get_frame_parameters(f).content_size, raw (may be a sentinel) *)
  zstd_declared : bytes -> Z;
  (* zstandard.ZstdDecompressor().decompress(f) *)
  zstd_oneshot : bytes -> result;
  (* all the bytes a ZstdDecompressor().stream_reader(f) delivers before it returns b"" *)
  zstd_stream : bytes -> bytes;
  (* length of what the i-th reader.read(n) returns when [rest] is still undelivered (n >= 1) *)
  zstd_read : bytes -> nat -> Z -> bytes -> Z;
  (* zlib.compressobj(l, DEFLATED, wbits): compress(d) + flush(Z_FINISH) *)
  gz_comp : Z -> Z -> bytes -> bytes;
  (* all the bytes a zlib.decompressobj(wbits) delivers for input f *)
  gz_stream : Z -> bytes -> bytes;
  (* do.eof once the whole input has been fed: the end-of-stream marker was seen *)
  gz_eof : bytes -> bool;
  (* i-th do.decompress(inbuf, n) with [rest] still undelivered:
     (length returned, unconsumed_tail non-empty afterwards, do.eof afterwards) *)
  gz_dec : bytes -> nat -> Z -> bytes -> Z * bool * bool
}.

(* ---------- _zstd_content_size ---------- *)
Definition zstd_content_size (P : params) (raw : Z) : option Z :=
  if existsb (Z.eqb raw) (p_sentinels P) then None else Some raw.

(* ---------- reader.read(n) of python-zstandard ---------- *)
(* n = 0 -> b"" ; n < 0 -> everything ; n >= 1 -> what the library chooses to return *)
Definition reader_take (rd : nat -> Z -> bytes -> Z) (i : nat) (n : Z) (rest : bytes) : nat :=
  if n =? 0 then O else if n <? 0 then length rest else Z.to_nat (rd i n rest).

(* ---------- the bounded streaming loop of _decompress_body_zstd ----------
   acc = chunks (latest first), reqs = sizes asked of reader.read (latest first) *)
Fixpoint zstd_loop (P : params) (rd : nat -> Z -> bytes -> Z) (cap : Z)
         (fuel : nat) (i : nat) (total : Z) (acc : list bytes) (rest : bytes) (reqs : list Z)
  : result * list Z :=
  match fuel with
  | O => (Diverge, rev reqs)
  | S fuel' =>
      let n := p_zreq P cap total in
      let m := reader_take rd i n rest in
      let chunk := firstn m rest in
      match chunk with
      | [] => (Ok (concat (rev acc)), rev (n :: reqs))                    (* if not chunk: break *)
      | _ :: _ =>
          let total' := total + len chunk in
          if p_zover P cap total' then (LimitErr, rev (n :: reqs))
          else zstd_loop P rd cap fuel' (S i) total' (chunk :: acc) (skipn m rest) (n :: reqs)
      end
  end.

Definition decompress_zstd (P : params) (E : env) (f : bytes) (cap : option Z) : result * list Z :=
  let declared := zstd_content_size P (zstd_declared E f) in
  match cap with
  | None =>
      match declared with
      | None => (Ok (zstd_stream E f), [-1])                               (* reader.read() *)
      | Some _ => (zstd_oneshot E f, [])
      end
  | Some c =>
      if p_refuse P declared c then (LimitErr, [])
      else match declared with
           | Some _ => (zstd_oneshot E f, [])
           | None =>
               let d := zstd_stream E f in
               zstd_loop P (zstd_read E f) c (S (length d)) O 0 [] d []
           end
  end.

(* ---------- the bounded loop of _decompress_body_gzip ---------- *)
Definition gz_finish (P : params) (eof : bool) (cap : Z) (total : Z) (acc : list bytes) (rest : bytes) (reqs : list Z)
  : result * list Z :=
  (* tail = do.flush() : whatever the object still holds *)
  let eof_fail := p_gz_eof_check P && negb eof in
  match rest with
  | [] => (if eof_fail then CodecErr else Ok (concat (rev acc)), rev reqs)
  | _ :: _ =>
      let total' := total + len rest in
      if p_gover_tail P cap total' then (LimitErr, rev reqs)
      else (if eof_fail then CodecErr else Ok (concat (rev (rest :: acc))), rev reqs)
  end.

Fixpoint gz_loop (P : params) (dec : nat -> Z -> bytes -> Z * bool * bool) (eof : bool) (cap : Z)
         (fuel : nat) (i : nat) (total : Z) (acc : list bytes) (rest : bytes)
         (rem_ne tail_ne : bool) (reqs : list Z) : result * list Z :=
  match fuel with
  | O => (Diverge, rev reqs)
  | S fuel' =>
      if negb (rem_ne || tail_ne) then gz_finish P eof cap total acc rest reqs    (* while remaining or do.unconsumed_tail *)
      else
        let n := p_greq P cap total in
        let '(k, tail', eof_now) := dec i n rest in
        let m := Z.to_nat k in
        let chunk := firstn m rest in
        match chunk with
        | [] =>
            (* [do.eof or] (not chunk and not do.unconsumed_tail): break *)
            if (p_gz_eof_break P && eof_now) || negb tail' then gz_finish P eof cap total acc (skipn m rest) (n :: reqs)
            else gz_loop P dec eof cap fuel' (S i) total acc (skipn m rest) false tail' (n :: reqs)
        | _ :: _ =>
            let total' := total + len chunk in
            if p_gover P cap total' then (LimitErr, rev (n :: reqs))
            else if p_gz_eof_break P && eof_now then gz_finish P eof cap total' (chunk :: acc) (skipn m rest) (n :: reqs)
            else gz_loop P dec eof cap fuel' (S i) total' (chunk :: acc) (skipn m rest) false tail' (n :: reqs)
        end
  end.

Definition decompress_gzip (P : params) (E : env) (f : bytes) (cap : option Z) : result * list Z :=
  let d := gz_stream E (p_gzip_wbits P) f in
  match cap with
  | None =>                                               (* do.decompress(data) + do.flush() *)
      (if p_gz_eof_check P && negb (gz_eof E f) then CodecErr else Ok d, [])
  | Some c =>
      gz_loop P (gz_dec E f) (gz_eof E f) c (S (S (length d))) O 0 [] d
              (match f with [] => false | _ => true end) false []
  end.

(* ---------- compress / decompress ---------- *)
Definition compress (P : params) (E : env) (e : encoding) (data : bytes) (level : option Z) : bytes :=
  match e with
  | Identity => data
  | Zstd => zstd_comp E (match level with None => p_zstd_level P | Some l => l end) data
  | Gzip => gz_comp E (match level with None => p_gzip_level P | Some l => l end) (p_gzip_wbits P) data
  end.

Definition decompress_tr (P : params) (E : env) (e : encoding) (data : bytes) (cap : option Z) : result * list Z :=
  match e with
  | Identity => (Ok data, [])
  | Zstd => decompress_zstd P E data cap
  | Gzip => decompress_gzip P E data cap
  end.

Definition decompress (P : params) (E : env) (e : encoding) (data : bytes) (cap : option Z) : result :=
  fst (decompress_tr P E e data cap).

(* ====================================================================== *)
(* correspondence entry point: the library answers recorded from a real run
   are the environment; the model predicts what vgi_rpc._codec.decompress
   returned and which sizes it asked for. *)

(* compact payload descriptions (expanded identically by props/C18.py) *)
Inductive seg := Lit (b : bytes) | Rep (b : bytes) (k : N) | Xs (seed : N) (k : N).

(* xorshift32 byte stream, newest byte first in [acc] *)
Fixpoint xs_bytes (fuel : nat) (x : N) (acc : bytes) : bytes :=
  match fuel with
  | O => rev' acc
  | S f => let a := N.land (N.lxor x (N.shiftl x 13)) 4294967295 in
           let b := N.lxor a (N.shiftr a 17) in
           let c := N.land (N.lxor b (N.shiftl b 5)) 4294967295 in
           xs_bytes f c (N.land (N.shiftr c 8) 255 :: acc)
  end.

Fixpoint rep_bytes (fuel : nat) (b : bytes) : bytes :=
  match fuel with O => [] | S f => b ++ rep_bytes f b end.

Definition expand_seg (s : seg) : bytes :=
  match s with
  | Lit b => b
  | Rep b k => rep_bytes (N.to_nat k) b
  | Xs seed k => xs_bytes (N.to_nat k) seed []
  end.

Definition expand (l : list seg) : bytes := concat (map expand_seg l).

Definition enc_of (c : N) : encoding :=
  match c with 0%N => Identity | 1%N => Zstd | _ => Gzip end.

(* one-shot answer of the library: None = it raised, Some None = returned the payload,
   Some (Some b) = returned other bytes b *)
Definition oneshot_of (d : bytes) (o : option (option bytes)) : result :=
  match o with None => CodecErr | Some None => Ok d | Some (Some b) => Ok b end.

Definition nth_read (l : list Z) (i : nat) : Z := nth i l 0.
Definition nth_dec (l : list (Z * bool * bool)) (i : nat) : Z * bool * bool := nth i l (0, false, false).

Fixpoint bytes_eqb' (a b : bytes) : bool :=
  match a, b with
  | [], [] => true
  | x :: a', y :: b' => if N.eqb x y then bytes_eqb' a' b' else false
  | _, _ => false
  end.

(* what the call did, relative to the payload of the case *)
(* VOther: returned other bytes (their length and first 32 bytes) *)
Inductive verdict := VSame | VOther (n : Z) (b : bytes) | VLimit | VCodecErr | VDiverge.

Definition verdict_of (d : bytes) (r : result) : verdict :=
  match r with
  | Ok b => if bytes_eqb' b d then VSame else VOther (len b) (firstn 32 b)
  | LimitErr => VLimit
  | CodecErr => VCodecErr
  | Diverge => VDiverge
  end.

(* one call: (((code, cap), (declared_raw, oneshot, reads)), (data_nonempty, eof, decs)) *)
Definition sub_in : Type :=
  N * option Z * (Z * option (option bytes) * list Z) * (bool * bool * list (Z * bool * bool)).

Definition env_of (d : bytes) (frame : bytes) (decl : Z) (one : option (option bytes))
           (reads : list Z) (eof : bool) (decs : list (Z * bool * bool)) : env := {|
    zstd_comp := fun _ _ => frame;
    zstd_declared := fun _ => decl;
    zstd_oneshot := fun _ => oneshot_of d one;
    zstd_stream := fun _ => d;
    zstd_read := fun _ i _ _ => nth_read reads i;
    gz_comp := fun _ _ _ => frame;
    gz_stream := fun _ _ => d;
    gz_eof := fun _ => eof;
    gz_dec := fun _ i _ _ => nth_dec decs i
  |}.

(* d = what the library's streaming decoder yields for the frame (for identity: the data) *)
Definition run_sub (K : knobs) (d : bytes) (c : sub_in) : verdict * list Z :=
  let '(code, cap, (decl, one, reads), (data_ne, eof, decs)) := c in
  let frame : bytes := if data_ne then [0%N] else [] in
  let E := env_of d frame decl one reads eof decs in
  let r := match enc_of code with
           | Identity => decompress_tr (std_params K) E Identity d cap
           | e => decompress_tr (std_params K) E e frame cap
           end in
  (verdict_of d (fst r), snd r).

(* a group of calls on frames of the same payload (expanded once) *)
Definition case_in : Type := list seg * list sub_in.

Definition run_case (K : knobs) (c : case_in) : list (verdict * list Z) :=
  let d := expand (fst c) in
  map (run_sub K d) (snd c).

Definition verdict_eqb (a b : verdict) : bool :=
  match a, b with
  | VSame, VSame => true
  | VOther n x, VOther m y => Z.eqb n m && bytes_eqb' x y
  | VLimit, VLimit => true
  | VCodecErr, VCodecErr => true
  | VDiverge, VDiverge => true
  | _, _ => false
  end.

Fixpoint zlist_eqb (a b : list Z) : bool :=
  match a, b with
  | [], [] => true
  | x :: a', y :: b' => Z.eqb x y && zlist_eqb a' b'
  | _, _ => false
  end.

Definition out_eqb (a b : verdict * list Z) : bool :=
  verdict_eqb (fst a) (fst b) && zlist_eqb (snd a) (snd b).

Fixpoint outs_eqb (a b : list (verdict * list Z)) : bool :=
  match a, b with
  | [], [] => true
  | x :: a', y :: b' => out_eqb x y && outs_eqb a' b'
  | _, _ => false
  end.
