(* Model of the XFCC identity extraction of vgi_rpc/http/_mtls.py:
     _split_respecting_quotes, _unescape_quoted, _parse_xfcc, _extract_cn,
     mtls_authenticate_xfcc.authenticate (guard, selection, reason codes, default identity)
     and of urllib.parse.unquote (percent decoding + UTF-8 decoding with errors='replace').
   Strings are lists of code points.  Executable definitions only; proofs are in proof/L_Xfcc*.v. *)
From Coq Require Import List NArith Bool.
From VGI Require Import Utf8.
Import ListNotations.
Open Scope N_scope.

Definition str := list N.

(* ---- characters ---- *)
Definition c_quote : N := 34.   (* double quote *)
Definition c_bslash : N := 92.  (* '\' *)
Definition c_comma : N := 44.   (* ',' *)
Definition c_semi : N := 59.    (* ';' *)
Definition c_eq : N := 61.      (* '=' *)
Definition c_pct : N := 37.     (* '%' *)
Definition c_lf : N := 10.

(* str.strip() without argument removes the characters for which str.isspace() holds
   (props/C43.py compares this table with the runtime on every run) *)
Definition space_table : list (N * N) :=
  [(9, 13); (28, 32); (133, 133); (160, 160); (5760, 5760); (8192, 8202); (8232, 8233); (8239, 8239); (8287, 8287); (12288, 12288)].
Definition is_space (c : N) : bool := existsb (fun p => (fst p <=? c) && (c <=? snd p)) space_table.

Fixpoint lstrip (s : str) : str :=
  match s with
  | [] => []
  | c :: r => if is_space c then lstrip r else s
  end.
Definition rstrip (s : str) : str := rev (lstrip (rev s)).
Definition strip (s : str) : str := rstrip (lstrip s).

(* ASCII lower / upper.  str.lower() / str.upper() are the Unicode mappings; the only uses are
   comparisons of key.lower() with the six ASCII field names and part.upper().startswith('CN=');
   props/C43.py checks on the runtime tables that on those comparisons the Unicode mappings and the
   ASCII ones decide alike. *)
Definition lower_c (c : N) : N := if (65 <=? c) && (c <=? 90) then c + 32 else c.
Definition upper_c (c : N) : N := if (97 <=? c) && (c <=? 122) then c - 32 else c.
Definition lower (s : str) : str := map lower_c s.

Fixpoint str_eqb (a b : str) : bool :=
  match a, b with
  | [], [] => true
  | x :: a', y :: b' => (x =? y) && str_eqb a' b'
  | _, _ => false
  end.

(* ---- _split_respecting_quotes(text, delimiter) ----
   The Python loop keeps (parts, current, in_quotes); this is the same function written without
   accumulators: the result is the list of parts, the head being the part under construction. *)
Definition cons_hd (c : N) (l : list str) : list str :=
  match l with
  | p :: ps => (c :: p) :: ps
  | [] => [[c]]
  end.

Fixpoint split_st (d : N) (inq : bool) (s : str) : list str :=
  match s with
  | [] => [[]]
  | c :: r =>
      if c =? c_quote then cons_hd c (split_st d (negb inq) r)
      else if (c =? c_bslash) && inq then
        match r with
        | c2 :: r2 => cons_hd c (cons_hd c2 (split_st d inq r2))   (* escape: both characters kept, i += 1 *)
        | [] => [[c]]                                              (* i + 1 < len(text) fails: plain character *)
        end
      else if (c =? d) && negb inq then [] :: split_st d inq r
      else cons_hd c (split_st d inq r)
  end.
Definition split_rq (d : N) (s : str) : list str := split_st d false s.

(* the quote state in which the scan of s ends (started in state inq) *)
Fixpoint end_state (inq : bool) (s : str) : bool :=
  match s with
  | [] => inq
  | c :: r =>
      if c =? c_quote then end_state (negb inq) r
      else if (c =? c_bslash) && inq then
        match r with
        | _ :: r2 => end_state inq r2
        | [] => inq
        end
      else end_state inq r
  end.
Definition closed (s : str) : bool := negb (end_state false s).

(* ---- _unescape_quoted: re.sub(r'\\(.)', r'\1', text); '.' does not match LF ---- *)
Fixpoint unescape (s : str) : str :=
  match s with
  | [] => []
  | c :: r =>
      if c =? c_bslash then
        match r with
        | c2 :: r2 => if c2 =? c_lf then c :: unescape r else c2 :: unescape r2
        | [] => [c]
        end
      else c :: unescape r
  end.

(* ---- urllib.parse.unquote(value) (encoding utf-8, errors replace) ---- *)
Definition is_hex (c : N) : bool :=
  ((48 <=? c) && (c <=? 57)) || ((65 <=? c) && (c <=? 70)) || ((97 <=? c) && (c <=? 102)).
Definition hexval (c : N) : N :=
  if c <=? 57 then c - 48 else if c <=? 70 then c - 55 else c - 87.

(* _unquote_impl on an ASCII run: bytes *)
Fixpoint unpct (s : str) : list N :=
  match s with
  | [] => []
  | c :: r =>
      if c =? c_pct then
        match r with
        | h1 :: h2 :: r2 => if is_hex h1 && is_hex h2 then (16 * hexval h1 + hexval h2) :: unpct r2 else c :: unpct r
        | _ => c :: unpct r
        end
      else c :: unpct r
  end.

Definition rep : N := 65533.   (* U+FFFD *)

(* bytes.decode('utf-8', 'replace') as CPython does it: one U+FFFD per maximal invalid prefix, resume at
   the offending byte; a truncated but so far valid sequence at the end gives a single U+FFFD *)
Fixpoint dec_rep (b : list N) : str :=
  match b with
  | [] => []
  | b0 :: r =>
      if b0 <? 128 then b0 :: dec_rep r
      else if b0 <? 194 then rep :: dec_rep r
      else if b0 <? 224 then
        match r with
        | [] => [rep]
        | b1 :: r1 => if is_cont b1 then ((b0 - 192) * 64 + (b1 - 128)) :: dec_rep r1 else rep :: dec_rep r
        end
      else if b0 <? 240 then
        match r with
        | [] => [rep]
        | b1 :: r1 =>
            if negb (is_cont b1) || ((b0 =? 224) && (b1 <? 160)) || ((b0 =? 237) && (160 <=? b1)) then rep :: dec_rep r
            else
              match r1 with
              | [] => [rep]
              | b2 :: r2 =>
                  if is_cont b2 then ((b0 - 224) * 4096 + (b1 - 128) * 64 + (b2 - 128)) :: dec_rep r2
                  else rep :: dec_rep r1
              end
        end
      else if b0 <? 245 then
        match r with
        | [] => [rep]
        | b1 :: r1 =>
            if negb (is_cont b1) || ((b0 =? 240) && (b1 <? 144)) || ((b0 =? 244) && (144 <=? b1)) then rep :: dec_rep r
            else
              match r1 with
              | [] => [rep]
              | b2 :: r2 =>
                  if negb (is_cont b2) then rep :: dec_rep r1
                  else
                    match r2 with
                    | [] => [rep]
                    | b3 :: r3 =>
                        if is_cont b3
                        then ((b0 - 240) * 262144 + (b1 - 128) * 4096 + (b2 - 128) * 64 + (b3 - 128)) :: dec_rep r3
                        else rep :: dec_rep r2
                    end
              end
        end
      else rep :: dec_rep r
  end.

(* maximal ASCII runs are percent-decoded and UTF-8 decoded, other characters are kept *)
Fixpoint unquote_aux (run : str) (s : str) : str :=
  match s with
  | [] => dec_rep (unpct (rev run))
  | c :: r => if c <? 128 then unquote_aux (c :: run) r
              else dec_rep (unpct (rev run)) ++ c :: unquote_aux [] r
  end.
Definition unquote (s : str) : str := unquote_aux [] s.

(* ---- _parse_xfcc ---- *)
Record elem := mkElem {
  e_hash : option str; e_cert : option str; e_subject : option str; e_uri : option str;
  e_dns : list str; e_by : option str }.
Definition empty_elem : elem := mkElem None None None None [] None.

Definition k_hash : str := [104; 97; 115; 104].
Definition k_cert : str := [99; 101; 114; 116].
Definition k_subject : str := [115; 117; 98; 106; 101; 99; 116].
Definition k_uri : str := [117; 114; 105].
Definition k_dns : str := [100; 110; 115].
Definition k_by : str := [98; 121].

(* pair.find('=') : text before / after the first '=' *)
Fixpoint find_eq (s : str) : option (str * str) :=
  match s with
  | [] => None
  | c :: r => if c =? c_eq then Some ([], r)
              else match find_eq r with
                   | Some (k, v) => Some (c :: k, v)
                   | None => None
                   end
  end.

(* 'strip surrounding quotes': len(value) >= 2 and value[0] == ''' and value[-1] == ''' *)
Definition dequote (v : str) : str :=
  match v with
  | c :: r =>
      match rev r with
      | l :: m => if (c =? c_quote) && (l =? c_quote) then unescape (rev m) else v
      | [] => v
      end
  | [] => v
  end.

(* fields[key] = value / the DNS list; key is already stripped and lowered, value dequoted.
   Unknown keys land in the dict and are never read. *)
Definition set_field (unq : str -> str) (e : elem) (key value : str) : elem :=
  if str_eqb key k_dns then mkElem (e_hash e) (e_cert e) (e_subject e) (e_uri e) (e_dns e ++ [value]) (e_by e)
  else if str_eqb key k_hash then mkElem (Some value) (e_cert e) (e_subject e) (e_uri e) (e_dns e) (e_by e)
  else if str_eqb key k_cert then mkElem (e_hash e) (Some (unq value)) (e_subject e) (e_uri e) (e_dns e) (e_by e)
  else if str_eqb key k_subject then mkElem (e_hash e) (e_cert e) (Some value) (e_uri e) (e_dns e) (e_by e)
  else if str_eqb key k_uri then mkElem (e_hash e) (e_cert e) (e_subject e) (Some (unq value)) (e_dns e) (e_by e)
  else if str_eqb key k_by then mkElem (e_hash e) (e_cert e) (e_subject e) (e_uri e) (e_dns e) (Some (unq value))
  else e.

(* one raw pair (text between ';') *)
Definition parse_pair (unq : str -> str) (e : elem) (raw : str) : elem :=
  let p := strip raw in
  match p with
  | [] => e
  | _ => match find_eq p with
         | None => e
         | Some (k, v) => set_field unq e (lower (strip k)) (dequote (strip v))
         end
  end.

(* one raw element (text between ','), already stripped and non-empty *)
Definition parse_elem (unq : str -> str) (raw : str) : elem :=
  fold_left (parse_pair unq) (split_rq c_semi raw) empty_elem.

Fixpoint parse_raws (unq : str -> str) (raws : list str) : list elem :=
  match raws with
  | [] => []
  | raw :: rest =>
      match strip raw with
      | [] => parse_raws unq rest
      | s => parse_elem unq s :: parse_raws unq rest
      end
  end.
Definition parse_xfcc_with (unq : str -> str) (h : str) : list elem := parse_raws unq (split_rq c_comma h).
Definition parse_xfcc : str -> list elem := parse_xfcc_with unquote.

(* ---- _extract_cn ---- *)
(* re.split(r'(?<!\\),', subject): a comma separates unless the character before it is a backslash *)
Fixpoint split_dn (prev_bs : bool) (s : str) : list str :=
  match s with
  | [] => [[]]
  | c :: r => if (c =? c_comma) && negb prev_bs then [] :: split_dn false r
              else cons_hd c (split_dn (c =? c_bslash) r)
  end.
Definition cn_of_part (p : str) : option str :=
  match p with
  | a :: b :: c :: r => if (upper_c a =? 67) && (upper_c b =? 78) && (c =? c_eq) then Some r else None
  | _ => None
  end.
Fixpoint first_cn (parts : list str) : str :=
  match parts with
  | [] => []
  | p :: rest => match cn_of_part (strip p) with
                 | Some r => r
                 | None => first_cn rest
                 end
  end.
Definition extract_cn (subject : str) : str := first_cn (split_dn false subject).

(* ---- mtls_authenticate_xfcc(...).authenticate ---- *)
Inductive reason := ProxyRequired | InvalidCredential.
(* the first guard of authenticate, as found in the source (gen/G_Xfcc.v):
     GuardFalsy  : `if not header_value:`       (absent or zero-length)
     GuardIsNone : `if header_value is None:`   (absent only) *)
Inductive guard := GuardFalsy | GuardIsNone.

Definition is_missing (g : guard) (h : option str) : bool :=
  match h, g with
  | None, _ => true
  | Some [], GuardFalsy => true
  | Some _, _ => false
  end.

Definition last_opt {A : Type} (l : list A) : option A :=
  match rev l with x :: _ => Some x | [] => None end.
(* elements[0] if select_element == 'first' else elements[-1] *)
Definition select_elem (first : bool) (es : list elem) : option elem :=
  if first then hd_error es else last_opt es.

(* up to the point where the element is handed to `validate` (or to the default identity) *)
Definition auth_select_with (unq : str -> str) (g : guard) (first : bool) (h : option str) : reason + elem :=
  if is_missing g h then inl ProxyRequired
  else match h with
       | None => inl ProxyRequired
       | Some s => match select_elem first (parse_xfcc_with unq s) with
                   | None => inl InvalidCredential
                   | Some e => inr e
                   end
       end.

(* the default identity (validate is None): principal and claims; falsy (None or '') values are left out *)
Definition truthy (o : option str) : option str :=
  match o with Some (c :: r) => Some (c :: r) | _ => None end.
Record identity := mkId {
  i_principal : str; i_hash : option str; i_subject : option str; i_uri : option str; i_dns : list str; i_by : option str }.
Definition default_identity (e : elem) : identity :=
  mkId (match truthy (e_subject e) with Some s => extract_cn s | None => [] end)
       (truthy (e_hash e)) (truthy (e_subject e)) (truthy (e_uri e)) (e_dns e) (truthy (e_by e)).

Definition authenticate_with (unq : str -> str) (g : guard) (first : bool) (h : option str) : reason + identity :=
  match auth_select_with unq g first h with
  | inl r => inl r
  | inr e => inr (default_identity e)
  end.
Definition authenticate : guard -> bool -> option str -> reason + identity := authenticate_with unquote.

(* the reason codes as the strings of AuthReason *)
Definition reason_str (r : reason) : str :=
  match r with
  | ProxyRequired => [112; 114; 111; 120; 121; 95; 114; 101; 113; 117; 105; 114; 101; 100]
  | InvalidCredential => [105; 110; 118; 97; 108; 105; 100; 95; 99; 114; 101; 100; 101; 110; 116; 105; 97; 108]
  end.

(* ---- the printer of the XFCC grammar (specification side) ---- *)
(* quoted-string: ''' then the value with ''' and '\' preceded by '\' then ''' *)
Fixpoint esc (v : str) : str :=
  match v with
  | [] => []
  | c :: r => if (c =? c_quote) || (c =? c_bslash) then c_bslash :: c :: esc r else c :: esc r
  end.
Definition quote_str (v : str) : str := c_quote :: esc v ++ [c_quote].

Record item := mkItem { it_key : str; it_quoted : bool; it_value : str }.
Definition print_item (it : item) : str :=
  it_key it ++ c_eq :: (if it_quoted it then quote_str (it_value it) else it_value it).
Fixpoint join (d : N) (ps : list str) : str :=
  match ps with
  | [] => []
  | [p] => p
  | p :: rest => p ++ d :: join d rest
  end.
Definition print_elem (its : list item) : str := join c_semi (map print_item its).
Definition print_xfcc (es : list (list item)) : str := join c_comma (map print_elem es).

(* well-formedness of the grammar:
   key    : token without ''' ',' ';' '=' and without white space
   quoted : any value at all
   bare   : no ''' ',' ';' and no white space at either end (may be empty, may contain '=' and '\') *)
Definition key_char (c : N) : bool :=
  negb ((c =? c_quote) || (c =? c_comma) || (c =? c_semi) || (c =? c_eq) || is_space c).
Definition bare_char (c : N) : bool := negb ((c =? c_quote) || (c =? c_comma) || (c =? c_semi)).
Definition hd_ok (s : str) : bool := match s with [] => true | c :: _ => negb (is_space c) end.
Definition no_edge_space (v : str) : bool := hd_ok v && hd_ok (rev v).
Definition wf_item (it : item) : bool :=
  forallb key_char (it_key it) &&
  (it_quoted it || (forallb bare_char (it_value it) && no_edge_space (it_value it))).
Definition wf_elem (its : list item) : bool :=
  match its with [] => false | _ => forallb wf_item its end.

(* what an element means: the dict semantics of _parse_xfcc (last one wins, DNS accumulates) *)
Definition sem_elem (unq : str -> str) (its : list item) : elem :=
  fold_left (fun e it => set_field unq e (lower (it_key it)) (it_value it)) its empty_elem.

(* canonical printing of a parsed element: every field quoted, Cert / URI / By through `enc` *)
Definition opt_item (key : str) (f : str -> str) (o : option str) : list item :=
  match o with Some v => [mkItem key true (f v)] | None => [] end.
Definition K_Hash : str := [72; 97; 115; 104].
Definition K_Cert : str := [67; 101; 114; 116].
Definition K_Subject : str := [83; 117; 98; 106; 101; 99; 116].
Definition K_URI : str := [85; 82; 73].
Definition K_DNS : str := [68; 78; 83].
Definition K_By : str := [66; 121].
Definition items_of_elem (enc : str -> str) (e : elem) : list item :=
  opt_item K_Hash (fun v => v) (e_hash e) ++ opt_item K_Cert enc (e_cert e) ++
  opt_item K_Subject (fun v => v) (e_subject e) ++ opt_item K_URI enc (e_uri e) ++
  map (fun v => mkItem K_DNS true v) (e_dns e) ++ opt_item K_By enc (e_by e).
Definition elem_nonempty (e : elem) : bool :=
  match items_of_elem (fun v => v) e with [] => false | _ => true end.

(* percent-encoding of every character of an ASCII string: '%XX' *)
Definition hexdig (n : N) : N := if n <? 10 then 48 + n else 55 + n.
Definition pct_all (v : str) : str := flat_map (fun c => [c_pct; hexdig (c / 16); hexdig (c mod 16)]) v.

Definition is_ascii (v : str) : bool := forallb (fun c => c <? 128) v.
Definition opt_ascii (o : option str) : bool := match o with Some v => is_ascii v | None => true end.
Definition elem_url_ascii (e : elem) : bool := opt_ascii (e_cert e) && opt_ascii (e_uri e) && opt_ascii (e_by e).

(* ---- correspondence entry point ---- *)
Inductive case_in :=
| CSplit (d : N) (s : str)           (* _split_respecting_quotes(s, chr(d)) *)
| CUnesc (s : str)                   (* _unescape_quoted(s) *)
| CUnquote (s : str)                 (* urllib.parse.unquote(s) *)
| CCn (s : str)                      (* _extract_cn(s) *)
| CParse (s : str)                   (* _parse_xfcc(s) *)
| CAuth (first : bool) (h : option str).   (* mtls_authenticate_xfcc(select_element=...)(req) *)

(* outputs are flattened to list (list str); option: None -> [0], Some s -> 1 :: s *)
Definition enc_opt (o : option str) : str := match o with None => [0] | Some s => 1 :: s end.
Definition enc_elem (e : elem) : list str :=
  [enc_opt (e_hash e); enc_opt (e_cert e); enc_opt (e_subject e); enc_opt (e_uri e); enc_opt (e_by e)] ++ map (cons 1) (e_dns e).
Definition enc_identity (i : identity) : list str :=
  [i_principal i; enc_opt (i_hash i); enc_opt (i_subject i); enc_opt (i_uri i); enc_opt (i_by i)] ++ map (cons 1) (i_dns i).

Definition run_case_with (g : guard) (x : case_in) : list (list str) :=
  match x with
  | CSplit d s => [split_rq d s]
  | CUnesc s => [[unescape s]]
  | CUnquote s => [[unquote s]]
  | CCn s => [[extract_cn s]]
  | CParse s => map enc_elem (parse_xfcc s)
  | CAuth first h =>
      match authenticate g first h with
      | inl r => [[[0]; reason_str r]]
      | inr i => [[[1]]; enc_identity i]
      end
  end.
