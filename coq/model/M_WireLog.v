(* M_WireLog: executable model for C08 "client log messages are delivered once, in order, robustly"
   (definitions only, no proofs).  Builds on M_Wire (frames, programs, scripts, run_pipe, run_http).

   Anchors in /repo:
     vgi_rpc/rpc/_wire.py   _dispatch_log_or_error (classification of a received batch, level parsing, log_extra JSON,
                            Message construction), _write_message_batch / OutputCollector.emit_client_log_message
                            (Message.add_to_metadata: the server side of the round trip)
     vgi_rpc/log.py         Level (the six values), Message.__init__(self, level, message, **kwargs)

   Part A  what the client does with ONE received batch, for arbitrary peer metadata.  The function is written against a
           [shape] -- the facts about the source the translator translate/t_c08_dispatch.py regenerates on every run
           (gen/G_WireLog.v): the Level table, the parameter names of Message.__init__, the exception classes suppressed
           around json.loads, whether a non-object JSON value is discarded, whether extras are splatted into the
           constructor, whether Level(...) is guarded.  [repaired_shape] is the shape of the code after
           fixes/C08-peer-log-metadata-robust.diff, [old_shape] the shape before it (refuted/R_C08.v).
   Part B  the emission sequence of a call ([emitted]) -- what the service implementation emits, in emission order,
           INCLUDING the logs a failing step emitted before it failed -- and the relations the theorems use. *)
From Coq Require Import List NArith ZArith Bool String Ascii.
From VGI Require Import Corr M_Wire.
Import ListNotations.
Open Scope N_scope.

(* ================================================================== Part A: one received batch *)
(* a decoded JSON document.  JNum carries Python's str() of the number (number formatting is below the model);
   JObj is the member list in document order, duplicates included (json.loads: last value wins, first position kept) *)
Inductive json := JNull | JBool (b : bool) | JNum (r : str) | JStr (x : str) | JArr (l : list json) | JObj (l : list (str * json)).

(* why json.loads(raw.decode()) raised *)
Inductive pfail := PFJson | PFUnicode | PFValue | PFRecursion.
Definition pfail_name (f : pfail) : str :=
  match f with PFJson => s "JSONDecodeError" | PFUnicode => s "UnicodeDecodeError" | PFValue => s "ValueError" | PFRecursion => s "RecursionError" end.
(* the vgi_rpc.log_extra value: absent / json.loads raised / a JSON document *)
Inductive xraw := XAbsent | XFail (f : pfail) | XJson (v : json).

(* a received batch as _dispatch_log_or_error sees it (level / message / ids already UTF-8 decoded) *)
Record peer_md := {
  p_has_md : bool;              (* custom_metadata is not None *)
  p_rows : N;
  p_level : option str;         (* vgi_rpc.log_level *)
  p_message : option str;       (* vgi_rpc.log_message *)
  p_extra : xraw;               (* vgi_rpc.log_extra *)
  p_server_id : option str;     (* vgi_rpc.server_id *)
  p_request_id : option str     (* vgi_rpc.request_id *)
}.

Record shape := {
  sh_levels : list (str * level);   (* Level: value string -> member, in source order *)
  sh_reserved : list str;           (* positional parameter names of Message.__init__ *)
  sh_suppressed : list str;         (* classes of the contextlib.suppress(...) around json.loads *)
  sh_requires_dict : bool;          (* isinstance(parsed, dict) before the value is used *)
  sh_ctor_kwargs : bool;            (* Message(level, text, **extra) *)
  sh_level_guard : bool             (* try: Level(level_str) except ValueError: return True *)
}.

Definition level_table : list (str * level) :=
  [(s "EXCEPTION", EXC); (s "ERROR", ERR); (s "WARN", WARN); (s "INFO", INFO); (s "DEBUG", DEBUG); (s "TRACE", TRACE)].
Definition message_params : list str := [s "self"; s "level"; s "message"].
Definition repaired_shape : shape :=
  {| sh_levels := level_table; sh_reserved := message_params; sh_suppressed := [s "ValueError"; s "RecursionError"];
     sh_requires_dict := true; sh_ctor_kwargs := false; sh_level_guard := true |}.
Definition old_shape : shape :=
  {| sh_levels := level_table; sh_reserved := message_params; sh_suppressed := [s "JSONDecodeError"];
     sh_requires_dict := false; sh_ctor_kwargs := true; sh_level_guard := false |}.

(* does an ``except <handler>`` clause catch the failure class (Python class hierarchy) *)
Definition catches (handler : str) (f : pfail) : bool :=
  if str_eqb handler (s "Exception") then true
  else if str_eqb handler (s "ValueError") then match f with PFJson | PFUnicode | PFValue => true | PFRecursion => false end
  else if str_eqb handler (s "JSONDecodeError") then match f with PFJson => true | _ => false end
  else if str_eqb handler (s "UnicodeDecodeError") then match f with PFUnicode => true | _ => false end
  else if str_eqb handler (s "RecursionError") then match f with PFRecursion => true | _ => false end
  else false.
Definition suppressed (sh : shape) (f : pfail) : bool := existsb (fun h => catches h f) (sh_suppressed sh).

(* Python dict: insertion ordered, assignment to an existing key keeps its position *)
Definition dict := list (str * json).
Fixpoint dset (k : str) (v : json) (d : dict) : dict :=
  match d with
  | [] => [(k, v)]
  | (k', v') :: r => if str_eqb k k' then (k', v) :: r else (k', v') :: dset k v r
  end.
Definition dict_of (kv : list (str * json)) : dict := fold_left (fun d p => dset (fst p) (snd p) d) kv [].
Fixpoint dget (k : str) (d : dict) : option json :=
  match d with [] => None | (k', v) :: r => if str_eqb k k' then Some v else dget k r end.
Definition dset_opt (k : str) (v : option str) (d : dict) : dict := match v with Some x => dset k (JStr x) d | None => d end.

Fixpoint lookup_level (t : list (str * level)) (l : str) : option level :=
  match t with [] => None | (n, v) :: r => if str_eqb l n then Some v else lookup_level r l end.
(* Level.EXCEPTION.value *)
Fixpoint exc_value (t : list (str * level)) : str :=
  match t with [] => [] | (n, EXC) :: _ => n | _ :: r => exc_value r end.

(* NotLog: the batch is handed on as data.  Deliver: on_log(Message(level, text, extras)); extras are the values BEFORE
   the str() coercion (the harness applies Python's str to compare).  Ignore: consumed, nothing delivered.
   RaiseRpc ty msg: RpcError(str(ty or level), msg, ...).  Crash cls: any other exception escapes the client call. *)
Inductive outcome := NotLog | Deliver (l : level) (t : str) (ex : dict) | Ignore | RaiseRpc (ty : option json) (msg : str) | Crash (c : str).

Definition parse_extra (sh : shape) (x : xraw) : dict + str :=
  match x with
  | XAbsent => inl []
  | XFail f => if suppressed sh f then inl [] else inr (pfail_name f)
  | XJson (JObj kv) => inl (dict_of kv)
  | XJson _ => if sh_requires_dict sh then inl [] else inr (s "AttributeError")      (* .get / .items() on a non-dict *)
  end.

Definition nonempty (o : option str) : option str := match o with Some [] => None | x => x end.

Definition client_dispatch_sh (sh : shape) (md : peer_md) : outcome :=
  if negb (p_has_md md) then NotLog
  else if negb (p_rows md =? 0) then NotLog
  else match p_level md, p_message md with
       | Some l, Some m =>
           match parse_extra sh (p_extra md) with
           | inr c => Crash c
           | inl d =>
               if str_eqb l (exc_value (sh_levels sh)) then RaiseRpc (dget (s "exception_type") d) m
               else
                 match lookup_level (sh_levels sh) l with
                 | None => if sh_level_guard sh then Ignore else Crash (s "ValueError")
                 | Some lv =>
                     let ex := dset_opt (s "request_id") (nonempty (p_request_id md)) (dset_opt (s "server_id") (p_server_id md) d) in
                     if sh_ctor_kwargs sh && existsb (fun k => existsb (str_eqb k) (sh_reserved sh)) (map fst ex)
                     then Crash (s "TypeError")            (* got multiple values for argument ... *)
                     else Deliver lv m ex
                 end
           end
       | _, _ => NotLog
       end.

Definition client_dispatch : peer_md -> outcome := client_dispatch_sh repaired_shape.
Definition client_dispatch_old : peer_md -> outcome := client_dispatch_sh old_shape.

Definition is_crash (o : outcome) : bool := match o with Crash _ => true | _ => false end.

(* the server side: Message.add_to_metadata + _write_message_batch -- every extra value of a logmsg is a string *)
Definition level_name (l : level) : str :=
  match l with EXC => s "EXCEPTION" | ERR => s "ERROR" | WARN => s "WARN" | INFO => s "INFO" | DEBUG => s "DEBUG" | TRACE => s "TRACE" end.
Definition jextras (m : logmsg) : list (str * json) := map (fun p => (fst p, JStr (snd p))) (extra m).
Definition encode_log (m : logmsg) (server_id request_id : option str) : peer_md :=
  {| p_has_md := true; p_rows := 0; p_level := Some (level_name (lvl m)); p_message := Some (text m);
     p_extra := match extra m with [] => XAbsent | _ => XJson (JObj (jextras m)) end;
     p_server_id := server_id; p_request_id := request_id |}.

(* ---- equality for correspondence *)
Fixpoint json_eqb (a b : json) {struct a} : bool :=
  match a, b with
  | JNull, JNull => true
  | JBool x, JBool y => Bool.eqb x y
  | JNum x, JNum y => str_eqb x y
  | JStr x, JStr y => str_eqb x y
  | JArr x, JArr y =>
      (fix go (l1 l2 : list json) : bool :=
         match l1, l2 with [], [] => true | u :: r1, v :: r2 => json_eqb u v && go r1 r2 | _, _ => false end) x y
  | JObj x, JObj y =>
      (fix go (l1 l2 : list (str * json)) : bool :=
         match l1, l2 with [], [] => true | (k1, u) :: r1, (k2, v) :: r2 => str_eqb k1 k2 && json_eqb u v && go r1 r2 | _, _ => false end) x y
  | _, _ => false
  end.
Definition dict_eqb : dict -> dict -> bool := list_eqb (pair_eqb str_eqb json_eqb).
Definition outcome_eqb (a b : outcome) : bool :=
  match a, b with
  | NotLog, NotLog | Ignore, Ignore => true
  | Deliver l t e, Deliver l' t' e' => level_eqb l l' && str_eqb t t' && dict_eqb e e'
  | RaiseRpc ty m, RaiseRpc ty' m' => option_eqb json_eqb ty ty' && str_eqb m m'
  | Crash c, Crash c' => str_eqb c c'
  | _, _ => false
  end.

(* ================================================================== Part B: the emission sequence of a call *)
(* producer: every step's logs in emission order, then its batch / the end of the stream / its error.  Unlike
   M_Wire.obs_prod the logs a FAILING step emitted before it failed are part of the sequence. *)
Fixpoint emit_prod (sts : list step) : list event :=
  match sts with
  | [] => [EDone]
  | x :: r =>
      map ELog (slogs x) ++
      match exec_step true (Some x) with
      | SErr e => [err_event e]
      | SFrames _ true => match emit x with Some b => [EBatch b; EDone] | None => [EDone] end
      | SFrames _ false => match emit x with Some b => EBatch b :: emit_prod r | None => [] end
      end
  end.

Fixpoint emit_exch (sts : list step) (n : nat) : list event :=
  match n with
  | O => []
  | S n' =>
      map ELog (step_logs (hd_error sts)) ++
      match exec_step false (hd_error sts) with
      | SErr e => [err_event e]
      | SFrames _ _ => EBatch (step_batch (hd_error sts)) :: emit_exch (tl sts) n'
      end
  end.

(* what the implementation emits during the call, in emission order, up to and including the first error.
   A producer is described to exhaustion (an early-exit client sees a prefix); an exchange for its n inputs. *)
Definition emitted (p : prog) (sc : script) : list event :=
  match p, sc with
  | PUnary u, SUnary _ => map ELog (ulogs u) ++ [match ures_of u with UOk v => EResult v | URaise e => err_event e end]
  | PStream sp, SIter h _ _ _ =>
      map ELog (ilogs sp) ++ match ires sp with InitRaise e => [err_event e] | _ => hdr_events h sp ++ emit_prod (steps sp) end
  | PStream sp, SExch h n _ _ =>
      map ELog (ilogs sp) ++ match ires sp with InitRaise e => [err_event e] | _ => hdr_events h sp ++ emit_exch (steps sp) n end
  | _, _ => []
  end.

(* the class the faithful model loses logs on: a step (or the init method) that FAILS after having emitted logs.
   The stream server keeps a step's logs in the step's OutputCollector (init: in the buffering sink) and discards
   it when the step raises; unary methods write logs directly and are not affected. *)
Definition no_logs (ls : list logmsg) : bool := match ls with [] => true | _ => false end.
Definition step_lossless (producer : bool) (x : step) : bool :=
  match exec_step producer (Some x) with SErr _ => no_logs (slogs x) | _ => true end.
Definition init_lossless (sp : stream_prog) : bool := match ires sp with InitRaise _ => no_logs (ilogs sp) | _ => true end.
Definition lossless (p : prog) (sc : script) : bool :=
  match p, sc with
  | PStream sp, SIter _ _ _ _ => init_lossless sp && forallb (step_lossless true) (steps sp)
  | PStream sp, SExch _ _ _ _ => init_lossless sp && forallb (step_lossless false) (steps sp)
  | _, _ => true
  end.

(* ---- the relations of the theorems *)
Definition prefix_of (a b : list event) : Prop := exists r, b = a ++ r.

(* [early E T]: T is E with log messages moved AHEAD of data items (result / header / batches) -- never behind a data
   item, never past another log message.  [early_refl]: nothing moved.  [early_hoist]: the log m, emitted after the
   data items D, is delivered before them. *)
Inductive early : list event -> list event -> Prop :=
| early_refl t : early t t
| early_hoist m D R T : forallb is_data D = true -> early (D ++ R) T -> early (D ++ ELog m :: R) (ELog m :: T).

Definition logs_of (t : list event) : list event := filter is_log t.
Definition data_of (t : list event) : list event := filter is_data t.

(* boolean prefix on traces, used by correspondence / non-vacuity examples *)
Fixpoint prefixb (a b : list event) : bool :=
  match a, b with [], _ => true | x :: a', y :: b' => event_eqb x y && prefixb a' b' | _ :: _, [] => false end.

(* for correspondence: the dispatch outcome under a shape; the emission sequence *)
Definition run_case (sh : shape) (md : peer_md) : outcome := client_dispatch_sh sh md.
Definition em (x : prog * script) : list event := emitted (fst x) (snd x).
Definition ll (x : prog * script) : bool := lossless (fst x) (snd x).
