(* C32: executable small-step model of vgi_rpc/pool.py (WorkerPool) together with the part of the
   client (vgi_rpc/rpc/_client.py) that decides whether a pooled connection is reusable.

   One atomic step per scheduling point of the real code (a scheduling point = acquiring the pool lock,
   Popen.poll() outside the lock, spawning, Event.wait of the reaper, Thread.join of close(), and the
   boundary between two operations of the borrower's own script).  Definitions only; proofs are in
   proof/L_Pool.v.  Everything is [nat]: pids are indices into [g_workers], time is a logical clock. *)
From Coq Require Import List Arith Bool.
Import ListNotations.

(* ------------------------------------------------------------------------------------------------ *)
(* What _PooledTransport.close() can see of the client: the attributes the client pokes into it.      *)
Record flags := mkFlags {
  f_inflight : bool;   (* _call_in_flight: a request was sent and its response not read to the end    *)
  f_opened   : bool;   (* _stream_opened                                                              *)
  f_has_sess : bool;   (* _last_stream_session is not None                                            *)
  f_sclosed  : bool;   (* _last_stream_session._closed                                                *)
  f_sdrained : bool    (* _last_stream_session._drained: close()/cancel() read the output EOS         *)
}.
Definition flags0 := mkFlags false false false false false.

(* Exception classes an on_log callback may raise, as far as the client's except clauses tell them apart:
   anything the client never catches (ValueError, RuntimeError, ...), a plain OSError, an RpcError, pa.ArrowInvalid. *)
Inductive xcls := XPlain | XOs | XRpc | XArrow.

(* The drain loop at the end of StreamSession.close() / .cancel(): which exception classes it swallows, and
   whether _drained is set to True although the loop was ended by a swallowed exception (and not by the
   end-of-stream marker). *)
Record drains := mkDrains {
  d_close_swallow : xcls -> bool; d_close_mark : bool;
  d_cancel_swallow : xcls -> bool; d_cancel_mark : bool
}.

(* Source-derived decisions (regenerated from the source by translate/t_c32_guards.py, see tie/T_Pool.v). *)
Record cfg := mkCfg {
  c_abandoned : flags -> bool;       (* the [stream_abandoned = ...] expression of _PooledTransport.close *)
  c_discard   : bool -> nat -> bool; (* _return_worker, under the lock: discard instead of pooling (closed, max_idle) *)
  c_evict     : nat -> nat -> bool;  (* _return_worker: evict the oldest first (total_idle, max_idle)      *)
  c_track     : bool;                (* the client maintains _call_in_flight and _drained                   *)
  c_drains    : drains               (* what the drain loops of StreamSession.close() / cancel() swallow       *)
}.

(* ------------------------------------------------------------------------------------------------ *)
(* Ground truth about one worker process and its pipe pair.                                          *)
Inductive conn :=
| Boundary            (* server waits for a request, nothing unread: a message boundary               *)
| Sync                (* inside a stream, server waits for input, nothing unread                      *)
| Pending (k : nat)   (* inside a stream: k log batches and one data batch are unread                 *)
| Dirty.              (* anything else (unread response bytes, half-finished stream)                  *)

Definition conn_clean (c : conn) : bool := match c with Boundary => true | _ => false end.

Record worker := mkWorker { w_key : nat; w_alive : bool; w_term : bool; w_conn : conn }.

Definition entry := (nat * nat)%type.             (* (pid, returned_at) *)
Definition idict := list (nat * list entry).      (* WorkerPool._idle: cmd key -> deque, in dict order *)

Record handout := mkHandout { h_thread : nat; h_pid : nat; h_reused : bool; h_alive : bool; h_clean : bool }.

Record world := mkWorld {
  g_now : nat; g_closed : bool; g_stop : bool; g_active : nat;
  g_idle : idict;
  g_workers : list worker;
  g_cnt : list nat;               (* borrows spawns reuses returns discards evictions_idle evictions_max *)
  g_handouts : list handout
}.

Definition set_now v g := mkWorld v (g_closed g) (g_stop g) (g_active g) (g_idle g) (g_workers g) (g_cnt g) (g_handouts g).
Definition set_closed v g := mkWorld (g_now g) v (g_stop g) (g_active g) (g_idle g) (g_workers g) (g_cnt g) (g_handouts g).
Definition set_stop v g := mkWorld (g_now g) (g_closed g) v (g_active g) (g_idle g) (g_workers g) (g_cnt g) (g_handouts g).
Definition set_active v g := mkWorld (g_now g) (g_closed g) (g_stop g) v (g_idle g) (g_workers g) (g_cnt g) (g_handouts g).
Definition set_idle v g := mkWorld (g_now g) (g_closed g) (g_stop g) (g_active g) v (g_workers g) (g_cnt g) (g_handouts g).
Definition set_workers v g := mkWorld (g_now g) (g_closed g) (g_stop g) (g_active g) (g_idle g) v (g_cnt g) (g_handouts g).
Definition set_cnt v g := mkWorld (g_now g) (g_closed g) (g_stop g) (g_active g) (g_idle g) (g_workers g) v (g_handouts g).
Definition set_handouts v g := mkWorld (g_now g) (g_closed g) (g_stop g) (g_active g) (g_idle g) (g_workers g) (g_cnt g) v.

Definition world0 := mkWorld 0 false false 0 [] [] [0; 0; 0; 0; 0; 0; 0] [].

(* counters *)
Definition K_borrows := 0. Definition K_spawns := 1. Definition K_reuses := 2. Definition K_returns := 3.
Definition K_discards := 4. Definition K_ev_idle := 5. Definition K_ev_max := 6.
Fixpoint upd_nth {A} (i : nat) (f : A -> A) (l : list A) : list A :=
  match l, i with
  | [], _ => []
  | x :: r, O => f x :: r
  | x :: r, S j => x :: upd_nth j f r
  end.
Definition bump (k n : nat) (g : world) := set_cnt (upd_nth k (fun x => x + n) (g_cnt g)) g.
Definition unbump (k : nat) (g : world) := set_cnt (upd_nth k pred (g_cnt g)) g.

(* workers *)
Definition conn_of (g : world) (p : nat) : conn :=
  match nth_error (g_workers g) p with Some w => w_conn w | None => Dirty end.
Definition alive_of (g : world) (p : nat) : bool :=
  match nth_error (g_workers g) p with Some w => w_alive w | None => false end.
Definition set_conn (p : nat) (c : conn) (g : world) :=
  set_workers (upd_nth p (fun w => mkWorker (w_key w) (w_alive w) (w_term w) c) (g_workers g)) g.
(* SubprocessTransport.close(): stdin closed, process reaped *)
Definition terminate (p : nat) (g : world) :=
  set_workers (upd_nth p (fun w => mkWorker (w_key w) false true (w_conn w)) (g_workers g)) g.
(* the process dies on its own *)
Definition kill (p : nat) (g : world) :=
  set_workers (upd_nth p (fun w => mkWorker (w_key w) false (w_term w) (w_conn w)) (g_workers g)) g.
Definition terminate_all (ps : list nat) (g : world) := fold_left (fun g p => terminate p g) ps g.

(* ------------------------------------------------------------------------------------------------ *)
(* The idle dictionary                                                                                *)
Fixpoint idle_get (k : nat) (d : idict) : option (list entry) :=
  match d with
  | [] => None
  | (k', q) :: r => if Nat.eqb k k' then Some q else idle_get k r
  end.
Fixpoint idle_del (k : nat) (d : idict) : idict :=
  match d with
  | [] => []
  | (k', q) :: r => if Nat.eqb k k' then r else (k', q) :: idle_del k r
  end.
(* d[k] = q for a key that is present (position kept) *)
Fixpoint idle_put (k : nat) (q : list entry) (d : idict) : idict :=
  match d with
  | [] => []
  | (k', q') :: r => if Nat.eqb k k' then (k', q) :: r else (k', q') :: idle_put k q r
  end.
(* d.setdefault(k, deque()).append(e) *)
Fixpoint idle_append (k : nat) (e : entry) (d : idict) : idict :=
  match d with
  | [] => [(k, [e])]
  | (k', q) :: r => if Nat.eqb k k' then (k', q ++ [e]) :: r else (k', q) :: idle_append k e r
  end.
Definition idle_entries (d : idict) : list entry := flat_map snd d.
Definition idle_pids (d : idict) : list nat := map fst (idle_entries d).
Definition idle_total (d : idict) : nat := length (idle_entries d).

(* dq.pop() for the key, deleting the key when the deque becomes empty (LIFO) *)
Definition idle_pop (k : nat) (d : idict) : option (entry * idict) :=
  match idle_get k d with
  | None => None
  | Some q =>
      match rev q with
      | [] => None                                   (* `if dq:` is false for an empty deque *)
      | e :: rq' => let q' := rev rq' in
                    Some (e, match q' with [] => idle_del k d | _ => idle_put k q' d end)
      end
  end.

(* _evict_oldest_locked: first key (dict order) whose front is strictly older than every earlier front *)
Fixpoint oldest (d : idict) (best : option (nat * nat)) : option nat :=
  match d with
  | [] => option_map fst best
  | (k, q) :: r =>
      match q with
      | [] => oldest r best
      | (_, t) :: _ =>
          match best with
          | None => oldest r (Some (k, t))
          | Some (_, bt) => if Nat.ltb t bt then oldest r (Some (k, t)) else oldest r best
          end
      end
  end.
Definition idle_evict (d : idict) : idict * option nat :=
  match oldest d None with
  | None => (d, None)
  | Some k =>
      match idle_get k d with
      | Some ((p, _) :: q') => (match q' with [] => idle_del k d | _ => idle_put k q' d end, Some p)
      | _ => (d, None)
      end
  end.

(* _reap_expired, with the (possibly stale) clock value [now] read before the lock was taken *)
Fixpoint drop_expired (now timeout : nat) (q : list entry) : list nat * list entry :=
  match q with
  | [] => ([], [])
  | (p, t) :: r =>
      if Nat.leb timeout (now - t)
      then let '(ex, kept) := drop_expired now timeout r in (p :: ex, kept)
      else ([], q)
  end.
Fixpoint idle_reap (now timeout : nat) (d : idict) : list nat * idict :=
  match d with
  | [] => ([], [])
  | (k, q) :: r =>
      let '(ex, kept) := drop_expired now timeout q in
      let '(ex', r') := idle_reap now timeout r in
      (ex ++ ex', match kept with [] => r' | _ => (k, kept) :: r' end)
  end.

(* ------------------------------------------------------------------------------------------------ *)
(* Borrower scripts.  The worker service answers every read position with LOGS = 2 log batches in    *)
(* front of the data batch; the on_log callback raises at the invocation numbers in [b_raise].       *)
Definition LOGS := 2.
Inductive op := OUnary | OOpen (managed : bool) | OTick | OClose | OCancel.

Inductive bpc :=
| BStart | BLock | BSpawn | BSpawnFail | BCount | BUse
| BRetPoll (ab : bool) | BRetDead | BRetAb | BRetLock | BDone.

Definition raises := list (nat * xcls).     (* callback invocation number -> class of the exception raised there *)

Record borrower := mkB {
  b_pc : bpc; b_key : nat; b_spawn_ok : bool; b_ops : list op; b_raise : raises;
  b_cbn : nat;                  (* callback invocations so far *)
  b_pid : option nat;           (* the worker this borrower holds *)
  b_fl : flags;
  b_open : option bool          (* Some managed: a stream session is open (managed = closed on exit) *)
}.
Inductive rpc := RWait | RLock (now : nat) | RDone.
Inductive cpc := CStart | CJoin | CCollect | CDone.
Inductive thread := TB (b : borrower) | TR (r : rpc) | TC (c : cpc).

Inductive spec := SB (key : nat) (spawn_ok : bool) (ops : list op) (raise_at : raises) | SR | SC.
Definition init_thread (s : spec) : thread :=
  match s with
  | SB k ok ops ra => TB (mkB BStart k ok ops ra 0 None flags0 None)
  | SR => TR RWait
  | SC => TC CStart
  end.

Fixpoint find_raise (cbn : nat) (ra : raises) : option xcls :=
  match ra with
  | [] => None
  | (i, x) :: r => if Nat.eqb cbn i then Some x else find_raise cbn r
  end.

(* deliver up to n log batches to the callback; returns (batches consumed, class raised if any) *)
Fixpoint read_logs (n cbn : nat) (ra : raises) : nat * option xcls :=
  match n with
  | O => (0, None)
  | S m =>
      match find_raise cbn ra with
      | Some x => (1, Some x)
      | None => let '(c, r) := read_logs m (S cbn) ra in (S c, r)
      end
  end.

Definition fl_inflight (tr : bool) (v : bool) (f : flags) :=
  mkFlags (if tr then v else f_inflight f) (f_opened f) (f_has_sess f) (f_sclosed f) (f_sdrained f).
Definition fl_opened (f : flags) := mkFlags (f_inflight f) true (f_has_sess f) (f_sclosed f) (f_sdrained f).
Definition fl_new_sess (f : flags) := mkFlags (f_inflight f) (f_opened f) true false false.
(* session._closed = True; without tracking there is no _drained: "closed" is all the pool can ask for *)
Definition fl_sclosed (tr : bool) (f : flags) :=
  mkFlags (f_inflight f) (f_opened f) (f_has_sess f) true (if tr then f_sdrained f else true).
Definition fl_sdrained (f : flags) := mkFlags (f_inflight f) (f_opened f) (f_has_sess f) (f_sclosed f) true.

(* the part of a borrower the client code works on *)
Record ustate := mkU { u_conn : conn; u_fl : flags; u_open : option bool; u_cbn : nat }.

(* the drain loop of close() / cancel() with n log batches in front of the end-of-stream marker;
   [fl] already has _closed set; returns (state, did an exception escape?) *)
Definition do_drain (swallow : xcls -> bool) (mark : bool) (n : nat) (ra : raises) (fl : flags) (cbn : nat)
  : ustate * bool :=
  let '(c, r) := read_logs n cbn ra in
  match r with
  | None => (mkU Boundary (fl_sdrained fl) None (cbn + c), false)        (* StopIteration: end of stream read *)
  | Some x =>
      if swallow x
      then (mkU Dirty (if mark then fl_sdrained fl else fl) None (cbn + c), false)   (* loop ended early, silently *)
      else (mkU Dirty fl None (cbn + c), true)
  end.

(* StreamSession.close() on an open session *)
Definition do_close (tr : bool) (D : drains) (alive : bool) (ra : raises) (u : ustate) : ustate * bool :=
  let fl := fl_sclosed tr (u_fl u) in
  if negb alive then (mkU Dirty fl None (u_cbn u), true)            (* writing the EOS fails *)
  else match u_conn u with
       | Sync => do_drain (d_close_swallow D) (d_close_mark D) 0 ra fl (u_cbn u)
       | Pending k => do_drain (d_close_swallow D) (d_close_mark D) k ra fl (u_cbn u)
       | _ => (mkU Dirty fl None (u_cbn u), true)
       end.

(* StreamSession.cancel() on an open session: the server's on_cancel hook logs LOGS times before the stream ends;
   a failing write is swallowed (cancel is best-effort) *)
Definition do_cancel (tr : bool) (D : drains) (alive : bool) (ra : raises) (u : ustate) : ustate * bool :=
  let fl := fl_sclosed tr (u_fl u) in
  if negb alive then (mkU Dirty fl None (u_cbn u), false)
  else match u_conn u with
       | Sync => do_drain (d_cancel_swallow D) (d_cancel_mark D) LOGS ra fl (u_cbn u)
       | Pending k => do_drain (d_cancel_swallow D) (d_cancel_mark D) (k + LOGS) ra fl (u_cbn u)
       | _ => (mkU Dirty fl None (u_cbn u), false)
       end.

(* one operation of the script; returns (state, did an exception escape?) *)
Definition do_op (tr : bool) (D : drains) (alive : bool) (ra : raises) (o : op) (u : ustate) : ustate * bool :=
  match o with
  | OUnary =>
      match u_open u with
      | Some _ => (u, true)                                          (* script error, wire untouched *)
      | None =>
          let fl1 := fl_inflight tr true (u_fl u) in
          if negb alive then (mkU Dirty fl1 None (u_cbn u), true)
          else match u_conn u with
               | Boundary =>
                   let '(c, r) := read_logs LOGS (u_cbn u) ra in
                   match r with
                   | None => (mkU Boundary (u_fl u) None (u_cbn u + c), false)
                   | Some XRpc => (mkU Boundary (u_fl u) None (u_cbn u + c), true)   (* _read_unary_response drains, mark restored *)
                   | Some _ => (mkU Dirty fl1 None (u_cbn u + c), true)
                   end
               | _ => (mkU Dirty fl1 None (u_cbn u), true)
               end
      end
  | OOpen m =>
      match u_open u with
      | Some _ => (u, true)
      | None =>
          let fl0 := fl_inflight tr true (u_fl u) in
          if negb alive then (mkU Dirty fl0 None (u_cbn u), true)    (* _send_request fails before _stream_opened *)
          else
            let fl1 := fl_opened fl0 in
            match u_conn u with
            | Boundary =>
                let '(c, r) := read_logs LOGS (u_cbn u) ra in
                match r with
                | Some _ => (mkU Dirty fl1 None (u_cbn u + c), true)
                | None => (mkU Sync (fl_new_sess (fl_opened (u_fl u))) (Some m) (u_cbn u + c), false)
                end
            | _ => (mkU Dirty fl1 None (u_cbn u), true)
            end
      end
  | OTick =>
      match u_open u with
      | None => (u, true)
      | Some m =>
          if negb alive then (mkU Dirty (fl_sclosed tr (u_fl u)) None (u_cbn u), true)   (* write fails: _closed = True *)
          else match u_conn u with
               | Sync =>
                   let '(c, r) := read_logs LOGS (u_cbn u) ra in
                   match r with
                   | None => (mkU Sync (u_fl u) (Some m) (u_cbn u + c), false)
                   | Some XRpc =>                                   (* except RpcError: self.close(); raise *)
                       (fst (do_close tr D alive ra (mkU (Pending (LOGS - c)) (u_fl u) (Some m) (u_cbn u + c))), true)
                   | Some XArrow =>                                 (* transport error: _closed = True, no drain *)
                       (mkU Dirty (fl_sclosed tr (u_fl u)) None (u_cbn u + c), true)
                   | Some _ => (mkU (Pending (LOGS - c)) (u_fl u) (Some m) (u_cbn u + c), true)
                   end
               | _ => (mkU Dirty (u_fl u) (Some m) (u_cbn u), true)
               end
      end
  | OClose =>
      match u_open u with
      | None => (u, true)
      | Some _ => do_close tr D alive ra u
      end
  | OCancel =>
      match u_open u with
      | None => (u, true)
      | Some _ => do_cancel tr D alive ra u
      end
  end.

(* leaving the with-blocks: a managed session that is still open is closed *)
Definition do_exit (tr : bool) (D : drains) (alive : bool) (ra : raises) (u : ustate) : ustate :=
  match u_open u with
  | Some true => fst (do_close tr D alive ra u)
  | _ => u
  end.

(* ------------------------------------------------------------------------------------------------ *)
(* schedule items: every list of these is a schedule *)
Inductive sid := Tick | Kill (p : nat) | Thr (i : nat).
Definition state := (world * list thread)%type.

Section Step.
  Variable C : cfg.
  Variable max_idle : nat.
  Variable timeout : nat.

  Definition with_pc pc (b : borrower) :=
    mkB pc (b_key b) (b_spawn_ok b) (b_ops b) (b_raise b) (b_cbn b) (b_pid b) (b_fl b) (b_open b).
  Definition with_pid pc pid (b : borrower) :=
    mkB pc (b_key b) (b_spawn_ok b) (b_ops b) (b_raise b) (b_cbn b) pid (b_fl b) (b_open b).

  Definition bstep (i : nat) (g : world) (b : borrower) : world * borrower :=
    match b_pc b with
    | BStart => if g_closed g then (g, with_pc BDone b) else (g, with_pc BLock b)
    | BLock =>
        let g1 := set_active (S (g_active g)) (bump K_borrows 1 g) in
        match idle_pop (b_key b) (g_idle g1) with
        | Some ((p, _), d') =>
            let g2 := bump K_reuses 1 (set_idle d' g1) in
            if alive_of g2 p
            then (set_handouts (g_handouts g2 ++ [mkHandout i p true (alive_of g2 p) (conn_clean (conn_of g2 p))]) g2,
                  with_pid BUse (Some p) b)
            else (terminate p (unbump K_reuses (bump K_discards 1 g2)), with_pc BSpawn b)
        | None => (g1, with_pc BSpawn b)
        end
    | BSpawn =>
        if b_spawn_ok b
        then let p := length (g_workers g) in
             let g1 := set_workers (g_workers g ++ [mkWorker (b_key b) true false Boundary]) g in
             (set_handouts (g_handouts g1 ++ [mkHandout i p false true true]) g1, with_pid BCount (Some p) b)
        else (g, with_pc BSpawnFail b)
    | BSpawnFail => (set_active (pred (g_active g)) g, with_pc BDone b)
    | BCount => (bump K_spawns 1 g, with_pc BUse b)
    | BUse =>
        match b_pid b with
        | None => (g, with_pc BDone b)                                  (* unreachable *)
        | Some p =>
            let alive := alive_of g p in
            let u := mkU (conn_of g p) (b_fl b) (b_open b) (b_cbn b) in
            let finish (u : ustate) :=
              let u' := do_exit (c_track C) (c_drains C) alive (b_raise b) u in
              let ab := if alive then c_abandoned C (u_fl u') else true in
              (set_conn p (u_conn u') g,
               mkB (BRetPoll ab) (b_key b) (b_spawn_ok b) [] (b_raise b) (u_cbn u') (b_pid b) (u_fl u') (u_open u')) in
            match b_ops b with
            | [] => finish u
            | o :: rest =>
                let '(u1, raised) := do_op (c_track C) (c_drains C) alive (b_raise b) o u in
                if raised then finish u1
                else (set_conn p (u_conn u1) g,
                      mkB BUse (b_key b) (b_spawn_ok b) rest (b_raise b) (u_cbn u1) (b_pid b) (u_fl u1) (u_open u1))
            end
        end
    | BRetPoll ab =>
        match b_pid b with
        | None => (g, with_pc BDone b)
        | Some p => if alive_of g p then (g, with_pc (if ab then BRetAb else BRetLock) b) else (g, with_pc BRetDead b)
        end
    | BRetDead | BRetAb =>
        match b_pid b with
        | None => (g, with_pc BDone b)
        | Some p => (terminate p (bump K_discards 1 (set_active (pred (g_active g)) g)), with_pid BDone None b)
        end
    | BRetLock =>
        match b_pid b with
        | None => (g, with_pc BDone b)
        | Some p =>
            let g1 := set_active (pred (g_active g)) g in
            if c_discard C (g_closed g1) max_idle
            then (terminate p (bump K_discards 1 g1), with_pid BDone None b)
            else
              let total := idle_total (g_idle g1) in
              let '(d1, ev) := if c_evict C total max_idle then idle_evict (g_idle g1) else (g_idle g1, None) in
              let g2 := match ev with Some _ => bump K_ev_max 1 g1 | None => g1 end in
              let g3 := bump K_returns 1 (set_idle (idle_append (b_key b) (p, g_now g2) d1) g2) in
              (match ev with Some e => terminate e g3 | None => g3 end, with_pid BDone None b)
        end
    | BDone => (g, b)
    end.

  Definition rstep (g : world) (r : rpc) : world * rpc :=
    match r with
    | RWait => if g_stop g then (g, RDone) else (g, RLock (g_now g))
    | RLock now =>
        let '(ex, d') := idle_reap now timeout (g_idle g) in
        (terminate_all ex (bump K_ev_idle (length ex) (set_idle d' g)), RWait)
    | RDone => (g, RDone)
    end.

  Definition cstep (g : world) (c : cpc) : world * cpc :=
    match c with
    | CStart => if g_closed g then (g, CDone) else (set_stop true (set_closed true g), CJoin)
    | CJoin => (g, CCollect)        (* join(timeout=5) returns whether or not the reaper has finished *)
    | CCollect =>
        let ps := idle_pids (g_idle g) in
        (terminate_all ps (bump K_discards (length ps) (set_idle [] g)), CDone)
    | CDone => (g, CDone)
    end.

  Definition tstep (i : nat) (g : world) (t : thread) : world * thread :=
    match t with
    | TB b => let '(g', b') := bstep i g b in (g', TB b')
    | TR r => let '(g', r') := rstep g r in (g', TR r')
    | TC c => let '(g', c') := cstep g c in (g', TC c')
    end.

  Definition step (s : state) (x : sid) : state :=
    match x with
    | Tick => (set_now (S (g_now (fst s))) (fst s), snd s)
    | Kill p => (kill p (fst s), snd s)
    | Thr i =>
        match nth_error (snd s) i with
        | None => s
        | Some t => let '(g', t') := tstep i (fst s) t in (g', upd_nth i (fun _ => t') (snd s))
        end
    end.

  Definition run (s : state) (sch : list sid) : state := fold_left step sch s.
  Definition init (specs : list spec) : state := (world0, map init_thread specs).

  Fixpoint trace (s : state) (sch : list sid) : list state :=
    match sch with
    | [] => []
    | x :: r => let s' := step s x in s' :: trace s' r
    end.
End Step.

(* ------------------------------------------------------------------------------------------------ *)
(* Who holds what                                                                                    *)
Definition owner_of (t : thread) : option nat := match t with TB b => b_pid b | _ => None end.
Definition owned (ths : list thread) : list nat :=
  flat_map (fun t => match owner_of t with Some p => [p] | None => [] end) ths.
Definition handout_ok (h : handout) : Prop := h_reused h = true -> h_alive h = true /\ h_clean h = true.

(* The two versions of the source the check knows. *)
Definition abandoned_fixed (f : flags) : bool :=
  f_inflight f || (f_opened f && (negb (f_has_sess f) || negb (f_sclosed f) || negb (f_sdrained f))).
Definition abandoned_old (f : flags) : bool :=
  f_opened f && (negb (f_has_sess f) || negb (f_sclosed f)).
Definition swallow_listed (x : xcls) : bool := match x with XPlain => false | _ => true end.   (* suppress(StopIteration, RpcError, pa.ArrowInvalid, OSError) *)
Definition drains_fixed := mkDrains swallow_listed false swallow_listed false.   (* _drained only when the end-of-stream marker was read *)
Definition drains_marking := mkDrains swallow_listed true swallow_listed true.   (* _drained = True after the loop, however it ended *)
Definition cfg_fixed := mkCfg abandoned_fixed (fun closed m => closed || Nat.eqb m 0) (fun total m => Nat.leb m total) true drains_fixed.
(* the source after the taint repair (b37b74b) but with the unconditional _drained = True *)
Definition cfg_marking := mkCfg abandoned_fixed (fun closed m => closed || Nat.eqb m 0) (fun total m => Nat.leb m total) true drains_marking.
Definition cfg_old := mkCfg abandoned_old (fun closed _ => closed) (fun total m => Nat.leb m total) false drains_marking.

(* ------------------------------------------------------------------------------------------------ *)
(* Observation of a state, for the step-by-step comparison with the real pool (props/C32.py).        *)
Definition b2n (b : bool) : nat := if b then 1 else 0.
Definition pc_code (pc : bpc) : list nat :=
  match pc with
  | BStart => [0; 0] | BLock => [1; 0] | BSpawn => [2; 0] | BSpawnFail => [3; 0] | BCount => [4; 0] | BUse => [5; 0]
  | BRetPoll ab => [6; b2n ab] | BRetDead => [7; 0] | BRetAb => [8; 0] | BRetLock => [9; 0] | BDone => [10; 0]
  end.
Definition thread_obs (t : thread) : list nat :=
  match t with
  | TB b => pc_code (b_pc b) ++ [match b_pid b with Some p => S p | None => 0 end; length (b_ops b)]
  | TR RWait => [20] | TR (RLock n) => [21; n] | TR RDone => [22]
  | TC CStart => [30] | TC CJoin => [31] | TC CCollect => [32] | TC CDone => [33]
  end.
Definition idle_obs (d : idict) : list (list nat) :=
  map (fun kq => fst kq :: flat_map (fun e => [fst e; snd e]) (snd kq)) d.
(* exact part *)
Definition obs (s : state) : list (list nat) :=
  let g := fst s in
  [ [g_now g; b2n (g_closed g); b2n (g_stop g); g_active g]; g_cnt g;
    flat_map (fun w => [w_key w; b2n (w_alive w); b2n (w_term w)]) (g_workers g);
    flat_map (fun h => [h_thread h; h_pid h; b2n (h_reused h)]) (g_handouts g) ]
  ++ map thread_obs (snd s) ++ [[99]] ++ idle_obs (g_idle g).
(* one-directional part: the model only claims cleanliness, never dirtiness *)
Definition clean_obs (s : state) : list bool := map (fun w => w_alive w && conn_clean (w_conn w)) (g_workers (fst s)).

Definition case_in := ((nat * nat) * list spec * list sid)%type.      (* (max_idle, timeout), threads, schedule *)
Definition run_case_with (C : cfg) (inp : case_in) : list (list (list nat) * list bool) :=
  let '((m, t), specs, sch) := inp in
  map (fun s => (obs s, clean_obs s)) (trace C m t (init specs) sch).

(* sequential scenarios with real subprocess workers: the hand-out log and the model's cleanliness claims *)
Definition run_seq_with (C : cfg) (inp : case_in) : list (list nat) * list bool :=
  let '((m, t), specs, sch) := inp in
  let s := run C m t (init specs) sch in
  (map (fun h => [h_thread h; h_pid h; b2n (h_reused h)]) (g_handouts (fst s)), map h_clean (g_handouts (fst s))).

Fixpoint leb_list (model impl : list bool) : bool :=
  match model, impl with
  | [], [] => true
  | a :: r, b :: r' => implb a b && leb_list r r'
  | _, _ => false
  end.
