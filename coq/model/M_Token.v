(* Model of the HTTP stream-state token layer (C12; reused by C13 / C14):
     vgi_rpc/crypto.py                      seal_bytes / open_bytes envelope (version || nonce || ct+tag), normalize_key
     vgi_rpc/http/server/_state_token.py    _compute_aad, _compute_call_aad, _pack/_unpack_plaintext, _read_segment,
                                            _seal/_open_cursor_token, _seal/_open_call_token, _CallStateCache._identity
     vgi_rpc/http/server/_app_stream.py     _run_stream_exchange_sync (token part), _unpack_and_recover_state,
                                            _resolve_call_from_token (resolution order, hook order)
   The AEAD primitive, zstd and SHA-256 are parameters of a Section (ideal-primitive hypotheses live in
   proof/L_Token.v); [run_case] instantiates them with lookup tables of the tokens the key holders really minted.
   Executable definitions only; proofs are in proof/L_Token.v. *)
From Coq Require Import List NArith ZArith Bool.
From VGI Require Import Bytes Layout.
Import ListNotations.
Open Scope N_scope.

(* ---------- constants (tie/T_Token.v proves the regenerated ones equal) ---------- *)
Definition HEADER_LEN : N := 4.
Definition TIMESTAMP_LEN : N := 8.
Definition CALL_ID_LEN : N := 16.
Definition CURSOR_TOKEN_VERSION : N := 5.
Definition CALL_TOKEN_VERSION : N := 1.
Definition MIN_CURSOR_PLAINTEXT_LEN : N := 28.     (* 8 + 16 + 4 *)
Definition MIN_CALL_PLAINTEXT_LEN : N := 44.       (* 8 + 16 + 4 * 5 *)
Definition NONCE_LEN : N := 24.
Definition TAG_LEN : N := 16.
Definition VERSION_LEN : N := 1.
Definition MIN_TOKEN_LEN : N := 41.                (* 1 + 24 + 16 *)
Definition KEY_LEN : N := 32.
Definition CODEC_RAW : N := 0.
Definition CODEC_ZSTD : N := 1.

(* b"vgi_rpc.state.v4\x00" / b"vgi_rpc.call.v1\x00" / b"\x00anonymous" *)
Definition cursor_prefix : bytes := [118;103;105;95;114;112;99;46;115;116;97;116;101;46;118;52;0].
Definition call_prefix : bytes := [118;103;105;95;114;112;99;46;99;97;108;108;46;118;49;0].
Definition anon_tail : bytes := [0;97;110;111;110;121;109;111;117;115].

Inductive kind := KCursor | KCall.
Definition kind_eqb (a b : kind) : bool :=
  match a, b with KCursor, KCursor => true | KCall, KCall => true | _, _ => false end.
Definition aad_prefix (k : kind) : bytes := match k with KCursor => cursor_prefix | KCall => call_prefix end.
Definition token_version (k : kind) : N :=
  match k with KCursor => CURSOR_TOKEN_VERSION | KCall => CALL_TOKEN_VERSION end.

(* caller identity as the token layer sees it: [auth is None or not auth.authenticated] -> Anon,
   otherwise ((auth.domain or "").encode(), (auth.principal or "").encode()) *)
Inductive identity := Anon | Authd (domain principal : bytes).

(* layouts of the two AAD shapes and of the two plaintexts (what the translator is expected to regenerate) *)
Definition aad_anon_layout (k : kind) : layout := [FConst (aad_prefix k); FConst anon_tail].
Definition aad_auth_layout (k : kind) : layout := [FConst (aad_prefix k); FConst [1]; FNulTerm; FTail].
Definition cursor_layout : layout := [FInt W64; FFixed 16; FLen W32].
Definition call_layout : layout := [FInt W64; FFixed 16; FLen W32; FLen W32; FLen W32; FLen W32; FLen W32].

(* _compute_aad / _compute_call_aad: plain concatenation, whatever the strings contain *)
Definition compute_aad (k : kind) (i : identity) : bytes :=
  match i with
  | Anon => aad_prefix k ++ anon_tail
  | Authd d p => aad_prefix k ++ [1] ++ d ++ [0] ++ p
  end.

(* _CallStateCache._identity: f"{domain}\0{principal}" / "\0anonymous" (NOT tagged) *)
Definition cache_identity (i : identity) : bytes :=
  match i with Anon => anon_tail | Authd d p => d ++ [0] ++ p end.

(* ---------- byte helpers ---------- *)
Definition blen (b : bytes) : N := N.of_nat (length b).
(* Python b[lo:hi] for lo <= hi *)
Definition slice (b : bytes) (lo hi : N) : bytes := firstn (N.to_nat (hi - lo)) (skipn (N.to_nat lo) b).
(* struct.unpack_from("<I"/"<Q", d, pos): raises when the buffer is too short -> None *)
Definition uint_at (w : N) (d : bytes) (pos : N) : option N :=
  if pos + w <=? blen d then Some (le_decode (slice d pos (pos + w))) else None.

(* ---------- base64 ---------- *)
Definition b64_val (c : N) : option N :=
  if (65 <=? c) && (c <=? 90) then Some (c - 65)
  else if (97 <=? c) && (c <=? 122) then Some (c - 71)
  else if (48 <=? c) && (c <=? 57) then Some (c + 4)
  else if c =? 43 then Some 62
  else if c =? 47 then Some 63
  else None.

(* binascii.a2b_base64(s, strict_mode=True) as CPython 3.13 implements it (base64.b64decode(s, validate=True)):
   quad = position in the current 4-character group, left = pending bits, pads = '=' seen in this group,
   pstarted = a '=' was seen.  Note: the unused low bits of the last data character are NOT checked.
   (6-bit arithmetic is written with shifts / masks: cheap under vm_compute; values are bytes) *)
Fixpoint b64_loop (s : bytes) (quad left pads : N) (pstarted : bool) (acc : bytes) : option bytes :=
  match s with
  | [] => if quad =? 0 then Some (rev acc) else None
  | c :: r =>
      if c =? 61 then
        if quad =? 0 then None
        else if 2 <=? quad then
          if 4 <=? quad + (pads + 1)
          then match r with [] => Some (rev acc) | _ :: _ => None end
          else b64_loop r quad left (pads + 1) true acc
        else b64_loop r quad left pads true acc
      else
        match b64_val c with
        | None => None
        | Some v =>
            if pstarted then None
            else if quad =? 0 then b64_loop r 1 v 0 false acc
            else if quad =? 1 then b64_loop r 2 (N.land v 15) 0 false (N.lor (N.shiftl left 2) (N.shiftr v 4) :: acc)
            else if quad =? 2 then b64_loop r 3 (N.land v 3) 0 false (N.lor (N.shiftl left 4) (N.shiftr v 2) :: acc)
            else b64_loop r 0 0 0 false (N.lor (N.shiftl left 6) v :: acc)
        end
  end.
Definition b64decode (s : bytes) : option bytes := b64_loop s 0 0 0 false [].

Definition b64_chr (v : N) : N :=
  if v <? 26 then v + 65 else if v <? 52 then v + 71 else if v <? 62 then v - 4 else if v =? 62 then 43 else 47.
Fixpoint b64encode (b : bytes) : bytes :=
  match b with
  | [] => []
  | [x] => [b64_chr (N.shiftr x 2); b64_chr (N.shiftl (N.land x 3) 4); 61; 61]
  | [x; y] => [b64_chr (N.shiftr x 2); b64_chr (N.lor (N.shiftl (N.land x 3) 4) (N.shiftr y 4)); b64_chr (N.shiftl (N.land y 15) 2); 61]
  | x :: y :: z :: r =>
      b64_chr (N.shiftr x 2) :: b64_chr (N.lor (N.shiftl (N.land x 3) 4) (N.shiftr y 4))
      :: b64_chr (N.lor (N.shiftl (N.land y 15) 2) (N.shiftr z 6)) :: b64_chr (N.land z 63)
      :: b64encode r
  end.

(* the armour check of _open_*_token.  [canonical] = the source additionally demands that the text is the
   canonical encoding of what it decodes to (regenerated from the source: gen_b64_canonical) *)
Definition decode_token (canonical : bool) (txt : bytes) : option bytes :=
  match b64decode txt with
  | None => None
  | Some raw => if canonical && negb (Bytes.bytes_eqb (b64encode raw) txt) then None else Some raw
  end.

(* ---------- outcomes ---------- *)
Inductive msg :=
| MMalformed (k : kind)     (* "Malformed state token" / "Malformed call token" *)
| MSig (k : kind)           (* "State token signature verification failed" / "Call token signature verification failed" *)
| MPayload                  (* "Malformed token payload" *)
| MExpired (k : kind)       (* "State token expired" / "Call token expired" *)
| MMissingCursor            (* "Missing state token in exchange request" *)
| MMissingCall              (* "Missing call token in exchange request" *)
| MMismatch.                (* "State token does not belong to the supplied call token" *)

Definition msg_code (m : msg) : N :=
  match m with
  | MMalformed KCursor => 1 | MSig KCursor => 2 | MPayload => 3 | MExpired KCursor => 4
  | MMalformed KCall => 5 | MSig KCall => 6 | MExpired KCall => 7
  | MMissingCall => 8 | MMismatch => 9 | MMissingCursor => 10
  end.
(* every raise site of the token layer passes status_code=HTTPStatus.BAD_REQUEST *)
Definition msg_status (m : msg) : N := 400.

Inductive res (A : Type) := Ok (a : A) | Rej (m : msg) | Crash.
Arguments Ok {A} a.
Arguments Rej {A} m.
Arguments Crash {A}.

(* _read_segment(data, pos, message) *)
Definition read_segment (k : kind) (d : bytes) (pos : N) : res (bytes * N) :=
  if blen d <? pos + HEADER_LEN then Rej (MMalformed k)
  else match uint_at 4 d pos with
       | None => Crash
       | Some n =>
           let e := pos + HEADER_LEN + n in
           if blen d <? e then Rej (MMalformed k) else Ok (slice d (pos + HEADER_LEN) e, e)
       end.

(* the TTL test: only when token_ttl > 0; int(time.time()) - created_at > token_ttl rejects *)
Definition ttl_check (k : kind) (ttl now : Z) (pl : bytes) : res unit :=
  if (0 <? ttl)%Z then
    match uint_at 8 pl 0 with
    | None => Crash
    | Some c => if (ttl <? now - Z.of_N c)%Z then Rej (MExpired k) else Ok tt
    end
  else Ok tt.

Definition parse_cursor (pl : bytes) : res (bytes * bytes) :=       (* (state_bytes, call_id) *)
  if blen pl <? MIN_CURSOR_PLAINTEXT_LEN then Rej (MMalformed KCursor)
  else
    let call_id := slice pl TIMESTAMP_LEN (TIMESTAMP_LEN + CALL_ID_LEN) in
    match read_segment KCursor pl (TIMESTAMP_LEN + CALL_ID_LEN) with
    | Ok (state, e) => if negb (e =? blen pl) then Rej (MMalformed KCursor) else Ok (state, call_id)
    | Rej m => Rej m
    | Crash => Crash
    end.

Record call_fields := { f_call_state : bytes; f_type : bytes; f_schema : bytes; f_ischema : bytes;
                        f_call_id : bytes; f_stream_id : bytes }.

Definition parse_call (pl : bytes) : res call_fields :=
  if blen pl <? MIN_CALL_PLAINTEXT_LEN then Rej (MMalformed KCall)
  else
    let call_id := slice pl TIMESTAMP_LEN (TIMESTAMP_LEN + CALL_ID_LEN) in
    match read_segment KCall pl (TIMESTAMP_LEN + CALL_ID_LEN) with
    | Ok (cs, p1) =>
      match read_segment KCall pl p1 with
      | Ok (ty, p2) =>
        match read_segment KCall pl p2 with
        | Ok (sch, p3) =>
          match read_segment KCall pl p3 with
          | Ok (isch, p4) =>
            match read_segment KCall pl p4 with
            | Ok (sid, e) =>
                if negb (e =? blen pl) then Rej (MMalformed KCall)
                else Ok {| f_call_state := cs; f_type := ty; f_schema := sch; f_ischema := isch;
                           f_call_id := call_id; f_stream_id := sid |}
            | Rej m => Rej m | Crash => Crash
            end
          | Rej m => Rej m | Crash => Crash
          end
        | Rej m => Rej m | Crash => Crash
        end
      | Rej m => Rej m | Crash => Crash
      end
    | Rej m => Rej m | Crash => Crash
    end.

(* what a mint writes *)
Definition cursor_plaintext (created : N) (call_id state : bytes) : bytes :=
  le_encode 8 created ++ call_id ++ le_encode 4 (blen state) ++ state.
Definition call_plaintext (created : N) (call_id cs ty sch isch sid : bytes) : bytes :=
  le_encode 8 created ++ call_id ++ le_encode 4 (blen cs) ++ cs ++ le_encode 4 (blen ty) ++ ty
  ++ le_encode 4 (blen sch) ++ sch ++ le_encode 4 (blen isch) ++ isch ++ le_encode 4 (blen sid) ++ sid.

Inductive event := EvDeserializeCall | EvDeserializeState | EvBind | EvRehydrate | EvProcess | EvOnCancel.
Definition event_code (e : event) : N :=
  match e with EvDeserializeCall => 1 | EvDeserializeState => 2 | EvBind => 3 | EvRehydrate => 4
             | EvProcess => 5 | EvOnCancel => 6 end.

Record request := { q_cursor : option bytes; q_call : option bytes; q_ident : identity; q_cancel : bool }.
Record config := { c_key : bytes; c_ttl : Z; c_canonical : bool }.

Inductive outcome :=
| Served (state call_id : bytes) (from_cache : bool) (call : option call_fields)
| Rejected (m : msg)
| Crashed.

Section TokenModel.
  (* external primitives *)
  Variable normalize_key : bytes -> bytes.                              (* crypto.normalize_key *)
  Variable aead_seal : bytes -> bytes -> bytes -> bytes -> bytes.       (* key aad nonce payload -> ct || tag *)
  Variable aead_open : bytes -> bytes -> bytes -> bytes -> option bytes. (* key aad nonce body *)
  Variable zstd_compress : bytes -> bytes.
  Variable zstd_decompress : bytes -> option bytes.                     (* with max_output_size = 64 MiB *)

  (* crypto.seal_bytes / open_bytes *)
  Definition seal_bytes (payload key aad : bytes) (ver : N) (nonce : bytes) : bytes :=
    ver :: nonce ++ aead_seal (normalize_key key) aad nonce payload.
  Definition open_bytes (raw key aad : bytes) (ver : N) : option bytes :=
    if blen raw <? MIN_TOKEN_LEN then None
    else match raw with
         | [] => None
         | v :: _ =>
             if negb (v =? ver) then None
             else aead_open (normalize_key key) aad (slice raw VERSION_LEN (VERSION_LEN + NONCE_LEN))
                            (skipn (N.to_nat (VERSION_LEN + NONCE_LEN)) raw)
         end.

  (* _pack_plaintext / _unpack_plaintext *)
  Definition pack_plaintext (pl : bytes) : bytes :=
    let p := zstd_compress pl in if blen p <? blen pl then CODEC_ZSTD :: p else CODEC_RAW :: pl.
  Definition unpack_plaintext (d : bytes) : option bytes :=
    match d with
    | [] => None
    | t :: body => if t =? CODEC_RAW then Some body else if t =? CODEC_ZSTD then zstd_decompress body else None
    end.

  (* the part of _open_cursor_token / _open_call_token that is the same for both kinds:
     armour, envelope, AEAD, codec tag *)
  Definition open_payload (cfg : config) (k : kind) (i : identity) (txt : bytes) : res bytes :=
    match decode_token (c_canonical cfg) txt with
    | None => Rej (MMalformed k)
    | Some raw =>
        match open_bytes raw (c_key cfg) (compute_aad k i) (token_version k) with
        | None => Rej (MSig k)
        | Some sp => match unpack_plaintext sp with None => Rej MPayload | Some pl => Ok pl end
        end
    end.

  Definition open_cursor_token (cfg : config) (now : Z) (i : identity) (txt : bytes) : res (bytes * bytes) :=
    match open_payload cfg KCursor i txt with
    | Ok pl =>
        match parse_cursor pl with
        | Ok r => match ttl_check KCursor (c_ttl cfg) now pl with Ok _ => Ok r | Rej m => Rej m | Crash => Crash end
        | Rej m => Rej m
        | Crash => Crash
        end
    | Rej m => Rej m
    | Crash => Crash
    end.

  Definition open_call_token (cfg : config) (now : Z) (i : identity) (txt : bytes) : res call_fields :=
    match open_payload cfg KCall i txt with
    | Ok pl =>
        match parse_call pl with
        | Ok r => match ttl_check KCall (c_ttl cfg) now pl with Ok _ => Ok r | Rej m => Rej m | Crash => Crash end
        | Rej m => Rej m
        | Crash => Crash
        end
    | Rej m => Rej m
    | Crash => Crash
    end.

  (* minting (given the random nonce) *)
  Definition seal_cursor_token (cfg : config) (i : identity) (created : N) (call_id state nonce : bytes) : bytes :=
    b64encode (seal_bytes (pack_plaintext (cursor_plaintext created call_id state)) (c_key cfg)
                          (compute_aad KCursor i) CURSOR_TOKEN_VERSION nonce).
  Definition seal_call_token (cfg : config) (i : identity) (created : N) (call_id cs ty sch isch sid nonce : bytes)
    : bytes :=
    b64encode (seal_bytes (pack_plaintext (call_plaintext created call_id cs ty sch isch sid)) (c_key cfg)
                          (compute_aad KCall i) CALL_TOKEN_VERSION nonce).

  (* _run_stream_exchange_sync up to the first hook + _unpack_and_recover_state + _resolve_call_from_token.
     [cache_has call_id identity_key] = the call-state cache holds a live entry (C14 models the cache itself).
     now1 / now2 = int(time.time()) at the cursor / call TTL test. *)
  Definition exchange (cfg : config) (now1 now2 : Z) (cache_has : bytes -> bytes -> bool) (q : request) : outcome :=
    match q_cursor q with
    | None => Rejected MMissingCursor
    | Some ctxt =>
        match open_cursor_token cfg now1 (q_ident q) ctxt with
        | Rej m => Rejected m
        | Crash => Crashed
        | Ok (state, cid) =>
            if cache_has cid (cache_identity (q_ident q)) then Served state cid true None
            else
              match q_call q with
              | None => Rejected MMissingCall
              | Some ktxt =>
                  match open_call_token cfg now2 (q_ident q) ktxt with
                  | Rej m => Rejected m
                  | Crash => Crashed
                  | Ok f =>
                      if negb (Bytes.bytes_eqb (f_call_id f) cid) then Rejected MMismatch
                      else Served state cid false (Some f)
                  end
              end
        end
    end.

  (* deserializations and user hooks, in the order they run; nothing before the tokens are accepted.
     (schemas and states minted by the server deserialize; process may repeat on a producer turn) *)
  Definition hooks (q : request) (o : outcome) : list event :=
    match o with
    | Served _ _ from_cache call =>
        (match call with
         | Some f => match f_call_state f with [] => [] | _ :: _ => [EvDeserializeCall] end
         | None => []
         end)
        ++ [EvDeserializeState; EvBind; EvRehydrate; if q_cancel q then EvOnCancel else EvProcess]
    | Rejected _ => []
    | Crashed => []
    end.

  Definition http_status (o : outcome) : N :=
    match o with Served _ _ _ _ => 200 | Rejected m => msg_status m | Crashed => 500 end.
End TokenModel.

(* ---------- table instance of the primitives: the ideal functionality over the set of sealed payloads ---------- *)
Definition aead_row := (bytes * bytes * bytes * bytes * bytes)%type.   (* key32, aad, nonce, body, payload *)
Fixpoint tbl_open (t : list aead_row) (k a n c : bytes) : option bytes :=
  match t with
  | [] => None
  | (k', a', n', c', p) :: r =>
      if Bytes.bytes_eqb n n' && Bytes.bytes_eqb k k' && Bytes.bytes_eqb a a' && Bytes.bytes_eqb c c' then Some p
      else tbl_open r k a n c
  end.
Fixpoint tbl_assoc (t : list (bytes * bytes)) (x : bytes) : option bytes :=
  match t with
  | [] => None
  | (a, b) :: r => if Bytes.bytes_eqb x a then Some b else tbl_assoc r x
  end.
(* crypto.normalize_key over an abstract SHA-256: a key of exactly 32 bytes is used as is, any other is hashed *)
Definition normalize_key_with (sha256 : bytes -> bytes) (k : bytes) : bytes :=
  if blen k =? KEY_LEN then k else sha256 k.
Definition tbl_normalize (sha : list (bytes * bytes)) (k : bytes) : bytes :=
  normalize_key_with (fun x => match tbl_assoc sha x with Some d => d | None => [] end) k.
Fixpoint tbl_has (t : list (bytes * bytes)) (cid ik : bytes) : bool :=
  match t with
  | [] => false
  | (c, i) :: r => (Bytes.bytes_eqb c cid && Bytes.bytes_eqb i ik) || tbl_has r cid ik
  end.

(* ---------- correspondence entry point ----------
   tables: sealed payloads, zstd frames, SHA-256 of the non-32-byte keys, live cache keys of the warm app.
   input : ((key, ttl, now1, now2), (warm, identity, cancel), (cursor text, call text))
   output: (HTTP status, message code (0 = served), hooks in order) *)
Definition case_in := ((bytes * Z * Z * Z) * (bool * option (bytes * bytes) * bool) * (option bytes * option bytes))%type.
Definition run_case (aead : list aead_row) (zstd sha cache : list (bytes * bytes)) (canonical : bool)
           (c : case_in) : N * N * list N :=
  let '((key, ttl, now1, now2), (warm, ident, cancel), (cur, call)) := c in
  let cfg := {| c_key := key; c_ttl := ttl; c_canonical := canonical |} in
  let q := {| q_cursor := cur; q_call := call;
              q_ident := match ident with None => Anon | Some (d, p) => Authd d p end; q_cancel := cancel |} in
  let o := exchange (tbl_normalize sha) (tbl_open aead) (tbl_assoc zstd) cfg now1 now2
                    (if warm then tbl_has cache else fun _ _ => false) q in
  (http_status o, match o with Rejected m => msg_code m | _ => 0 end, map event_code (hooks q o)).
