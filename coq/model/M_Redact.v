(* Model of claim redaction on the access-log path:
     vgi_rpc/logging_utils.py   _DEFAULT_CLAIM_REDACT_RE, REDACTED, redact_claims / _redact_nested,
                                no_redaction, apply_claim_redaction (fail-closed wrapper)
     vgi_rpc/rpc/_server.py     claims branch of _emit_access_log
   Executable definitions only; proofs are in proof/L_Redact.v.

   redact_claims is modelled as the code is AFTER the repair fixes/C35-recursive-claim-redaction.diff
   (objects nested in objects and in lists are walked with the same rule); the behaviour before the
   repair (top level only) is [redact_flat], kept for refuted/R_C35.v. *)
From Coq Require Import List NArith ZArith Bool.
From VGI Require Import Regex.
Import ListNotations.
Open Scope N_scope.

(* ---- JSON-like claim trees (strings = lists of code points) ---- *)
Definition key := list N.
Inductive jv :=
| JNull
| JBool (b : bool)
| JNum (z : Z)
| JStr (s : list N)
| JList (xs : list jv)
| JObj (es : list (key * jv)).
Definition claims := list (key * jv).

(* ---- the regex, as it is expected to be in the source today (tie/T_Redact.v proves the
        regenerated one equal).  re.IGNORECASE: every literal is the class of the code points
        Python's sre accepts for it (i also matches U+0130/U+0131, k U+212A, s U+017F). ---- *)
Definition icls (c : N) : cls :=
  if c =? 105 then COr (CChar 73) (COr (CChar 105) (COr (CChar 304) (CChar 305)))
  else if c =? 107 then COr (CChar 75) (COr (CChar 107) (CChar 8490))
  else if c =? 115 then COr (CChar 83) (COr (CChar 115) (CChar 383))
  else if (97 <=? c) && (c <=? 122) then COr (CChar (c - 32)) (CChar c)
  else CChar c.
(* w followed by tail *)
Fixpoint iseq (w : list N) (tail : re) : re :=
  match w with
  | [] => tail
  | c :: r => Cat (Chr (icls c)) (iseq r tail)
  end.
(* a non-empty literal word *)
Fixpoint ilit (w : list N) : re :=
  match w with
  | [] => Eps
  | [c] => Chr (icls c)
  | c :: r => Cat (Chr (icls c)) (ilit r)
  end.
Fixpoint alts (rs : list re) : re :=
  match rs with
  | [] => Emp
  | [r] => r
  | r :: rest => Alt r (alts rest)
  end.

(* lower-case ASCII spellings of the words of _DEFAULT_CLAIM_REDACT_RE *)
Definition w_password := [112;97;115;115;119;111;114;100].
Definition w_token := [116;111;107;101;110].
Definition w_secret := [115;101;99;114;101;116].
Definition w_key := [107;101;121].
Definition w_authorization := [97;117;116;104;111;114;105;122;97;116;105;111;110].
Definition w_email := [101;109;97;105;108].
Definition w_phone := [112;104;111;110;101].
Definition w_address := [97;100;100;114;101;115;115].
Definition w_birthdate := [98;105;114;116;104;100;97;116;101].
Definition w_gender := [103;101;110;100;101;114].
Definition w_name := [110;97;109;101].
Definition w_given_name := [103;105;118;101;110;95;110;97;109;101].
Definition w_family_name := [102;97;109;105;108;121;95;110;97;109;101].
Definition w_middle_name := [109;105;100;100;108;101;95;110;97;109;101].
Definition w_nickname := [110;105;99;107;110;97;109;101].
Definition w_preferred_username := [112;114;101;102;101;114;114;101;100;95;117;115;101;114;110;97;109;101].
Definition w_picture := [112;105;99;116;117;114;101].
Definition w_profile := [112;114;111;102;105;108;101].
Definition w_website := [119;101;98;115;105;116;101].

(* words matched anywhere in the key (before / after the anchored ^name$ alternative) *)
Definition words_before : list (list N) :=
  [w_password; w_token; w_secret; w_key; w_authorization; w_email; w_phone; w_address; w_birthdate; w_gender].
Definition words_after : list (list N) :=
  [w_given_name; w_family_name; w_middle_name; w_nickname; w_preferred_username; w_picture; w_profile; w_website].
Definition sub_words : list (list N) := words_before ++ words_after.
Definition name_re : re := Cat Bos (iseq w_name Dollar).       (* ^name$ *)
Definition redact_re : re := alts (map ilit words_before ++ [name_re] ++ map ilit words_after).

Definition penv0 : penv := fun _ _ => false.    (* the pattern uses no \d \w \s *)

(* _DEFAULT_CLAIM_REDACT_RE.search(k) is not None *)
Definition sensitive_with (r : re) (k : key) : bool := py_search penv0 r k.
Definition sensitive : key -> bool := sensitive_with redact_re.

(* REDACTED = "[redacted]" *)
Definition REDACTED : list N := [91;114;101;100;97;99;116;101;100;93].
Definition redacted : jv := JStr REDACTED.

(* ---- redact_claims / _redact_nested (repaired code), parameterised by the key test ---- *)
Section Redact.
  Variable sens : key -> bool.

  (* _redact_nested(value) *)
  Fixpoint redact_value (v : jv) : jv :=
    match v with
    | JObj es => JObj (map (fun e => (fst e, if sens (fst e) then redacted else redact_value (snd e))) es)
    | JList xs => JList (map redact_value xs)
    | a => a
    end.
  (* redact_claims(claims) *)
  Definition redact_entries (c : claims) : claims :=
    map (fun e => (fst e, if sens (fst e) then redacted else redact_value (snd e))) c.

  (* the code before the repair: only the top-level keys are looked at *)
  Definition redact_flat_entries (c : claims) : claims :=
    map (fun e => (fst e, if sens (fst e) then redacted else snd e)) c.
End Redact.

Definition redact_claims_with (r : re) : claims -> claims := redact_entries (sensitive_with r).
Definition redact_claims : claims -> claims := redact_claims_with redact_re.
Definition redact_flat : claims -> claims := redact_flat_entries sensitive.

(* ---- apply_claim_redaction and the claims branch of _emit_access_log ---- *)
(* what calling the installed redactor does *)
Inductive outcome :=
| Returned (c : claims)
| RaisedException          (* raised an instance of Exception *)
| RaisedBase.              (* raised a BaseException that is not an Exception *)
Definition redactor := claims -> outcome.

(* which class the `except` clause of apply_claim_redaction names *)
Inductive handler := CatchException | CatchBaseException.
Definition apply_handler : handler := CatchException.

(* apply_claim_redaction: None = the exception propagates to the caller *)
Definition apply_claim_redaction_with (h : handler) (r : redactor) (c : claims) : option claims :=
  match r c with
  | Returned c' => Some c'
  | RaisedException => Some []
  | RaisedBase => match h with CatchException => None | CatchBaseException => Some [] end
  end.
Definition apply_claim_redaction := apply_claim_redaction_with apply_handler.

(* what the emitted record says about claims *)
Inductive logged :=
| NoRecord                       (* the exception left _emit_access_log: nothing was logged *)
| RecordWithoutClaims            (* a record without a "claims" field *)
| RecordWithClaims (c : claims). (* record["claims"] = c *)

(* `if auth.claims: redacted = apply_claim_redaction(auth.claims); if redacted: extra["claims"] = redacted` *)
Definition emit_claims (r : redactor) (c : claims) : logged :=
  match c with
  | [] => RecordWithoutClaims
  | _ =>
      match apply_claim_redaction r c with
      | None => NoRecord
      | Some [] => RecordWithoutClaims
      | Some c' => RecordWithClaims c'
      end
  end.

(* the redactors shipped with the library *)
Definition default_redactor : redactor := fun c => Returned (redact_claims c).
Definition no_redaction : redactor := fun c => Returned c.

(* ---- specification vocabulary ---- *)
(* (k, v) is an entry of some object at any depth of t *)
Inductive entry_in (k : key) (v : jv) : jv -> Prop :=
| EI_here : forall es, In (k, v) es -> entry_in k v (JObj es)
| EI_obj : forall es k' x, In (k', x) es -> entry_in k v x -> entry_in k v (JObj es)
| EI_list : forall xs x, In x xs -> entry_in k v x -> entry_in k v (JList xs).

(* walk t p = Some (ks, v): following the child indices p from t (index into the entries of an object
   or the elements of a list) crosses the object keys ks (outermost first) and arrives at v *)
Fixpoint walk (t : jv) (p : list nat) : option (list key * jv) :=
  match p with
  | [] => Some ([], t)
  | i :: p' =>
      match t with
      | JObj es =>
          match nth_error es i with
          | Some (k, x) => match walk x p' with Some (ks, v) => Some (k :: ks, v) | None => None end
          | None => None
          end
      | JList xs =>
          match nth_error xs i with
          | Some x => walk x p'
          | None => None
          end
      | _ => None
      end
  end.

(* no sensitive key anywhere inside v *)
Fixpoint clean (sens : key -> bool) (v : jv) : bool :=
  match v with
  | JObj es => forallb (fun e => negb (sens (fst e)) && clean sens (snd e)) es
  | JList xs => forallb (clean sens) xs
  | _ => true
  end.

(* x is w in some mixture of cases (as IGNORECASE reads it) *)
Definition imatch (w x : list N) : Prop := Forall2 (fun c d => cls_mem penv0 (icls c) d = true) w x.
(* plain ASCII case variants: each letter as written or upper-cased *)
Definition ascii_case_variant (w x : list N) : Prop :=
  Forall2 (fun c d => d = c \/ (97 <= c <= 122 /\ d = c - 32)) w x.

(* ---- correspondence entry point ---- *)
Fixpoint jv_eqb (a b : jv) : bool :=
  match a, b with
  | JNull, JNull => true
  | JBool x, JBool y => Bool.eqb x y
  | JNum x, JNum y => Z.eqb x y
  | JStr x, JStr y => (fix leq (l1 l2 : list N) := match l1, l2 with
                                                  | [], [] => true
                                                  | c :: r1, d :: r2 => (c =? d) && leq r1 r2
                                                  | _, _ => false end) x y
  | JList xs, JList ys =>
      (fix leq (l1 l2 : list jv) := match l1, l2 with
                                   | [], [] => true
                                   | c :: r1, d :: r2 => jv_eqb c d && leq r1 r2
                                   | _, _ => false end) xs ys
  | JObj xs, JObj ys =>
      (fix leq (l1 l2 : list (key * jv)) :=
         match l1, l2 with
         | [], [] => true
         | (k1, c) :: r1, (k2, d) :: r2 =>
             (fix keq (l1 l2 : list N) := match l1, l2 with
                                          | [], [] => true
                                          | c :: r1, d :: r2 => (c =? d) && keq r1 r2
                                          | _, _ => false end) k1 k2 && jv_eqb c d && leq r1 r2
         | _, _ => false end) xs ys
  | _, _ => false
  end.

(* redactor kinds the harness installs with set_claim_redactor:
   0 default (redact_claims)   1 no_redaction        2 raises RuntimeError
   3 raises a BaseException subclass   4 returns {}   5 returns a fixed dict {"k": 1} *)
Definition redactor_of (kind : N) : redactor :=
  match kind with
  | 0 => default_redactor
  | 1 => no_redaction
  | 2 => fun _ => RaisedException
  | 3 => fun _ => RaisedBase
  | 4 => fun _ => Returned []
  | _ => fun _ => Returned [([107], JNum 1%Z)]
  end.

(* output: code (0 no record, 1 record without claims, 2 record with claims) and the claims object *)
Definition run_case (x : N * claims) : N * jv :=
  match emit_claims (redactor_of (fst x)) (snd x) with
  | NoRecord => (0, JNull)
  | RecordWithoutClaims => (1, JNull)
  | RecordWithClaims c => (2, JObj c)
  end.
Definition out_eqb (a b : N * jv) : bool := (fst a =? fst b) && jv_eqb (snd a) (snd b).
