(* C16 -- HTTP response size caps: executable model of the three cap sites.

   Source modelled (vgi_rpc/http/server/_app_unary.py `_run_unary_sync`, _app_stream.py `_run_http_exchange_turn`
   and `_run_http_producer_turn`, _responses.py `_enforce_response_budgets`, external.py
   `predict_externalize_bytes_for_batch/_for_collector`, `maybe_externalize_batch/_collector`).

   Sizes are abstract: one *flush* (one unary result batch, or one OutputCollector cycle = logs + data batch)
   is described by the numbers the code reads or produces for it:
     f_logical = batch.get_total_buffer_size()          (what the threshold test and -- in the unrepaired code -- the
                                                         pre-flight prediction read)
     f_up      = len(ipc_bytes) handed to storage.upload (schema + log batches + data batch + EOS, pre-compression)
     f_inline  = bytes the flush appends to the HTTP body when written inline
     f_ptr     = bytes it appends when externalised (the pointer batch)
   No relation between the four is assumed by the model (f_up > f_logical in reality: IPC framing).

   `pmode` is the one source-shape parameter: what the predict_externalize_* functions return when externalisation
   would fire -- the logical buffer size (PLogical) or the exact length of the stream that will be
   uploaded (PFramed).  It is regenerated from external.py on every run (gen/G_RespCaps.v). *)
From Coq Require Import List NArith Bool.
Import ListNotations.
Open Scope N_scope.

Inductive predict_mode := PLogical | PFramed.

Record cfg := mkCfg {
  wire_cap : option N;     (* max_response_bytes *)
  ext_cap : option N;      (* max_externalized_response_bytes *)
  ext_on : bool;           (* external_config is not None and external_config.storage is not None *)
  threshold : N;           (* externalize_threshold_bytes *)
  pmode : predict_mode
}.

Record flush := mkFlush {
  f_data : bool;           (* the cycle holds a data batch (false: finish-only cycle, out.data_batch raises) *)
  f_rows0 : bool;          (* batch.num_rows == 0 *)
  f_logical : N;
  f_up : N;
  f_inline : N;
  f_ptr : N
}.

(* unary results go through maybe_externalize_batch (skips zero-row batches); stream cycles through
   maybe_externalize_collector (no row test) *)
Inductive path := Unary | Coll.

(* the decision point shared by maybe_externalize_* and predict_externalize_*:
   storage configured, a data batch, (unary: rows > 0), not (size < threshold) *)
Definition fires (p : path) (c : cfg) (f : flush) : bool :=
  ext_on c && f_data f && (match p with Unary => negb (f_rows0 f) | Coll => true end)
  && negb (f_logical f <? threshold c).

Definition predicted (p : path) (c : cfg) (f : flush) : N :=
  if fires p c f then (match pmode c with PLogical => f_logical f | PFramed => f_up f end) else 0.

(* `cap is not None and x > cap` *)
Definition over (cap : option N) (x : N) : bool :=
  match cap with Some c => c <? x | None => false end.

Definition sumN (l : list N) : N := fold_right N.add 0 l.

(* what the flush does once it is allowed to run *)
Definition flush_body (p : path) (c : cfg) (f : flush) : N := if fires p c f then f_ptr f else f_inline f.
Definition flush_ups (p : path) (c : cfg) (f : flush) : list N := if fires p c f then [f_up f] else [].

(* ------------------------------------------------------------------ unary and exchange turn *)
Inductive ue_result :=
| UEOk (body : N) (ups : list N)        (* successful response of [body] bytes; [ups] = bytes received by storage *)
| UEErrPre                              (* pre-flight refusal (external cap): error response, nothing uploaded *)
| UEErrPost (wire : bool) (ups : list N)(* post-flush refusal by _enforce_response_budgets (wire cap first), body replaced
                                           by an error response; [ups] were uploaded before the refusal *)
| UEErrUser.                            (* the method / process() raised: cap sites not reached *)

(* [base] = body bytes outside the flush: schema message, log batches written straight to the body (unary), EOS *)
Definition run_ue (p : path) (c : cfg) (raises : bool) (base : N) (f : flush) : ue_result :=
  if raises then UEErrUser
  else if over (ext_cap c) (predicted p c f) then UEErrPre
  else
    let body := base + flush_body p c f in
    let ups := flush_ups p c f in
    if over (wire_cap c) body then UEErrPost true ups
    else if over (ext_cap c) (sumN ups) then UEErrPost false ups
    else UEOk body ups.

(* ------------------------------------------------------------------ producer turn *)
Record pstep := mkStep { ps_raise : bool; ps_flush : flush; ps_fin : bool }.

Inductive pend := PDone | PCont | PErrExt | PErrUser | PFuel.

Record pturn := mkTurn {
  t_end : pend;
  t_pos : N;            (* resp_buf.tell() after the last flush of the turn (before token / error batch / EOS) *)
  t_before : N;         (* resp_buf.tell() before the last flush that ran *)
  t_last : N;           (* bytes the last flush that ran appended (0 when none ran) *)
  t_nflush : N;         (* flushes that carried a data batch *)
  t_ups : list N;       (* bytes received by storage during this turn, in order *)
  t_rest : list pstep   (* ticks not yet consumed (the continuation resumes here) *)
}.

(* the pre-flight guard of the producer loop:
   max_external_bytes is not None and externalization_enabled and predicted and cum + predicted > max_external_bytes *)
Definition prod_guard (c : cfg) (cum : N) (f : flush) : bool :=
  match ext_cap c with
  | Some m => ext_on c && negb (predicted Coll c f =? 0) && (m <? cum + predicted Coll c f)
  | None => false
  end.

(* should_continue = max_bytes is not None and write_sink.tell() < max_bytes   (uncompressed body position;
   resp_buf.tell() before the C11 fix -- the same number when no response codec is negotiated) *)
Definition should_continue (c : cfg) (pos : N) : bool :=
  match wire_cap c with Some m => pos <? m | None => false end.

Fixpoint prod_loop (c : cfg) (steps : list pstep) (pos before last nfl cum : N) (ups : list N) : pturn :=
  match steps with
  | [] => mkTurn PFuel pos before last nfl ups []
  | s :: rest =>
      if ps_raise s then mkTurn PErrUser pos before last nfl ups rest
      else
        let f := ps_flush s in
        if prod_guard c cum f then mkTurn PErrExt pos before last nfl ups rest
        else
          let w := flush_body Coll c f in
          let pos' := pos + w in
          let ups' := ups ++ flush_ups Coll c f in
          let cum' := cum + sumN (flush_ups Coll c f) in
          let nfl' := nfl + (if f_data f then 1 else 0) in
          if ps_fin s then mkTurn PDone pos' pos w nfl' ups' rest
          else if should_continue c pos' then prod_loop c rest pos' pos w nfl' cum' ups'
          else mkTurn PCont pos' pos w nfl' ups' rest
  end.

(* one HTTP turn: [pre] = bytes already in the turn's buffer when the loop starts (schema, init-method logs) *)
Definition prod_turn (c : cfg) (pre : N) (steps : list pstep) : pturn := prod_loop c steps pre pre 0 0 0 [].

(* the whole stream: init turn, then continuation turns while a token was issued *)
Fixpoint prod_stream (fuel : nat) (c : cfg) (pre_init pre_cont : N) (first : bool) (steps : list pstep) : list pturn :=
  match fuel with
  | O => []
  | S k =>
      let t := prod_turn c (if first then pre_init else pre_cont) steps in
      match t_end t with
      | PCont => t :: prod_stream k c pre_init pre_cont false (t_rest t)
      | _ => [t]
      end
  end.

(* ------------------------------------------------------------------ correspondence entry point *)
(* codes: ue: 0 ok, 1 pre-flight refusal, 2 post-flush wire refusal, 3 post-flush external refusal, 4 user error
          producer turn end: 0 done, 1 continuation, 2 external refusal, 3 user error, 9 script exhausted *)
Definition mk_flush (t : bool * bool * N * N * N * N) : flush :=
  let '(d, r0, l, u, i, p) := t in mkFlush d r0 l u i p.
Definition mk_cfg (t : option N * option N * bool * N * bool) : cfg :=
  let '(w, e, on, th, framed) := t in mkCfg w e on th (if framed then PFramed else PLogical).

Definition ue_code (r : ue_result) : N * N * list N :=
  match r with
  | UEOk b u => (0, b, u)
  | UEErrPre => (1, 0, [])
  | UEErrPost true u => (2, 0, u)
  | UEErrPost false u => (3, 0, u)
  | UEErrUser => (4, 0, [])
  end.

Definition pend_code (e : pend) : N :=
  match e with PDone => 0 | PCont => 1 | PErrExt => 2 | PErrUser => 3 | PFuel => 9 end.

Definition turn_code (t : pturn) : N * N * N * list N := (pend_code (t_end t), t_pos t, t_nflush t, t_ups t).

Definition mk_step (t : bool * (bool * bool * N * N * N * N) * bool) : pstep :=
  let '(r, f, fin) := t in mkStep r (mk_flush f) fin.

Inductive case :=
| CUE (unary : bool) (c : option N * option N * bool * N * bool) (raises : bool) (base : N) (f : bool * bool * N * N * N * N)
| CProd (c : option N * option N * bool * N * bool) (pre_init pre_cont : N) (steps : list (bool * (bool * bool * N * N * N * N) * bool)).

(* uniform output: a list of (code, size, count, uploads) rows -- one row for unary/exchange, one per turn for a producer *)
Definition run_case (x : case) : list (N * N * N * list N) :=
  match x with
  | CUE u c r b f =>
      let '(k, body, ups) := ue_code (run_ue (if u then Unary else Coll) (mk_cfg c) r b (mk_flush f)) in
      [(k, body, 0, ups)]
  | CProd c pi pc steps => map turn_code (prod_stream 64 (mk_cfg c) pi pc true (map mk_step steps))
  end.
