(* Model of the proxy-proof verifier:
     vgi_rpc/http/_proof.py   verify_proof, canonical_string, _unb64, ProofError, proxy_proof_gate (inner gate)
   and, written independently from docs/proxy-proof-spec.md (sections 3, 4, 6), the nine-row decision table.
   Executable definitions only; proofs are in proof/L_Proof*.v.

   What is abstract:  HMAC-SHA256 is a Section variable [hmac : key -> message -> digest];
                      the nonce cache enters as [option (nonce -> bool)] = NonceCache.check_and_add (true = fresh),
                      its own behaviour is property C23.
   Strings are lists of code points (N), bytes are lists of N below 256. *)
From Coq Require Import List NArith ZArith Bool.
From VGI Require Import Regex Bytes Layout.
Import ListNotations.
Open Scope N_scope.

Definition str := list N.

Definition str_eqb (a b : str) : bool := Bytes.bytes_eqb a b.
Definition has_char (c : N) (s : str) : bool := existsb (fun x => x =? c) s.
Definition ascii_only (s : str) : bool := forallb (fun c => c <? 128) s.

(* no abstract character classes occur in the five regexes *)
Definition penv0 : penv := fun _ _ => false.

(* ------------------------------------------------------------------ *)
(** * Constants and regexes as they are expected in the source today  *)
(*    (tie/T_Proof.v proves the regenerated ones equal)               *)
(* ------------------------------------------------------------------ *)

Definition version_tag : str := [118; 49].                                   (* "v1" *)
Definition domain_prefix : bytes :=                                          (* b"vgi.proxy.proof.v1" *)
  [118;103;105;46;112;114;111;120;121;46;112;114;111;111;102;46;118;49].
Definition max_header : nat := 512.
Definition default_skew : Z := 30%Z.
Definition require_message : str :=                                          (* "proxy proof required" *)
  [112;114;111;120;121;32;112;114;111;111;102;32;114;101;113;117;105;114;101;100].

Definition cls_b64u : cls :=
  COr (CRange 65 90) (COr (CRange 97 122) (COr (CRange 48 57) (COr (CChar 95) (CChar 45)))).
Definition cls_origin : cls :=
  COr (CRange 65 90) (COr (CRange 97 122) (COr (CRange 48 57)
    (COr (CChar 46) (COr (CChar 95) (COr (CChar 58) (COr (CChar 47) (CChar 45))))))).
Definition anchored (k : cls) (lo hi : nat) : re := Cat Bos (Cat (rep_cls k lo hi) EndZ).
Definition kid_re : re := anchored cls_b64u 1 64.
Definition ts_re : re := anchored (CRange 48 57) 1 20.
Definition nonce_re : re := anchored cls_b64u 22 22.
Definition origin_re : re := anchored cls_origin 1 255.
Definition mac_re : re := anchored cls_b64u 43 43.

(* ------------------------------------------------------------------ *)
(** * Python primitives used by the code                              *)
(* ------------------------------------------------------------------ *)

(* str.split(sep) for a one-character separator *)
Fixpoint split_aux (d : N) (cur : list N) (s : list N) : list (list N) :=
  match s with
  | [] => [rev cur]
  | c :: r => if c =? d then rev cur :: split_aux d [] r else split_aux d (c :: cur) r
  end.
Definition split_on (d : N) (s : list N) : list (list N) := split_aux d [] s.

(* sep.join(parts) *)
Fixpoint py_join (sep : list N) (parts : list (list N)) : list N :=
  match parts with
  | [] => []
  | [p] => p
  | p :: r => p ++ sep ++ py_join sep r
  end.

(* str.encode() (UTF-8, strict): None = UnicodeEncodeError (lone surrogate / not a code point) *)
Definition utf8_enc_char (c : N) : option bytes :=
  if c <? 128 then Some [c]
  else if c <? 2048 then Some [192 + c / 64; 128 + c mod 64]
  else if (55296 <=? c) && (c <=? 57343) then None
  else if c <? 65536 then Some [224 + c / 4096; 128 + (c / 64) mod 64; 128 + c mod 64]
  else if c <? 1114112 then Some [240 + c / 262144; 128 + (c / 4096) mod 64; 128 + (c / 64) mod 64; 128 + c mod 64]
  else None.
Fixpoint str_encode (s : str) : option bytes :=
  match s with
  | [] => Some []
  | c :: r => match utf8_enc_char c, str_encode r with
              | Some b, Some br => Some (b ++ br)
              | _, _ => None
              end
  end.

(* int(s) on the only domain on which the code can reach it (ASCII decimal digits, non-empty);
   None = outside that domain (there the real int() may accept more: Unicode digits, sign, blanks, '_') *)
Fixpoint int_acc (acc : Z) (s : str) : option Z :=
  match s with
  | [] => Some acc
  | c :: r => if (48 <=? c) && (c <=? 57) then int_acc (10 * acc + (Z.of_N c - 48))%Z r else None
  end.
Definition py_int (s : str) : option Z := match s with [] => None | _ => int_acc 0%Z s end.

(* binascii.a2b_base64 (non-strict mode) after base64.urlsafe_b64decode's translation '-' -> '+', '_' -> '/':
   value of a character in table_a2b_base64, None = not an alphabet character (skipped) *)
Definition b64_val (c : N) : option N :=
  if (65 <=? c) && (c <=? 90) then Some (c - 65)
  else if (97 <=? c) && (c <=? 122) then Some (c - 71)
  else if (48 <=? c) && (c <=? 57) then Some (c + 4)
  else if (c =? 43) || (c =? 45) then Some 62
  else if (c =? 47) || (c =? 95) then Some 63
  else None.
(* the decoding loop: q = quad_pos, l = leftchar, pads = number of '=' seen in the current run;
   None = binascii.Error (left-over characters / incorrect padding) *)
Fixpoint a2b (s : list N) (q : nat) (l : N) (pads : nat) : option bytes :=
  match s with
  | [] => match q with O => Some [] | _ => None end
  | c :: r =>
      if c =? 61 then
        if Nat.leb 2 q && Nat.leb 4 (q + S pads) then Some []
        else a2b r q l (if Nat.leb 2 q then S pads else pads)
      else match b64_val c with
           | None => a2b r q l pads
           | Some v =>
               match q with
               | 0%nat => a2b r 1 v 0
               | 1%nat => option_map (cons (l * 4 + v / 16)) (a2b r 2 (v mod 16) 0)
               | 2%nat => option_map (cons (l * 16 + v / 4)) (a2b r 3 (v mod 4) 0)
               | _ => option_map (cons (l * 64 + v)) (a2b r 0 0 0)
               end
           end
  end.
Definition pad_count (n : nat) : nat := Nat.modulo (4 - Nat.modulo n 4) 4.    (* -n % 4 *)
(* _unb64(text) = base64.urlsafe_b64decode(text + "=" * (-len(text) % 4));
   a str argument must be ASCII (ValueError otherwise) *)
Definition unb64 (text : str) : option bytes :=
  let s := text ++ repeat 61 (pad_count (length text)) in
  if ascii_only s then a2b s 0 0 0 else None.

(* canonical_string: b"\x00".join((_DOMAIN_PREFIX, kid.encode(), ts.encode(), nonce.encode(), origin_id.encode())) *)
Definition canonical_string (kid ts nonce origin : str) : option bytes :=
  match str_encode kid with None => None | Some b_kid =>
  match str_encode ts with None => None | Some b_ts =>
  match str_encode nonce with None => None | Some b_nonce =>
  match str_encode origin with None => None | Some b_origin =>
  Some (py_join [0] [domain_prefix; b_kid; b_ts; b_nonce; b_origin])
  end end end end.
(* the same framing as a Layout.v layout (used for the injectivity theorem) *)
Definition canon_layout : layout :=
  [FConst domain_prefix; FConst [0]; FNulTerm; FNulTerm; FNulTerm; FTail].

(* ------------------------------------------------------------------ *)
(** * Outcomes                                                         *)
(* ------------------------------------------------------------------ *)

Inductive reason := NoProof | Malformed | UnknownKid | Expired | NotYetValid | BadMac | Replayed.

Inductive outcome :=
| Accept (label kid origin : str)     (* the returned claims: proxy, kid, origin_id (verified=true, reason=ok) *)
| Reject (r : reason)                 (* ProofError with .reason = r *)
| OtherExc (site : N).                (* any exception that is not ProofError *)

Definition keymap := str -> option (bytes * str).

Section Model.
  Variable hmac : bytes -> bytes -> bytes.

  (* verify_proof(token, secrets=, origin_id=, skew_seconds=, nonce_cache=, now=) *)
  Definition verify_proof (token : str) (secrets : keymap) (origin_id : str) (skew_seconds : Z)
             (nonce_cache : option (str -> bool)) (now : Z) : outcome :=
    if Nat.ltb max_header (length token) then Reject Malformed else
    let parts := split_on 46 token in
    if negb (Nat.eqb (length parts) 5) then Reject Malformed else
    match parts with
    | [version; kid; ts_raw; nonce; mac_b64] =>
      if negb (str_eqb version version_tag) then Reject Malformed else
      if negb (py_match penv0 kid_re kid) then Reject Malformed else
      if negb (py_match penv0 ts_re ts_raw) then Reject Malformed else
      if negb (py_match penv0 nonce_re nonce) then Reject Malformed else
      if negb (py_match penv0 mac_re mac_b64) then Reject Malformed else
      let entry := secrets kid in
      match entry with
      | None => Reject UnknownKid
      | Some entry =>
        let '(secret, label) := entry in
        let current := now in
        match py_int ts_raw with
        | None => OtherExc 1
        | Some ts_int =>
          let age := (current - ts_int)%Z in
          if (age >? skew_seconds)%Z then Reject Expired else
          if (- age >? skew_seconds)%Z then Reject NotYetValid else
          match canonical_string kid ts_raw nonce origin_id with
          | None => OtherExc 2
          | Some msg =>
            let expected := hmac secret msg in
            match unb64 mac_b64 with
            | None => OtherExc 3
            | Some received =>
              if negb (Bytes.bytes_eqb received expected) then Reject BadMac else
              if match nonce_cache with Some check_and_add => negb (check_and_add nonce) | None => false end
              then Reject Replayed else
              Accept label kid origin_id
            end
          end
        end
      end
    | _ => OtherExc 0
    end.

  (* the try-body of the closure `gate` in proxy_proof_gate; raw = req.get_header(PROOF_HEADER).
     [empty_reason] is the reason the source raises for a present-but-empty value (regenerated). *)
  Definition gate_decision (empty_reason : reason) (raw : option str) (secrets : keymap) (origin_id : str)
             (skew_seconds : Z) (cache : option (str -> bool)) (now : Z) : outcome :=
    match raw with
    | None => Reject NoProof
    | Some raw =>
      if isnil raw then Reject empty_reason else
      if has_char 44 raw then Reject Malformed else
      verify_proof raw secrets origin_id skew_seconds cache now
    end.
End Model.

(* reason codes as the strings of the closed set *)
Definition reason_code (r : reason) : str :=
  match r with
  | NoProof => [110;111;95;112;114;111;111;102]
  | Malformed => [109;97;108;102;111;114;109;101;100]
  | UnknownKid => [117;110;107;110;111;119;110;95;107;105;100]
  | Expired => [101;120;112;105;114;101;100]
  | NotYetValid => [110;111;116;95;121;101;116;95;118;97;108;105;100]
  | BadMac => [98;97;100;95;109;97;99]
  | Replayed => [114;101;112;108;97;121;101;100]
  end.

(* what leaves the gate.  ProofError(reason, detail): str(exc) = detail or reason; the attribute the 401 builder
   reads (REASON_ATTR) is the constant AuthReason.PROXY_REQUIRED for every ProofError. *)
Inductive gate_out :=
| GClaims (verified : bool) (proxy kid origin : str) (reason_field : option reason)   (* None = "ok" *)
| GRaise (log_reason : reason) (message : str)       (* ProofError: .reason (logs only) and str(exc) *)
| GOther (site : N).
Definition proof_error_message (r : reason) (detail : str) : str :=
  if isnil detail then reason_code r else detail.
Definition gate_wrap (required : bool) (origin_id : str) (o : outcome) : gate_out :=
  match o with
  | Accept label kid origin => GClaims true label kid origin None
  | Reject r => if required then GRaise r (proof_error_message r require_message)
                else GClaims false [] [] origin_id (Some r)
  | OtherExc n => GOther n
  end.
(* the part of a raised ProofError that can reach the caller: str(exc); .reason stays in logs *)
Definition caller_visible (g : gate_out) : option str :=
  match g with GRaise _ m => Some m | _ => None end.

(* value of req.get_header() for a request carrying the given instances of the header: a WSGI server joins
   repeated instances with a separator that contains a comma ("," or ", ") *)
Definition header_value (sep : str) (instances : list str) : option str :=
  match instances with [] => None | _ => Some (py_join sep instances) end.

(* ------------------------------------------------------------------ *)
(** * Specification side: docs/proxy-proof-spec.md                    *)
(* ------------------------------------------------------------------ *)

Definition is_upper (c : N) : bool := (65 <=? c) && (c <=? 90).
Definition is_lower (c : N) : bool := (97 <=? c) && (c <=? 122).
Definition is_digit (c : N) : bool := (48 <=? c) && (c <=? 57).
(* section 3: base64url alphabet [A-Za-z0-9_-] *)
Definition in_b64url (c : N) : bool := is_upper c || is_lower c || is_digit c || (c =? 95) || (c =? 45).
(* section 4: origin_id charset [A-Za-z0-9._:/-] *)
Definition in_origin (c : N) : bool :=
  is_upper c || is_lower c || is_digit c || (c =? 46) || (c =? 95) || (c =? 58) || (c =? 47) || (c =? 45).
Definition len_between (lo hi : nat) (s : str) : bool := Nat.leb lo (length s) && Nat.leb (length s) hi.
Definition spec_kid_ok (s : str) : bool := len_between 1 64 s && forallb in_b64url s.
Definition spec_ts_ok (s : str) : bool := len_between 1 20 s && forallb is_digit s.
Definition spec_nonce_ok (s : str) : bool := len_between 22 22 s && forallb in_b64url s.
Definition spec_mac_ok (s : str) : bool := len_between 43 43 s && forallb in_b64url s.
Definition spec_origin_ok (s : str) : bool := len_between 1 255 s && forallb in_origin s.

(* decimal value of ts *)
Definition spec_ts_value (s : str) : Z := fold_left (fun acc c => (10 * acc + (Z.of_N c - 48))%Z) s 0%Z.

(* RFC 4648 section 5 alphabet value and unpadded decoding (3 bytes per 4 characters; 2 bytes for a final
   group of 3, 1 byte for a final group of 2; the unused low bits of the last character are ignored) *)
Definition spec_b64_val (c : N) : N :=
  if is_upper c then c - 65 else if is_lower c then c - 97 + 26 else if is_digit c then c - 48 + 52
  else if c =? 45 then 62 else 63.
Fixpoint spec_b64_sextets (v : list N) : bytes :=
  match v with
  | a :: b :: c :: d :: r => (a * 4 + b / 16) :: ((b mod 16) * 16 + c / 4) :: ((c mod 4) * 64 + d) :: spec_b64_sextets r
  | [a; b; c] => [a * 4 + b / 16; (b mod 16) * 16 + c / 4]
  | [a; b] => [a * 4 + b / 16]
  | _ => []
  end.
Definition spec_b64url_decode (s : str) : bytes := spec_b64_sextets (map spec_b64_val s).

(* section 4: b"vgi.proxy.proof.v1\x00" + kid + b"\x00" + ts + b"\x00" + nonce + b"\x00" + origin_id *)
Definition spec_prefix0 : bytes :=
  [118;103;105;46;112;114;111;120;121;46;112;114;111;111;102;46;118;49;0].
Definition spec_canonical (kid ts nonce origin : bytes) : bytes :=
  spec_prefix0 ++ kid ++ [0] ++ ts ++ [0] ++ nonce ++ [0] ++ origin.

(* section 6, rows 2 (value part) to 9 for ONE header value; [size] measures the value (bytes, section 3) *)
Definition spec_value (size : str -> nat) (hmac : bytes -> bytes -> bytes) (value : str) (keys : keymap)
           (origin : str) (skew : Z) (seen : str -> bool) (now : Z) : outcome :=
  if isnil value || Nat.ltb 512 (size value) then Reject Malformed                          (* row 2 *)
  else match split_on 46 value with
  | [f0; kid; ts; nonce; mac] =>
      if negb (str_eqb f0 [118; 49]) then Reject Malformed                                    (* row 3 *)
      else if negb (spec_kid_ok kid && spec_ts_ok ts && spec_nonce_ok nonce && spec_mac_ok mac)
      then Reject Malformed                                                                   (* row 4 *)
      else match keys kid with
      | None => Reject UnknownKid                                                             (* row 5 *)
      | Some (secret, label) =>
          let t := spec_ts_value ts in
          if (now - t >? skew)%Z then Reject Expired                                          (* row 6 *)
          else if (t - now >? skew)%Z then Reject NotYetValid                                 (* row 7 *)
          else if negb (Bytes.bytes_eqb (spec_b64url_decode mac) (hmac secret (spec_canonical kid ts nonce origin)))
          then Reject BadMac                                                                  (* row 8 *)
          else if seen nonce then Reject Replayed                                             (* row 9 *)
          else Accept label kid origin
      end
  | _ => Reject Malformed                                                                     (* row 3 *)
  end.
(* the whole table: the request carries a list of instances of the header *)
Definition spec_table (size : str -> nat) (hmac : bytes -> bytes -> bytes) (instances : list str) (keys : keymap)
           (origin : str) (skew : Z) (seen : str -> bool) (now : Z) : outcome :=
  match instances with
  | [] => Reject NoProof                                                                      (* row 1 *)
  | [value] => spec_value size hmac value keys origin skew seen now
  | _ :: _ :: _ => Reject Malformed                                                           (* row 2 *)
  end.

(* two measures of a header value: characters (what len() sees) and UTF-8 bytes *)
Definition utf8_width (c : N) : nat :=
  if c <? 128 then 1%nat else if c <? 2048 then 2%nat else if c <? 65536 then 3%nat else 4%nat.
Definition utf8_size (s : str) : nat := fold_right (fun c n => Nat.add (utf8_width c) n) 0%nat s.

(* ------------------------------------------------------------------ *)
(** * Correspondence entry points                                      *)
(* ------------------------------------------------------------------ *)

Fixpoint assoc_get {V : Type} (k : str) (l : list (str * V)) : option V :=
  match l with
  | [] => None
  | (k', v) :: r => if str_eqb k k' then Some v else assoc_get k r
  end.
(* HMAC as a finite table recorded from the real run; a miss yields a value that is no digest *)
Definition table_hmac (tbl : list (bytes * bytes * bytes)) (key msg : bytes) : bytes :=
  match find (fun e => Bytes.bytes_eqb (fst (fst e)) key && Bytes.bytes_eqb (snd (fst e)) msg) tbl with
  | Some e => snd e
  | None => [999]
  end.
Definition reason_num (r : reason) : N :=
  match r with NoProof => 1 | Malformed => 2 | UnknownKid => 3 | Expired => 4 | NotYetValid => 5 | BadMac => 6 | Replayed => 7 end.
Definition reason_eqb (a b : reason) : bool := reason_num a =? reason_num b.
(* code 0 = accepted, 1..7 = reason, 100+site = other exception; then label, kid, origin of the claims *)
Definition outcome_code (o : outcome) : N * (str * (str * str)) :=
  match o with
  | Accept l k og => (0, (l, (k, og)))
  | Reject r => (reason_num r, ([], ([], [])))
  | OtherExc n => (100 + n, ([], ([], [])))
  end.
Definition reason_of_num (n : N) : reason :=
  match n with 1 => NoProof | 2 => Malformed | 3 => UnknownKid | 4 => Expired | 5 => NotYetValid | 6 => BadMac | _ => Replayed end.

(* input: empty_reason number, raw header, key map, origin, skew, cache (None = disabled, Some l = nonces already
   remembered), now, recorded hmac table *)
Definition run_case
  (x : N * option str * list (str * (bytes * str)) * str * Z * option (list str) * Z * list (bytes * bytes * bytes))
  : N * (str * (str * str)) :=
  let '(er, raw, keys, origin, skew, cache, now, tbl) := x in
  outcome_code
    (gate_decision (table_hmac tbl) (reason_of_num er) raw (fun k => assoc_get k keys) origin skew
       (option_map (fun l n => negb (existsb (str_eqb n) l)) cache) now).
Definition run_canon (x : str * str * str * str) : option bytes :=
  let '(k, t, n, o) := x in canonical_string k t n o.
Definition run_unb64 (s : str) : option bytes := unb64 s.
