(* Model of the serve-start notification:
     vgi_rpc/rpc/_server.py              RpcServer._notify_transport (lock; compare; hook; commit kind; commit
                                         capabilities), RpcServer.serve (transport class -> binding, notify, then the
                                         serve_one loop whose every dispatch reads _transport_kind for ctx.kind)
     vgi_rpc/http/server/_middleware.py  _TransportNotifyMiddleware.process_request (unlocked pre-check, then notify
                                         with (HTTP, no capabilities)); the HTTP dispatch reads server.transport_kind
   Small-step interleaving semantics: one atomic step per access to the shared binding state / lock / hook.
   A schedule is a list of thread ids; a step of a blocked or finished thread is a no-op.
   Executable definitions only; proofs are in proof/L_ServeStart*.v. *)
From Coq Require Import List NArith Bool Arith.
Import ListNotations.

(* ---- TransportKind, capabilities, bindings ---------------------------------------------------- *)
Inductive kind := KPipe | KHttp | KUnix | KTcp.
Definition kind_eqb (a b : kind) : bool :=
  match a, b with
  | KPipe, KPipe | KHttp, KHttp | KUnix, KUnix | KTcp, KTcp => true
  | _, _ => false
  end.
Definition okind_eqb (a b : option kind) : bool :=
  match a, b with
  | None, None => true
  | Some x, Some y => kind_eqb x y
  | _, _ => false
  end.
(* capabilities are frozenset() or frozenset({"shm"}): the bool says whether "shm" is present *)
Definition binding := (kind * bool)%type.
Definition binding_eqb (a b : binding) : bool := kind_eqb (fst a) (fst b) && Bool.eqb (snd a) (snd b).

(* RpcServer.serve: first matching isinstance arm of the transport *)
Inductive tclass := TShmPipe | TUnix | TTcp | TPipe | TOther.
Definition serve_binding (c : tclass) : binding :=
  match c with
  | TShmPipe => (KPipe, true)
  | TUnix => (KUnix, false)
  | TTcp => (KTcp, false)
  | TPipe => (KPipe, false)
  | TOther => (KPipe, false)
  end.
Definition http_binding : binding := (KHttp, false).

(* how a request reaches the server: an HTTP request, or a serve(transport) call *)
Inductive via := VHttp | VServe (c : tclass).
Definition via_binding (v : via) : binding :=
  match v with VHttp => http_binding | VServe c => serve_binding c end.

(* a job = one HTTP request / one serve() call, dispatching jn methods (HTTP: 1) *)
Record job := { jvia : via; jn : nat }.
Definition job_binding (j : job) : binding := via_binding (jvia j).

(* the two pre-checks of the middleware: as shipped, and as repaired *)
Definition guard_is_none (k : option kind) : bool := match k with None => true | Some _ => false end.
Definition guard_not_http (k : option kind) : bool := negb (okind_eqb k (Some KHttp)).
(* what the theorems need of a pre-check: it lets a request through un-notified only when HTTP is recorded *)
Definition guard_sound (g : option kind -> bool) : Prop := forall k, g k = false -> k = Some KHttp.

(* the body of _notify_transport under the lock, as an op list (drift detector for the regenerated leg) *)
Inductive nop := OCmpReturn | OHookLogRaise | OSetKind | OSetCaps.
Definition notify_prog : list nop := [OCmpReturn; OHookLogRaise; OSetKind; OSetCaps].
Definition serve_table : list (tclass * binding) :=
  [(TShmPipe, (KPipe, true)); (TUnix, (KUnix, false)); (TTcp, (KTcp, false)); (TPipe, (KPipe, false)); (TOther, (KPipe, false))].

(* ---- threads ---------------------------------------------------------------------------------- *)
Inductive pc :=
| PPre                 (* HTTP only: unlocked read of transport_kind, pre-check *)
| PAcq                 (* with self._transport_lock: acquire (blocks while held) *)
| PCmp                 (* if kind == recorded kind and caps == recorded caps: return *)
| PHook                (* hook(kind): returns or raises *)
| PCommitK             (* self._transport_kind = kind *)
| PCommitC             (* self._transport_capabilities = capabilities *)
| PRel (ok : bool)     (* leave the with block; ok = false: the hook's exception propagates *)
| PDisp (more : nat).  (* read transport_kind for ctx.kind and dispatch a method; `more` further dispatches follow *)

Record thr := { tjobs : list job; tpc : pc }.   (* tpc belongs to the head job *)

Definition start_pc (j : job) : pc := match jvia j with VHttp => PPre | VServe _ => PAcq end.
Definition next_thr (rest : list job) : thr :=
  {| tjobs := rest; tpc := match rest with [] => PPre | j :: _ => start_pc j end |}.
Definition goto (th : thr) (p : pc) : thr := {| tjobs := tjobs th; tpc := p |}.
(* the request passed the notification: go on to its dispatches (or end, for a serve() that reads EOF at once) *)
Definition after_entry (j : job) (rest : list job) : thr :=
  match jn j with O => next_thr rest | S m => {| tjobs := j :: rest; tpc := PDisp m |} end.

Inductive event :=
| EHook (t : nat) (b : binding) (ok : bool)      (* on_serve_start(kind of b) called by t; ok = returned *)
| ECommit (t : nat) (b : binding)                (* t wrote _transport_kind (binding b becomes visible) *)
| EFail (t : nat) (b : binding)                  (* t's job ended with the hook's exception, nothing dispatched *)
| EDisp (t : nat) (v : via) (seen : option kind) (* a method of a job that came in over v was dispatched with ctx.kind = seen *).

Record st := {
  skind : option kind;        (* RpcServer._transport_kind *)
  scaps : bool;               (* "shm" in RpcServer._transport_capabilities *)
  slock : option nat;         (* holder of _transport_lock *)
  snhook : nat;               (* number of hook invocations so far *)
  sthreads : nat -> thr;
  strace : list event         (* newest first *)
}.

Definition upd (f : nat -> thr) (t : nat) (x : thr) : nat -> thr := fun i => if Nat.eqb i t then x else f i.
Definition recorded_eqb (s : st) (b : binding) : bool :=
  okind_eqb (skind s) (Some (fst b)) && Bool.eqb (scaps s) (snd b).

Section Model.
  Variable guard : option kind -> bool.       (* the middleware's pre-check: true = call _notify_transport *)
  Variable hookf : nat -> kind -> bool.       (* n-th invocation of the hook, with this kind: true = returns *)

  Definition step (s : st) (t : nat) : st :=
    let th := sthreads s t in
    match tjobs th with
    | [] => s
    | j :: rest =>
      let b := job_binding j in
      match tpc th with
      | PPre =>
          Build_st (skind s) (scaps s) (slock s) (snhook s)
                   (upd (sthreads s) t (if guard (skind s) then goto th PAcq else after_entry j rest)) (strace s)
      | PAcq =>
          match slock s with
          | None => Build_st (skind s) (scaps s) (Some t) (snhook s) (upd (sthreads s) t (goto th PCmp)) (strace s)
          | Some _ => s
          end
      | PCmp =>
          Build_st (skind s) (scaps s) (slock s) (snhook s)
                   (upd (sthreads s) t (goto th (if recorded_eqb s b then PRel true else PHook))) (strace s)
      | PHook =>
          let ok := hookf (snhook s) (fst b) in
          Build_st (skind s) (scaps s) (slock s) (S (snhook s))
                   (upd (sthreads s) t (goto th (if ok then PCommitK else PRel false))) (EHook t b ok :: strace s)
      | PCommitK =>
          Build_st (Some (fst b)) (scaps s) (slock s) (snhook s)
                   (upd (sthreads s) t (goto th PCommitC)) (ECommit t b :: strace s)
      | PCommitC =>
          Build_st (skind s) (snd b) (slock s) (snhook s) (upd (sthreads s) t (goto th (PRel true))) (strace s)
      | PRel true =>
          Build_st (skind s) (scaps s) None (snhook s) (upd (sthreads s) t (after_entry j rest)) (strace s)
      | PRel false =>
          Build_st (skind s) (scaps s) None (snhook s) (upd (sthreads s) t (next_thr rest)) (EFail t b :: strace s)
      | PDisp m =>
          Build_st (skind s) (scaps s) (slock s) (snhook s)
                   (upd (sthreads s) t (match m with O => next_thr rest | S m' => goto th (PDisp m') end))
                   (EDisp t (jvia j) (skind s) :: strace s)
      end
    end.

  Fixpoint run_from (s : st) (sched : list nat) : st :=
    match sched with
    | [] => s
    | t :: r => run_from (step s t) r
    end.
End Model.

Definition init (cfg : list (list job)) : st :=
  Build_st None false None 0
           (fun i => match nth_error cfg i with Some jobs => next_thr jobs | None => next_thr [] end) [].

Definition run (guard : option kind -> bool) (hookf : nat -> kind -> bool) (cfg : list (list job)) (sched : list nat) : st :=
  run_from guard hookf (init cfg) sched.

(* chronological trace *)
Definition trace_of (s : st) : list event := rev (strace s).

(* ---- vocabulary of the theorems ---------------------------------------------------------------- *)
Definition is_hc (e : event) : bool := match e with EHook _ _ _ | ECommit _ _ => true | _ => false end.
Definition is_commit (e : event) : bool := match e with ECommit _ _ => true | _ => false end.
Definition is_hook_ok (e : event) : bool := match e with EHook _ _ true => true | _ => false end.
Definition is_hook (e : event) : bool := match e with EHook _ _ _ => true | _ => false end.
Definition is_disp (e : event) : bool := match e with EDisp _ _ _ => true | _ => false end.
(* binding committed most recently in a newest-first log *)
Fixpoint last_commit (tr : list event) : option binding :=
  match tr with
  | [] => None
  | ECommit _ b :: _ => Some b
  | _ :: r => last_commit r
  end.
(* the same for a chronological log *)
Definition last_commit_chrono (l : list event) : option binding := last_commit (rev l).

(* ---- the hook/commit log grammar ------------------------------------------------------------------
   hclog l cur pend : the (newest-first) list l of hook and commit events can be produced by
     - a raising hook call for b, only while b is not the recorded binding; records nothing
     - a returning hook call for b, only while b is not the recorded binding and no other call awaits its commit
     - the commit of b by the thread whose hook call for b has just returned; b becomes the recorded binding
   cur = binding recorded after l, pend = the returned hook call whose commit is still to come. *)
Inductive hclog : list event -> option binding -> option (nat * binding) -> Prop :=
| hl_nil : hclog [] None None
| hl_fail : forall t b l c, hclog l c None -> Some b <> c -> hclog (EHook t b false :: l) c None
| hl_ok : forall t b l c, hclog l c None -> Some b <> c -> hclog (EHook t b true :: l) c (Some (t, b))
| hl_commit : forall t b l c, hclog l c (Some (t, b)) -> hclog (ECommit t b :: l) (Some b) None.

(* dispatch events: ctx.kind is the kind committed most recently, and there is one *)
Fixpoint disp_ok (tr : list event) : Prop :=
  match tr with
  | [] => True
  | e :: pre =>
      match e with
      | EDisp _ _ seen => seen <> None /\ seen = option_map fst (last_commit pre)
      | _ => True
      end /\ disp_ok pre
  end.

(* every thread is between two jobs and nobody is inside _notify_transport *)
Definition quiescent (s : st) : Prop :=
  slock s = None /\ forall t, match tjobs (sthreads s t) with [] => True | j :: _ => tpc (sthreads s t) = start_pc j end.
Definition all_jobs_bind (s : st) (b : binding) : Prop :=
  forall t j, In j (tjobs (sthreads s t)) -> job_binding j = b.
Definition recorded (s : st) : option binding := match skind s with Some k => Some (k, scaps s) | None => None end.
Definition clear_trace (s : st) : st := Build_st (skind s) (scaps s) (slock s) (snhook s) (sthreads s) [].
(* steps a fresh job needs to reach (and perform) the hook call when it has to notify *)
Definition steps_to_hook (j : job) : nat := match jvia j with VHttp => 4 | VServe _ => 3 end.

(* ---- correspondence entry point ---------------------------------------------------------------- *)
Definition hook_of_list (l : list bool) (dflt : bool) : nat -> kind -> bool := fun n _ => nth n l dflt.
Definition kind_code (k : kind) : N := match k with KPipe => 1 | KHttp => 2 | KUnix => 3 | KTcp => 4 end.
Definition okind_code (k : option kind) : N := match k with None => 0%N | Some k => kind_code k end.
Definition binding_code (b : binding) : N := (2 * kind_code (fst b) + (if snd b then 1 else 0))%N.
Definition via_code (v : via) : N :=
  match v with
  | VHttp => 0 | VServe TShmPipe => 1 | VServe TUnix => 2 | VServe TTcp => 3 | VServe TPipe => 4 | VServe TOther => 5
  end%N.
Definition via_of_code (c : N) : via :=
  match c with
  | 0 => VHttp | 1 => VServe TShmPipe | 2 => VServe TUnix | 3 => VServe TTcp | 4 => VServe TPipe | _ => VServe TOther
  end%N.
Definition event_code (e : event) : list N :=
  match e with
  | EHook t b ok => [1; N.of_nat t; binding_code b; if ok then 1 else 0]
  | ECommit t b => [2; N.of_nat t; binding_code b; 0]
  | EFail t b => [3; N.of_nat t; binding_code b; 0]
  | EDisp t v seen => [4; N.of_nat t; via_code v; okind_code seen]
  end%N.

(* label of the step a thread would take: what the scheduler harness logs at each scheduling point *)
Definition label_of (s : st) (t : nat) : N :=
  let th := sthreads s t in
  match tjobs th with
  | [] => 0
  | _ :: _ =>
    match tpc th with
    | PPre => 1
    | PAcq => match slock s with None => 2 | Some _ => 10 end     (* 10 = blocked *)
    | PCmp => 3
    | PHook => 4
    | PCommitK => 5
    | PCommitC => 6
    | PRel _ => 7
    | PDisp _ => 8
    end
  end%N.

Fixpoint run_labels (guard : option kind -> bool) (hookf : nat -> kind -> bool) (s : st) (sched : list nat) : list N * st :=
  match sched with
  | [] => ([], s)
  | t :: r => let '(ls, s') := run_labels guard hookf (step guard hookf s t) r in (label_of s t :: ls, s')
  end.

(* input: ((hook outcomes, default outcome), threads as lists of (via code, dispatch count), schedule)
   output: (step labels, events in chronological order, (final kind code, final shm flag)) *)
Definition run_case (g : option kind -> bool) (x : (list bool * bool) * list (list (N * N)) * list N)
  : list N * list (list N) * (N * bool) :=
  let '((hl, hd), cfg, sched) := x in
  let cfg' := map (map (fun p : N * N => {| jvia := via_of_code (fst p); jn := N.to_nat (snd p) |})) cfg in
  let '(ls, s) := run_labels g (hook_of_list hl hd) (init cfg') (map N.to_nat sched) in
  (ls, map event_code (trace_of s), (okind_code (skind s), scaps s)).

Definition out_eqb (a b : list N * list (list N) * (N * bool)) : bool :=
  let leq := fix leq (x y : list N) : bool :=
    match x, y with [], [] => true | p :: x', q :: y' => N.eqb p q && leq x' y' | _, _ => false end in
  let lleq := fix lleq (x y : list (list N)) : bool :=
    match x, y with [], [] => true | p :: x', q :: y' => leq p q && lleq x' y' | _, _ => false end in
  let '(l1, e1, (k1, c1)) := a in
  let '(l2, e2, (k2, c2)) := b in
  leq l1 l2 && lleq e1 e2 && N.eqb k1 k2 && Bool.eqb c1 c2.
