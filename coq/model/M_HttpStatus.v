(* Model of the HTTP status / body-shape mapping of the RPC routes (property C15):
     vgi_rpc/http/server/_factory.py     order of the request-rejecting middlewares
     vgi_rpc/http/server/_middleware.py  _MaxRequestBytesMiddleware / _CompressionMiddleware / _AuthMiddleware .process_request
     vgi_rpc/http/server/_errors.py      the Falcon error serializer (which HTTPErrors leave as an Arrow IPC error stream)
     vgi_rpc/http/server/_app.py         _resolve_method  (content type, then method lookup)
     vgi_rpc/http/server/_resources.py   the three on_post responders (kind check, _RpcHttpError -> _set_error_response)
     vgi_rpc/http/server/_responses.py   _set_http_status (500 -> 200 + X-VGI-RPC-Error)
     vgi_rpc/http/server/_app_unary.py / _app_stream.py   ordered except clauses around reading the request
     vgi_rpc/rpc/_wire.py                _read_request (which exception a defective request raises)
   The model is a function of a *configuration* (the tables a translator regenerates from the source on every run:
   gen/G_HttpStatus.v) and a request descriptor.  [cfg_model] is the configuration the theorems are about;
   tie/T_HttpStatus.v proves the regenerated one equal to it.
   Executable definitions only; proofs are in proof/L_HttpStatus.v. *)
From Coq Require Import List NArith Bool.
Import ListNotations.
Open Scope N_scope.

(* ---- request descriptor: one constructor per class of the property's quantifier ---- *)
Inductive route := RUnary | RInit | RExchange.
(* MKnown: unary method at the unary route, exchange-stream method at /init and /exchange;
   MKnownAlt: __describe__ at the unary route, producer-stream method at /init and /exchange;
   MMismatch: a stream method at the unary route, a unary method at /init or /exchange *)
Inductive meth := MKnown | MKnownAlt | MUnknown | MMismatch.
Inductive body :=
| BValid
| BCorrupt          (* damaged so that pyarrow reports ArrowInvalid *)
| BCorruptIO        (* damaged schema flatbuffer: pyarrow reports ArrowIOError (= OSError) *)
| BTruncated
| BEmpty
| BNoBatch          (* schema + end-of-stream, no batch *)
| BNoMethod | BMethodMismatch | BNoReqVersion | BBadReqVersion
| BBadTraceparent   (* traceparent metadata that is not UTF-8 *)
| BBadParams        (* unary / init: parameter columns the method does not declare; exchange: an input batch of another schema *)
| BOversize.        (* a valid request larger than the cap of a capped server *)
Inductive ctype := CtOk | CtWrong | CtMissing.
Inductive cenc := CeNone | CeZstd | CeGzip | CeUnknown | CeCorrupt.
Inductive token := TValid | TTampered | TMissing.
Inductive auth := AOff | AGood | ABad | AMissing.
Inductive cap := CapOff | CapOn.
Inductive outcome := OOk | OFailInit | OFailProcess.   (* what the implementation's method / process() would do if reached *)

Record req := mkReq {
  r_route : route; r_meth : meth; r_body : body; r_ctype : ctype; r_cenc : cenc;
  r_token : token; r_auth : auth; r_cap : cap; r_outcome : outcome }.

(* ---- response observation ---- *)
Inductive rctype := RcArrow | RcJson | RcOther.
Inductive rbody := RbArrowOk | RbArrowErr | RbNotArrow.   (* decodable IPC without / with an EXCEPTION batch | not decodable *)
Record resp := mkResp { status : N; marker : bool; r_ct : rctype; r_bd : rbody }.

(* ---- Python exception classes that reach an except clause, and the classes except clauses name ---- *)
Inductive exn := XArrowInvalid | XOSError | XStopIteration | XTypeError | XRpcError | XVersionError | XUnicodeDecode.
Inductive hcls := HArrowInvalid | HOSError | HStopIteration | HTypeError | HRpcError | HVersionError | HValueError | HKeyError | HException.

Definition isa (x : exn) (h : hcls) : bool :=
  match h, x with
  | HException, _ => true
  | HArrowInvalid, XArrowInvalid => true
  | HValueError, (XArrowInvalid | XUnicodeDecode) => true
  | HOSError, XOSError => true
  | HStopIteration, XStopIteration => true
  | HTypeError, XTypeError => true
  | HRpcError, XRpcError => true
  | HVersionError, XVersionError => true
  | _, _ => false
  end.

(* an ordered list of except clauses, each answering with _RpcHttpError(status) *)
Definition handlers := list (list hcls * N).
Fixpoint catch (hs : handlers) (x : exn) : option N :=
  match hs with
  | [] => None
  | (cs, st) :: r => if existsb (isa x) cs then Some st else catch r x
  end.

(* ---- configuration = what is regenerated from the source ---- *)
Inductive mw := MwMaxBytes | MwCompression | MwAuth.
Record config := mkCfg {
  c_order : list mw;                 (* request-rejecting middlewares, in process_request order *)
  c_maxbytes : list N;               (* statuses _MaxRequestBytesMiddleware raises, source order: [too large] *)
  c_compression : list N;            (* _CompressionMiddleware.process_request: [unknown; not enabled; limit exceeded; undecodable] *)
  c_auth : list N;                   (* _AuthMiddleware.process_request: [authority unavailable; rejected] *)
  c_arrow_rendered : list N;         (* HTTPError statuses the error serializer renders as an Arrow IPC error stream *)
  c_resolve : list N;                (* _resolve_method: [wrong content type; unknown method] *)
  c_kind : list N;                   (* kind-mismatch status of the unary / init / exchange responder *)
  c_marker : N * N;                  (* _set_http_status: (status that is rewritten, status it becomes with the marker) *)
  c_unary : handlers;                (* except clauses around the request validation of _run_unary_sync *)
  c_init : handlers;                 (* ... of _run_stream_init_sync *)
  c_exchange : handlers;             (* ... around open_stream / read_next_batch of _run_stream_exchange_sync *)
  c_token : list N;                  (* every status the token layer and the exchange shell refuse with *)
  c_traceparent_guarded : bool       (* _read_request turns an undecodable traceparent into RpcError *)
}.

Definition cfg_model : config := mkCfg
  [MwMaxBytes; MwCompression; MwAuth]
  [413]
  [415; 415; 413; 400]
  [503; 401]
  [400; 413]
  [415; 404]
  [400; 400; 400]
  (500, 200)
  [([HArrowInvalid; HOSError; HTypeError; HStopIteration; HRpcError; HVersionError], 400); ([HException], 500)]
  [([HArrowInvalid; HOSError; HTypeError; HStopIteration; HRpcError; HVersionError], 400); ([HException], 500)]
  [([HArrowInvalid; HOSError; HStopIteration], 400)]
  [400]
  true.

Definition nth_st (l : list N) (i : nat) : N := nth i l 599.   (* a missing table entry shows as an impossible status *)

(* ---- rendering ---- *)
(* a Falcon HTTPError (raised by a middleware, or Falcon's own 500 for an escaped exception) through the serializer *)
Definition http_error (c : config) (st : N) : resp :=
  if existsb (N.eqb st) (c_arrow_rendered c) then mkResp st false RcArrow RbArrowErr
  else mkResp st false RcJson RbNotArrow.
(* _set_error_response: an Arrow IPC error stream, status through _set_http_status *)
Definition rpc_error (c : config) (st : N) : resp :=
  if st =? fst (c_marker c) then mkResp (snd (c_marker c)) true RcArrow RbArrowErr
  else mkResp st false RcArrow RbArrowErr.
Definition success : resp := mkResp 200 false RcArrow RbArrowOk.
(* the method (or process()) raised: in-band error, 500 through _set_http_status *)
Definition failed (c : config) : resp := rpc_error c 500.
(* an exception that no except clause caught leaves the responder: Falcon's default handler *)
Definition escaped (c : config) : resp := http_error c 500.

(* ---- middlewares ---- *)
Definition wire_over (r : req) : bool :=
  match r_cap r, r_body r, r_cenc r with
  | CapOn, BOversize, (CeNone | CeUnknown | CeCorrupt) => true   (* a compressed oversize body fits on the wire *)
  | _, _, _ => false
  end.
Definition mw_step (c : config) (m : mw) (r : req) : option N :=
  match m with
  | MwMaxBytes => if wire_over r then Some (nth_st (c_maxbytes c) 0) else None
  | MwCompression =>
      match r_cenc r with
      | CeNone => None
      | CeUnknown => Some (nth_st (c_compression c) 0)
      | CeZstd | CeGzip =>
          match r_cap r, r_body r with
          | CapOn, BOversize => Some (nth_st (c_compression c) 2)
          | _, _ => None
          end
      | CeCorrupt => Some (nth_st (c_compression c) 3)
      end
  | MwAuth =>
      match r_auth r with
      | ABad | AMissing => Some (nth_st (c_auth c) 1)
      | AOff | AGood => None
      end
  end.
Fixpoint chain (c : config) (ms : list mw) (r : req) : option N :=
  match ms with
  | [] => None
  | m :: rest => match mw_step c m r with Some st => Some st | None => chain c rest r end
  end.

(* ---- what reading the request raises ---- *)
(* _read_request + method-name check + parameter validation (unary and init) *)
Definition read_exn (c : config) (b : body) : option exn :=
  match b with
  | BValid | BOversize => None
  | BCorrupt | BTruncated | BEmpty => Some XArrowInvalid
  | BCorruptIO => Some XOSError
  | BNoBatch => Some XStopIteration
  | BNoMethod => Some XRpcError
  | BMethodMismatch => Some XTypeError
  | BNoReqVersion | BBadReqVersion => Some XVersionError
  | BBadTraceparent => Some (if c_traceparent_guarded c then XRpcError else XUnicodeDecode)
  | BBadParams => Some XTypeError
  end.
(* ipc.open_stream + read_next_batch of the exchange shell; request metadata other than the tokens is not read *)
Definition exchange_exn (b : body) : option exn :=
  match b with
  | BCorrupt | BTruncated | BEmpty => Some XArrowInvalid
  | BCorruptIO => Some XOSError
  | BNoBatch => Some XStopIteration
  | _ => None
  end.

(* does the dispatched call fail?  (what the implementation does when reached) *)
Definition call_fails (r : req) : bool :=
  match r_route r, r_meth r with
  | RUnary, MKnown => match r_outcome r with OOk => false | _ => true end
  | RUnary, _ => false                                      (* __describe__ is answered from a pre-built batch *)
  | RInit, MKnown => match r_outcome r with OFailInit => true | _ => false end          (* exchange stream: no process() at init *)
  | RInit, _ => match r_outcome r with OOk => false | _ => true end                     (* producer: first turn runs inside /init *)
  | RExchange, MKnown =>
      match r_body r with
      | BBadParams => true                                   (* _coerce_input_batch refuses the batch: the turn fails *)
      | _ => match r_outcome r with OFailProcess => true | _ => false end
      end
  | RExchange, _ => match r_outcome r with OFailProcess => true | _ => false end        (* producer ignores the tick's columns *)
  end.

Definition dispatched (c : config) (r : req) : resp := if call_fails r then failed c else success.

Definition route_ix (rt : route) : nat := match rt with RUnary => 0 | RInit => 1 | RExchange => 2 end%nat.

(* ---- the responders ---- *)
Definition responder (c : config) (r : req) : resp :=
  match r_ctype r with
  | CtWrong | CtMissing => rpc_error c (nth_st (c_resolve c) 0)
  | CtOk =>
    match r_meth r with
    | MUnknown => rpc_error c (nth_st (c_resolve c) 1)
    | MMismatch => rpc_error c (nth_st (c_kind c) (route_ix (r_route r)))
    | MKnown | MKnownAlt =>
      match r_route r with
      | RUnary | RInit =>
          let hs := match r_route r with RUnary => c_unary c | _ => c_init c end in
          match read_exn c (r_body r) with
          | Some x => match catch hs x with Some st => rpc_error c st | None => escaped c end
          | None => dispatched c r
          end
      | RExchange =>
          match exchange_exn (r_body r) with
          | Some x => match catch (c_exchange c) x with Some st => rpc_error c st | None => escaped c end
          | None =>
              match r_token r with
              | TMissing | TTampered => rpc_error c (nth_st (c_token c) 0)
              | TValid => dispatched c r
              end
          end
      end
    end
  end.

Definition run_with (c : config) (r : req) : resp :=
  match chain c (c_order c) r with
  | Some st => http_error c st
  | None => responder c r
  end.

Definition run : req -> resp := run_with cfg_model.

(* ---- the whole (finite) request space ---- *)
Definition all_route := [RUnary; RInit; RExchange].
Definition all_meth := [MKnown; MKnownAlt; MUnknown; MMismatch].
Definition all_body := [BValid; BCorrupt; BCorruptIO; BTruncated; BEmpty; BNoBatch; BNoMethod; BMethodMismatch; BNoReqVersion;
                        BBadReqVersion; BBadTraceparent; BBadParams; BOversize].
Definition all_ctype := [CtOk; CtWrong; CtMissing].
Definition all_cenc := [CeNone; CeZstd; CeGzip; CeUnknown; CeCorrupt].
Definition all_token := [TValid; TTampered; TMissing].
Definition all_auth := [AOff; AGood; ABad; AMissing].
Definition all_cap := [CapOff; CapOn].
Definition all_outcome := [OOk; OFailInit; OFailProcess].

Definition all_reqs : list req :=
  flat_map (fun a => flat_map (fun b => flat_map (fun c => flat_map (fun d => flat_map (fun e =>
  flat_map (fun f => flat_map (fun g => flat_map (fun h => map (fun i => mkReq a b c d e f g h i)
  all_outcome) all_cap) all_auth) all_token) all_cenc) all_ctype) all_body) all_meth) all_route.

(* ---- correspondence entry point: descriptor as 9 small numbers (index into the lists above), response as one number ---- *)
Definition nth_or {A} (l : list A) (d : A) (i : N) : A := nth (N.to_nat i) l d.
Definition req_of (t : list N) : req :=
  match t with
  | [a; b; c; d; e; f; g; h; i] =>
      mkReq (nth_or all_route RUnary a) (nth_or all_meth MKnown b) (nth_or all_body BValid c) (nth_or all_ctype CtOk d)
            (nth_or all_cenc CeNone e) (nth_or all_token TValid f) (nth_or all_auth AOff g) (nth_or all_cap CapOff h)
            (nth_or all_outcome OOk i)
  | _ => mkReq RUnary MKnown BValid CtOk CeNone TValid AOff CapOff OOk
  end.
(* status * 100 + marker * 10 + content type (0 arrow 1 json 2 other) + 3 * body (0 ok 1 err 2 not arrow) *)
Definition code_of (x : resp) : N :=
  status x * 100 + (if marker x then 10 else 0)
  + match r_ct x with RcArrow => 0 | RcJson => 1 | RcOther => 2 end
  + 3 * match r_bd x with RbArrowOk => 0 | RbArrowErr => 1 | RbNotArrow => 2 end.
Definition run_case_with (c : config) (t : list N) : N := code_of (run_with c (req_of t)).
Definition run_case : list N -> N := run_case_with cfg_model.
