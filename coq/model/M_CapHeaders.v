(* Model of the capability-header advertisement (property C40):
     vgi_rpc/http/server/_factory.py     make_wsgi_app: the `capability_headers[K] = V` sequence and the
                                         `if capability_headers: middleware.append(_CapabilitiesMiddleware(..))`
     vgi_rpc/http/server/_middleware.py  _CapabilitiesMiddleware.process_response
     vgi_rpc/http/_client.py             http_capabilities (the client probe), vgi_rpc/_codec.py parse_encoding_list
   Executable definitions only; proofs are in proof/L_CapHeaders.v.
   Strings are lists of code points (list N); header dictionaries are association lists in insertion order. *)
From Coq Require Import List NArith ZArith Bool String Ascii.
From VGI Require Import UnicodeTables M_Version Corr.
Import ListNotations.
Open Scope N_scope.

Fixpoint s2l (s : string) : list N :=
  match s with EmptyString => [] | String a r => N_of_ascii a :: s2l r end.

(* ------------------------------------------------------------------ *)
(* Python string helpers                                               *)
(* ------------------------------------------------------------------ *)
(* str.isspace / the set str.strip() removes (validated against the runtime by the check) *)
Definition is_ws (c : N) : bool :=
  ((9 <=? c) && (c <=? 13)) || ((28 <=? c) && (c <=? 32)) || (c =? 133) || (c =? 160) || (c =? 5760)
  || ((8192 <=? c) && (c <=? 8202)) || (c =? 8232) || (c =? 8233) || (c =? 8239) || (c =? 8287) || (c =? 12288).
Fixpoint lstrip_by (p : N -> bool) (s : list N) : list N :=
  match s with
  | [] => []
  | c :: r => if p c then lstrip_by p r else s
  end.
Definition strip_by (p : N -> bool) (s : list N) : list N := rev (lstrip_by p (rev (lstrip_by p s))).
Definition strip (s : list N) : list N := strip_by is_ws s.
(* int(str) first maps non-ASCII white space to ' ' and then skips C isspace(): the ASCII separators
   0x1c..0x1f are str.isspace() but are NOT skipped by int() *)
Definition is_ws_int (c : N) : bool := is_ws c && negb ((28 <=? c) && (c <=? 31)).
(* str.lower() restricted to ASCII (exact for the purposes it is used for, see props/C40.py) *)
Definition lower_c (c : N) : N := if (65 <=? c) && (c <=? 90) then c + 32 else c.
Definition lower (s : list N) : list N := map lower_c s.
(* s.split(<one character>) *)
Fixpoint split_on (sep : N) (cur : list N) (s : list N) : list (list N) :=
  match s with
  | [] => [rev cur]
  | c :: r => if c =? sep then rev cur :: split_on sep [] r else split_on sep (c :: cur) r
  end.
(* sep.join(l) *)
Fixpoint join (sep : list N) (l : list (list N)) : list N :=
  match l with
  | [] => []
  | x :: r => match r with [] => x | _ :: _ => x ++ sep ++ join sep r end
  end.
Definition is_nil {A : Type} (l : list A) : bool := match l with [] => true | _ :: _ => false end.

(* str(int) *)
Definition show_Z (z : Z) : list N :=
  match z with
  | Z0 => show 0
  | Zpos p => show (Npos p)
  | Zneg p => 45 :: show (Npos p)
  end.
(* int(str): surrounding whitespace, optional sign, decimal digits (any Unicode decimal) with single
   underscores between digits *)
Fixpoint int_body (acc : N) (prev_digit : bool) (s : list N) : option N :=
  match s with
  | [] => if prev_digit then Some acc else None
  | c :: r =>
      if c =? 95 then (if prev_digit then int_body acc false r else None)
      else match udigit_val c with
           | Some d => int_body (10 * acc + d) true r
           | None => None
           end
  end.
Definition py_int (s : list N) : option Z :=
  match strip_by is_ws_int s with
  | 45 :: r => option_map (fun n => Z.opp (Z.of_N n)) (int_body 0 false r)
  | 43 :: r => option_map Z.of_N (int_body 0 false r)
  | r => option_map Z.of_N (int_body 0 false r)
  end.

(* ------------------------------------------------------------------ *)
(* association lists = Python dict[str, str] / falcon.Response._headers *)
(* ------------------------------------------------------------------ *)
Definition headers := list (list N * list N).
Fixpoint lookup (k : list N) (h : headers) : option (list N) :=
  match h with
  | [] => None
  | (k', v) :: r => if bytes_eqb k' k then Some v else lookup k r
  end.
(* d[k] = v : replace in place, else append *)
Fixpoint assoc_set (h : headers) (k v : list N) : headers :=
  match h with
  | [] => [(k, v)]
  | (k', v') :: r => if bytes_eqb k' k then (k', v) :: r else (k', v') :: assoc_set r k v
  end.

(* ------------------------------------------------------------------ *)
(* the table language the translator emits                             *)
(* ------------------------------------------------------------------ *)
Inductive var :=
| VMaxRequestBytes | VMaxResponseBytes | VMaxExtResponseBytes
| VExternalConfig          (* server.external_config *)
| VExternalStorage         (* server.external_config.storage *)
| VUploadProvider | VMaxUploadBytes
| VEnabledEncodings        (* local: tuple(codec_levels) *)
| VProofRequired | VIntrospectResolver
| VEnableSticky | VStickyTtl | VEchoHeaders.

Inductive cond :=
| CTrue
| CIsNotNone (v : var)
| CTruthy (v : var)
| CNot (c : cond)
| CAnd (a b : cond).

Inductive vexpr :=
| VLit (s : list N)                          (* "true" *)
| VStr (v : var)                             (* str(x) *)
| VStrInt (v : var)                          (* str(int(x)) *)
| VIf (c : cond) (a b : vexpr)               (* a if c else b *)
| VJoinValues (sep : list N) (v : var)       (* sep.join(e.value for e in x) *)
| VJoinKeys (sep : list N) (v : var).        (* sep.join(x.keys()) *)

Definition row := (cond * list N * vexpr)%type.    (* guard, header name, value *)

Inductive enc := Zstd | Gzip | Identity.
Definition enc_value (e : enc) : list N :=
  match e with Zstd => s2l "zstd" | Gzip => s2l "gzip" | Identity => s2l "identity" end.
Definition enc_eqb (a b : enc) : bool :=
  match a, b with Zstd, Zstd | Gzip, Gzip | Identity, Identity => true | _, _ => false end.
Definition all_encs : list enc := [Zstd; Gzip; Identity].     (* definition order of _codec.Encoding *)

Inductive pyval :=
| PNone
| PObj                                 (* some non-None, truthy object (callable, provider, storage) *)
| PBool (b : bool)
| PInt (z : Z)
| PFloat (ip : Z) (frac : bool)        (* a finite float: int(x) = ip, frac = it has a non-zero fractional part *)
| PEncs (l : list enc)
| PNames (l : list (list N))           (* a mapping, by its keys *)
| PUnbound.                            (* evaluating it raises (attribute of None) *)

Definition truthy (v : pyval) : option bool :=
  match v with
  | PNone => Some false
  | PObj => Some true
  | PBool b => Some b
  | PInt z => Some (negb (Z.eqb z 0))
  | PFloat ip frac => Some (negb (Z.eqb ip 0) || frac)
  | PEncs l => Some (negb (is_nil l))
  | PNames l => Some (negb (is_nil l))
  | PUnbound => None
  end.

Fixpoint eval_cond (env : var -> pyval) (c : cond) : option bool :=
  match c with
  | CTrue => Some true
  | CIsNotNone v => match env v with PUnbound => None | PNone => Some false | _ => Some true end
  | CTruthy v => truthy (env v)
  | CNot a => option_map negb (eval_cond env a)
  | CAnd a b => match eval_cond env a with
                | Some true => eval_cond env b
                | Some false => Some false
                | None => None
                end
  end.

Fixpoint eval_vexpr (env : var -> pyval) (e : vexpr) : option (list N) :=
  match e with
  | VLit s => Some s
  | VStr v => match env v with PInt z => Some (show_Z z) | _ => None end
  | VStrInt v => match env v with PInt z => Some (show_Z z) | PFloat ip _ => Some (show_Z ip) | _ => None end
  | VIf c a b => match eval_cond env c with
                 | Some true => eval_vexpr env a
                 | Some false => eval_vexpr env b
                 | None => None
                 end
  | VJoinValues sep v => match env v with PEncs l => Some (join sep (map enc_value l)) | _ => None end
  | VJoinKeys sep v => match env v with PNames l => Some (join sep l) | _ => None end
  end.

(* one `if guard: capability_headers[K] = V`; None = the statement raises *)
Definition row_eval (env : var -> pyval) (r : row) : option (option (list N * list N)) :=
  let '(c, k, e) := r in
  match eval_cond env c with
  | None => None
  | Some false => Some None
  | Some true => match eval_vexpr env e with None => None | Some v => Some (Some (k, v)) end
  end.

Fixpoint build (env : var -> pyval) (tbl : list row) (acc : headers) : option headers :=
  match tbl with
  | [] => Some acc
  | r :: rest =>
      match row_eval env r with
      | None => None
      | Some None => build env rest acc
      | Some (Some (k, v)) => build env rest (assoc_set acc k v)
      end
  end.

(* ------------------------------------------------------------------ *)
(* the configuration                                                   *)
(* ------------------------------------------------------------------ *)
Record config := {
  c_max_request : option Z;          (* max_request_bytes *)
  c_max_response : option Z;         (* max_response_bytes (after the deprecated alias max_stream_response_bytes) *)
  c_max_ext_response : option Z;     (* max_externalized_response_bytes *)
  c_ext_config : bool;               (* server.external_config is not None *)
  c_ext_storage : bool;              (* ... .storage is not None (meaningful when c_ext_config) *)
  c_upload_provider : bool;          (* upload_url_provider is not None *)
  c_max_upload : option Z;           (* max_upload_bytes *)
  c_compression : bool;              (* compression_level is not None *)
  c_zstd_runtime : bool;             (* zstandard importable *)
  c_zstd_disabled : bool;            (* VGI_HTTP_DISABLE_ZSTD=1 *)
  c_proof_required : bool;
  c_introspect : bool;               (* introspect_resolver is not None *)
  c_sticky : bool;                   (* enable_sticky *)
  c_ttl_int : Z;                     (* int(sticky_default_ttl) *)
  c_ttl_frac : bool;                 (* sticky_default_ttl has a fractional part *)
  c_echo : list (list N)             (* list(sticky_echo_headers or {}) *)
}.

(* decodable / codec_levels / enabled_encodings of make_wsgi_app *)
Definition enabled_encodings (c : config) : list enc :=
  if c_compression c then
    (if c_zstd_runtime c && negb (c_zstd_disabled c) then [Zstd] else []) ++ [Gzip]
  else [].

Definition opt_int (o : option Z) : pyval := match o with Some z => PInt z | None => PNone end.
Definition opt_obj (b : bool) : pyval := if b then PObj else PNone.

Definition env_of (c : config) (v : var) : pyval :=
  match v with
  | VMaxRequestBytes => opt_int (c_max_request c)
  | VMaxResponseBytes => opt_int (c_max_response c)
  | VMaxExtResponseBytes => opt_int (c_max_ext_response c)
  | VExternalConfig => opt_obj (c_ext_config c)
  | VExternalStorage => if c_ext_config c then opt_obj (c_ext_storage c) else PUnbound
  | VUploadProvider => opt_obj (c_upload_provider c)
  | VMaxUploadBytes => opt_int (c_max_upload c)
  | VEnabledEncodings => PEncs (enabled_encodings c)
  | VProofRequired => PBool (c_proof_required c)
  | VIntrospectResolver => opt_obj (c_introspect c)
  | VEnableSticky => PBool (c_sticky c)
  | VStickyTtl => PFloat (c_ttl_int c) (c_ttl_frac c)
  | VEchoHeaders => match c_echo c with [] => PNone | l => PNames l end
  end.
(* note: sticky_echo_headers=None and ={} are both falsy and both yield no header; the model folds them *)

(* ------------------------------------------------------------------ *)
(* the table as it is expected to be in the source today               *)
(* (tie/T_CapHeaders.v proves the regenerated one equal)               *)
(* ------------------------------------------------------------------ *)
Definition comma_sp : list N := s2l ", ".
Definition lit_true : list N := s2l "true".
Definition lit_false : list N := s2l "false".

Definition cap_table : list row := [
  (CIsNotNone VMaxRequestBytes, s2l "VGI-Max-Request-Bytes", VStr VMaxRequestBytes);
  (CIsNotNone VMaxResponseBytes, s2l "VGI-Max-Response-Bytes", VStr VMaxResponseBytes);
  (CIsNotNone VMaxExtResponseBytes, s2l "VGI-Max-Externalized-Response-Bytes", VStr VMaxExtResponseBytes);
  (CTrue, s2l "VGI-Externalization-Enabled",
     VIf (CAnd (CIsNotNone VExternalConfig) (CIsNotNone VExternalStorage)) (VLit lit_true) (VLit lit_false));
  (CIsNotNone VUploadProvider, s2l "VGI-Upload-URL-Support", VLit lit_true);
  (CAnd (CIsNotNone VUploadProvider) (CIsNotNone VMaxUploadBytes), s2l "VGI-Max-Upload-Bytes", VStr VMaxUploadBytes);
  (CTrue, s2l "VGI-Supported-Encodings", VJoinValues comma_sp VEnabledEncodings);
  (CTruthy VProofRequired, s2l "VGI-Proxy-Proof-Required", VLit lit_true);
  (CIsNotNone VIntrospectResolver, s2l "VGI-Token-Introspection", VLit lit_true);
  (CTruthy VEnableSticky, s2l "VGI-Sticky-Enabled", VLit lit_true);
  (CTruthy VEnableSticky, s2l "VGI-Sticky-Default-TTL", VStrInt VStickyTtl);
  (CAnd (CTruthy VEnableSticky) (CTruthy VEchoHeaders), s2l "VGI-Sticky-Echo-Headers", VJoinKeys comma_sp VEchoHeaders)
].

Definition cap_headers_with (tbl : list row) (c : config) : option headers := build (env_of c) tbl [].
Definition cap_headers : config -> option headers := cap_headers_with cap_table.

(* ------------------------------------------------------------------ *)
(* specification side: the features and what each should advertise     *)
(* ------------------------------------------------------------------ *)
Inductive feature :=
| FMaxRequest | FMaxResponse | FMaxExtResponse | FExternalization | FUploadUrl | FMaxUpload
| FEncodings | FProofRequired | FIntrospection | FStickyEnabled | FStickyTtl | FStickyEcho.
Definition all_features : list feature :=
  [FMaxRequest; FMaxResponse; FMaxExtResponse; FExternalization; FUploadUrl; FMaxUpload;
   FEncodings; FProofRequired; FIntrospection; FStickyEnabled; FStickyTtl; FStickyEcho].

(* the wire names (vgi_rpc/http/_common.py, _introspect.py) *)
Definition fname (f : feature) : list N :=
  match f with
  | FMaxRequest => s2l "VGI-Max-Request-Bytes"
  | FMaxResponse => s2l "VGI-Max-Response-Bytes"
  | FMaxExtResponse => s2l "VGI-Max-Externalized-Response-Bytes"
  | FExternalization => s2l "VGI-Externalization-Enabled"
  | FUploadUrl => s2l "VGI-Upload-URL-Support"
  | FMaxUpload => s2l "VGI-Max-Upload-Bytes"
  | FEncodings => s2l "VGI-Supported-Encodings"
  | FProofRequired => s2l "VGI-Proxy-Proof-Required"
  | FIntrospection => s2l "VGI-Token-Introspection"
  | FStickyEnabled => s2l "VGI-Sticky-Enabled"
  | FStickyTtl => s2l "VGI-Sticky-Default-TTL"
  | FStickyEcho => s2l "VGI-Sticky-Echo-Headers"
  end.

Definition flag (b : bool) : option (list N) := if b then Some lit_true else None.

(* Some v = the feature is configured and v is the text of its configured value; None = not configured.
   Two features are state reports rather than options and are configured in every configuration:
   externalization (true/false) and the response codecs (possibly the empty list). *)
Definition advertised (c : config) (f : feature) : option (list N) :=
  match f with
  | FMaxRequest => option_map show_Z (c_max_request c)
  | FMaxResponse => option_map show_Z (c_max_response c)
  | FMaxExtResponse => option_map show_Z (c_max_ext_response c)
  | FExternalization => Some (if c_ext_config c && c_ext_storage c then lit_true else lit_false)
  | FUploadUrl => flag (c_upload_provider c)
  | FMaxUpload => if c_upload_provider c then option_map show_Z (c_max_upload c) else None
  | FEncodings => Some (join comma_sp (map enc_value (enabled_encodings c)))
  | FProofRequired => flag (c_proof_required c)
  | FIntrospection => flag (c_introspect c)
  | FStickyEnabled => flag (c_sticky c)
  | FStickyTtl => if c_sticky c then Some (show_Z (c_ttl_int c)) else None
  | FStickyEcho => if c_sticky c && negb (is_nil (c_echo c)) then Some (join comma_sp (c_echo c)) else None
  end.
(* `advertised` is the closed form of what the code emits.  What the STATEMENT asks for is phrased
   independently: the configured value of each feature, and the text that denotes it. *)
Inductive cvalue :=
| CVFlag                              (* the feature is on: "true" *)
| CVBool (b : bool)                   (* a state report: "true" / "false" *)
| CVNum (z : Z)                       (* a byte count *)
| CVSeconds (ip : Z) (frac : bool)    (* a duration in seconds: integer part, and whether there is a fraction *)
| CVEncs (l : list enc)
| CVNames (l : list (list N)).

Definition configured (c : config) (f : feature) : option cvalue :=
  match f with
  | FMaxRequest => option_map CVNum (c_max_request c)
  | FMaxResponse => option_map CVNum (c_max_response c)
  | FMaxExtResponse => option_map CVNum (c_max_ext_response c)
  | FExternalization => Some (CVBool (c_ext_config c && c_ext_storage c))
  | FUploadUrl => if c_upload_provider c then Some CVFlag else None
  | FMaxUpload => if c_upload_provider c then option_map CVNum (c_max_upload c) else None
  | FEncodings => Some (CVEncs (enabled_encodings c))
  | FProofRequired => if c_proof_required c then Some CVFlag else None
  | FIntrospection => if c_introspect c then Some CVFlag else None
  | FStickyEnabled => if c_sticky c then Some CVFlag else None
  | FStickyTtl => if c_sticky c then Some (CVSeconds (c_ttl_int c) (c_ttl_frac c)) else None
  | FStickyEcho => if c_sticky c then (match c_echo c with [] => None | l => Some (CVNames l) end) else None
  end.
(* the header text that denotes a configured value; a fractional number of seconds has no integer numeral *)
Definition text_of (v : cvalue) : option (list N) :=
  match v with
  | CVFlag => Some lit_true
  | CVBool b => Some (if b then lit_true else lit_false)
  | CVNum z => Some (show_Z z)
  | CVSeconds ip false => Some (show_Z ip)
  | CVSeconds _ true => None
  | CVEncs l => Some (join comma_sp (map enc_value l))
  | CVNames l => Some (join comma_sp l)
  end.
(* the side condition under which the property is proved: whole-second sticky TTLs *)
Definition integral_ttl (c : config) : Prop := c_sticky c = true -> c_ttl_frac c = false.

Definition opt_list {A : Type} (o : option A) : list A := match o with Some x => [x] | None => [] end.
Definition adv_row_with (g : feature -> list N) (c : config) (f : feature) : option (list N * list N) :=
  option_map (fun v => (g f, v)) (advertised c f).
Definition spec_headers_with (g : feature -> list N) (c : config) : headers :=
  flat_map (fun f => opt_list (adv_row_with g c f)) all_features.
Definition adv_row := adv_row_with fname.
Definition spec_headers := spec_headers_with fname.

(* ------------------------------------------------------------------ *)
(* _CapabilitiesMiddleware and the response phase of Falcon            *)
(* ------------------------------------------------------------------ *)
Inductive guard :=
| GMethodEq (m : list N)       (* req.method == "..." *)
| GSucceeded                   (* req_succeeded *)
| GNot (g : guard)
| GAnd (a b : guard)
| GOr (a b : guard).
Inductive mw_stmt :=
| MwStampAll                          (* for name, value in self._headers.items(): resp.set_header(name, value) *)
| MwSet (k v : list N)                (* resp.set_header(k, v) *)
| MwWhen (g : guard) (s : mw_stmt).   (* if g: s *)
Inductive install_guard := InstallAlways | InstallIfNonEmpty | InstallNever.

Record request := { r_method : list N; r_succeeded : bool }.

Fixpoint eval_guard (rq : request) (g : guard) : bool :=
  match g with
  | GMethodEq m => bytes_eqb (r_method rq) m
  | GSucceeded => r_succeeded rq
  | GNot a => negb (eval_guard rq a)
  | GAnd a b => eval_guard rq a && eval_guard rq b
  | GOr a b => eval_guard rq a || eval_guard rq b
  end.

(* falcon.Response.set_header: the name is lower-cased, the value replaces *)
Definition set_header (h : headers) (k v : list N) : headers := assoc_set h (lower k) v.
Definition stamp_all (capd : headers) (h : headers) : headers :=
  fold_left (fun acc kv => set_header acc (fst kv) (snd kv)) capd h.

Fixpoint run_stmt (capd : headers) (rq : request) (h : headers) (s : mw_stmt) : headers :=
  match s with
  | MwStampAll => stamp_all capd h
  | MwSet k v => set_header h k v
  | MwWhen g s' => if eval_guard rq g then run_stmt capd rq h s' else h
  end.
Definition cap_process_response (stmts : list mw_stmt) (capd : headers) (rq : request) (h : headers) : headers :=
  fold_left (run_stmt capd rq) stmts h.

Definition cap_mw_stmts : list mw_stmt :=
  [MwStampAll; MwWhen (GMethodEq (s2l "OPTIONS")) (MwSet (s2l "Cache-Control") (s2l "public, max-age=300"))].
Definition cap_install : install_guard := InstallIfNonEmpty.

Definition installed (ig : install_guard) (capd : headers) : bool :=
  match ig with InstallAlways => true | InstallNever => false | InstallIfNonEmpty => negb (is_nil capd) end.

(* the middleware list of the app: the capabilities middleware and the others (opaque header transformers) *)
Inductive mw :=
| MwCap
| MwOther (f : request -> headers -> headers).

(* Response phase of falcon.App.__call__: whatever happened before (a process_request raised, no route
   matched, the responder raised and an error handler filled the response, or the responder returned) has
   produced some header dictionary h0; then process_response of EVERY middleware runs, last-registered
   first (independent_middleware=True). *)
Definition respond (stmts : list mw_stmt) (capd : headers) (mws : list mw) (rq : request) (h0 : headers) : headers :=
  fold_left (fun h m => match m with
                        | MwCap => cap_process_response stmts capd rq h
                        | MwOther f => f rq h
                        end) (rev mws) h0.

(* the list make_wsgi_app builds: other middleware, then (guarded) the capabilities middleware, appended last *)
Definition app_middleware (ig : install_guard) (capd : headers) (others : list mw) : list mw :=
  others ++ (if installed ig capd then [MwCap] else []).

Definition is_cap_name (k : list N) : bool := existsb (fun f => bytes_eqb (lower (fname f)) k) all_features.
Definition wire (h : headers) : headers := map (fun kv => (lower (fst kv), snd kv)) h.

(* ------------------------------------------------------------------ *)
(* the client probe                                                    *)
(* ------------------------------------------------------------------ *)
Definition cut_semicolon (t : list N) : list N :=
  if existsb (N.eqb 59) t then strip (hd [] (split_on 59 [] t)) else t.
Fixpoint find_enc (t : list N) (es : list enc) : option enc :=
  match es with
  | [] => None
  | e :: r => if bytes_eqb (enc_value e) t then Some e else find_enc t r
  end.
Fixpoint parse_enc_tokens (toks : list (list N)) (seen : list enc) : list enc :=
  match toks with
  | [] => []
  | raw :: r =>
      let t := lower (strip raw) in
      if is_nil t then parse_enc_tokens r seen
      else match find_enc (cut_semicolon t) all_encs with
           | Some e => if existsb (enc_eqb e) seen then parse_enc_tokens r seen
                       else e :: parse_enc_tokens r (e :: seen)
           | None => parse_enc_tokens r seen
           end
  end.
Definition parse_encoding_list (s : list N) : list enc := parse_enc_tokens (split_on 44 [] s) [].

Record caps := {
  k_max_request : option Z;
  k_max_response : option Z;
  k_max_ext_response : option Z;
  k_externalization : bool;
  k_upload_url : bool;
  k_max_upload : option Z;
  k_encodings : list enc;
  k_sticky : bool;
  k_sticky_ttl : option Z;
  k_echo : list (list N)
}.

Definition truthy_str (o : option (list N)) : bool := match o with Some (_ :: _) => true | _ => false end.
(* headers.get(NAME) or headers.get(NAME.lower()) on a plain dict *)
Definition get_or (h : headers) (k : list N) : option (list N) :=
  if truthy_str (lookup k h) then lookup k h else lookup (lower k) h.
(* with contextlib.suppress(ValueError): x = int(raw) *)
Definition int_suppress (raw : option (list N)) : option Z :=
  match raw with None => None | Some s => py_int s end.
Definition is_true_str (raw : option (list N)) : bool :=
  match raw with Some s => bytes_eqb s lit_true | None => false end.

Definition probe (h : headers) : caps :=
  let enc_raw := match lookup (fname FEncodings) h with
                 | Some v => Some v
                 | None => lookup (lower (fname FEncodings)) h
                 end in
  let echo_raw := get_or h (fname FStickyEcho) in
  {| k_max_request := int_suppress (get_or h (fname FMaxRequest));
     k_max_response := int_suppress (get_or h (fname FMaxResponse));
     k_max_ext_response := int_suppress (get_or h (fname FMaxExtResponse));
     k_externalization := is_true_str (get_or h (fname FExternalization));
     k_upload_url := is_true_str (get_or h (fname FUploadUrl));
     k_max_upload := int_suppress (get_or h (fname FMaxUpload));
     k_encodings := match enc_raw with
                    | None => [Zstd]
                    | Some v => if is_nil (strip v) then []
                                else match parse_encoding_list v with [] => [Zstd] | p => p end
                    end;
     k_sticky := is_true_str (get_or h (fname FStickyEnabled));
     k_sticky_ttl := int_suppress (get_or h (fname FStickyTtl));
     k_echo := if truthy_str echo_raw
               then filter (fun n => negb (is_nil n)) (map strip (split_on 44 [] (match echo_raw with Some v => v | None => [] end)))
               else [] |}.

(* what the probe should report for a configuration *)
Definition caps_of_config (c : config) : caps :=
  {| k_max_request := c_max_request c;
     k_max_response := c_max_response c;
     k_max_ext_response := c_max_ext_response c;
     k_externalization := c_ext_config c && c_ext_storage c;
     k_upload_url := c_upload_provider c;
     k_max_upload := if c_upload_provider c then c_max_upload c else None;
     k_encodings := enabled_encodings c;
     k_sticky := c_sticky c;
     k_sticky_ttl := if c_sticky c then Some (c_ttl_int c) else None;
     k_echo := if c_sticky c then c_echo c else [] |}.

(* header names the client can list back: non-empty, no comma, no white space at either end *)
Definition name_ok (n : list N) : bool :=
  match n with
  | [] => false
  | c :: _ => negb (is_ws c) && negb (is_ws (last n 0)) && negb (existsb (N.eqb 44) n)
  end.
Definition echo_names_ok (c : config) : Prop := forallb name_ok (c_echo c) = true.

(* ------------------------------------------------------------------ *)
(* correspondence entry points                                         *)
(* ------------------------------------------------------------------ *)
Definition cfg_tuple : Type :=
  (option Z * option Z * option Z * (bool * bool) * (bool * option Z) * (bool * bool * bool)
   * (bool * bool) * (bool * (Z * bool) * list (list N)))%type.
Definition cfg_of (t : cfg_tuple) : config :=
  let '(mreq, mresp, mext, (ec, es), (up, mup), (comp, zrt, zdis), (proof, intro), (st, (ti, tf), echo)) := t in
  {| c_max_request := mreq; c_max_response := mresp; c_max_ext_response := mext;
     c_ext_config := ec; c_ext_storage := es; c_upload_provider := up; c_max_upload := mup;
     c_compression := comp; c_zstd_runtime := zrt; c_zstd_disabled := zdis;
     c_proof_required := proof; c_introspect := intro;
     c_sticky := st; c_ttl_int := ti; c_ttl_frac := tf; c_echo := echo |}.

(* the capability-named headers (and Cache-Control on OPTIONS) of a response of the app, starting from a
   response without any: input (configuration, request method, req_succeeded) *)
Definition cache_control : list N := lower (s2l "Cache-Control").
Definition run_case_with (tbl : list row) (stmts : list mw_stmt) (ig : install_guard)
           (x : cfg_tuple * list N * bool) : option headers :=
  let '(t, m, ok) := x in
  match cap_headers_with tbl (cfg_of t) with
  | None => None
  | Some capd =>
      let rq := {| r_method := m; r_succeeded := ok |} in
      Some (filter (fun kv => is_cap_name (fst kv) || bytes_eqb (fst kv) cache_control)
                   (respond stmts capd (app_middleware ig capd []) rq []))
  end.
Definition run_case := run_case_with cap_table cap_mw_stmts cap_install.

Definition caps_tuple : Type :=
  (option Z * option Z * option Z * bool * bool * option Z * list N * bool * option Z * list (list N))%type.
Definition enc_code (e : enc) : N := match e with Zstd => 0 | Gzip => 1 | Identity => 2 end.
Definition caps_to_tuple (k : caps) : caps_tuple :=
  (k_max_request k, k_max_response k, k_max_ext_response k, k_externalization k, k_upload_url k,
   k_max_upload k, map enc_code (k_encodings k), k_sticky k, k_sticky_ttl k, k_echo k).
(* the probe on an arbitrary (lower-case keyed) header dictionary *)
Definition run_probe (h : headers) : caps_tuple := caps_to_tuple (probe h).
(* the probe against the model server *)
Definition run_roundtrip (t : cfg_tuple) : option caps_tuple :=
  match run_case (t, s2l "OPTIONS", true) with
  | None => None
  | Some h => Some (run_probe h)
  end.
(* int() on its own (environment fact) *)
Definition run_int (s : list N) : option Z := py_int s.
Definition run_strip (s : list N) : list N := strip s.
