(* Model of precondition-gate composition (property C24):
     vgi_rpc/http/_proof.py    proxy_proof_gate (the closure `gate`, modes allow / require), ProofError
     vgi_rpc/http/_bearer.py   PreconditionGate, require_all (the closure `authenticate`), chain_authenticate
     vgi_rpc/rpc/_common.py    AuthContext, AuthContext.anonymous()
   What verify_proof answers for a given header is an INPUT of this model (it is property C22's subject);
   everything that happens around that answer is modelled: header pre-checks, mode branch, exception
   classes, the order in which gate and inner authenticator run, the identity that is built.
   The bodies of require_all.authenticate, the gate's pre-checks / mode guard / allow-mode claims and the
   constructor guards of chain_authenticate are *data* here (small programs); coq/gen/G_Gates.v holds the
   same data regenerated from the source on every run and tie/T_Gates.v proves the two equal.
   Executable definitions only; proofs are in proof/L_Gates.v. *)
From Coq Require Import List NArith Bool.
Import ListNotations.
Open Scope N_scope.

(* ------------------------------------------------------------------ vocabulary *)
Inductive mode := MOff | MAllow | MRequire.
Definition mode_eqb (a b : mode) : bool :=
  match a, b with MOff, MOff | MAllow, MAllow | MRequire, MRequire => true | _, _ => false end.

(* ProofError.reason: the closed set of docs/proxy-proof-spec.md section 6 *)
Inductive preason := RNoProof | RMalformed | RUnknownKid | RExpired | RNotYetValid | RBadMac | RReplayed.

(* the VGI-Proxy-Proof header as the gate sees it *)
Inductive hdr :=
| HAbsent                         (* req.get_header(...) is None *)
| HEmpty                          (* present and empty *)
| HMulti                          (* contains "," : repeated header, never reaches verify_proof *)
| HToken (v : option preason).    (* a single token; v = answer of verify_proof (None = verified) *)

(* value of claims.get("verified") / claims.get("proxy") *)
Inductive vfield := VTrue | VFalse | VOther.            (* "true" | "false" | anything else or missing *)
Inductive pxfield := PxLabel | PxEmpty | PxNone.        (* the configured label | "" | missing *)
Record gclaims := { gc_verified : vfield; gc_proxy : pxfield; gc_kid : bool; gc_reason : option preason }.

Inductive exn :=
| XProof (r : preason)     (* ProofError(reason): a PermissionError, not a ValueError *)
| XAuthFailure (code : N)  (* AuthFailure(AuthReason #code): a ValueError *)
| XValue                   (* any other ValueError *)
| XPerm                    (* any other PermissionError *)
| XType                    (* TypeError *)
| XOther.                  (* anything else *)

Inductive dom := DNone | DGate | DUser (n : N).            (* None | gate.name | some other string *)
Inductive prin := PNone | PEmpty | PLabel | PUser (n : N). (* None | "" | the verified proxy's label | other *)
Inductive ckey := KGate | KUser (n : N).                   (* gate.claims_key | other key *)
Inductive cval := CVGate (c : gclaims) | CVUser (n : N).
Record actx := { a_domain : dom; a_auth : bool; a_principal : prin; a_claims : list (ckey * cval) }.

(* AuthContext.anonymous() *)
Definition anonymous : actx := {| a_domain := DNone; a_auth := false; a_principal := PNone; a_claims := [] |}.

Inductive gres := GClaims (c : gclaims) | GRaise (e : exn).   (* what calling a gate does *)
Inductive ires := ICtx (c : actx) | IRaise (e : exn).         (* what calling an authenticator does *)
Inductive ev := EvGate | EvInner (id : N).                    (* invocation log *)
Inductive res := ROk (c : actx) | RExn (e : exn) | RNone.     (* RNone: fell off the end (returns None) *)

(* ------------------------------------------------------------------ proxy_proof_gate *)
(* header tests of the closure `gate`, in source order, each raising ProofError(reason) *)
Inductive hdrtest := TNone (* `if raw is None` *) | TFalsy (* `if not raw` *) | TComma (* `"," in raw` *).
Definition hdrtest_holds (t : hdrtest) (h : hdr) : bool :=
  match t, h with
  | TNone, HAbsent => true
  | TFalsy, (HAbsent | HEmpty) => true
  | TComma, HMulti => true
  | _, _ => false
  end.

Definition ok_claims : gclaims := {| gc_verified := VTrue; gc_proxy := PxLabel; gc_kid := true; gc_reason := None |}.

(* the try-block: pre-checks in order, then verify_proof *)
Fixpoint gate_try (pre : list (hdrtest * preason)) (h : hdr) : option preason :=
  match pre with
  | (t, r) :: rest => if hdrtest_holds t h then Some r else gate_try rest h
  | [] => match h with
          | HToken v => v
          | HMulti => Some RMalformed    (* verify_proof: split(".") never yields 5 valid fields with a "," *)
          | HAbsent | HEmpty => Some RMalformed   (* verify_proof(None/"") is not reached by the real code *)
          end
  end.

Definition proof_gate_with (pre : list (hdrtest * preason)) (required : mode -> bool)
           (fail_claims : preason -> gclaims) (m : mode) (h : hdr) : gres :=
  match gate_try pre h with
  | None => GClaims ok_claims
  | Some r => if required m then GRaise (XProof r) else GClaims (fail_claims r)
  end.

(* the data as it is in the source today *)
(* absent -> no_proof; present but empty -> malformed (proxy-proof-spec section 6, row 2); repeated -> malformed *)
Definition gate_pre : list (hdrtest * preason) := [(TNone, RNoProof); (TFalsy, RMalformed); (TComma, RMalformed)].
Definition required (m : mode) : bool := mode_eqb m MRequire.
Definition fail_claims (r : preason) : gclaims :=
  {| gc_verified := VFalse; gc_proxy := PxEmpty; gc_kid := false; gc_reason := Some r |}.
Definition proof_gate := proof_gate_with gate_pre required fail_claims.

(* proxy_proof_gate(config): ValueError for mode "off", else a PreconditionGate *)
Definition gate_ctor_with (off_guard : mode -> bool) (m : mode) : option exn :=
  if off_guard m then Some XValue else None.
Definition off_guard (m : mode) : bool := mode_eqb m MOff.
Definition gate_ctor := gate_ctor_with off_guard.

Definition hdr_verifies (h : hdr) : bool := match h with HToken None => true | _ => false end.

(* ------------------------------------------------------------------ require_all *)
(* the closure `authenticate` as a small program *)
Inductive cond :=
| CInnerNone                   (* inner is None *)
| CVerifiedIs (v : vfield)     (* claims.get("verified") == "true" / "false" *)
| CNot (c : cond).
Inductive dsrc := SDNone | SDGateName.          (* domain=None | domain=gate.name *)
Inductive psrc := SPNone | SPClaimsProxy.       (* principal omitted/None | principal=claims.get("proxy") *)
Inductive clsrc := SCEmpty | SCGateOnly.        (* claims omitted | claims={gate.claims_key: claims} *)
Inductive stmt :=
| SCallGate                                    (* claims = gate(req) *)
| SCallInner                                   (* ctx = inner(req) *)
| SIf (c : cond) (body : list stmt)            (* if c: body   (no else) *)
| SRetMk (d : dsrc) (a : bool) (p : psrc) (cl : clsrc)   (* return AuthContext(...) *)
| SRetMerged.   (* merged = dict(ctx.claims); merged[gate.claims_key] = claims; return replace(ctx, claims=merged) *)

Record st := { s_claims : option gclaims; s_ctx : option actx; s_log : list ev }.
Inductive outcome := ODone (r : res) (log : list ev) | OFall (s : st).

Definition is_kgate (k : ckey) : bool := match k with KGate => true | _ => false end.
(* dict update, compared up to key order: drop an existing gate key, put the gate's claims last *)
Definition set_gate_claims (cl : list (ckey * cval)) (c : gclaims) : list (ckey * cval) :=
  filter (fun kv => negb (is_kgate (fst kv))) cl ++ [(KGate, CVGate c)].

Fixpoint eval_cond (inner_none : bool) (s : st) (c : cond) : option bool :=
  match c with
  | CInnerNone => Some inner_none
  | CVerifiedIs v =>
      match s_claims s with
      | None => None
      | Some gc => Some (match v, gc_verified gc with
                         | VTrue, VTrue | VFalse, VFalse => true
                         | _, _ => false end)
      end
  | CNot c' => option_map negb (eval_cond inner_none s c')
  end.

Definition principal_of (gc : gclaims) : prin :=
  match gc_proxy gc with PxLabel => PLabel | PxEmpty => PEmpty | PxNone => PNone end.

Section Exec.
  Variable g : gres.
  Variable inner : option (N * ires).

  Fixpoint exec_stmt (p : stmt) (s : st) : outcome :=
    match p with
    | SCallGate =>
        let log := s_log s ++ [EvGate] in
        match g with
        | GClaims c => OFall {| s_claims := Some c; s_ctx := s_ctx s; s_log := log |}
        | GRaise e => ODone (RExn e) log
        end
    | SCallInner =>
        match inner with
        | None => ODone (RExn XType) (s_log s)            (* 'NoneType' object is not callable *)
        | Some (id, o) =>
            let log := s_log s ++ [EvInner id] in
            match o with
            | ICtx c => OFall {| s_claims := s_claims s; s_ctx := Some c; s_log := log |}
            | IRaise e => ODone (RExn e) log
            end
        end
    | SIf c body =>
        match eval_cond (match inner with None => true | Some _ => false end) s c with
        | None => ODone (RExn XOther) (s_log s)           (* unbound local *)
        | Some false => OFall s
        | Some true =>
            (fix go (b : list stmt) (s : st) : outcome :=
               match b with
               | [] => OFall s
               | q :: r => match exec_stmt q s with
                           | ODone x l => ODone x l
                           | OFall s' => go r s'
                           end
               end) body s
        end
    | SRetMk d a p cl =>
        let need_claims := match p, cl with SPNone, SCEmpty => false | _, _ => true end in
        match s_claims s, need_claims with
        | None, true => ODone (RExn XOther) (s_log s)
        | oc, _ =>
            let gc := match oc with Some c => c | None => ok_claims end in
            ODone (ROk {| a_domain := match d with SDNone => DNone | SDGateName => DGate end;
                          a_auth := a;
                          a_principal := match p with SPNone => PNone | SPClaimsProxy => principal_of gc end;
                          a_claims := match cl with SCEmpty => [] | SCGateOnly => [(KGate, CVGate gc)] end |})
                  (s_log s)
        end
    | SRetMerged =>
        match s_ctx s, s_claims s with
        | Some c, Some gc =>
            ODone (ROk {| a_domain := a_domain c; a_auth := a_auth c; a_principal := a_principal c;
                          a_claims := set_gate_claims (a_claims c) gc |}) (s_log s)
        | _, _ => ODone (RExn XOther) (s_log s)
        end
    end.

  Fixpoint exec_block (b : list stmt) (s : st) : outcome :=
    match b with
    | [] => OFall s
    | q :: r => match exec_stmt q s with
                | ODone x l => ODone x l
                | OFall s' => exec_block r s'
                end
    end.

  Definition run_body (b : list stmt) : res * list ev :=
    match exec_block b {| s_claims := None; s_ctx := None; s_log := [] |} with
    | ODone x l => (x, l)
    | OFall s => (RNone, s_log s)
    end.
End Exec.

(* require_all.authenticate as it is in the source today (with the allow-mode repair) *)
Definition ra_body : list stmt :=
  [ SCallGate;
    SIf CInnerNone
        [ SIf (CVerifiedIs VFalse) [ SRetMk SDNone false SPNone SCGateOnly ];
          SRetMk SDGateName true SPClaimsProxy SCGateOnly ];
    SCallInner;
    SRetMerged ].

Definition require_all_with (body : list stmt) (g : gres) (inner : option (N * ires)) : res * list ev :=
  run_body g inner body.
Definition require_all := require_all_with ra_body.

(* require_all(gate, inner) at construction: TypeError unless gate is a PreconditionGate *)
Definition ra_ctor_with (guard : bool) (is_gate : bool) : option exn :=
  if guard && negb is_gate then Some XType else None.
Definition ra_ctor := ra_ctor_with true.

(* the composition the property is about *)
Definition ra_proof (m : mode) (h : hdr) (inner : option (N * ires)) : res * list ev :=
  require_all (proof_gate m h) inner.

(* a worker without any gate: what "an anonymous request" gets *)
Definition ungated (inner : option (N * ires)) : res * list ev :=
  match inner with
  | None => (ROk anonymous, [])
  | Some (id, ICtx c) => (ROk c, [EvInner id])
  | Some (id, IRaise e) => (RExn e, [EvInner id])
  end.

(* ------------------------------------------------------------------ chain_authenticate *)
Inductive member := MemGate | MemAuth.
Definition is_memgate (x : member) : bool := match x with MemGate => true | MemAuth => false end.
Inductive cguard := GEmptyValueError | GAnyGateTypeError.   (* constructor guards, in source order *)

Fixpoint chain_ctor_with (gs : list cguard) (ms : list member) : option exn :=
  match gs with
  | [] => None
  | GEmptyValueError :: r => match ms with [] => Some XValue | _ => chain_ctor_with r ms end
  | GAnyGateTypeError :: r => if existsb is_memgate ms then Some XType else chain_ctor_with r ms
  end.
Definition chain_guards : list cguard := [GEmptyValueError; GAnyGateTypeError].
Definition chain_ctor := chain_ctor_with chain_guards.

(* exception classes the chain's `except` clause swallows *)
Inductive excclass := ClsValueError | ClsPermissionError | ClsException.
Definition exn_in_class (e : exn) (c : excclass) : bool :=
  match c, e with
  | ClsException, _ => true
  | ClsValueError, (XAuthFailure _ | XValue) => true
  | ClsPermissionError, (XProof _ | XPerm) => true
  | _, _ => false
  end.
Definition swallowed_with (cs : list excclass) (e : exn) : bool := existsb (exn_in_class e) cs.
Definition chain_swallows : list excclass := [ClsValueError].

(* AuthReason members by index *)
Definition A_MISSING : N := 0.
Definition A_INVALID : N := 1.
Definition A_EXPIRED : N := 2.
Definition A_SCOPE : N := 3.
Definition A_PROXY : N := 4.
Definition A_UNAUTHORIZED : N := 5.

Definition code_of (e : exn) : N := match e with XAuthFailure c => c | _ => A_UNAUTHORIZED end.
Definition combine_reasons (codes : list N) : N :=
  match codes with
  | [] => A_UNAUTHORIZED
  | _ => match find (fun c => negb (c =? A_MISSING)) codes with
         | Some c => c
         | None => A_MISSING
         end
  end.

(* members are given by what calling them does: result and the invocation events it causes *)
Fixpoint chain_go (sw : list excclass) (ms : list (res * list ev)) (codes : list N) (log : list ev)
  : res * list ev :=
  match ms with
  | [] => (RExn (XAuthFailure (combine_reasons codes)), log)
  | (r, l) :: rest =>
      match r with
      | RExn e => if swallowed_with sw e then chain_go sw rest (codes ++ [code_of e]) (log ++ l)
                  else (RExn e, log ++ l)
      | _ => (r, log ++ l)
      end
  end.
Definition chain_run_with (sw : list excclass) (ms : list (res * list ev)) := chain_go sw ms [] [].
Definition chain_run := chain_run_with chain_swallows.

Definition auth_member (a : N * ires) : res * list ev :=
  match a with
  | (id, ICtx c) => (ROk c, [EvInner id])
  | (id, IRaise e) => (RExn e, [EvInner id])
  end.

(* ------------------------------------------------------------------ histories on ONE gate instance: the replay cache *)
(* NonceCache as an insertion-ordered list of nonces (oldest first) with a hard capacity; every history of
   interest is shorter than the TTL, so expiry is not modelled.  check_and_add: a seen nonce is a replay and
   changes nothing; a fresh one evicts from the front until there is room, then is appended. *)
Definition nonce_seen (n : N) (c : list N) : bool := existsb (N.eqb n) c.
Definition check_and_add (cap : nat) (n : N) (c : list N) : bool * list N :=
  if nonce_seen n c then (false, c)
  else (true, skipn (length c + 1 - cap) c ++ [n]).

(* one presentation = (what the verifier answers WITHOUT a replay cache, the token's nonce).
   verify_proof consults the cache only after every other check passed (tie/T_Gates.v proves this of the
   regenerated verify_proof), so a presentation the uncached verifier refuses never touches the cache. *)
Definition hist_step (cap : nat) (m : mode) (c : list N) (p : hdr * N) : gres * list N :=
  if hdr_verifies (fst p) then
    let r := check_and_add cap (snd p) c in
    (proof_gate m (if fst r then HToken None else HToken (Some RReplayed)), snd r)
  else (proof_gate m (fst p), c).

Fixpoint hist_run (cap : nat) (m : mode) (c : list N) (ps : list (hdr * N)) : list gres * list N :=
  match ps with
  | [] => ([], c)
  | p :: r => let s := hist_step cap m c p in
              let t := hist_run cap m (snd s) r in
              (fst s :: fst t, snd t)
  end.

(* ------------------------------------------------------------------ correspondence entry point *)
Inductive case :=
| CaseGateCtor (m : mode)
| CaseGate (m : mode) (h : hdr)                                   (* proxy_proof_gate(cfg)(req) *)
| CaseRA (m : mode) (h : hdr) (inner : option (N * ires))         (* require_all(proxy_proof_gate(cfg), inner)(req) *)
| CaseRACustom (g : gres) (inner : option (N * ires))             (* require_all(PreconditionGate(custom), inner)(req) *)
| CaseRACtor (is_gate : bool)
| CaseChainCtor (ms : list member)
| CaseChain (ms : list (N * ires))                                (* chain_authenticate(a1, a2, ...)(req) *)
| CaseChainRA (m : mode) (h : hdr) (a : N * ires) (b : N * ires)  (* chain(require_all(gate, a), b)(req) *)
  (* chain(require_all(gate_1, inner_1), ..., require_all(gate_n, inner_n))(req) around DISTINCT gates, one request:
     each wrapper is given the mode of its own gate and the header as its own gate sees it *)
| CaseChainMulti (ws : list (mode * hdr * option (N * ires)))
| CaseChainMultiCustom (ws : list (gres * option (N * ires)))
  (* successive requests against one proxy_proof_gate instance with replay_capacity = cap, empty cache first *)
| CaseHist (cap : nat) (m : mode) (ps : list (hdr * N)).

Definition enc_preason (r : preason) : N :=
  match r with RNoProof => 1 | RMalformed => 2 | RUnknownKid => 3 | RExpired => 4 | RNotYetValid => 5
          | RBadMac => 6 | RReplayed => 7 end.
Definition enc_exn (e : exn) : list N :=
  match e with
  | XProof r => [1; enc_preason r] | XAuthFailure c => [2; c] | XValue => [3] | XPerm => [4]
  | XType => [5] | XOther => [6]
  end.
Definition enc_gclaims (c : gclaims) : list N :=
  [ match gc_verified c with VTrue => 1 | VFalse => 0 | VOther => 2 end;
    match gc_proxy c with PxLabel => 1 | PxEmpty => 0 | PxNone => 2 end;
    (if gc_kid c then 1 else 0);
    match gc_reason c with None => 0 | Some r => enc_preason r end ].
Definition enc_dom (d : dom) : list N := match d with DNone => [0] | DGate => [1] | DUser n => [2; n] end.
Definition enc_prin (p : prin) : list N :=
  match p with PNone => [0] | PEmpty => [1] | PLabel => [2] | PUser n => [3; n] end.
Definition enc_kv (kv : ckey * cval) : list N :=
  (match fst kv with KGate => [0] | KUser n => [1; n] end) ++
  (match snd kv with CVGate c => 0 :: enc_gclaims c | CVUser n => [1; n] end).
Definition enc_actx (c : actx) : list N :=
  enc_dom (a_domain c) ++ [if a_auth c then 1 else 0] ++ enc_prin (a_principal c) ++
  [N.of_nat (length (a_claims c))] ++ flat_map enc_kv (a_claims c).
Definition enc_res (r : res) : list N :=
  match r with ROk c => 10 :: enc_actx c | RExn e => 11 :: enc_exn e | RNone => [12] end.
Definition enc_ev (e : ev) : list N := match e with EvGate => [20] | EvInner n => [21; n] end.
Definition enc_out (x : res * list ev) : list N := enc_res (fst x) ++ [255] ++ flat_map enc_ev (snd x).
Definition enc_ctor (x : option exn) : list N := match x with None => [30] | Some e => 31 :: enc_exn e end.
Definition enc_gres (x : gres) : list N :=
  match x with GClaims c => 40 :: enc_gclaims c | GRaise e => 41 :: enc_exn e end.

Definition run_case (c : case) : list N :=
  match c with
  | CaseGateCtor m => enc_ctor (gate_ctor m)
  | CaseGate m h => enc_gres (proof_gate m h)
  | CaseRA m h inner => enc_out (ra_proof m h inner)
  | CaseRACustom g inner => enc_out (require_all g inner)
  | CaseRACtor b => enc_ctor (ra_ctor b)
  | CaseChainCtor ms => enc_ctor (chain_ctor ms)
  | CaseChain ms => enc_out (chain_run (map auth_member ms))
  | CaseChainRA m h a b => enc_out (chain_run [ra_proof m h (Some a); auth_member b])
  | CaseChainMulti ws => enc_out (chain_run (map (fun w => ra_proof (fst (fst w)) (snd (fst w)) (snd w)) ws))
  | CaseChainMultiCustom ws => enc_out (chain_run (map (fun w => require_all (fst w) (snd w)) ws))
  | CaseHist cap m ps => flat_map enc_gres (fst (hist_run cap m [] ps))
  end.
