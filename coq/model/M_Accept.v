(* C33 -- executable small-step interleaving models (no proofs here).

   Part 1  [astep]  the threaded accept loop  vgi_rpc/rpc/_transport.py::_serve_socket_threaded
   Part 2  [lstep]  launcher processes, gc passes and worker processes around one command hash
                    vgi_rpc/launcher.py::launch / gc_state_dir  and  _transport.py::serve_unix

   A schedule is a list of actions of ARBITRARY length and content; an action that is not enabled
   (a blocked thread, an id that names nothing, a finished thread) is a stutter.  One action = the
   code a thread executes from one scheduling point to the next; scheduling points are exactly the
   places where the real code touches a primitive shared with the other threads/processes
   (state_lock, the semaphore, sock.accept, server.serve, Timer expiry -- resp. the file lock, the
   socket path, Popen, the ready line).  harness/c33_sched.py parks the real code at the same points.

   The two booleans [c_clear]/[c_guard] say what the SOURCE does (they are regenerated from the
   source on every run, gen/G_Accept.v):
     c_clear  the accept path clears shutdown_requested under the state lock
     c_guard  the timer callback ignores a timer that was cancelled/superseded after its wait elapsed *)
From Coq Require Import List NArith Bool Arith.
Import ListNotations.
Open Scope N_scope.

Fixpoint upd_nth {A : Type} (n : nat) (f : A -> A) (l : list A) : list A :=
  match l, n with
  | [], _ => []
  | x :: r, O => f x :: r
  | x :: r, S m => x :: upd_nth m f r
  end.

(* ------------------------------------------------------------------------------------------ *)
(* Part 1: accept loop                                                                          *)
(* ------------------------------------------------------------------------------------------ *)

Record acfg := { c_clear : bool; c_guard : bool; c_idle : option N; c_maxconn : option N; c_floor : N }.

(* the acceptor is parked BEFORE: the initial lock section, sock.accept(), the lock section that
   counts the connection, the lock section that registers+starts the thread, the lock section
   after an accept timeout, the lock section of the finally block; or it has returned *)
Inductive apc := PInit | PAccept | PInc | PAdd | PChk | PFin | PDone.
(* a connection thread is parked: before it starts (semaphore), inside server.serve, before the
   lock section that un-counts it; or it has finished *)
Inductive hph := HStart | HServing | HDec | HDone.
(* a Timer thread: waiting for its interval, past the `finished.is_set()` test and parked at the
   state lock inside the callback, or finished *)
Inductive tph := TWait | TExpired | TDone.
Record tmr := { t_deadline : N; t_cancelled : bool; t_ph : tph }.

Record ast := {
  clock : N;                 (* logical time *)
  pending : N;               (* connections in the listen backlog *)
  count : N;                 (* conn_count *)
  timer : option nat;        (* `timer` (index of the Timer object, in creation order) *)
  flag : bool;               (* shutdown_requested *)
  permits : option N;        (* semaphore value (None = no max_connections) *)
  pc : apc;
  timers : list tmr;
  handlers : list hph;
  zero_since : N;            (* ghost: when conn_count last became 0 (or the loop started) *)
  cur_T : N;                 (* ghost: the timeout that applies since then (startup grace / idle_timeout) *)
  brk : option (N * bool * N * N);  (* ghost: (conn_count, all connection threads finished, zero_since+cur_T, clock)
                                       at the moment the loop broke on shutdown_requested *)
  oserr : bool               (* the loop was left through the `except OSError` arm *)
}.

Definition set_clock v s := Build_ast v (pending s) (count s) (timer s) (flag s) (permits s) (pc s) (timers s) (handlers s) (zero_since s) (cur_T s) (brk s) (oserr s).
Definition set_pending v s := Build_ast (clock s) v (count s) (timer s) (flag s) (permits s) (pc s) (timers s) (handlers s) (zero_since s) (cur_T s) (brk s) (oserr s).
Definition set_count v s := Build_ast (clock s) (pending s) v (timer s) (flag s) (permits s) (pc s) (timers s) (handlers s) (zero_since s) (cur_T s) (brk s) (oserr s).
Definition set_timer v s := Build_ast (clock s) (pending s) (count s) v (flag s) (permits s) (pc s) (timers s) (handlers s) (zero_since s) (cur_T s) (brk s) (oserr s).
Definition set_flag v s := Build_ast (clock s) (pending s) (count s) (timer s) v (permits s) (pc s) (timers s) (handlers s) (zero_since s) (cur_T s) (brk s) (oserr s).
Definition set_permits v s := Build_ast (clock s) (pending s) (count s) (timer s) (flag s) v (pc s) (timers s) (handlers s) (zero_since s) (cur_T s) (brk s) (oserr s).
Definition set_pc v s := Build_ast (clock s) (pending s) (count s) (timer s) (flag s) (permits s) v (timers s) (handlers s) (zero_since s) (cur_T s) (brk s) (oserr s).
Definition set_timers v s := Build_ast (clock s) (pending s) (count s) (timer s) (flag s) (permits s) (pc s) v (handlers s) (zero_since s) (cur_T s) (brk s) (oserr s).
Definition set_handlers v s := Build_ast (clock s) (pending s) (count s) (timer s) (flag s) (permits s) (pc s) (timers s) v (zero_since s) (cur_T s) (brk s) (oserr s).
Definition set_zero z t s := Build_ast (clock s) (pending s) (count s) (timer s) (flag s) (permits s) (pc s) (timers s) (handlers s) z t (brk s) (oserr s).
Definition set_brk v s := Build_ast (clock s) (pending s) (count s) (timer s) (flag s) (permits s) (pc s) (timers s) (handlers s) (zero_since s) (cur_T s) v (oserr s).
Definition set_oserr v s := Build_ast (clock s) (pending s) (count s) (timer s) (flag s) (permits s) (pc s) (timers s) (handlers s) (zero_since s) (cur_T s) (brk s) v.

Definition grace (cfg : acfg) (i : N) : N := N.max i (c_floor cfg).

Definition ainit (cfg : acfg) : ast :=
  Build_ast 0 0 0 None false (c_maxconn cfg)
            (match c_idle cfg with Some _ => PInit | None => PAccept end) [] [] 0 0 None false.

Definition tcancel (t : tmr) : tmr := Build_tmr (t_deadline t) true (t_ph t).
Definition tphase (p : tph) (t : tmr) : tmr := Build_tmr (t_deadline t) (t_cancelled t) p.

(* _cancel_timer_locked *)
Definition cancel_timer (s : ast) : ast :=
  match timer s with
  | Some k => set_timer None (set_timers (upd_nth k tcancel (timers s)) s)
  | None => s
  end.

(* _arm_timer_locked(secs): cancel the current Timer object if any, create+start a new one *)
Definition arm (secs : N) (s : ast) : ast :=
  let s1 := match timer s with
            | Some k => set_timers (upd_nth k tcancel (timers s)) s
            | None => s
            end in
  set_timer (Some (length (timers s1)))
            (set_timers (timers s1 ++ [Build_tmr (clock s1 + secs) false TWait]) s1).

Definition is_done (h : hph) : bool := match h with HDone => true | _ => false end.

Inductive aact :=
| ATick (d : N)      (* environment: logical time advances by d *)
| AClient            (* environment: a client connects (lands in the listen backlog) *)
| AAcc               (* the acceptor runs to its next scheduling point; at sock.accept() the outcome is
                        a connection if one is pending, else the 0.5 s accept timeout *)
| AAccErr            (* environment fault: sock.accept() raises OSError (only at sock.accept()) *)
| AHnd (i : nat)     (* connection thread i runs to its next scheduling point
                        (at HServing: the client disconnects and server.serve returns) *)
| ATmr (k : nat).    (* Timer thread k runs to its next scheduling point *)

Definition acc_step (cfg : acfg) (s : ast) : ast :=
  match pc s with
  | PInit =>
      match c_idle cfg with
      | Some i => set_pc PAccept (arm (grace cfg i) (set_zero (clock s) (grace cfg i) s))
      | None => set_pc PAccept s
      end
  | PAccept =>
      if 0 <? pending s then set_pc PInc (set_pending (pending s - 1) s)
      else set_pc PChk s
  | PInc =>
      let s1 := cancel_timer (set_count (count s + 1) s) in
      set_pc PAdd (if c_clear cfg then set_flag false s1 else s1)
  | PAdd => set_pc PAccept (set_handlers (handlers s ++ [HStart]) s)
  | PChk =>
      if flag s
      then set_pc PFin (set_brk (Some (count s, forallb is_done (handlers s), zero_since s + cur_T s, clock s)) s)
      else set_pc PAccept s
  | PFin => set_pc PDone (cancel_timer s)
  | PDone => s
  end.

Definition hnd_step (cfg : acfg) (i : nat) (s : ast) : ast :=
  match nth_error (handlers s) i with
  | None => s
  | Some HStart =>
      match permits s with
      | Some p => if p =? 0 then s
                  else set_permits (Some (p - 1)) (set_handlers (upd_nth i (fun _ => HServing) (handlers s)) s)
      | None => set_handlers (upd_nth i (fun _ => HServing) (handlers s)) s
      end
  | Some HServing =>
      set_permits (match permits s with Some p => Some (p + 1) | None => None end)
                  (set_handlers (upd_nth i (fun _ => HDec) (handlers s)) s)
  | Some HDec =>
      let s1 := set_handlers (upd_nth i (fun _ => HDone) (handlers s)) (set_count (count s - 1) s) in
      match c_idle cfg with
      | Some t => if count s1 =? 0 then arm t (set_zero (clock s1) t s1) else s1
      | None => s1
      end
  | Some HDone => s
  end.

Definition opt_nat_eqb (o : option nat) (k : nat) : bool :=
  match o with Some j => Nat.eqb j k | None => false end.

Definition tmr_step (cfg : acfg) (k : nat) (s : ast) : ast :=
  match nth_error (timers s) k with
  | None => s
  | Some t =>
      match t_ph t with
      | TWait =>
          if t_cancelled t then set_timers (upd_nth k (tphase TDone) (timers s)) s
          else if t_deadline t <=? clock s then set_timers (upd_nth k (tphase TExpired) (timers s)) s
          else s
      | TExpired =>
          let s1 := set_timers (upd_nth k (tphase TDone) (timers s)) s in
          if c_guard cfg && negb (opt_nat_eqb (timer s) k) then s1
          else let s2 := set_timer None s1 in
               if count s2 =? 0 then set_flag true s2 else s2
      | TDone => s
      end
  end.

Definition astep (cfg : acfg) (s : ast) (a : aact) : ast :=
  match a with
  | ATick d => set_clock (clock s + d) s
  | AClient => set_pending (pending s + 1) s
  | AAcc => acc_step cfg s
  | AAccErr => match pc s with PAccept => set_oserr true (set_pc PFin s) | _ => s end
  | AHnd i => hnd_step cfg i s
  | ATmr k => tmr_step cfg k s
  end.

Definition arun (cfg : acfg) (sch : list aact) : ast := fold_left (astep cfg) sch (ainit cfg).

(* ---- observation / correspondence entry point ---- *)
Definition apc_code (p : apc) : N :=
  match p with PInit => 0 | PAccept => 1 | PInc => 2 | PAdd => 3 | PChk => 4 | PFin => 5 | PDone => 6 end.
Definition hph_code (h : hph) : N := match h with HStart => 0 | HServing => 1 | HDec => 2 | HDone => 3 end.
Definition tmr_code (t : tmr) : N :=
  (match t_ph t with TWait => 0 | TExpired => 1 | TDone => 2 end) * 2 + (if t_cancelled t then 1 else 0).
Definition optN_code (o : option N) : N := match o with Some p => p + 1 | None => 0 end.
Definition b2n (b : bool) : N := if b then 1 else 0.

(* what the harness can see of the real loop after each step: where the acceptor is parked,
   conn_count, shutdown_requested, which Timer object `timer` names, backlog, semaphore value,
   whether the loop broke on the flag / on OSError, every connection thread's and Timer's phase *)
Definition aobs (s : ast) : list N :=
  [apc_code (pc s); count s; b2n (flag s);
   match timer s with Some k => N.of_nat k + 1 | None => 0 end;
   pending s; optN_code (permits s);
   match brk s with Some _ => 1 | None => 0 end; b2n (oserr s)]
  ++ map hph_code (handlers s) ++ [99] ++ map tmr_code (timers s).

Definition adecode (a : N * N) : aact :=
  match fst a with
  | 0 => ATick (snd a)
  | 1 => AClient
  | 2 => AAcc
  | 3 => AAccErr
  | 4 => AHnd (N.to_nat (snd a))
  | _ => ATmr (N.to_nat (snd a))
  end.

Fixpoint atrace (cfg : acfg) (s : ast) (sch : list aact) : list (list N) :=
  match sch with
  | [] => []
  | a :: r => let s' := astep cfg s a in aobs s' :: atrace cfg s' r
  end.

(* input: ((clear, guard), (idle, maxconn), floor, schedule) *)
Definition run_case (x : (bool * bool) * (option N * option N) * N * list (N * N)) : list (list N) :=
  let '(cg, im, fl, sch) := x in
  let cfg := Build_acfg (fst cg) (snd cg) (fst im) (snd im) fl in
  atrace cfg (ainit cfg) (map adecode sch).

(* ------------------------------------------------------------------------------------------ *)
(* Part 2: launchers, gc passes and workers of ONE command hash                                  *)
(* ------------------------------------------------------------------------------------------ *)

(* a launch() call is parked BEFORE: lock.acquire, _probe, _unlink_stale_socket, Popen,
   stdout.readline, lock.release; or it has returned.
   a gc_state_dir() pass is parked BEFORE: the *.meta scan, the non-blocking acquire, _probe,
   release; or it has returned *)
Inductive ppc := L0 | L1 | L2 | L3 | L4 | L5 | L6 | G0 | G1 | G2 | G3 | G3u | G4.
(* G3u: a gc pass parked before release AFTER it unlinked the stale triple -- including the lock file itself: the
   flock it still holds is on an inode the lock path no longer names, so from that moment the per-hash lock is free
   for every later open() of the path (filelock re-tries when it wins a lock on an unlinked inode). *)
Record proc := { p_pc : ppc; p_w : option nat; p_res : N }.  (* p_res: 0 none, 1 path (probe), 2 path (spawned), 3 RuntimeError *)

(* a worker (serve_unix) is parked BEFORE: _check_no_existing_listener, _unlink_stale_unix_socket,
   bind, listen(+ready line), [W4: inside the accept loop], sock.close, _unlink_bound_unix_socket;
   W7 exited; WFail exited before readiness *)
Inductive wph := W0 | W1 | W2 | W3 | W4 | W5 | W6 | W7 | WFail.
Record wk := { w_ph : wph; w_ready_ok : bool }.   (* w_ready_ok (ghost): the path named this worker when it printed the ready line *)

Record lst := {
  lock : option nat;      (* who holds a flock on the inode the lock PATH currently names *)
  fs : option nat;        (* which worker's socket inode the socket path names (None = absent) *)
  meta : bool;            (* <hash>.meta exists *)
  procs : list proc;
  workers : list wk;
  ret_ok : bool;          (* ghost: every launch that returned a path so far returned the path of a worker whose
                             listener was open (and reachable through the path) at the deciding moment *)
  spawn_ok : bool         (* ghost: every Popen so far happened while no worker of this hash was alive *)
}.

Definition listening (p : wph) : bool := match p with W4 | W5 => true | _ => false end.
Definition starting (p : wph) : bool := match p with W0 | W1 | W2 | W3 => true | _ => false end.
(* alive: spawned, not failed, listener not yet closed *)
Definition alive (p : wph) : bool := starting p || listening p.

(* connect(path) succeeds iff the path names the socket inode of a worker whose listener is open *)
Definition probe (s : lst) : bool :=
  match fs s with
  | Some w => match nth_error (workers s) w with Some k => listening (w_ph k) | None => false end
  | None => false
  end.

Definition opt_is (o : option nat) (k : nat) : bool := match o with Some j => Nat.eqb j k | None => false end.

Definition set_proc (i : nat) (p : proc) (s : lst) : lst :=
  Build_lst (lock s) (fs s) (meta s) (upd_nth i (fun _ => p) (procs s)) (workers s) (ret_ok s) (spawn_ok s).
Definition set_wk (w : nat) (k : wk) (s : lst) : lst :=
  Build_lst (lock s) (fs s) (meta s) (procs s) (upd_nth w (fun _ => k) (workers s)) (ret_ok s) (spawn_ok s).
Definition set_lock v (s : lst) := Build_lst v (fs s) (meta s) (procs s) (workers s) (ret_ok s) (spawn_ok s).
Definition set_fs v (s : lst) := Build_lst (lock s) v (meta s) (procs s) (workers s) (ret_ok s) (spawn_ok s).
Definition set_meta v (s : lst) := Build_lst (lock s) (fs s) v (procs s) (workers s) (ret_ok s) (spawn_ok s).
Definition set_ret v (s : lst) := Build_lst (lock s) (fs s) (meta s) (procs s) (workers s) v (spawn_ok s).
Definition set_spawn v (s : lst) := Build_lst (lock s) (fs s) (meta s) (procs s) (workers s) (ret_ok s) v.
Definition add_wk (k : wk) (s : lst) := Build_lst (lock s) (fs s) (meta s) (procs s) (workers s ++ [k]) (ret_ok s) (spawn_ok s).

Inductive lact :=
| LProc (i : nat)      (* launcher / gc process i runs to its next scheduling point *)
| LWorker (w : nat)    (* worker w runs to its next scheduling point (stutters inside the accept loop) *)
| LStop (w : nat).     (* worker w's accept loop returns (idle shutdown) *)

Section Launcher.
  (* the OS's decision on a non-blocking flock attempt of process i, given the current holder *)
  Variable flock_grant : option nat -> nat -> bool.

  Definition proc_step (i : nat) (s : lst) : lst :=
    match nth_error (procs s) i with
    | None => s
    | Some p =>
        match p_pc p with
        | L0 => if flock_grant (lock s) i
                then set_proc i (Build_proc L1 (p_w p) (p_res p)) (set_lock (Some i) s)
                else s
        | L1 => if probe s
                then set_ret (ret_ok s && probe s) (set_proc i (Build_proc L5 (p_w p) 1) s)
                else set_proc i (Build_proc L2 (p_w p) (p_res p)) s
        | L2 => set_proc i (Build_proc L3 (p_w p) (p_res p)) (set_meta true (set_fs None s))
        | L3 => set_spawn (spawn_ok s && negb (existsb (fun k => alive (w_ph k)) (workers s)))
                  (set_proc i (Build_proc L4 (Some (length (workers s))) (p_res p)) (add_wk (Build_wk W0 false) s))
        | L4 => match p_w p with
                | None => s
                | Some w =>
                    match nth_error (workers s) w with
                    | None => s
                    | Some k =>
                        match w_ph k with
                        | W0 | W1 | W2 | W3 => s     (* readline blocks *)
                        | WFail => set_proc i (Build_proc L5 (p_w p) 3) s
                        | _ => set_ret (ret_ok s && w_ready_ok k) (set_proc i (Build_proc L5 (p_w p) 2) s)
                        end
                    end
                end
        | L5 => set_proc i (Build_proc L6 (p_w p) (p_res p)) (set_lock None s)
        | L6 => s
        | G0 => set_proc i (Build_proc (if meta s then G1 else G4) (p_w p) (p_res p)) s
        | G1 => if flock_grant (lock s) i
                then set_proc i (Build_proc G2 (p_w p) (p_res p)) (set_lock (Some i) s)
                else set_proc i (Build_proc G4 (p_w p) (p_res p)) s
        | G2 => if probe s then set_proc i (Build_proc G3 (p_w p) (p_res p)) s
                else set_proc i (Build_proc G3u (p_w p) (p_res p)) (set_lock None (set_meta false (set_fs None s)))
        | G3 => set_proc i (Build_proc G4 (p_w p) (p_res p)) (set_lock None s)
        | G3u => set_proc i (Build_proc G4 (p_w p) (p_res p)) s
        | G4 => s
        end
    end.

  Definition wk_step (w : nat) (s : lst) : lst :=
    match nth_error (workers s) w with
    | None => s
    | Some k =>
        match w_ph k with
        | W0 => set_wk w (Build_wk (if probe s then WFail else W1) (w_ready_ok k)) s
        | W1 => set_wk w (Build_wk W2 (w_ready_ok k)) (set_fs None s)
        | W2 => match fs s with
                | Some _ => set_wk w (Build_wk WFail (w_ready_ok k)) s      (* EADDRINUSE *)
                | None => set_wk w (Build_wk W3 (w_ready_ok k)) (set_fs (Some w) s)
                end
        | W3 => set_wk w (Build_wk W4 (opt_is (fs s) w)) s
        | W4 => s
        | W5 => set_wk w (Build_wk W6 (w_ready_ok k)) s
        | W6 => set_wk w (Build_wk W7 (w_ready_ok k)) (if opt_is (fs s) w then set_fs None s else s)
        | W7 | WFail => s
        end
    end.

  Definition stop_step (w : nat) (s : lst) : lst :=
    match nth_error (workers s) w with
    | Some k => match w_ph k with W4 => set_wk w (Build_wk W5 (w_ready_ok k)) s | _ => s end
    | None => s
    end.

  Definition lstep (s : lst) (a : lact) : lst :=
    match a with
    | LProc i => proc_step i s
    | LWorker w => wk_step w s
    | LStop w => stop_step w s
    end.

  (* kinds: false = launch(), true = gc_state_dir() *)
  Definition linit (kinds : list bool) : lst :=
    Build_lst None None false (map (fun g : bool => Build_proc (if g then G0 else L0) None 0) kinds) [] true true.

  Definition lrun (kinds : list bool) (sch : list lact) : lst := fold_left lstep sch (linit kinds).
End Launcher.

(* flock as the kernel implements it: granted iff nobody holds it *)
Definition ideal_flock (l : option nat) (_ : nat) : bool := match l with None => true | Some _ => false end.

Definition ppc_code (p : ppc) : N :=
  match p with L0 => 0 | L1 => 1 | L2 => 2 | L3 => 3 | L4 => 4 | L5 => 5 | L6 => 6
             | G0 => 10 | G1 => 11 | G2 => 12 | G3 => 13 | G3u => 13 | G4 => 14 end.
Definition wph_code (p : wph) : N :=
  match p with W0 => 0 | W1 => 1 | W2 => 2 | W3 => 3 | W4 => 4 | W5 => 5 | W6 => 6 | W7 => 7 | WFail => 8 end.
Definition optnat_code (o : option nat) : N := match o with Some k => N.of_nat k + 1 | None => 0 end.

(* what the harness sees: who holds the real file lock, which worker's inode the path names, whether the
   .meta exists, (pc, result once returned) of every process, phase of every worker *)
Definition lobs (s : lst) : list N :=
  [optnat_code (lock s); optnat_code (fs s); b2n (meta s)]
  ++ flat_map (fun p => [ppc_code (p_pc p); match p_pc p with L6 => p_res p | _ => 0 end]) (procs s) ++ [99] ++ map (fun k => wph_code (w_ph k)) (workers s).

Definition ldecode (a : N * N) : lact :=
  match fst a with
  | 0 => LProc (N.to_nat (snd a))
  | 1 => LWorker (N.to_nat (snd a))
  | _ => LStop (N.to_nat (snd a))
  end.

Fixpoint ltrace (s : lst) (sch : list lact) : list (list N) :=
  match sch with
  | [] => []
  | a :: r => let s' := lstep ideal_flock s a in lobs s' :: ltrace s' r
  end.

Definition run_case_l (x : list bool * list (N * N)) : list (list N) :=
  ltrace (linit (fst x)) (map ldecode (snd x)).
