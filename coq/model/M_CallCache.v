(* Model of the HTTP call-state cache and of the order in which a continuation request resolves its two tokens:
     vgi_rpc/http/server/_state_token.py   _CallStateCache (_identity, get, put, clear), _open_cursor_token /
                                           _open_call_token (only their verdict classes; byte layout and AEAD are C12)
     vgi_rpc/http/server/_app_stream.py    _unpack_and_recover_state, _resolve_call_from_token,
                                           cache warm-up in _run_stream_init_sync
     vgi_rpc/http/server/_app.py           _CallStateCache(max_entries=call_state_cache_entries, ttl=...)
   Tokens are abstract records.  The AEAD is ideal: a presented record opens iff the shared key holders minted it
   (membership in the world's minted lists) for the presenting identity (AAD tail equal).  Call ids are fresh
   (a counter stands for os.urandom(16)).  One clock reading per request (logical clock, unit = 1/4 s so that the
   int() truncation of the token timestamps and the float expiry of the cache can disagree).
   Executable definitions only; proofs are in proof/L_CallCache.v. *)
From Coq Require Import List NArith Bool.
From VGI Require Import Corr.
Import ListNotations.
Open Scope N_scope.

(* ---- identities ------------------------------------------------------------------------------------------ *)
(* AuthContext as the token layer sees it: not authenticated, or ((domain or ""), (principal or "")) *)
Inductive auth := Anon | Auth (d p : list N).

Definition anon_tail : list N := [0; 97; 110; 111; 110; 121; 109; 111; 117; 115].   (* "\0anonymous" *)
(* identity tail of _compute_aad / _compute_call_aad (what seals a token to its caller) *)
Definition aad_id (a : auth) : list N :=
  match a with Anon => anon_tail | Auth d p => 1 :: d ++ 0 :: p end.
(* _CallStateCache._identity (the second component of the cache key) *)
Definition cache_id (a : auth) : list N :=
  match a with Anon => anon_tail | Auth d p => d ++ 0 :: p end.

Definition lN_eqb : list N -> list N -> bool := list_eqb N.eqb.

(* ---- tokens ------------------------------------------------------------------------------------------------ *)
Record call_tok := CT { ct_cid : N; ct_aad : list N; ct_created : N; ct_ty : N; ct_payload : N }.
Record cur_tok := CU { cu_cid : N; cu_aad : list N; cu_created : N; cu_state : N }.

Definition ct_eqb (x y : call_tok) : bool :=
  (ct_cid x =? ct_cid y) && lN_eqb (ct_aad x) (ct_aad y) && (ct_created x =? ct_created y)
  && (ct_ty x =? ct_ty y) && (ct_payload x =? ct_payload y).
Definition cu_eqb (x y : cur_tok) : bool :=
  (cu_cid x =? cu_cid y) && lN_eqb (cu_aad x) (cu_aad y) && (cu_created x =? cu_created y)
  && (cu_state x =? cu_state y).

(* what a request carries in a token slot *)
Inductive pres (T : Type) :=
| PNone                (* metadata key absent *)
| PGarbage             (* text that is not base64 *)
| PForged              (* base64 of something the key holders never sealed for this slot (flipped bit, other key, other kind) *)
| PTok (t : T).        (* a record; opens iff it was minted, for the presenting identity *)
Arguments PNone {T}. Arguments PGarbage {T}. Arguments PForged {T}. Arguments PTok {T} t.

(* a _ResolvedCall: call-state type (0 = none) and payload.  Ghosts (not in the unchanged source, never read by the
   turn): rc_for = the AAD identity it was minted for, rc_created = mint second of its call token *)
Record resolved := RC { rc_ty : N; rc_payload : N; rc_for : list N; rc_created : N }.
Definition resolved_of (ct : call_tok) : resolved := RC (ct_ty ct) (ct_payload ct) (ct_aad ct) (ct_created ct).

(* rejection classes (message of the 400) *)
Definition E_cur_malformed := 1.   (* Malformed state token *)
Definition E_cur_sig := 2.         (* State token signature verification failed *)
Definition E_cur_expired := 4.     (* State token expired *)
Definition E_call_malformed := 5.  (* Malformed call token *)
Definition E_call_sig := 6.        (* Call token signature verification failed *)
Definition E_call_expired := 7.    (* Call token expired *)
Definition E_call_missing := 8.    (* Missing call token in exchange request *)
Definition E_call_other := 9.      (* State token does not belong to the supplied call token *)
Definition E_cur_missing := 10.    (* Missing state token in exchange request *)
Definition E_call_type := 11.      (* Call token declares call-state type ..., which this method does not *)
Definition call_reasons : list N := [E_call_malformed; E_call_sig; E_call_expired; E_call_missing; E_call_other; E_call_type].

(* ---- clock --------------------------------------------------------------------------------------------------- *)
Definition sec (now : N) : N := now / 4.                       (* int(time.time()) *)
(* _app.py: ttl=float(token_ttl) if token_ttl > 0 else 3600.0, in clock units *)
Definition cache_ttl_sec (ttl : N) : N := if 0 <? ttl then ttl else 3600.
Definition cache_ttl (ttl : N) : N := 4 * cache_ttl_sec ttl.
(* token_ttl > 0 and int(time.time()) - created_at > token_ttl *)
Definition expired (ttl now created : N) : bool := (0 <? ttl) && (ttl <? sec now - created).

(* ---- the cache: OrderedDict (call_id, identity) -> (expires_at, resolved), oldest first ---------------------- *)
Definition key := (N * list N)%type.
Definition key_eqb (k1 k2 : key) : bool := (fst k1 =? fst k2) && lN_eqb (snd k1) (snd k2).
Definition entry := (key * (N * resolved))%type.
Definition cache := list entry.

Fixpoint c_find (k : key) (c : cache) : option (N * resolved) :=
  match c with
  | [] => None
  | (k', v) :: r => if key_eqb k k' then Some v else c_find k r
  end.
Fixpoint c_remove (k : key) (c : cache) : cache :=
  match c with
  | [] => []
  | (k', v) :: r => if key_eqb k k' then r else (k', v) :: c_remove k r
  end.

(* the guards and expressions of get / put, as in the source (tie/T_CallCache.v: equal to the regenerated ones) *)
Definition get_expired (expires_at now : N) : bool := expires_at <=? now.        (* if expires_at <= now *)
Definition put_expiry (now ttlc : N) : N := now + ttlc.                          (* now + self._ttl *)
Definition over_capacity (len cap : N) : bool := cap <? len.                     (* len(self._entries) > self._max_entries *)

(* get: miss | expired (entry deleted, miss) | hit (move_to_end) *)
Definition cache_get (k : key) (now : N) (c : cache) : cache * option resolved :=
  match c_find k c with
  | None => (c, None)
  | Some (exp, r) =>
      if get_expired exp now then (c_remove k c, None)
      else (c_remove k c ++ [(k, (exp, r))], Some r)
  end.

(* while len(entries) > max_entries: popitem(last=False)   (fuel: at most len iterations) *)
Fixpoint trim_loop (fuel : nat) (cap : N) (c : cache) : cache :=
  match fuel with
  | O => c
  | S f => if over_capacity (N.of_nat (length c)) cap then trim_loop f cap (tl c) else c
  end.
Definition trim (cap : N) (c : cache) : cache := trim_loop (length c) cap c.
(* put: store (now + ttl, resolved), move_to_end, evict the oldest while over capacity *)
Definition cache_put (cap ttlc : N) (k : key) (r : resolved) (now : N) (c : cache) : cache :=
  trim cap (c_remove k c ++ [(k, (put_expiry now ttlc, r))]).

(* ---- opening the tokens (verdict classes, in the order of the source) -------------------------------------- *)
Definition mem_cu (t : cur_tok) (l : list cur_tok) : bool := existsb (cu_eqb t) l.
Definition mem_ct (t : call_tok) (l : list call_tok) : bool := existsb (ct_eqb t) l.

Definition open_cursor (ttl now : N) (curs : list cur_tok) (a : auth) (p : pres cur_tok) : N + cur_tok :=
  match p with
  | PNone => inl E_cur_missing
  | PGarbage => inl E_cur_malformed
  | PForged => inl E_cur_sig
  | PTok t =>
      if mem_cu t curs && lN_eqb (cu_aad t) (aad_id a) then
        if expired ttl now (cu_created t) then inl E_cur_expired else inr t
      else inl E_cur_sig
  end.

(* _resolve_call_from_token: the cache-miss path *)
Definition resolve_cold (declares : N -> N -> bool) (ttl now : N) (calls : list call_tok) (a : auth) (m cid : N)
           (p : pres call_tok) : N + resolved :=
  match p with
  | PNone => inl E_call_missing
  | PGarbage => inl E_call_malformed
  | PForged => inl E_call_sig
  | PTok t =>
      if mem_ct t calls && lN_eqb (ct_aad t) (aad_id a) then
        if expired ttl now (ct_created t) then inl E_call_expired
        else if ct_cid t =? cid then
          if (ct_ty t =? 0) || declares m (ct_ty t) then inr (resolved_of t) else inl E_call_type
        else inl E_call_other
      else inl E_call_sig
  end.

(* ---- the system: workers with private caches, shared key (= shared minted lists), logical clock ---------- *)
(* dated_miss: what the miss path hands to put as the entry's birth -- false: `now` (the unchanged source); true: the
   call token's created_at when token_ttl > 0 (fixes/C14-miss-path-entry-expires-with-call-token.diff).  The flag
   is regenerated from the source (gen_dated_miss). *)
Record cfg := Cfg { ttl : N; caps : list N; dated_miss : bool }.
Definition miss_birth (c : cfg) (now : N) (r : resolved) : N :=
  if dated_miss c && (0 <? ttl c) then 4 * rc_created r else now.
Record world := W { clock : N; next_cid : N; calls : list call_tok; curs : list cur_tok; caches : list cache }.

Inductive req :=
| RInit (w : nat) (a : auth) (m arg : N)
| RCont (w : nat) (a : auth) (m : N) (cur : pres cur_tok) (call : pres call_tok) (body : N)
| RTick (dt : N)            (* the clock advances *)
| RClear (w : nat).         (* _CallStateCache.clear(): operator reset / worker restart *)

Inductive outcome :=
| OInit (ct : call_tok) (cu : cur_tok)       (* 200: the two tokens handed out (as records, i.e. after opening) *)
| OInitErr                                   (* the init method failed *)
| OServed (out : N) (next : option cur_tok)  (* 200: output of the turn and the re-minted cursor (None: stream over) *)
| ORejected (reason : N)                     (* 400 *)
| ONone.                                     (* not a request *)

Fixpoint upd {A : Type} (i : nat) (x : A) (l : list A) : list A :=
  match l, i with
  | [], _ => []
  | _ :: r, O => x :: r
  | y :: r, S j => y :: upd j x r
  end.

Definition cache_of (wd : world) (w : nat) : cache := nth w (caches wd) [].
Definition cap_of (c : cfg) (w : nat) : N := nth w (caps c) 0.
Definition set_cache (wd : world) (w : nat) (c : cache) : world :=
  W (clock wd) (next_cid wd) (calls wd) (curs wd) (upd w c (caches wd)).

Section Step.
  (* the service behind the transport *)
  Variable declares : N -> N -> bool.                   (* method declares call-state type (CALL_STATE_TYPE of its state classes) *)
  Variable init_fn : N -> N -> option (N * N * N).       (* method, argument -> (call-state type, payload, first cursor state) | failure *)
  Variable turn : N -> N -> N -> N -> N -> N * option N. (* method, call-state type, payload, cursor state, request body -> output, next state *)

  Definition step_init (c : cfg) (wd : world) (w : nat) (a : auth) (m arg : N) : world * outcome :=
    match init_fn m arg with
    | None => (wd, OInitErr)
    | Some (ty, payload, s0) =>
        let cid := next_cid wd in
        let now := clock wd in
        let ct := CT cid (aad_id a) (sec now) ty payload in
        let cu := CU cid (aad_id a) (sec now) s0 in
        let cw := cache_put (cap_of c w) (cache_ttl (ttl c)) (cid, cache_id a) (resolved_of ct) now (cache_of wd w) in
        (W now (cid + 1) (ct :: calls wd) (cu :: curs wd) (upd w cw (caches wd)), OInit ct cu)
    end.

  (* the turn itself, once the call is resolved: identical on the hit and the miss path *)
  Definition proceed (wd : world) (a : auth) (m : N) (cu : cur_tok) (r : resolved) (body : N) : world * outcome :=
    let (out, nxt) := turn m (rc_ty r) (rc_payload r) (cu_state cu) body in
    match nxt with
    | None => (wd, OServed out None)
    | Some s' =>
        let cu' := CU (cu_cid cu) (aad_id a) (sec (clock wd)) s' in
        (W (clock wd) (next_cid wd) (calls wd) (cu' :: curs wd) (caches wd), OServed out (Some cu'))
    end.

  (* _unpack_and_recover_state + the dispatch that follows *)
  Definition step_cont (c : cfg) (wd : world) (w : nat) (a : auth) (m : N) (cur : pres cur_tok) (call : pres call_tok)
             (body : N) : world * outcome :=
    let now := clock wd in
    match open_cursor (ttl c) now (curs wd) a cur with
    | inl e => (wd, ORejected e)
    | inr cu =>
        let k := (cu_cid cu, cache_id a) in
        let (cw, hit) := cache_get k now (cache_of wd w) in
        match hit with
        | Some r => proceed (set_cache wd w cw) a m cu r body
        | None =>
            match resolve_cold declares (ttl c) now (calls wd) a m (cu_cid cu) call with
            | inl e => (set_cache wd w cw, ORejected e)
            | inr r => proceed (set_cache wd w (cache_put (cap_of c w) (cache_ttl (ttl c)) k r (miss_birth c now r) cw)) a m cu r body
            end
        end
    end.

  Definition step (c : cfg) (wd : world) (r : req) : world * outcome :=
    match r with
    | RInit w a m arg => step_init c wd w a m arg
    | RCont w a m cur call body => step_cont c wd w a m cur call body
    | RTick dt => (W (clock wd + dt) (next_cid wd) (calls wd) (curs wd) (caches wd), ONone)
    | RClear w => (set_cache wd w [], ONone)
    end.

  Fixpoint run_from (c : cfg) (wd : world) (h : list req) : world * list outcome :=
    match h with
    | [] => (wd, [])
    | r :: rest =>
        let (wd1, o) := step c wd r in
        let (wd2, os) := run_from c wd1 rest in
        (wd2, o :: os)
    end.

  Definition init_world (c : cfg) (t0 : N) : world := W t0 0 [] [] (map (fun _ => []) (caps c)).
  Definition run (c : cfg) (t0 : N) (h : list req) : world * list outcome := run_from c (init_world c t0) h.
  Definition outcomes (c : cfg) (t0 : N) (h : list req) : list outcome := snd (run c t0 h).

  (* the reference of the statement: the same workers, every cache of capacity 0 (always empty) *)
  Definition cold (c : cfg) : cfg := Cfg (ttl c) (map (fun _ => 0) (caps c)) (dated_miss c).

  (* the class of continuation requests on which the unchanged code is NOT transparent: the cursor token is
     accepted, but a worker without a cache entry refuses the presented call token (absent, malformed, not sealed
     for this caller, older than the TTL, of another stream, or of a call-state type this method does not declare) *)
  Definition excluded (c : cfg) (wd : world) (r : req) : bool :=
    match r with
    | RCont w a m cur call body =>
        match open_cursor (ttl c) (clock wd) (curs wd) a cur with
        | inl _ => false
        | inr cu =>
            match resolve_cold declares (ttl c) (clock wd) (calls wd) a m (cu_cid cu) call with
            | inl _ => true
            | inr _ => false
            end
        end
    | _ => false
    end.

  (* a continuation presents the GENUINE call token of its stream: everything the miss path checks about the
     presented call token holds, except possibly its age (used for sources with dated_miss = true) *)
  Definition genuine (c : cfg) (wd : world) (r : req) : bool :=
    match r with
    | RCont w a m cur call body =>
        match open_cursor (ttl c) (clock wd) (curs wd) a cur with
        | inl _ => true
        | inr cu =>
            match call with
            | PTok t => mem_ct t (calls wd) && lN_eqb (ct_aad t) (aad_id a) && (ct_cid t =? cu_cid cu)
                        && ((ct_ty t =? 0) || declares m (ct_ty t))
            | _ => false
            end
        end
    | _ => true
    end.
  Fixpoint genuine_from (c : cfg) (wd : world) (h : list req) : bool :=
    match h with
    | [] => true
    | r :: rest => genuine c wd r && genuine_from c (fst (step c wd r)) rest
    end.
  Definition all_genuine (c : cfg) (t0 : N) (h : list req) : bool := genuine_from c (init_world c t0) h.

  Fixpoint admissible_from (c : cfg) (wd : world) (h : list req) : bool :=
    match h with
    | [] => true
    | r :: rest => negb (excluded c wd r) && admissible_from c (fst (step c wd r)) rest
    end.
  Definition admissible (c : cfg) (t0 : N) (h : list req) : bool := admissible_from c (init_world c t0) h.
End Step.

(* what step_cont / resolve_cold / step_init implement, in the vocabulary of translate/t_c14_cache.py *)
Definition resolve_order : list N := [1; 2; 3; 4; 5; 6].
Definition cold_checks : list N := [8; 100; 9; 101; 102; 11; 103; 104].
Definition cache_uses : list N := [1; 2; 3].
Definition key_fields : list N := [0; 1].
Definition ident_parts : list (N + list N) := [inl 0; inr [0]; inl 1].
Definition evict_oldest : bool := true.
(* step_init: the call token carries exactly the call state the cache is warmed with (none iff None) *)
Definition mint_none_guard : bool := true.

(* ---- stand-ins for the service of harness/c14_service.py (correspondence only) ------------------------------ *)
(* methods: 0 ex (call state ExCall), 1 ey (no call state), 2 ez (call state ExCall), 3 ew (call state WCall, an
   object that is falsy but not None); call-state types: 1 = ExCall, 2 = WCall *)
Definition declares_h (m ty : N) : bool := ((ty =? 1) && ((m =? 0) || (m =? 2))) || ((ty =? 2) && (m =? 3)).
(* arg = 1000 * label + start;  start 999 makes the init method raise *)
Definition init_h (m arg : N) : option (N * N * N) :=
  let label := arg / 1000 in
  let start := arg mod 1000 in
  if start =? 999 then None
  else if m =? 1 then Some (0, 0, start) else if m =? 3 then Some (2, label, start) else Some (1, label, start).
(* body 0 = cancel; otherwise x = body: the state counts turns, the output names counter, input and call label *)
Definition turn_h (m ty payload st body : N) : N * option N :=
  if body =? 0 then (0, None)
  else (((st + 1) * 1000 + body) * 1000 + (if ty =? 0 then 0 else payload), Some (st + 1)).

(* outcomes as lists of numbers, for comparison with what the real app answered *)
Definition enc_ct (t : call_tok) : list N := [ct_cid t; ct_created t; ct_ty t; ct_payload t] ++ ct_aad t.
Definition enc_cu (t : cur_tok) : list N := [cu_cid t; cu_created t; cu_state t] ++ cu_aad t.
Definition enc_outcome (o : outcome) : list N :=
  match o with
  | OInit ct cu => 1 :: N.of_nat (length (enc_ct ct)) :: enc_ct ct ++ enc_cu cu
  | OInitErr => [2]
  | OServed out None => [3; out]
  | OServed out (Some cu) => 4 :: out :: enc_cu cu
  | ORejected e => [5; e]
  | ONone => [0]
  end.

(* one correspondence case: (dated_miss of the source, token_ttl, capacities, start of the clock, history)
   -> encoded outcomes + final cache sizes *)
Definition run_case (x : bool * N * list N * N * list req) : list (list N) :=
  let '(dm, t, cs, t0, h) := x in
  let (wd, os) := run declares_h init_h turn_h (Cfg t cs dm) t0 h in
  map enc_outcome os ++ [map (fun c => N.of_nat (length c)) (caches wd)].

(* identity renderings, for comparison with _compute_aad (tail) and _CallStateCache._identity *)
Definition id_case (a : auth) : list N * list N := (aad_id a, cache_id a).
