(* Model of external-storage offload (property C30):
     vgi_rpc/external.py      is_external_location_batch, make_external_location_batch,
                              maybe_externalize_batch, maybe_externalize_collector,
                              resolve_external_location (retry loop), _fetch_and_resolve (check order)
     vgi_rpc/rpc/_wire.py     _dispatch_log_or_error (classification of a fetched / received batch),
                              _read_batch_with_log_check (client read loop, [drain] below)
     vgi_rpc/http/_client.py  _build_pointer_request_body (client-uploaded request -> pointer without digest)
     vgi_rpc/metadata.py      merge_metadata (dict update)
   Executable definitions only; proofs are in proof/L_ExtStore*.v.

   Abstraction.  A record batch is (schema id, number of rows, opaque body, custom metadata); its
   get_total_buffer_size() is a separate input of the production functions.
   Bytes fetched from storage are seen through a *view*: their SHA-256 and what the Arrow IPC reader yields
   item by item ([IBad] = the reader raises ArrowInvalid/OSError at that point).  In the Section [Concrete]
   at the end, views come from an abstract byte type with a hash, a parser, a serializer and content codecs. *)
From Coq Require Import List NArith Bool.
From VGI Require Import Corr.
Import ListNotations.
Open Scope N_scope.

Definition bytes := list N.
Definition meta := list (bytes * bytes).

(* ---- constants (regenerated into gen/G_ExtStore.v and tied in tie/T_ExtStore.v) ---- *)
Definition K_LOC : bytes := [118;103;105;95;114;112;99;46;108;111;99;97;116;105;111;110].
Definition K_SHA : bytes := [118;103;105;95;114;112;99;46;108;111;99;97;116;105;111;110;46;115;104;97;50;53;54].
Definition K_FETCH_MS : bytes := [118;103;105;95;114;112;99;46;108;111;99;97;116;105;111;110;46;102;101;116;99;104;95;109;115].
Definition K_SOURCE : bytes := [118;103;105;95;114;112;99;46;108;111;99;97;116;105;111;110;46;115;111;117;114;99;101].
Definition K_LEVEL : bytes := [118;103;105;95;114;112;99;46;108;111;103;95;108;101;118;101;108].
Definition K_MSG : bytes := [118;103;105;95;114;112;99;46;108;111;103;95;109;101;115;115;97;103;101].
Definition L_EXCEPTION : bytes := [69;88;67;69;80;84;73;79;78].
(* values of vgi_rpc.log.Level, in declaration order *)
Definition LEVELS : list bytes :=
  [[69;88;67;69;80;84;73;79;78]; [69;82;82;79;82]; [87;65;82;78]; [73;78;70;79]; [68;69;66;85;71]; [84;82;65;67;69]].
(* resolve_external_location: max_retries = min(config.max_retries, 2) *)
Definition RETRY_CAP : N := 2.
(* retry_types of resolve_external_location: "OSError", "pa.ArrowInvalid", "aiohttp.ClientError" *)
Definition RETRY_TYPES : list bytes :=
  [[79;83;69;114;114;111;114]; [112;97;46;65;114;114;111;119;73;110;118;97;108;105;100];
   [97;105;111;104;116;116;112;46;67;108;105;101;110;116;69;114;114;111;114]].
(* _build_pointer_request_body passes no sha256 to make_external_location_batch *)
Definition REQUEST_POINTER_HAS_SHA : bool := false.
(* order of the checks inside _fetch_and_resolve, as tags:
   0 sha256, 1 nested pointer (per batch), 2 log dispatch (per batch), 3 no data batch, 4 several data batches, 5 schema *)
Definition CHECK_ORDER : list N := [0; 1; 2; 3; 4; 5].
(* order of the guards of maybe_externalize_batch: 0 storage is None, 1 num_rows == 0, 2 size < threshold *)
Definition BATCH_GUARDS : list N := [0; 1; 2].
(* order of the guards of maybe_externalize_collector: 0 storage is None, 3 no data batch, 2 size < threshold *)
Definition COLLECTOR_GUARDS : list N := [0; 3; 2].

(* ---- metadata (pa.KeyValueMetadata with unique keys; dict update for merge_metadata) ---- *)
Fixpoint mget (k : bytes) (m : meta) : option bytes :=
  match m with
  | [] => None
  | (k', v) :: r => if bytes_eqb k k' then Some v else mget k r
  end.

Fixpoint mset (k v : bytes) (m : meta) : meta :=
  match m with
  | [] => [(k, v)]
  | (k', v') :: r => if bytes_eqb k k' then (k', v) :: r else (k', v') :: mset k v r
  end.

Definition mmerge (m1 m2 : meta) : meta := fold_left (fun acc kv => mset (fst kv) (snd kv) acc) m2 m1.

Definition omerge (m1 : option meta) (m2 : meta) : option meta :=
  match mmerge (match m1 with Some m => m | None => [] end) m2 with
  | [] => None
  | m => Some m
  end.

Definition ohas (k : bytes) (m : option meta) : bool :=
  match m with
  | None => false
  | Some mm => match mget k mm with Some _ => true | None => false end
  end.

(* ---- batches ---- *)
Record batch := mkBatch {
  b_schema : N;          (* schema identity (field names, types, nullability; schema metadata ignored) *)
  b_rows : N;            (* num_rows *)
  b_body : list N;       (* opaque content *)
  b_meta : option meta   (* custom metadata; None = absent *)
}.

Definition log := (bytes * bytes)%type.   (* (level, message) *)

(* KSkip: a log batch whose level is not a Level member is consumed and ignored *)
Inductive kind := KData | KLog (l m : bytes) | KExc | KSkip.

(* _dispatch_log_or_error *)
Definition classify (b : batch) : kind :=
  match b_meta b with
  | None => KData
  | Some m =>
      if negb (b_rows b =? 0) then KData
      else match mget K_LEVEL m, mget K_MSG m with
           | Some l, Some msg =>
               if bytes_eqb l L_EXCEPTION then KExc
               else if existsb (bytes_eqb l) LEVELS then KLog l msg
               else KSkip
           | _, _ => KData
           end
  end.

Definition has_loc (b : batch) : bool := ohas K_LOC (b_meta b).

(* is_external_location_batch *)
Definition is_pointer (b : batch) : bool :=
  (b_rows b =? 0) && has_loc b && negb (ohas K_LEVEL (b_meta b)).

(* make_external_location_batch *)
Definition pointer (schema : N) (url : bytes) (sha : option bytes) : batch :=
  mkBatch schema 0 []
    (Some ((K_LOC, url) :: match sha with Some h => [(K_SHA, h)] | None => [] end)).

(* ---- what a fetch returns ---- *)
Inductive item := IBatch (b : batch) | IBad.
Record view := mkView { v_sha : bytes; v_items : list item }.
Inductive fetched :=
| FErr (retryable : bool)     (* true: OSError / ArrowInvalid / aiohttp.ClientError; false: anything else *)
| FData (v : view).

Inductive err :=
| EShaMismatch | ELoop | ERpc | ENoData | EMulti | ESchema | EFetchFatal | EExhausted.

Inductive sres := SErr (e : err) | SRetry | SDone (datas : list batch).

(* the while-loop of _fetch_and_resolve; logs are dispatched as they are met *)
Fixpoint scan (its : list item) : list log * sres :=
  match its with
  | [] => ([], SDone [])
  | IBad :: _ => ([], SRetry)
  | IBatch b :: r =>
      if has_loc b then ([], SErr ELoop)
      else match classify b with
           | KExc => ([], SErr ERpc)
           | KSkip => scan r
           | KLog l m => let '(lg, s) := scan r in ((l, m) :: lg, s)
           | KData => let '(lg, s) := scan r in
                      (lg, match s with SDone ds => SDone (b :: ds) | x => x end)
           end
  end.

Inductive aout := ADeliver (b : batch) | AErr (e : err) | ARetry.

Definition sha_bad (expected : option bytes) (actual : bytes) : bool :=
  match expected with
  | None => false
  | Some h => negb (bytes_eqb actual h)
  end.

(* fetch metadata attached to a resolved batch; the elapsed-time value is not modelled ([] stands for it) *)
Definition provenance (url : bytes) : meta := [(K_FETCH_MS, []); (K_SOURCE, url)].

Definition with_meta (b : batch) (m : option meta) : batch :=
  mkBatch (b_schema b) (b_rows b) (b_body b) m.

(* one call of _fetch_and_resolve *)
Definition attempt (expected_schema : N) (url : bytes) (exp_sha : option bytes) (f : fetched) : list log * aout :=
  match f with
  | FErr true => ([], ARetry)
  | FErr false => ([], AErr EFetchFatal)
  | FData v =>
      if sha_bad exp_sha (v_sha v) then ([], AErr EShaMismatch)
      else let '(lg, s) := scan (v_items v) in
           (lg, match s with
                | SErr e => AErr e
                | SRetry => ARetry
                | SDone [] => AErr ENoData
                | SDone [b] => if b_schema b =? expected_schema
                               then ADeliver (with_meta b (omerge (b_meta b) (provenance url)))
                               else AErr ESchema
                | SDone _ => AErr EMulti
                end)
  end.

Inductive outcome :=
| OPass (b : batch)      (* not a pointer, or no config: returned unchanged *)
| ODeliver (b : batch)   (* resolved data batch handed to the caller *)
| OFail (e : err).

(* tenacity.Retrying(stop_after_attempt(n), retry_if_exception_type(retry_types), reraise) and the
   except-clause that turns an exhausted retryable error into RuntimeError("Failed to resolve ...") *)
Fixpoint retry_loop (fuel : nat) (k : nat) (run : nat -> list log * aout) : list log * outcome :=
  match fuel with
  | O => ([], OFail EExhausted)
  | S f => let '(lg, a) := run k in
           match a with
           | ADeliver b => (lg, ODeliver b)
           | AErr e => (lg, OFail e)
           | ARetry => let '(lg2, o) := retry_loop f (S k) run in (lg ++ lg2, o)
           end
  end.

Definition n_attempts (max_retries : N) : nat := S (N.to_nat (N.min max_retries RETRY_CAP)).

(* the k-th fetch of a scripted storage: the last entry repeats; an empty script = object missing *)
Definition fetch_at (fs : list fetched) (k : nat) : fetched := nth k fs (last fs (FErr true)).

(* resolve_external_location(batch, cm, config, on_log);  [fetch k] = what the k-th fetch_url(url) returns *)
Definition resolve_with (have_cfg : bool) (max_retries : N) (on_log : bool) (b : batch)
           (fetch : bytes -> nat -> fetched) : list log * outcome :=
  if negb have_cfg || negb (is_pointer b) then ([], OPass b)
  else match b_meta b with
       | None => ([], OPass b)
       | Some m =>
           match mget K_LOC m with
           | None => ([], OPass b)
           | Some url =>
               let '(lg, o) := retry_loop (n_attempts max_retries) O
                                 (fun k => attempt (b_schema b) url (mget K_SHA m) (fetch url k)) in
               (if on_log then lg else [], o)
           end
       end.

Definition resolve (have_cfg : bool) (max_retries : N) (on_log : bool) (b : batch) (fs : list fetched)
  : list log * outcome :=
  resolve_with have_cfg max_retries on_log b (fun _ k => fetch_at fs k).

(* ---- production ---- *)
Record cfg := mkCfg {
  c_storage : bool;        (* config.storage is not None *)
  c_thr : N;               (* externalize_threshold_bytes *)
  c_comp : option N        (* None | Some 0 = zstd | Some 1 = gzip *)
}.

(* what is handed to storage.upload: the IPC stream (schema, batches) and the content encoding *)
Record upload := mkUpload { u_schema : N; u_items : list batch; u_enc : option N }.

(* [sha_ser s bs] = hex SHA-256 of the uncompressed IPC stream with schema s and batches bs;
   [url] = what storage.upload returns *)
Definition ext_batch (sha_ser : N -> list batch -> bytes) (url : bytes) (c : cfg) (size : N) (b : batch)
  : batch * option upload :=
  if negb (c_storage c) then (b, None)
  else if b_rows b =? 0 then (b, None)
  else if size <? c_thr c then (b, None)
  else (pointer (b_schema b) url (Some (sha_ser (b_schema b) [b])),
        Some (mkUpload (b_schema b) [b] (c_comp c))).

(* the cycle up to and including its first data batch, and what follows *)
Definition is_data (b : batch) : bool := match classify b with KData => true | _ => false end.
Fixpoint head_tail (w : list batch) : list batch * list batch :=
  match w with
  | [] => ([], [])
  | b :: r => if is_data b then ([b], r) else let '(h, t) := head_tail r in (b :: h, t)
  end.

(* an OutputCollector cycle: all batches in emission order; [dsize] = buffer size of the data batch, None when
   the cycle has no data batch (out.data_batch raises).
   [ser_all] is the shape of the source: true = the external stream holds ALL of out.batches (the code as found);
   false = it holds the batches up to and including the data batch and the rest follows the pointer inline. *)
Definition ext_collector (ser_all : bool) (sha_ser : N -> list batch -> bytes) (url : bytes) (c : cfg)
           (out_schema : N) (cycle : list batch) (dsize : option N) : list batch * option upload :=
  if negb (c_storage c) then (cycle, None)
  else match dsize with
       | None => (cycle, None)
       | Some sz =>
           if sz <? c_thr c then (cycle, None)
           else let '(hd, tl) := if ser_all then (cycle, []) else head_tail cycle in
                (pointer out_schema url (Some (sha_ser out_schema hd)) :: tl,
                 Some (mkUpload out_schema hd (c_comp c)))
       end.

(* _build_pointer_request_body: the request batch becomes a zero-row pointer carrying the original
   dispatch metadata plus vgi_rpc.location; NO digest.  The uploaded object is the original request stream. *)
Definition request_pointer (req : batch) (url : bytes) : batch * upload :=
  (mkBatch (b_schema req) 0 [] (omerge (b_meta req) [(K_LOC, url)]),
   mkUpload (b_schema req) [req] None).

(* ---- the client read loop: _read_batch_with_log_check called until the wire is exhausted or an error ---- *)
Fixpoint drain (res : batch -> list log * outcome) (wire : list batch) : list log * list batch * option err :=
  match wire with
  | [] => ([], [], None)
  | b :: r =>
      match classify b with
      | KLog l m => let '(lg, ds, e) := drain res r in ((l, m) :: lg, ds, e)
      | KExc => ([], [], Some ERpc)
      | KSkip => drain res r
      | KData =>
          let '(lg1, o) := res b in
          match o with
          | OFail e => (lg1, [], Some e)
          | OPass d | ODeliver d => let '(lg, ds, e) := drain res r in (lg1 ++ lg, d :: ds, e)
          end
      end
  end.

(* delivered batches are compared up to the two provenance keys a resolved batch gains *)
Fixpoint mdel (k : bytes) (m : meta) : meta :=
  match m with
  | [] => []
  | (k', v) :: r => if bytes_eqb k k' then mdel k r else (k', v) :: mdel k r
  end.
Definition strip_prov (b : batch) : batch :=
  with_meta b (match b_meta b with
               | None => None
               | Some m => match mdel K_SOURCE (mdel K_FETCH_MS m) with [] => None | m' => Some m' end
               end).

(* ---- boolean equalities (for the correspondence run) ---- *)
Definition meta_eqb : meta -> meta -> bool := list_eqb (pair_eqb bytes_eqb bytes_eqb).
Definition batch_eqb (x y : batch) : bool :=
  (b_schema x =? b_schema y) && (b_rows x =? b_rows y)
  && bytes_eqb (b_body x) (b_body y) && option_eqb meta_eqb (b_meta x) (b_meta y).
Definition upload_eqb (x y : upload) : bool :=
  (u_schema x =? u_schema y) && list_eqb batch_eqb (u_items x) (u_items y) && option_eqb N.eqb (u_enc x) (u_enc y).
Definition err_code (e : err) : N :=
  match e with
  | EShaMismatch => 0 | ELoop => 1 | ERpc => 2 | ENoData => 4 | EMulti => 5
  | ESchema => 6 | EFetchFatal => 7 | EExhausted => 8
  end.
Definition outcome_eqb (x y : outcome) : bool :=
  match x, y with
  | OPass a, OPass b => batch_eqb a b
  | ODeliver a, ODeliver b => batch_eqb a b
  | OFail a, OFail b => err_code a =? err_code b
  | _, _ => false
  end.
Definition log_eqb : log -> log -> bool := pair_eqb bytes_eqb bytes_eqb.

(* ---- correspondence entry point ---- *)
Inductive case :=
| CExtBatch (c : cfg) (url : bytes) (tab : list (N * list batch * bytes)) (size : N) (b : batch)
| CExtColl (ser_all : bool) (c : cfg) (url : bytes) (tab : list (N * list batch * bytes)) (out_schema : N)
           (cycle : list batch) (dsize : option N)
| CReqPtr (req : batch) (url : bytes)
| CResolve (have_cfg : bool) (max_retries : N) (on_log : bool) (b : batch) (fs : list fetched).

(* the digest function at the points the harness measured it: (schema, batches) -> hex digest *)
Fixpoint tab_lookup (tab : list (N * list batch * bytes)) (s : N) (bs : list batch) : bytes :=
  match tab with
  | [] => []
  | (s', bs', h) :: r => if (s =? s') && list_eqb batch_eqb bs bs' then h else tab_lookup r s bs
  end.

Record result := mkResult {
  r_wire : list batch; r_upload : option upload; r_logs : list log; r_out : option outcome
}.

Definition run_case (c : case) : result :=
  match c with
  | CExtBatch cf url tab sz b =>
      let '(w, u) := ext_batch (tab_lookup tab) url cf sz b in mkResult [w] u [] None
  | CExtColl sa cf url tab s cycle dsz =>
      let '(w, u) := ext_collector sa (tab_lookup tab) url cf s cycle dsz in mkResult w u [] None
  | CReqPtr req url =>
      let '(p, u) := request_pointer req url in mkResult [p] (Some u) [] None
  | CResolve hc mr ol b fs =>
      let '(lg, o) := resolve hc mr ol b fs in mkResult [] None lg (Some o)
  end.

Definition result_eqb (x y : result) : bool :=
  list_eqb batch_eqb (r_wire x) (r_wire y) && option_eqb upload_eqb (r_upload x) (r_upload y)
  && list_eqb log_eqb (r_logs x) (r_logs y) && option_eqb outcome_eqb (r_out x) (r_out y).

(* ---- bytes, hash, parser, serializer, codecs, object store (abstract) ---- *)
Section Concrete.
  Variable B : Type.                                  (* byte strings *)
  Variable sha : B -> bytes.                          (* hashlib.sha256(x).hexdigest() *)
  Variable parse : B -> list item.                    (* the validated Arrow IPC stream reader *)
  Variable ser : N -> list batch -> B.                (* new_ipc_stream(schema) + write_batch... + close *)
  Variable encode : option N -> B -> B.               (* _codec.compress for the configured algorithm *)
  Variable decode : option N -> B -> option B.        (* content decoding inside fetch_url; None = failure *)

  Definition view_of (d : B) : view := mkView (sha d) (parse d).

  (* a stored object: body and Content-Encoding; fetch_url = GET + content decoding *)
  Definition fetch_obj (o : option (B * option N)) : fetched :=
    match o with
    | None => FErr true                               (* 404: aiohttp.ClientResponseError *)
    | Some (body, enc) =>
        match decode enc body with
        | None => FErr false                          (* RuntimeError("Failed to decompress ...") *)
        | Some d => FData (view_of d)
        end
    end.

  (* storage.upload(compress(ipc_bytes), content_encoding) *)
  Definition stored (u : upload) : B * option N :=
    (encode (u_enc u) (ser (u_schema u) (u_items u)), u_enc u).

  Definition sha_ser_of (s : N) (bs : list batch) : bytes := sha (ser s bs).
End Concrete.
