(* Model of the shared-memory allocator and of the direct-write path:
     vgi_rpc/shm.py   ShmAllocator.allocate / free / reset   (table = header entries, in header order)
                      _ShmSink.write, ShmSegment.allocate_and_write (direct path and dictionary path)
   Executable definitions only; proofs are in proof/L_Alloc.v.

   The allocation table is the list the code reads from the header (`_read_allocs`): (offset, length)
   pairs in header order.  Offsets and lengths are naturals (uint64 fields); `total` is the segment
   size (`ShmAllocator._total_size`). *)
From Coq Require Import List NArith ZArith Bool.
Import ListNotations.
Open Scope N_scope.

(* ---- constants (tie/T_Alloc.v proves the regenerated ones equal) ---- *)
Definition HEADER_SIZE : N := 65536.
Definition HEADER_FIXED : N := 24.          (* struct "<4sIQII": magic, version, data_size, num_allocs, padding *)
Definition ENTRY_SIZE : N := 16.            (* struct "<QQ" *)
Definition COUNT_AT : N := 16.              (* byte position of num_allocs *)
Definition MAX_ALLOCS : N := (HEADER_SIZE - HEADER_FIXED) / ENTRY_SIZE.   (* 4094 *)
Definition STREAM_OVERHEAD : N := 4096.
Definition EOS_LEN : N := 8.

Definition table := list (N * N).

(* ---- the guard expressions of ShmAllocator.allocate, one definition per source expression ---- *)
Definition size_guard (size : Z) : bool := (size <=? 0)%Z.                 (* size <= 0  -> ValueError *)
Definition full_guard (len : N) : bool := MAX_ALLOCS <=? len.               (* len(allocs) >= MAX_ALLOCS -> None *)
Definition gap_of (hi lo : N) : N := hi - lo.                               (* off - prev_end, data_end - prev_end *)
Definition fit_guard (gap size : N) : bool := size <=? gap.                 (* gap >= size *)
Definition next_end (off len : N) : N := off + len.                        (* prev_end = off + length *)
Definition free_match (off offset : N) : bool := off =? offset.             (* off == offset (ShmAllocator.free) *)
(* _ShmSink.write: self.overflowed or self._pos + n > self._limit *)
Definition sink_guard (overflowed : bool) (pos n limit : N) : bool := overflowed || (limit <? pos + n).
(* allocate_and_write: estimated = ipc.get_record_batch_size(batch) + _STREAM_OVERHEAD ; limit = offset + estimated *)
Definition estimate (batch_msg : N) : N := batch_msg + STREAM_OVERHEAD.
Definition sink_limit (offset estimated : N) : N := offset + estimated.
Definition bytes_written (pos start : N) : N := pos - start.                (* self._pos - self._start *)

(* the scan: `for i, (off, length) in enumerate(allocs)` then the gap after the last entry.
   Result: the table as written back (`allocs.insert(i, (prev_end, size))` / `append`) and the offset. *)
Fixpoint scan (size total prev_end : N) (t : table) : option (table * N) :=
  match t with
  | [] =>
      if fit_guard (gap_of total prev_end) size then Some ([(prev_end, size)], prev_end) else None
  | (off, len) :: r =>
      if fit_guard (gap_of off prev_end) size then Some ((prev_end, size) :: (off, len) :: r, prev_end)
      else match scan size total (next_end off len) r with
           | Some (r', o) => Some ((off, len) :: r', o)
           | None => None
           end
  end.

Definition tlen (t : table) : N := N.of_nat (length t).

(* allocate for a positive size (the ValueError arm is in `step`) *)
Definition allocate (total : N) (t : table) (size : N) : option (table * N) :=
  if full_guard (tlen t) then None else scan size total HEADER_SIZE t.

(* free: `for i, (off, _) in enumerate(allocs): if off == offset: allocs.pop(i)`; None = ValueError *)
Fixpoint free (t : table) (offset : N) : option table :=
  match t with
  | [] => None
  | (off, len) :: r =>
      if free_match off offset then Some r
      else match free r offset with Some r' => Some ((off, len) :: r') | None => None end
  end.

(* ---- operations and histories ---- *)
Inductive op := OAlloc (size : Z) | OFree (offset : N) | OReset.

Inductive result :=
| RAlloc (offset : N)      (* allocate returned an offset *)
| RNone                    (* allocate returned None *)
| RError                   (* ValueError (size <= 0, or no allocation at the offset) *)
| RDone.                   (* free / reset completed *)

Definition step (total : N) (t : table) (o : op) : table * result :=
  match o with
  | OAlloc size =>
      if size_guard size then (t, RError)
      else match allocate total t (Z.to_N size) with
           | Some (t', off) => (t', RAlloc off)
           | None => (t, RNone)
           end
  | OFree offset =>
      match free t offset with
      | Some t' => (t', RDone)
      | None => (t, RError)
      end
  | OReset => ([], RDone)
  end.

Definition step_table (total : N) (t : table) (o : op) : table := fst (step total t o).

(* the table after a history, starting from a freshly initialised header (num_allocs = 0) *)
Definition run (total : N) (ops : list op) : table := fold_left (step_table total) ops [].
Definition run_from (total : N) (t : table) (ops : list op) : table := fold_left (step_table total) ops t.

(* trace: result and table after every operation *)
Fixpoint trace (total : N) (t : table) (ops : list op) : list (result * table) :=
  match ops with
  | [] => []
  | o :: r => let '(t', res) := step total t o in (res, t') :: trace total t' r
  end.

(* ---- the write path ---- *)
(* memory: address -> byte.  A chunk is what one `write(data)` call carries: its length and content. *)
Definition mem := N -> N.
Record chunk := mk_chunk { c_len : N; c_byte : N -> N }.

Definition store (m : mem) (pos : N) (c : chunk) : mem :=
  fun a => if (pos <=? a) && (a <? pos + c_len c) then c_byte c (a - pos) else m a.

(* _ShmSink: cursor, first byte after the allocation, overflow flag, the memory it writes to *)
Record sink := mk_sink { s_pos : N; s_limit : N; s_over : bool; s_mem : mem }.

(* _ShmSink.write: a chunk that would end after the limit is not written and marks the sink
   overflowed; once overflowed nothing more is written *)
Definition sink_write (s : sink) (c : chunk) : sink :=
  if sink_guard (s_over s) (s_pos s) (c_len c) (s_limit s) then mk_sink (s_pos s) (s_limit s) true (s_mem s)
  else mk_sink (s_pos s + c_len c) (s_limit s) false (store (s_mem s) (s_pos s) c).

(* ShmSegment.allocate_and_write, direct path: `estimated` is the size asked from the allocator,
   `chunks` the write calls Arrow's stream writer makes (schema message, batch message, EOS, ...).
   Result: table, memory, and Some (offset, bytes_written) or None (inline fallback). *)
Definition allocate_and_write (total : N) (t : table) (m : mem) (estimated : N) (chunks : list chunk)
  : table * mem * option (N * N) :=
  match allocate total t estimated with
  | None => (t, m, None)
  | Some (t1, off) =>
      let s := fold_left sink_write chunks (mk_sink off (sink_limit off estimated) false m) in
      if s_over s then
        (match free t1 off with Some t2 => t2 | None => t1 end, s_mem s, None)
      else (t1, s_mem s, Some (off, bytes_written (s_pos s) off))
  end.

(* dictionary path: the batch is serialised first, exactly `size = c_len c` bytes are allocated and copied *)
Definition allocate_and_copy (total : N) (t : table) (m : mem) (c : chunk) : table * mem * option (N * N) :=
  match allocate total t (c_len c) with
  | None => (t, m, None)
  | Some (t1, off) => (t1, store m off c, Some (off, c_len c))
  end.

(* ---- specification vocabulary ---- *)
(* [x, x+size) lies in the data region and meets no entry of t *)
Definition fits (total : N) (t : table) (x size : N) : Prop :=
  HEADER_SIZE <= x /\ x + size <= total /\
  forall o l, In (o, l) t -> x + size <= o \/ o + l <= x.

Definition disjoint (a b : N * N) : Prop := fst a + snd a <= fst b \/ fst b + snd b <= fst a.
Definition in_region (e : N * N) (a : N) : Prop := fst e <= a < fst e + snd e.

(* ---- correspondence entry points ---- *)
Definition zero_chunk (n : N) : chunk := mk_chunk n (fun _ => 0).

Definition result_code (r : result) : N * N :=
  match r with RAlloc o => (0, o) | RNone => (1, 0) | RError => (2, 0) | RDone => (3, 0) end.

(* history from an empty table: (total, ops) -> per-operation (result code, table) *)
Definition run_case (x : N * list op) : list ((N * N) * table) :=
  let '(total, ops) := x in map (fun p => (result_code (fst p), snd p)) (trace total [] ops).

(* one operation on a given table: (total, table, op) -> (result code, table) *)
Definition run_step (x : N * table * op) : (N * N) * table :=
  let '(total, t, o) := x in let '(t', r) := step total t o in (result_code r, t').

(* long histories from a given table: results of every operation and the final table only *)
Definition run_final (x : N * table * list op) : list (N * N) * table :=
  let '(total, t0, ops) := x in
  let tr := trace total t0 ops in
  (map (fun p => result_code (fst p)) tr, last (map snd tr) t0).

(* a direct write: (total, table, estimated, chunk lengths) -> (table, result) *)
Definition run_write (x : N * table * N * list N) : table * option (N * N) :=
  let '(total, t, est, lens) := x in
  let '(t', _, r) := allocate_and_write total t (fun _ => 0) est (map zero_chunk lens) in (t', r).

(* a dictionary-path write: (total, table, serialised size) -> (table, result) *)
Definition run_copy (x : N * table * N) : table * option (N * N) :=
  let '(total, t, size) := x in
  let '(t', _, r) := allocate_and_copy total t (fun _ => 0) (zero_chunk size) in (t', r).

(* the sink alone: (start, limit, chunk lengths) -> (cursor, overflowed) *)
Definition run_sink (x : N * N * list N) : N * bool :=
  let '(start, limit, lens) := x in
  let s := fold_left sink_write (map zero_chunk lens) (mk_sink start limit false (fun _ => 0)) in
  (s_pos s, s_over s).
