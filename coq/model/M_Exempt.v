(* Model of "authentication precedes dispatch" in the HTTP server:
     vgi_rpc/http/server/_middleware.py   _AuthMiddleware.process_request (the `exempt` expression and the
                                          `if self._authenticate is None or exempt: ... return` gate before the callback)
     vgi_rpc/http/server/_factory.py      make_wsgi_app: the exempt lists handed to _AuthMiddleware and the ordered,
                                          guarded `middleware` list
     falcon.App.__call__                  process_request of every middleware in list order; the first one that raises
                                          (or completes the response) ends the request phase; the responder runs only
                                          when none did
   Strings are lists of code points (N).  Executable definitions only; proofs are in proof/L_Exempt.v.
   The two terms `exempt_pexp` and `middleware_list` are what the source is expected to say today;
   tie/T_Exempt.v proves the terms regenerated from the source (gen/G_Exempt.v, gen/G_ExemptMw.v) equal to them. *)
From Coq Require Import List NArith Bool.
Import ListNotations.
Open Scope N_scope.

(* ---- configuration atoms: the conditions of make_wsgi_app that guard list entries ---- *)
Inductive atom :=
| AAuth          (* authenticate is not None *)
| AOauthMeta     (* _validated_oauth_metadata is not None *)
| AClientId      (* _validated_oauth_metadata.client_id is not None *)
| AHealth        (* enable_health_endpoint *)
| ASticky        (* enable_sticky *)
| AMaxReq        (* max_request_bytes is not None *)
| ADecodable     (* decodable *)
| ACodecLevels   (* codec_levels *)
| AOtel          (* otel_config is not None *)
| ACors          (* cors_origins is not None *)
| ACorsMaxAge    (* cors_max_age is not None *)
| ACorsPolicy    (* cors_resource_policy is not None *)
| ACapHeaders.   (* capability_headers *)

Inductive guard :=
| GTrue
| GAtom (a : atom)
| GAnd (a b : guard)
| GOr (a b : guard)
| GNot (g : guard).

Definition env := atom -> bool.

Fixpoint geval (e : env) (g : guard) : bool :=
  match g with
  | GTrue => true
  | GAtom a => e a
  | GAnd a b => geval e a && geval e b
  | GOr a b => geval e a || geval e b
  | GNot a => negb (geval e a)
  end.

(* ---- string expressions built in the factory: f"{prefix}/health" = SCat SPrefix (SLit "/health") ---- *)
Inductive sexp :=
| SLit (s : list N)
| SPrefix
| SCat (a b : sexp).

Fixpoint seval (prefix : list N) (x : sexp) : list N :=
  match x with
  | SLit s => s
  | SPrefix => prefix
  | SCat a b => seval prefix a ++ seval prefix b
  end.

(* ---- the exemption predicate over (method, path) ---- *)
Inductive cmp :=
| KEq              (* path == s   /  path in (s, ...) *)
| KStartsWith      (* path.startswith(s) *)
| KStartsWithSeg.  (* path == s or path.startswith(s + "/") *)

Inductive pexp :=
| PMethodIs (m : list N)                       (* req.method == m *)
| PPath (k : cmp) (x : sexp)                   (* test of req.path against one string *)
| PAny (k : cmp) (l : list (guard * sexp))     (* test against any entry of a list built in the factory *)
| POr (a b : pexp)
| PFalse.

Fixpoint str_eqb (a b : list N) : bool :=
  match a, b with
  | [], [] => true
  | x :: r, y :: s => (x =? y) && str_eqb r s
  | _, _ => false
  end.

(* starts_with pre s  =  s.startswith(pre) *)
Fixpoint starts_with (pre s : list N) : bool :=
  match pre, s with
  | [], _ => true
  | x :: r, y :: t => (x =? y) && starts_with r t
  | _ :: _, [] => false
  end.

Definition cmp_eval (k : cmp) (path s : list N) : bool :=
  match k with
  | KEq => str_eqb path s
  | KStartsWith => starts_with s path
  | KStartsWithSeg => str_eqb path s || starts_with (s ++ [47]) path
  end.

Fixpoint any_entry (e : env) (prefix : list N) (k : cmp) (path : list N) (l : list (guard * sexp)) : bool :=
  match l with
  | [] => false
  | (g, x) :: r => (geval e g && cmp_eval k path (seval prefix x)) || any_entry e prefix k path r
  end.

Fixpoint peval (e : env) (prefix meth path : list N) (p : pexp) : bool :=
  match p with
  | PMethodIs m => str_eqb meth m
  | PPath k x => cmp_eval k path (seval prefix x)
  | PAny k l => any_entry e prefix k path l
  | POr a b => peval e prefix meth path a || peval e prefix meth path b
  | PFalse => false
  end.

(* string constants *)
Definition s_OPTIONS : list N := [79; 80; 84; 73; 79; 78; 83].                                  (* "OPTIONS" *)
Definition s_well_known : list N := [47; 46; 119; 101; 108; 108; 45; 107; 110; 111; 119; 110]. (* "/.well-known" *)
Definition s_health : list N := [47; 104; 101; 97; 108; 116; 104].                              (* "/health" *)
Definition s_oauth : list N := [47; 95; 111; 97; 117; 116; 104].                                (* "/_oauth" *)
Definition slash : list N := [47].

(* PKCE browser flow is active: authenticate and OAuth metadata with a client_id *)
Definition pkce_guard : guard := GAnd (GAtom AAuth) (GAnd (GAtom AOauthMeta) (GAtom AClientId)).

(* the `exempt` expression of _AuthMiddleware.process_request with the factory's lists substituted *)
Definition exempt_pexp : pexp :=
  POr (PMethodIs s_OPTIONS)
  (POr (PPath KStartsWith (SLit (s_well_known ++ slash)))
  (POr (PAny KEq [(GAtom AHealth, SCat SPrefix (SLit s_health))])
       (PAny KStartsWith [(pkce_guard, SCat SPrefix (SLit (s_oauth ++ slash)))]))).

Definition exempt_with (p : pexp) (e : env) (prefix meth path : list N) : bool := peval e prefix meth path p.
Definition exempt := exempt_with exempt_pexp.

(* ---- middleware list ---- *)
Inductive mw :=
| MwAccessLogEgress | MwTransportNotify | MwDrain | MwRequestId | MwAccessLogCtx
| MwServerIdEnv | MwMaxBytes | MwCompression | MwOtel | MwCors | MwCorsExtras
| MwAuth | MwSticky | MwPkce | MwCapabilities.

Definition middleware_list : list (guard * mw) :=
  [ (GTrue, MwAccessLogEgress); (GTrue, MwTransportNotify); (GTrue, MwDrain); (GTrue, MwRequestId);
    (GTrue, MwAccessLogCtx);
    (GAtom ASticky, MwServerIdEnv);
    (GAtom AMaxReq, MwMaxBytes);
    (GOr (GAtom ADecodable) (GAtom ACodecLevels), MwCompression);
    (GAtom AOtel, MwOtel);
    (GAtom ACors, MwCors);
    (GAnd (GAtom ACors) (GOr (GAtom ACorsMaxAge) (GAtom ACorsPolicy)), MwCorsExtras);
    (GTrue, MwAuth);
    (GAtom ASticky, MwSticky);
    (GAnd (GAtom AAuth) pkce_guard, MwPkce);
    (GAtom ACapHeaders, MwCapabilities) ].

(* middlewares whose request hook acts on the authenticated principal / session state: they must
   never see a request the callback rejected *)
Definition must_follow_auth (m : mw) : bool :=
  match m with MwSticky | MwPkce => true | _ => false end.

Definition mw_eqb (a b : mw) : bool :=
  match a, b with
  | MwAccessLogEgress, MwAccessLogEgress | MwTransportNotify, MwTransportNotify | MwDrain, MwDrain
  | MwRequestId, MwRequestId | MwAccessLogCtx, MwAccessLogCtx | MwServerIdEnv, MwServerIdEnv
  | MwMaxBytes, MwMaxBytes | MwCompression, MwCompression | MwOtel, MwOtel | MwCors, MwCors
  | MwCorsExtras, MwCorsExtras | MwAuth, MwAuth | MwSticky, MwSticky | MwPkce, MwPkce
  | MwCapabilities, MwCapabilities => true
  | _, _ => false
  end.

Definition enabled (e : env) (l : list (guard * mw)) : list mw :=
  map snd (filter (fun gm => geval e (fst gm)) l).

(* ---- the request phase of falcon.App.__call__ ---- *)
Inductive event :=
| EvRequest (m : mw)   (* process_request of m returned normally *)
| EvStop (m : mw)      (* process_request of m raised / completed the response *)
| EvAuthCall           (* the authenticate callback was invoked *)
| EvReject             (* ... and raised: HTTP 401 *)
| EvDispatch.          (* routing + responder: the only place service code is reached *)

Record facts := { f_configured : bool; f_exempt : bool; f_accepts : bool }.

(* stops m = some other middleware's request hook ends the request (413, bad encoding, redirect, ...) *)
Fixpoint run_mw (stops : mw -> bool) (f : facts) (l : list mw) : list event :=
  match l with
  | [] => [EvDispatch]
  | MwAuth :: r =>
      if negb (f_configured f) || f_exempt f then EvRequest MwAuth :: run_mw stops f r
      else if f_accepts f then EvAuthCall :: EvRequest MwAuth :: run_mw stops f r
      else [EvAuthCall; EvReject]
  | m :: r => if stops m then [EvStop m] else EvRequest m :: run_mw stops f r
  end.

Definition handle_with (p : pexp) (ml : list (guard * mw)) (e : env) (stops : mw -> bool) (accepts : bool)
           (prefix meth path : list N) : list event :=
  run_mw stops {| f_configured := e AAuth; f_exempt := exempt_with p e prefix meth path; f_accepts := accepts |}
         (enabled e ml).
Definition handle := handle_with exempt_pexp middleware_list.

Definition is_dispatch (ev : event) : bool := match ev with EvDispatch => true | _ => false end.
Definition is_auth_call (ev : event) : bool := match ev with EvAuthCall => true | _ => false end.
Definition is_reject (ev : event) : bool := match ev with EvReject => true | _ => false end.
Definition is_follow_request (ev : event) : bool :=
  match ev with EvRequest m => must_follow_auth m | _ => false end.

(* static check of a middleware list: an unconditional _AuthMiddleware, nothing that must follow it before it *)
Fixpoint order_ok (l : list (guard * mw)) : bool :=
  match l with
  | [] => false
  | (g, MwAuth) :: _ => match g with GTrue => true | _ => false end
  | (_, m) :: r => negb (must_follow_auth m) && order_ok r
  end.

(* ---- correspondence entry point ----
   input : ((auth, oauth_meta, client_id, health, sticky), prefix, method, path); the authenticator rejects everything
   output: (the callback was asked, the request was refused with 401, the request reached routing) *)
Definition env_of (c : bool * bool * bool * bool * bool) : env :=
  let '(au, om, ci, he, st) := c in
  fun a => match a with
           | AAuth => au | AOauthMeta => om | AClientId => ci | AHealth => he | ASticky => st
           | AMaxReq => false | ADecodable => true | ACodecLevels => true | AOtel => false
           | ACors => false | ACorsMaxAge => true | ACorsPolicy => true | ACapHeaders => true
           end.

Definition run_case (x : (bool * bool * bool * bool * bool) * list N * list N * list N) : bool * bool * bool :=
  let '(c, prefix, meth, path) := x in
  let tr := handle (env_of c) (fun _ => false) false prefix meth path in
  (existsb is_auth_call tr, existsb is_reject tr, existsb is_dispatch tr).

(* ---- specification side ---- *)
(* path lies strictly below directory d: d, a slash, then anything (segment boundary) *)
Definition under_dir (d path : list N) : Prop := exists rest, path = d ++ 47 :: rest.
Definition pkce_on (e : env) : bool := e AAuth && (e AOauthMeta && e AClientId).
(* the four classes of requests the property allows to bypass the callback *)
Definition allowed (e : env) (prefix meth path : list N) : Prop :=
  meth = s_OPTIONS \/
  under_dir s_well_known path \/
  (e AHealth = true /\ path = prefix ++ s_health) \/
  (pkce_on e = true /\ under_dir (prefix ++ s_oauth) path).

(* ---- the authenticator _AuthMiddleware is given ----
   make_wsgi_app hands _AuthMiddleware the operator callback itself, or -- while the PKCE browser flow is active --
   chain_authenticate(callback, make_cookie_authenticate(callback)):
     * chain_authenticate: members in order; the first that returns wins; ValueError moves on to the next member;
       any other exception (PermissionError) propagates at once;
     * cookie member: no / empty `_vgi_auth` cookie -> AuthFailure (a ValueError); otherwise the callback is asked about
       the same request with Authorization replaced by "Bearer <cookie>".
   The composed verdict is a pure function of what the callback answers NOW about THIS request. *)
Inductive verdict := VAccept | VRejectValue | VRejectPerm.
(* the operator callback: the Authorization value it sees, and everything else about the request / the moment *)
Definition callback (R : Type) := option (list N) -> R -> verdict.
Record creds := { c_header : option (list N); c_cookie : option (list N) }.
Definition s_bearer : list N := [66; 101; 97; 114; 101; 114; 32].   (* "Bearer " *)

Definition is_accept (v : verdict) : bool := match v with VAccept => true | _ => false end.

(* members of the chain handed to _AuthMiddleware *)
Inductive member :=
| MCallback                    (* the operator callback asked about the request as it is *)
| MCookie (bearer : list N).   (* make_cookie_authenticate(callback): asks with Authorization := bearer ++ cookie *)

(* the Authorization value of a member's question; None = the member raises ValueError without asking *)
Definition member_presentation (m : member) (c : creds) : option (option (list N)) :=
  match m with
  | MCallback => Some (c_header c)
  | MCookie b => match c_cookie c with
                 | Some (x :: t) => Some (Some (b ++ x :: t))
                 | _ => None
                 end
  end.

(* chain_authenticate: the callback invocations made for one request, in order, with their verdicts *)
Fixpoint chain_calls {R : Type} (cb : callback R) (c : creds) (rest : R) (ms : list member)
  : list (option (list N) * verdict) :=
  match ms with
  | [] => []
  | m :: r =>
      match member_presentation m c with
      | None => chain_calls cb c rest r
      | Some a => let v := cb a rest in
                  (a, v) :: match v with VRejectValue => chain_calls cb c rest r | _ => [] end
      end
  end.

Definition authenticator_members (pkce : bool) : list member :=
  if pkce then [MCallback; MCookie s_bearer] else [MCallback].

Definition auth_calls {R : Type} (pkce : bool) (cb : callback R) (c : creds) (rest : R) : list (option (list N) * verdict) :=
  chain_calls cb c rest (authenticator_members pkce).

Definition composed_accepts {R : Type} (pkce : bool) (cb : callback R) (c : creds) (rest : R) : bool :=
  existsb (fun p => is_accept (snd p)) (auth_calls pkce cb c rest).

(* one request against the app: the operator callback as it answers at that moment, the credentials, the rest *)
Definition handle_cb {R : Type} (e : env) (stops : mw -> bool) (cb : callback R) (c : creds) (rest : R)
           (prefix meth path : list N) : list event :=
  handle e stops (composed_accepts (pkce_on e) cb c rest) prefix meth path.

(* ---- correspondence entry point for request histories ----
   The harness callback: accepts iff it sees "Bearer GOOD", the token is live now and (if needed) the proxy header is there;
   rejects with PermissionError when perm, else ValueError.
   input : (flags, prefix, method, path, (live, need, perm, edge), (header kind, cookie kind)), kinds: 0 none 1 good 2 bad 3 empty
   output: (number of callback invocations, refused with 401, reached routing) *)
Definition s_good : list N := [99; 50; 48; 45; 103; 111; 111; 100; 45; 116; 111; 107; 101; 110].   (* "c20-good-token" *)
Definition s_bad : list N := [99; 50; 48; 45; 98; 97; 100; 45; 116; 111; 107; 101; 110].          (* "c20-bad-token" *)
Definition tok_of (k : N) : option (list N) :=
  match k with 1 => Some s_good | 2 => Some s_bad | 3 => Some [] | _ => None end.
Definition harness_cb (live need perm : bool) : callback bool :=
  fun a edge =>
    if match a with Some x => str_eqb x (s_bearer ++ s_good) | None => false end && live && (negb need || edge)
    then VAccept else if perm then VRejectPerm else VRejectValue.

Definition run_step (x : (bool * bool * bool * bool * bool) * list N * list N * list N * (bool * bool * bool * bool) * (N * N))
  : N * bool * bool :=
  let '(c, prefix, meth, path, st, (hk, ck)) := x in
  let '(live, need, perm, edge) := st in
  let e := env_of c in
  let cr := {| c_header := match tok_of hk with Some t => Some (s_bearer ++ t) | None => None end; c_cookie := tok_of ck |} in
  let cb := harness_cb live need perm in
  let tr := handle_cb e (fun _ => false) cb cr edge prefix meth path in
  ((if existsb is_auth_call tr then N.of_nat (length (auth_calls (pkce_on e) cb cr edge)) else 0),
   existsb is_reject tr, existsb is_dispatch tr).
