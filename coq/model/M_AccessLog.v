(* M_AccessLog: executable model of access-log emission (definitions only, no proofs).

   Anchors in /repo:
     vgi_rpc/rpc/_server.py            _truncate_error_message, _emit_access_log, serve_one, _serve_unary, _serve_stream
     vgi_rpc/http/server/_app_unary.py _run_unary_sync
     vgi_rpc/http/server/_app_stream.py _dispatch_telemetry, _run_stream_init_sync, _run_http_producer_init,
                                        _run_http_exchange_init, _run_stream_exchange_sync, _run_http_exchange_turn,
                                        _exchange_error_response, _run_http_producer_turn
     vgi_rpc/http/server/_middleware.py _AccessLogEgressMiddleware (deferred emission, response_bytes)
     vgi_rpc/logging_utils.py          VgiJsonFormatter._build_payload, VgiAccessLogFormatter.format
     vgi_rpc/access_log.schema.json    (regenerated into gen/G_AccessLog.v as a [schema] value)

   Level of abstraction.  A *request* is one dispatch as the server sees it: a unary call, __describe__,
   a whole stream call on the socket family (one record per call there), and on HTTP one POST: /init,
   one producer continuation or exchange turn, one cancel.  The service behaviour is an interpreter
   program of M_Wire (what each step does is [exec_step]); which steps ran inside a request is an input
   ([idx]).  The record is the JSON object that leaves VgiAccessLogFormatter: a key/value list.
   Values that come from outside the emission logic (server identity, timestamps, durations, the base64
   payload, ids drawn from uuid4) are inputs ([env]); the formatter's size decision is an input ([shed]).

   The source comes in two shapes per site; [shape] is regenerated from the source by
   translate/t_c34_emit.py, the theorems are about [fixed_shape], refuted/R_C34.v is about [old_shape]. *)
From Coq Require Import List NArith ZArith Bool String Ascii.
From VGI Require Import Corr Regex M_Wire.
Import ListNotations.
Open Scope N_scope.

(* ------------------------------------------------------------------ JSON values, records *)
(* JNum c : a non-integral JSON number, value c/100 (duration_ms is rounded to two decimals); JObj : some object *)
Inductive jval := JStr (v : str) | JInt (z : Z) | JNum (c : Z) | JBool (b : bool) | JObj.
Definition record := list (str * jval).

Fixpoint get (k : str) (r : record) : option jval :=
  match r with [] => None | (k', v) :: t => if str_eqb k k' then Some v else get k t end.
Definition has (k : str) (r : record) : bool := match get k r with Some _ => true | None => false end.
Fixpoint del (k : str) (r : record) : record :=
  match r with [] => [] | (k', v) :: t => if str_eqb k k' then del k t else (k', v) :: del k t end.
(* Python dict assignment: replace in place, else append *)
Fixpoint set (k : str) (v : jval) (r : record) : record :=
  match r with
  | [] => [(k, v)]
  | (k', v') :: t => if str_eqb k k' then (k, v) :: t else (k', v') :: set k v t
  end.
Definition keys (r : record) : list str := map fst r.
Definition mem (k : str) (l : list str) : bool := existsb (str_eqb k) l.

(* ------------------------------------------------------------------ the JSON-Schema fragment of access_log.schema.json *)
Inductive ty := TString | TInteger | TNumber | TBoolean | TObject.
Inductive lit := LStr (v : str) | LBool (b : bool).
Inductive cons :=
| CType (t : ty) | CConst (l : lit) | CEnum (ls : list lit) | COneOf (ls : list lit)
| CMinLen (n : nat) | CPattern (r : re)
| CMin (z : Z) | CMax (z : Z) | CExclMin (z : Z).
(* "if": properties.k.const = l for the listed k (every one also listed in required), required, not.required *)
Record cond := { if_const : list (str * lit); if_required : list str; if_not_required : list str }.
Inductive rule :=
| RIf (c : cond) (req : list str) (props : list (str * list cons))
| RAllOrNone (fs : list str).
Record schema := { s_required : list str; s_props : list (str * list cons); s_rules : list rule }.

Definition lit_eqb (l : lit) (v : jval) : bool :=
  match l, v with
  | LStr a, JStr b => str_eqb a b
  | LBool a, JBool b => Bool.eqb a b
  | _, _ => false
  end.
Definition has_type (t : ty) (v : jval) : bool :=
  match t, v with
  | TString, JStr _ | TInteger, JInt _ | TNumber, JInt _ | TNumber, JNum _ | TBoolean, JBool _ | TObject, JObj => true
  | _, _ => false
  end.
Definition count_true (l : list bool) : nat := List.length (filter (fun b => b) l).
(* validation keywords only constrain values of their own type (JSON Schema): minLength / pattern pass on
   non-strings, minimum / maximum on non-numbers.  "pattern" is an unanchored search (python-jsonschema: re.search). *)
Definition check (v : jval) (c : cons) : bool :=
  match c with
  | CType t => has_type t v
  | CConst l => lit_eqb l v
  | CEnum ls => existsb (fun l => lit_eqb l v) ls
  | COneOf ls => Nat.eqb (count_true (map (fun l => lit_eqb l v) ls)) 1
  | CMinLen n => match v with JStr x => Nat.leb n (List.length x) | _ => true end
  | CPattern r => match v with JStr x => py_search E0 r x | _ => true end
  | CMin z => match v with JInt i => Z.leb z i | JNum c => Z.leb (100 * z) c | _ => true end
  | CMax z => match v with JInt i => Z.leb i z | JNum c => Z.leb c (100 * z) | _ => true end
  | CExclMin z => match v with JInt i => Z.ltb z i | JNum c => Z.ltb (100 * z) c | _ => true end
  end.
Fixpoint lookup {A : Type} (k : str) (l : list (str * A)) : option A :=
  match l with [] => None | (k', v) :: t => if str_eqb k k' then Some v else lookup k t end.
Definition field_ok (props : list (str * list cons)) (kv : str * jval) : bool :=
  match lookup (fst kv) props with Some cs => forallb (check (snd kv)) cs | None => true end.
Definition cond_holds (c : cond) (r : record) : bool :=
  forallb (fun k => has k r) (if_required c)
  && forallb (fun kl => match get (fst kl) r with Some v => lit_eqb (snd kl) v | None => true end) (if_const c)
  && (match if_not_required c with [] => true | ks => negb (forallb (fun k => has k r) ks) end).
Definition rule_ok (r : record) (ru : rule) : bool :=
  match ru with
  | RIf c req props =>
      if cond_holds c r then forallb (fun k => has k r) req && forallb (field_ok props) r else true
  | RAllOrNone fs => forallb (fun k => has k r) fs || negb (existsb (fun k => has k r) fs)
  end.
Definition validate (S : schema) (r : record) : bool :=
  forallb (fun k => has k r) (s_required S) && forallb (field_ok (s_props S)) r && forallb (rule_ok r) (s_rules S).

(* ------------------------------------------------------------------ source shape (regenerated) *)
(* msg_limit         : the cap _truncate_error_message applies on the HTTP paths (None = no cap)
   error_msg_always  : _emit_access_log writes error_message on every status=error record (non-empty fallback)
   sentinel_sid      : the formatter's sentinel form keeps stream_id
   escape_marked     : _dispatch_telemetry records an exception that leaves the shell unrecorded as an error *)
Record shape := { msg_limit : option nat; error_msg_always : bool; sentinel_sid : bool; escape_marked : bool }.
Definition fixed_shape : shape := {| msg_limit := None; error_msg_always := true; sentinel_sid := true; escape_marked := true |}.
Definition old_shape : shape := {| msg_limit := Some 500%nat; error_msg_always := false; sentinel_sid := false; escape_marked := false |}.

(* ------------------------------------------------------------------ environment: values the emission logic only passes through *)
Record env := {
  server_id : str; protocol : str; protocol_hash : str; principal : str; auth_domain : str; authenticated : bool;
  remote_addr : str; timestamp : str;
  duration : Z;                 (* round(duration_ms, 2) * 100 *)
  server_version : str;         (* "" = not configured *)
  request_id : str;             (* "" = none *)
  request_b64 : str;            (* base64 of the captured request bytes (only looked at when a request was captured) *)
  st_ib : Z; st_ob : Z; st_ir : Z; st_or : Z; st_iy : Z; st_oy : Z   (* the six call-statistics counters *)
}.

Inductive transport := Sock | Http.
Record cfg := { tr : transport; debug : bool (* vgi_rpc.access at DEBUG *); shp : shape }.

(* ------------------------------------------------------------------ _emit_access_log *)
Record emission := {
  e_method : str; e_stream : bool; e_error : bool; e_etype : str; e_emsg : str; e_http : option Z;
  e_cancelled : bool; e_captured : bool (* _current_request_batch is set *); e_sid : str; e_stats : bool
}.
Definition opt_field (k : str) (v : str) : record := match v with [] => [] | _ => [(k, JStr v)] end.
Definition status_str (b : bool) : str := if b then s "error" else s "ok".
Definition mtype_str (b : bool) : str := if b then s "stream" else s "unary".

(* str(error_type) is never empty for a Python class name; the fallback chain is  message or type or "error" *)
Definition message_field (sh : shape) (e : emission) : record :=
  if error_msg_always sh then
    if e_error e then [(s "error_message", JStr (match e_emsg e with [] => (match e_etype e with [] => s "error" | t => t end) | m => m end))]
    else opt_field (s "error_message") (e_emsg e)
  else opt_field (s "error_message") (e_emsg e).

Definition stats_fields (E : env) : record :=
  [ (s "input_batches", JInt (st_ib E)); (s "output_batches", JInt (st_ob E)); (s "input_rows", JInt (st_ir E));
    (s "output_rows", JInt (st_or E)); (s "input_bytes", JInt (st_iy E)); (s "output_bytes", JInt (st_oy E)) ].

(* The record is a JSON object: the order of its members is not observable.  [core] is what
   VgiJsonFormatter._build_payload puts in front plus the always-present keys of the "extra" dict; the optional
   groups follow, those no schema rule looks at ([tail_of]) are listed first.  Not modelled: claims (C35) and
   further pass-through fields (trace ids, byte accounting, state tokens, sticky session); L_AccessLog.validate_inert
   shows that fields of that kind do not change validity. *)
(* optional fields none of the schema's rules looks at *)
Definition tail_of (E : env) (e : emission) : record :=
  (if e_cancelled e then [(s "cancelled", JBool true)] else [])
  ++ opt_field (s "server_version") (server_version E)
  ++ opt_field (s "request_id") (request_id E)
  ++ (match e_http e with Some h => [(s "http_status", JInt h)] | None => [] end).

Definition core (E : env) (e : emission) : record :=
  [ (s "timestamp", JStr (timestamp E)); (s "level", JStr (s "INFO")); (s "logger", JStr (s "vgi_rpc.access"));
    (s "message", JStr (protocol E ++ s "." ++ e_method e ++ s " " ++ status_str (e_error e)));
    (s "server_id", JStr (server_id E)); (s "protocol", JStr (protocol E)); (s "protocol_hash", JStr (protocol_hash E));
    (s "method", JStr (e_method e)); (s "method_type", JStr (mtype_str (e_stream e)));
    (s "principal", JStr (principal E)); (s "auth_domain", JStr (auth_domain E)); (s "authenticated", JBool (authenticated E));
    (s "remote_addr", JStr (remote_addr E)); (s "duration_ms", JNum (duration E));
    (s "status", JStr (status_str (e_error e))); (s "error_type", JStr (e_etype e)) ].

Definition body_of (c : cfg) (E : env) (e : emission) : record :=
  core E e
  ++ (if e_stats e then stats_fields E else [])
  ++ message_field (shp c) e
  ++ (if e_captured e then
        if debug c then [(s "request_data", JStr (request_b64 E))]
        else [(s "original_request_bytes", JInt (Z.of_nat (List.length (request_b64 E)))); (s "truncated", JStr (s "payload_omitted"))]
      else [])
  ++ opt_field (s "stream_id") (e_sid e).

Definition emit_record (c : cfg) (E : env) (e : emission) : record := tail_of E e ++ body_of c E e.

(* ------------------------------------------------------------------ VgiAccessLogFormatter.format *)
(* which form the size cap selected (the byte length of the JSON text is not modelled) *)
Inductive shed := ShedNone | ShedReq | ShedSentinel.      (* the claims step needs claims: not modelled *)

Definition shed_request (r : record) : record :=
  match get (s "request_data") r with
  | Some (JStr d) => set (s "truncated") (JBool true) (del (s "request_data") (set (s "original_request_bytes") (JInt (Z.of_nat (List.length d))) r))
  | _ => r
  end.
Definition getd (k : str) (d : jval) (r : record) : jval := match get k r with Some v => v | None => d end.
Definition sentinel (sh : shape) (r : record) : record :=
  [ (s "timestamp", getd (s "timestamp") (JStr []) r); (s "level", JStr (s "INFO")); (s "logger", JStr (s "vgi_rpc.access"));
    (s "message", JStr (s "record_too_large"));
    (s "server_id", getd (s "server_id") (JStr []) r); (s "protocol", getd (s "protocol") (JStr []) r);
    (s "protocol_hash", getd (s "protocol_hash") (JStr []) r); (s "method", getd (s "method") (JStr []) r);
    (s "method_type", getd (s "method_type") (JStr (s "unary")) r); (s "principal", getd (s "principal") (JStr []) r);
    (s "auth_domain", getd (s "auth_domain") (JStr []) r); (s "authenticated", getd (s "authenticated") (JBool false) r);
    (s "remote_addr", getd (s "remote_addr") (JStr []) r); (s "duration_ms", getd (s "duration_ms") (JInt 0) r);
    (s "status", getd (s "status") (JStr (s "ok")) r); (s "error_type", getd (s "error_type") (JStr []) r);
    (s "truncated", JStr (s "record_too_large")) ]
  ++ (match get (s "status") r with
      | Some (JStr st) =>
          if str_eqb st (s "error") then
            [(s "error_message", match get (s "error_message") r with
                                 | Some (JStr (c :: m)) => JStr (c :: m)
                                 | _ => JStr (s "record_too_large")
                                 end)]
          else []
      | _ => []
      end)
  ++ (if sentinel_sid sh then match get (s "stream_id") r with Some (JStr i) => [(s "stream_id", JStr i)] | _ => [] end else []).

Definition format (sh : shape) (f : shed) (r : record) : record :=
  match f with
  | ShedNone => r
  | ShedReq => shed_request r
  | ShedSentinel => sentinel sh r
  end.

(* ------------------------------------------------------------------ requests *)
Record exc := { xcls : str; xmsg : str }.        (* type(exc).__name__, str(exc) *)
Definition of_exn (e : exn) : exc := {| xcls := cls e; xmsg := emsg e |}.
(* what the dispatched work did.  WEscape: an exception left the dispatch shell without any handler having
   recorded it (implementation faults: a non-Stream result, a missing declared header, ...) *)
Inductive work := WOk | WRaise (e : exc) | WEscape (e : exc).

(* the outcome of running steps [idx] (in that order) of a program: the first failing step decides *)
Fixpoint run_steps (producer : bool) (sts : list step) (idx : list nat) : work :=
  match idx with
  | [] => WOk
  | i :: r => match exec_step producer (nth_error sts i) with SErr e => WRaise (of_exn e) | SFrames _ _ => run_steps producer sts r end
  end.

(* over : Some m = the successful response exceeds max_response_bytes (hard cap: unary, exchange) and the server
   replaces it by RuntimeError(m).  fault : the exception Python raises for an implementation fault of the init
   method (bad return value / missing declared header); only looked at for such programs. *)
Inductive request :=
| QUnary (u : unary_prog) (over : option str)
| QDescribe                                        (* pre-built __describe__ / __transport_options__ : framework answers *)
| QSockStream (producer hd : bool) (sp : stream_prog) (idx : list nat) (cancelled : bool)
| QInit (producer hd : bool) (sp : stream_prog) (idx : list nat) (fault : exc)
| QTurn (ref : nat) (producer hd : bool) (sp : stream_prog) (idx : list nat) (over : option str)
| QCancel (ref : nat) (producer hd : bool)
| QRefused.                                        (* answered before dispatch (4xx, unknown method, bad token) *)

Definition RuntimeErrorS := s "RuntimeError".
Definition header_missing (hd : bool) (sp : stream_prog) : bool := hd && match hdr sp with None => true | Some _ => false end.

(* the specification-level outcome of a request: None = the client gets its result, Some e = the client gets error e *)
Definition unary_work (u : unary_prog) (over : option str) (http : bool) : work :=
  match ures_of u with
  | URaise e => WRaise (of_exn e)
  | UOk _ => match over with Some m => if http then WRaise {| xcls := RuntimeErrorS; xmsg := m |} else WOk | None => WOk end
  end.
Definition init_work (producer hd : bool) (sp : stream_prog) (idx : list nat) (fault : exc) : work :=
  match ires sp with
  | InitRaise e => WRaise (of_exn e)
  | InitBadReturn => WEscape fault
  | InitOk =>
      if header_missing hd sp then (if producer then WEscape fault else WRaise fault)
      else if producer then run_steps true (steps sp) idx else WOk
  end.
Definition turn_work (producer : bool) (sp : stream_prog) (idx : list nat) (over : option str) : work :=
  match run_steps producer (steps sp) idx with
  | WOk => if producer then WOk else match over with Some m => WRaise {| xcls := RuntimeErrorS; xmsg := m |} | None => WOk end
  | w => w
  end.
Definition sock_stream_work (producer : bool) (sp : stream_prog) (idx : list nat) : work :=
  match ires sp with
  | InitRaise e => WRaise (of_exn e)
  | _ => run_steps producer (steps sp) idx
  end.

(* _truncate_error_message on the HTTP paths; the socket paths pass str(exc) *)
Definition http_msg (sh : shape) (m : str) : str := match msg_limit sh with Some n => firstn n m | None => m end.

Definition method_of (producer hd : bool) : str :=
  if producer then (if hd then s "producer_h" else s "producer") else (if hd then s "exchange_h" else s "exchange").

Definition mk (m : str) (stream : bool) (w : work) (msgf : str -> str) (http : option Z) (canc capt : bool) (sid : str) : emission :=
  match w with
  | WOk => {| e_method := m; e_stream := stream; e_error := false; e_etype := []; e_emsg := []; e_http := http;
              e_cancelled := canc; e_captured := capt; e_sid := sid; e_stats := true |}
  | WRaise x | WEscape x =>
            {| e_method := m; e_stream := stream; e_error := true; e_etype := xcls x; e_emsg := msgf (xmsg x); e_http := http;
               e_cancelled := canc; e_captured := capt; e_sid := sid; e_stats := true |}
  end.

(* an escape that _dispatch_telemetry does not record (old shape): the finally block logs the untouched outcome *)
Definition http_shell (sh : shape) (w : work) : work := match w with WEscape x => if escape_marked sh then WEscape x else WOk | _ => w end.
Definition http500 (w : work) : option Z := match w with WOk => Some 200%Z | _ => Some 500%Z end.
(* errors reported in-band by a producer turn / a hard-cap overshoot of an exchange keep outcome.http_status = 200 *)
Definition http_inband (w : work) : option Z := match w with WEscape _ => Some 500%Z | _ => Some 200%Z end.

(* the emissions of one request, given the stream id it runs under ([] = none) *)
Definition emissions (c : cfg) (q : request) (sid : str) : list emission :=
  match tr c, q with
  | _, QRefused => []
  | Sock, QUnary u over => [mk (s "unary") false (unary_work u over false) (fun m => m) None false true []]
  | Http, QUnary u over => let w := unary_work u over true in [mk (s "unary") false w (http_msg (shp c)) (http500 w) false true []]
  | Sock, QDescribe => [mk (s "__describe__") false WOk (fun m => m) None false true []]
  | Http, QDescribe => [mk (s "__describe__") false WOk (fun m => m) (Some 200%Z) false true []]
  | Sock, QSockStream producer hd sp idx canc =>
      [mk (method_of producer hd) true (sock_stream_work producer sp idx) (fun m => m) None
          (canc && match ires sp with InitRaise _ => false | _ => true end) true sid]
  | Http, QInit producer hd sp idx fault =>
      let w := http_shell (shp c) (init_work producer hd sp idx fault) in
      let inband := match ires sp with InitOk => producer && negb (header_missing hd sp) | _ => false end in
      [mk (method_of producer hd) true w (http_msg (shp c)) (if inband then http_inband w else http500 w) false true sid]
  | Http, QTurn _ producer hd sp idx over =>
      let w := turn_work producer sp idx over in
      let inband := producer || match run_steps producer (steps sp) idx with WOk => true | _ => false end in
      [mk (method_of producer hd) true w (http_msg (shp c)) (if inband then http_inband w else http500 w) false true sid]
  | Http, QCancel _ producer hd => [mk (method_of producer hd) true WOk (fun m => m) (Some 200%Z) true true sid]
  | _, _ => []                                      (* request kinds of the other transport *)
  end.

(* ------------------------------------------------------------------ histories: stream ids *)
(* fresh n = the n-th uuid4().hex drawn ; sids = per request, the stream id it minted (inits only) *)
Definition mints (c : cfg) (q : request) : bool :=
  match tr c, q with Sock, QSockStream _ _ _ _ _ | Http, QInit _ _ _ _ _ => true | _, _ => false end.
Definition ref_of (q : request) : option nat := match q with QTurn r _ _ _ _ _ | QCancel r _ _ => Some r | _ => None end.
Definition dangling : str := [].

Section History.
  Variable fresh : nat -> str.
  Variable c : cfg.

  (* (next fresh index, ids minted so far in request order) -> the id this request runs under *)
  Definition sid_of (n : nat) (sids : list (option str)) (q : request) : option str :=
    if mints c q then Some (fresh n)
    else match ref_of q with
         | Some r => match nth_error sids r with Some (Some i) => Some i | _ => None end
         | None => Some []
         end.

  (* a continuation whose token names no stream opened earlier cannot be formed (sealed tokens: C12/C13): refused *)
  Fixpoint run_from (n : nat) (sids : list (option str)) (h : list request) : list (list emission) :=
    match h with
    | [] => []
    | q :: r =>
        match sid_of n sids q with
        | Some i => emissions c q i :: run_from (if mints c q then S n else n) (sids ++ [if mints c q then Some i else None]) r
        | None => [] :: run_from n (sids ++ [None]) r
        end
    end.
  Definition run_history (h : list request) : list (list emission) := run_from 0 [] h.
End History.

(* ------------------------------------------------------------------ what the property talks about *)
Definition dispatched (c : cfg) (q : request) : bool :=
  match tr c, q with
  | _, QRefused => false
  | Sock, (QUnary _ _ | QDescribe | QSockStream _ _ _ _ _) => true
  | Http, (QUnary _ _ | QDescribe | QInit _ _ _ _ _ | QTurn _ _ _ _ _ _ | QCancel _ _ _) => true
  | _, _ => false
  end.
(* the outcome the client observes for the request: None = result / batches, Some x = error x *)
Definition outcome (c : cfg) (q : request) : option exc :=
  let of_work w := match w with WOk => None | WRaise x | WEscape x => Some x end in
  match tr c, q with
  | Sock, QUnary u over => of_work (unary_work u over false)
  | Http, QUnary u over => of_work (unary_work u over true)
  | Sock, QSockStream p _ sp idx _ => of_work (sock_stream_work p sp idx)
  | Http, QInit p hd sp idx fault => of_work (init_work p hd sp idx fault)
  | Http, QTurn _ p _ sp idx over => of_work (turn_work p sp idx over)
  | _, _ => None
  end.
(* implementation faults on the socket family end the serve loop (C04) and are outside this model *)
Definition sock_legal (q : request) : bool :=
  match q with
  | QSockStream _ hd sp _ _ => negb (header_missing hd sp) && match ires sp with InitBadReturn => false | _ => true end
  | _ => true
  end.

Definition rec_status (r : record) : option str := match get (s "status") r with Some (JStr v) => Some v | _ => None end.
Definition rec_str (k : str) (r : record) : option str := match get k r with Some (JStr v) => Some v | _ => None end.

(* ------------------------------------------------------------------ the schema the theorems are about *)
(* access_log.schema.json as read on 2026-09-22; tie/T_AccessLog.v proves the regenerated term equal to it *)
Definition model_schema : schema :=
  {| s_required := [(s "timestamp");
       (s "level");
       (s "logger");
       (s "message");
       (s "server_id");
       (s "protocol");
       (s "protocol_hash");
       (s "method");
       (s "method_type");
       (s "principal");
       (s "auth_domain");
       (s "authenticated");
       (s "remote_addr");
       (s "duration_ms");
       (s "status");
       (s "error_type")];
     s_props := [((s "timestamp"), [CType TString; CPattern (Cat (Bos) (Cat (rep_cls (CRange 48 57) 4 4) (Cat (Chr (CChar 45)) (Cat (rep_cls (CRange 48 57) 2 2) (Cat (Chr (CChar 45)) (Cat (rep_cls (CRange 48 57) 2 2) (Cat (Chr (CChar 84)) (Cat (rep_cls (CRange 48 57) 2 2) (Cat (Chr (CChar 58)) (Cat (rep_cls (CRange 48 57) 2 2) (Cat (Chr (CChar 58)) (Cat (rep_cls (CRange 48 57) 2 2) (Cat (Chr (CChar 46)) (Cat (rep_cls (CRange 48 57) 3 3) (Cat (Chr (CChar 90)) (Dollar))))))))))))))))]); ((s "level"), [CConst (LStr (s "INFO"))]); ((s "logger"), [CConst (LStr (s "vgi_rpc.access"))]); ((s "message"), [CType TString]); ((s "server_id"), [CType TString; CMinLen 1%nat]); ((s "protocol"), [CType TString; CMinLen 1%nat]); ((s "protocol_hash"), [CType TString; CPattern (Cat (Bos) (Cat (rep_cls (COr (CRange 48 57) (CRange 97 102)) 64 64) (Dollar)))]); ((s "method"), [CType TString; CMinLen 1%nat]); ((s "method_type"), [CEnum [LStr (s "unary"); LStr (s "stream")]]); ((s "principal"), [CType TString]); ((s "auth_domain"), [CType TString]); ((s "authenticated"), [CType TBoolean]); ((s "remote_addr"), [CType TString]); ((s "duration_ms"), [CType TNumber; CMin (0)%Z]); ((s "status"), [CEnum [LStr (s "ok"); LStr (s "error")]]); ((s "error_type"), [CType TString]); ((s "error_message"), [CType TString]); ((s "cancelled"), [CConst (LBool true)]); ((s "server_version"), [CType TString; CMinLen 1%nat]); ((s "request_id"), [CType TString; CMinLen 1%nat]); ((s "trace_id"), [CType TString; CPattern (Cat (Bos) (Cat (rep_cls (COr (CRange 48 57) (CRange 97 102)) 32 32) (Dollar)))]); ((s "span_id"), [CType TString; CPattern (Cat (Bos) (Cat (rep_cls (COr (CRange 48 57) (CRange 97 102)) 16 16) (Dollar)))]); ((s "http_status"), [CType TInteger; CMin (100)%Z; CMax (599)%Z]); ((s "request_data"), [CType TString; CPattern (Cat (Bos) (Cat (Cat (Chr (COr (CRange 65 90) (COr (CRange 97 122) (COr (CRange 48 57) (COr (CChar 43) (CChar 47)))))) (Star (Chr (COr (CRange 65 90) (COr (CRange 97 122) (COr (CRange 48 57) (COr (CChar 43) (CChar 47)))))))) (Cat (rep_cls (CChar 61) 0 2) (Dollar))))]); ((s "stream_id"), [CType TString; CPattern (Cat (Bos) (Cat (rep_cls (COr (CRange 48 57) (CRange 97 102)) 32 32) (Dollar)))]); ((s "claims"), [CType TObject]); ((s "request_state"), [CType TString; CPattern (Cat (Bos) (Cat (Cat (Chr (COr (CRange 65 90) (COr (CRange 97 122) (COr (CRange 48 57) (COr (CChar 43) (CChar 47)))))) (Star (Chr (COr (CRange 65 90) (COr (CRange 97 122) (COr (CRange 48 57) (COr (CChar 43) (CChar 47)))))))) (Cat (rep_cls (CChar 61) 0 2) (Dollar))))]); ((s "response_state"), [CType TString; CPattern (Cat (Bos) (Cat (Cat (Chr (COr (CRange 65 90) (COr (CRange 97 122) (COr (CRange 48 57) (COr (CChar 43) (CChar 47)))))) (Star (Chr (COr (CRange 65 90) (COr (CRange 97 122) (COr (CRange 48 57) (COr (CChar 43) (CChar 47)))))))) (Cat (rep_cls (CChar 61) 0 2) (Dollar))))]); ((s "input_batches"), [CType TInteger; CMin (0)%Z]); ((s "output_batches"), [CType TInteger; CMin (0)%Z]); ((s "input_rows"), [CType TInteger; CMin (0)%Z]); ((s "output_rows"), [CType TInteger; CMin (0)%Z]); ((s "input_bytes"), [CType TInteger; CMin (0)%Z]); ((s "output_bytes"), [CType TInteger; CMin (0)%Z]); ((s "request_bytes"), [CType TInteger; CMin (0)%Z]); ((s "response_bytes"), [CType TInteger; CMin (0)%Z]); ((s "externalized_bytes"), [CType TInteger; CMin (0)%Z]); ((s "truncated"), [COneOf [LBool true; LStr (s "record_too_large"); LStr (s "payload_omitted")]]); ((s "sample_rate"), [CType TNumber; CExclMin (0)%Z; CMax (1)%Z]); ((s "original_request_bytes"), [CType TInteger; CMin (0)%Z]); ((s "session_id"), [CType TString; CPattern (Cat (Bos) (Cat (rep_cls (COr (CRange 48 57) (CRange 97 102)) 24 24) (Dollar)))]); ((s "session_action"), [CEnum [LStr (s "none"); LStr (s "open"); LStr (s "resume"); LStr (s "close")]]); ((s "dropped_records"), [CType TInteger; CMin (1)%Z])];
     s_rules := [RIf {| if_const := [((s "status"), LStr (s "error"))]; if_required := [(s "status")]; if_not_required := [] |} [(s "error_message")] [((s "error_message"), [CMinLen 1%nat])];
       RIf {| if_const := [((s "status"), LStr (s "ok"))]; if_required := [(s "status")]; if_not_required := [] |} [] [((s "error_type"), [CConst (LStr (s ""))])];
       RIf {| if_const := [((s "method_type"), LStr (s "stream"))]; if_required := [(s "method_type")]; if_not_required := [] |} [(s "stream_id")] [];
       RIf {| if_const := [((s "method_type"), LStr (s "unary"))]; if_required := [(s "method_type")]; if_not_required := [(s "truncated")] |} [(s "request_data")] [];
       RAllOrNone [(s "input_batches");
       (s "output_batches");
       (s "input_rows");
       (s "output_rows");
       (s "input_bytes");
       (s "output_bytes")]] |}.

(* ------------------------------------------------------------------ VgiJsonFormatter.formatTime *)
(* dt = datetime.fromtimestamp(record.created, tz=UTC);  dt.strftime("%Y-%m-%dT%H:%M:%S.") + f"{dt.microsecond // 1000:03d}Z".
   [pre] = the 19 characters strftime yields before the dot (calendar arithmetic is the C library's: an input),
   [micro] = dt.microsecond.  floor = true is the source (//), floor = false the nearest-millisecond variant of R_C34. *)
Definition dig (n : N) : N := 48 + n.
(* f"{n:03d}" for n < 10000 *)
Definition pad3 (n : N) : str :=
  if n <? 1000 then [dig (n / 100); dig ((n / 10) mod 10); dig (n mod 10)]
  else [dig (n / 1000); dig ((n / 100) mod 10); dig ((n / 10) mod 10); dig (n mod 10)].
Definition millis (floor : bool) (micro : N) : N := if floor then micro / 1000 else (micro + 500) / 1000.
Definition render_ts_with (floor : bool) (pre : str) (micro : N) : str := pre ++ [46] ++ pad3 (millis floor micro) ++ [90].
Definition render_ts : str -> N -> str := render_ts_with true.
Definition ts_case (x : str * N) : str := render_ts (fst x) (snd x).

(* ------------------------------------------------------------------ correspondence entry point *)
(* per request: the projection of every record  (method_type, status, error_type, error_message, cancelled,
   http_status, truncated marker, has request_data, stream-id class) *)
Definition corr_env : env :=
  {| server_id := s "srv"; protocol := s "Interp"; protocol_hash := []; principal := []; auth_domain := []; authenticated := false;
     remote_addr := []; timestamp := []; duration := 0; server_version := []; request_id := s "r"; request_b64 := s "QUJD";
     st_ib := 0; st_ob := 0; st_ir := 0; st_or := 0; st_iy := 0; st_oy := 0 |}.
Definition trunc_code (r : record) : N :=
  match get (s "truncated") r with
  | None => 0 | Some (JBool true) => 1
  | Some (JStr v) => if str_eqb v (s "payload_omitted") then 2 else if str_eqb v (s "record_too_large") then 3 else 9
  | _ => 9
  end.
Definition proj_rec (r : record) : (str * bool * str * str * option str) * (bool * option Z * N * bool * option str) :=
  ((match rec_str (s "method") r with Some v => v | None => [] end,
    match rec_str (s "method_type") r with Some v => str_eqb v (s "stream") | None => false end,
    match rec_status r with Some v => v | None => [] end,
    match rec_str (s "error_type") r with Some v => v | None => [] end,
    rec_str (s "error_message") r),
   (has (s "cancelled") r, match get (s "http_status") r with Some (JInt z) => Some z | _ => None end,
    trunc_code r, has (s "request_data") r, rec_str (s "stream_id") r)).

(* stream ids by first occurrence *)
Fixpoint index_of (x : str) (l : list str) (i : nat) : option nat :=
  match l with [] => None | y :: r => if str_eqb x y then Some i else index_of x r (S i) end.
Definition corr_fresh (n : nat) : str := [N.of_nat n + 1].

Definition run_case (x : (bool * bool * shape) * list (request * shed)) :=
  let '(http, dbg, sh) := fst x in
  let c := {| tr := if http then Http else Sock; debug := dbg; shp := sh |} in
  let ems := run_history corr_fresh c (map fst (snd x)) in
  map (fun p => map (fun e => proj_rec (format sh (snd (snd p)) (emit_record c corr_env e))) (fst p))
      (combine ems (snd x)).
