(* Model of the protocol-version gate:
     vgi_rpc/metadata.py        parse_version (SEMVER_REGEX.match + int(group))
     vgi_rpc/rpc/_server.py     RpcServer._check_protocol_version, gate in serve_one
     vgi_rpc/http/server/_app_unary.py / _app_stream.py   the same gate before dispatch
   Executable definitions only; proofs are in proof/L_Version.v. *)
From Coq Require Import List NArith Bool.
From VGI Require Import Regex UnicodeTables Utf8.
Import ListNotations.
Open Scope N_scope.

(* interpretation of the abstract classes the regex translator may emit: 0 = \d (Unicode decimal) *)
Definition penv_py : penv := fun id c => match id with O => is_udigit c | _ => false end.

(* the regex as it is expected to be in the source today (tie/T_Version.v proves the generated one equal) *)
Definition digit19 : cls := CRange 49 57.
Definition digit09 : cls := CRange 48 57.
Definition num_re : re := Alt (Chr (CChar 48)) (Cat (Chr digit19) (Star (Chr digit09))).
Definition dot_re : re := Chr (CChar 46).
Definition semver_re : re :=
  Cat Bos (Cat num_re (Cat dot_re (Cat num_re (Cat dot_re (Cat num_re EndZ))))).

(* str.split(".")-like splitting on 46, used to recover the three groups of a string that matched *)
Fixpoint split_dot_aux (cur : list N) (s : list N) : list (list N) :=
  match s with
  | [] => [rev cur]
  | c :: r => if c =? 46 then rev cur :: split_dot_aux [] r else split_dot_aux (c :: cur) r
  end.
Definition split_dot (s : list N) : list (list N) := split_dot_aux [] s.

(* int() of a string of decimal digits (Unicode decimals accepted as Python's int does) *)
Fixpoint int_of_digits_acc (acc : N) (s : list N) : option N :=
  match s with
  | [] => Some acc
  | c :: r => match udigit_val c with
              | Some d => int_of_digits_acc (10 * acc + d) r
              | None => None
              end
  end.
Definition int_of_digits (s : list N) : option N :=
  match s with [] => None | _ => int_of_digits_acc 0 s end.

Definition parse_version_with (r : re) (s : list N) : option (N * N * N) :=
  if py_match penv_py r s then
    match split_dot s with
    | [p1; p2; p3] =>
        match int_of_digits p1, int_of_digits p2, int_of_digits p3 with
        | Some a, Some b, Some c => Some (a, b, c)
        | _, _, _ => None
        end
    | _ => None
    end
  else None.
Definition parse_version := parse_version_with semver_re.

Inductive verdict :=
| Dispatch
| RefNotDeclared          (* metadata key absent *)
| RefUndecodable          (* value is not UTF-8 *)
| RefMalformed (client : list N)                 (* decoded but not canonical semver *)
| RefClientOld (client : list N)                 (* (major,minor) of client < server: upgrade the client *)
| RefServerOld (client : list N).                (* otherwise different: upgrade the server *)

Definition lex_lt (a b : N * N) : bool :=
  (fst a <? fst b) || ((fst a =? fst b) && (snd a <? snd b)).

(* _check_protocol_version: srv = parsed server version (major, minor, patch) *)
Definition check_version_with (r : re) (srv : N * N * N) (md : option (list N)) : verdict :=
  match md with
  | None => RefNotDeclared
  | Some bytes =>
      match utf8_decode bytes with
      | None => RefUndecodable
      | Some s =>
          match parse_version_with r s with
          | None => RefMalformed s
          | Some (a, b, _) =>
              let '(sa, sb, _) := srv in
              if (a =? sa) && (b =? sb) then Dispatch
              else if lex_lt (a, b) (sa, sb) then RefClientOld s
              else RefServerOld s
          end
      end
  end.
Definition check_version := check_version_with semver_re.

(* the gate as placed in serve_one / _run_unary_sync / _run_stream_init_sync:
   declared = the Protocol class declares protocol_version; is_describe = method_name == "__describe__" *)
Definition gate (declared : option (N * N * N)) (is_describe : bool) (md : option (list N)) : verdict :=
  match declared with
  | None => Dispatch
  | Some srv => if is_describe then Dispatch else check_version srv md
  end.

(* ---- canonical numerals (specification side) ---- *)
Definition is_digit09 (c : N) : bool := (48 <=? c) && (c <=? 57).
Definition canon_num (s : list N) : Prop :=
  s = [48] \/ exists d r, s = d :: r /\ 49 <= d <= 57 /\ Forall (fun c => is_digit09 c = true) r.
Definition canon_numb (s : list N) : bool :=
  match s with
  | [] => false
  | [48] => true
  | d :: r => (49 <=? d) && (d <=? 57) && forallb is_digit09 r
  end.
Fixpoint value_acc (acc : N) (s : list N) : N :=
  match s with [] => acc | c :: r => value_acc (10 * acc + (c - 48)) r end.
Definition value (s : list N) : N := value_acc 0 s.
(* the canonical printer: N -> shortest decimal numeral *)
Fixpoint show_fuel (fuel : nat) (n : N) (acc : list N) : list N :=
  match fuel with
  | O => acc
  | S f => let acc' := (48 + n mod 10) :: acc in
           if n / 10 =? 0 then acc' else show_fuel f (n / 10) acc'
  end.
Definition show (n : N) : list N := show_fuel (S (N.to_nat (N.log2 n))) n [].
Definition canon_version (a b c : N) : list N := show a ++ [46] ++ show b ++ [46] ++ show c.

(* ---- correspondence entry point ---- *)
(* input: declared version, is_describe, metadata bytes; output code + echoed client string *)
Definition verdict_code (v : verdict) : N * list N :=
  match v with
  | Dispatch => (0, [])
  | RefNotDeclared => (1, [])
  | RefUndecodable => (2, [])
  | RefMalformed s => (3, s)
  | RefClientOld s => (4, s)
  | RefServerOld s => (5, s)
  end.
Definition run_case (x : option (N * N * N) * bool * option (list N)) : N * list N :=
  let '(d, is_desc, md) := x in verdict_code (gate d is_desc md).
